#!/venv/bin/python
"""Regenerate MANIFEST.json from the property modules under harness/props (one source of truth)."""
import importlib
import json
import os
import sys

VERIF = os.path.dirname(os.path.dirname(os.path.abspath(__file__)))
sys.dont_write_bytecode = True
sys.path.insert(0, os.path.join(VERIF, 'harness'))

ALL = ['C%02d' % i for i in range(1, 21)]
checks, na = [], []
for pid in ALL:
	path = os.path.join(VERIF, 'harness', 'props', pid.lower() + '.py')
	if not os.path.exists(path):
		na.append({'property_id': pid, 'reason': 'not claimed yet: the Lean model, theorems and correspondence for this property are not built (planned, DESIGN.md section 3); the technique itself applies'})
		continue
	mod = importlib.import_module('props.' + pid.lower())
	checks.append({
		'property_id': pid,
		'quick_cmd': '/venv/bin/python harness/vcheck.py %s --tier quick' % pid,
		'thorough_cmd': '/venv/bin/python harness/vcheck.py %s --tier thorough' % pid,
		'evidence_file': 'evidence/%s.json' % pid,
		'replay_cmd_template': '/venv/bin/python harness/vcheck.py %s --replay {path}' % pid,
		'engine': 'lean4-model+correspondence',
		'level_claimed': {
			'category': 'proof',
			'text': mod.LEVEL_TEXT,
			'design_ref': 'DESIGN.md section 3, %s' % pid,
		},
		'level_note': mod.LEVEL_NOTE,
		'technique': getattr(mod, 'TECHNIQUE', 'Lean 4 theorems about a hand-written executable model + regenerated tables (T1) + model/implementation correspondence via line protocol (T2)'),
	})
manifest = {
	'version': 1,
	'setup_cmd': '/venv/bin/python harness/extract.py && cd lean && lake build',
	'hooks': {
		'guard': 'HTTOOP_VERIF',
		'enable': 'no hooks are needed: the checks import httoop from /repo (HTTOOP_REPO) in-process and observe public attributes only',
		'baseline_off_cmd': 'cd /repo && /venv/bin/python -m pytest -q -p no:cacheprovider --timeout=900 --continue-on-collection-errors',
		'source_commits': [],
		'add_only': True,
	},
	'engines': [{
		'name': 'lean4-model+correspondence',
		'path': 'lean/ (lake project Httoop, Driver.lean) + harness/vcheck.py',
		'serves_properties': [c['property_id'] for c in checks],
		'kind_free_text': 'machine-checked proof in Lean 4 about an executable model; model tied to /repo by T1 regeneration of tables and T2 differential correspondence; failing-input search on the real code',
	}],
	'checks': checks,
	'not_applicable': na,
	'notes': 'Every check rebuilds Gen/Tables.lean from the current /repo working tree, re-checks the theorems with lake, audits axioms, replays known findings (known_findings.json), runs the correspondence and the property oracle. Exit 2 = machinery failure (never a verdict).',
}
with open(os.path.join(VERIF, 'MANIFEST.json'), 'w') as f:
	json.dump(manifest, f, indent=1)
	f.write('\n')
print('claimed:', [c['property_id'] for c in checks])
