import random, socket, sys
sys.path.insert(0,'/verif/harness')
import core
rng=random.Random(int(sys.argv[1]) if len(sys.argv)>1 else 1)
cases=[b'::',b'::1',b'1::',b'1:2:3:4:5:6:7:8',b'1:2:3:4:5:6:7::',b'::1:2:3:4:5:6:7',b'1::8',b'::ffff:1.2.3.4',b'::1.2.3.4',b'1:2:3:4:5:6:1.2.3.4',b'::1.2.3',b':::',b'1:::2',b':1::',b'1::2:',b'12345::',b'g::',b'::0.0.0.1',b'::0.0.1.0',b'0:0:0:0:0:ffff:1.2.3.4',b'1:0:0:2:0:0:0:3',b'1:0:0:0:2:0:0:3',b'0:0:1:0:0:1:0:0',b'::1:2:3:4:5:6:7:8',b'1:2:3:4:5:6:7:8::',b'A:B::c',b'::01.2.3.4',b'1.2.3.4',b'fe80::1%eth0',b'',b':',b'0:0:0:0:0:0:0:0',b'0:0:0:0:0:0:0:1',b'::ffff:0:0',b'::fffe:1.2.3.4',b'0:0:0:0:0:0:1.2.3.4', b'1:2:3:4:5:6:7:1.2.3.4', b'::1.2.3.4:5', b'1.2.3.4::', b'1::1.2.3.4']
for _ in range(30000):
    cases.append(bytes(rng.choice(b'0000111fF:::::.9a2') for _ in range(rng.randrange(1,24))))
    parts=[rng.choice(['0','0','1','ffff','a0','0000','10']) for _ in range(rng.choice((8,8,7,6,3)))]
    s=':'.join(parts)
    if rng.random()<0.5 and len(parts)<8:
        i=rng.randrange(0,len(parts)+1); s=':'.join(parts[:i])+'::'+':'.join(parts[i:])
    if rng.random()<0.2: s=s.rsplit(':',1)[0]+':'+'.'.join(str(rng.choice((0,1,255,256,10))) for _ in range(4))
    cases.append(s.encode())
outs=core.run_driver(['inet.6 '+core.hx(c) for c in cases])
bad=0
for c,o in zip(cases,outs):
    try:
        exp='ok '+core.hx(socket.inet_ntop(socket.AF_INET6, socket.inet_pton(socket.AF_INET6,c.decode('latin-1'))).encode())
    except (OSError, ValueError): exp='err'
    if exp!=o:
        bad+=1
        if bad<10: print(c, o, exp)
print('cases',len(cases),'bad',bad, 'valid', sum(o.startswith('ok') for o in outs))
