#!/venv/bin/python
# -*- coding: utf-8 -*-
"""Regenerates the generated parts of DESIGN.md (sections 3-5) from the check modules, known_findings.json
and seeded/: what is proved, what is recorded, what was seeded.  The hand-written parts live in
docs/design_head.md and docs/design_tail.md."""
import importlib
import json
import os
import sys

V = os.path.dirname(os.path.dirname(os.path.abspath(__file__)))
sys.path.insert(0, '/repo')
sys.path.insert(0, os.path.join(V, 'harness'))
sys.path.insert(0, os.path.join(V, 'harness', 'props'))

TITLES = {}
for line in open(os.path.join(V, 'properties.jsonl')):
	d = json.loads(line)
	TITLES[d['id']] = d['title']

OPEN = {
	'C01': 'The property as stated (every byte stream) is false of the code: F17, F18, F19 (kernel-evaluated witnesses). Proved: the body layer for all inputs; the header section for well-formed sections cut anywhere (`headers_fragmentation`); the whole loop for well-formed pipelines of Content-Length and chunked messages in any fragmentation (`fragmentation_independent`, `feedAll_prefix`; `Props/C01Pipeline.lean`, generalised in `Props/C01Mixed.lean`). Chunked messages with a trailer section are a third instance (`Props/C01Trailers.lean`; what the merge makes of the fields is a hypothesis there, C07 speaks about it). Open: a characterisation of the malformed streams on which the code is still fragmentation independent.',
	'C02': 'Whole pipelines are a theorem (`pipeline_mixed`): start line, header section and body of every message through the outer loop, Content-Length and chunked framing mixed, both sides; the per-message hypotheses (`Good`, `GoodC`) are stated through the model functions for the start line and the header hooks, whose own round trips are C18, C10, C08. The prefix clause is `feedAll_prefix` (Content-Length framed and chunked messages mixed, every cut). Chunked bodies with trailer fields are covered by `Props/C01Trailers.lean` (the merged record is a hypothesis) (`trailers_stable_*` cover the trailer reader alone).',
	'C03': 'Stack depth and running time are runtime behaviour: measured (deep inputs under a lowered recursion limit; long runs with hostile tails under a wall-clock budget in a child interpreter), not proved. zlib, email.header.decode_header and the idna codec are outside the model (`needsOracle`); for those inputs only the oracle on the real code speaks.',
	'C04': 'Responses: one theorem for the whole message (`response_roundtrip`, `response_roundtrip_chunked`), composed of C18 (`response_line_roundtrip`), C08 (`compose_parse_roundtrip`), C05/C14 (`chunkFrame`) and the pipeline theorem of C02. Open: the same for requests (the target passes through URI parse, normalisation, the 301 rule and the Host hooks: each link proved or tied separately, the conjunction decided by the oracle) and for content codings inside the whole-message statement.',
	'C05': 'Idempotence of prepare() is proved for requests and for responses other than to HEAD (`prepareRequest_idem`, `prepareResponse_idem`); the HEAD exception is finding F46. Non-destructiveness of body sources (file positions, generator buffering) is behaviour of Python objects: decided by repeated composition on the real code.',
	'C06': 'Relies on C11 (`abspath_clean`, `abspath_fixed`). The statement for every stream and fragmentation is `delivered_requests_sanitised` (`Props/C06Invariant.lean`): an invariant of the loop, by induction over the calls. Host and port (the last clause) are an invariant of the loop as well since `Props/C06HostInvariant.lean` (`delivered_requests_hosted`: the delivered Host field names host and port of the effective URI; the trailer section cannot change the field: `Props/C06Trailers.lean`, F68 repaired); the configured defaults for a request without the field are proved per hook (`defaults_applied`); what a Host field must look like to get through is `host_alphabet` / `host_no_delimiter` (`Props/C06Host.lean`: an address literal over hex digits, colon, dot - proved through the glibc `inet_pton` transcription - or hostname characters; never a URI delimiter, blank or control character), the character class tied to RE_HOSTNAME of the tree by a 256-entry table. A status raised by parse() ends the history (section 6.2).',
	'C07': 'The HTTP/1.0 + chunked combination is finding F6. The framing clause holds for every stream and fragmentation on both sides (`delivered_messages_framed`, `Props/C07Invariant.lean`); the trailer clause is proved for the merge of a trailer section (`Props/C07Trailers.lean`: `mergeTrailers_only_announced`, `trailer_fields_all_announced`, `framing_fields_untouched`) and for the step of the state machine that reads the section (`parseTrailers_framing_untouched`), for every state and section; at the loop level Content-Length and Transfer-Encoding of a delivered message are already fixed by the invariant, the Trailer field and "announced only" are not restated there (it would need a ghost copy of the header section).',
	'C08': 'The round-trip clause is a theorem (`compose_parse_roundtrip`, `Proofs/HeadersRoundtrip.lean`) for collections without list-valued fields; those (Set-Cookie, WWW-Authenticate, Proxy-Authenticate) are composed field-specifically and judged by the oracle.',
	'C09': 'The whole element is a theorem (`element_roundtrip`, `Proofs/ElementRoundtrip.lean`): a value and any number of parameters with pairwise different canonical keys and ASCII values free of double quotes parse back in order; the proof carries quote parity across parameters, so no `;` or `,` inside a quoted value cuts and no parameter merges with its neighbour. The list clause is `list_roundtrip` (split of join gives back the composed elements, each parses to its element). Open as theorems: RFC 2231 continuations and RFC 5987 extended values - tied by correspondence for the four element classes.',
	'C10': 'The whole URI is a theorem since `Props/C10Whole.lean` (`parse_compose`, `compose_parse_compose`): the inner cuts (userinfo, host:port, path), the outer cuts (`uri_cuts`) and the record (class by scheme, port default or explicit) assembled for absolute URIs with a registered-name host. The host position has its own theorems since the F65 repair (`Props/C10Host.lean`): `host_no_leak` (no delimiter of a host text reaches the composed form unescaped, for every text) and `unquoteHost_quote` (an ASCII registered name, delimiters and blanks included, comes back from its composed form). Outside it: IPv4/IPv6 literals and IDN hosts (socket / idna: oracle only), relative references and URIs without authority (correspondence and oracle).',
	'C11': 'The RFC clause is a theorem for `abspath()` itself (`abspath_eq_rfc`, `normalize_path_rfc`; `Proofs/Rfc.lean`, `Proofs/RfcAbspath.lean`): the buffer-rewriting loop of RFC 3986 §5.2.4 is shown to be a stack machine on segments, the segment loop of `abspath` (`abspathCore`, whose stack also holds, and may pop, the root segment) is related to it, and the root that the loop may have popped is what `abspath` restores since the F60 repair. Trusted there: the transcription of the RFC text.',
	'C12': 'The whole statement is one theorem since `Props/C12Whole.lean` (`join_eq_rfc`, `toRef_rfcRecord`, `join_eq_rfc_scheme`): `join` = `normalize` of the record RFC 3986 5.2.2 prescribes, for every normalised base and every reference record the RFC grammar allows (a reference with authority has an empty or rooted path). Outside the theorem: the parse of the reference text into the record (C10 / correspondence), degenerate references ("?", "#", "//", "s:": defined-but-empty components that httoop cannot represent), rootless scheme-qualified references with dot segments (F59) and "://" in a later segment (F58).',
	'C13': 'The unguarded statement is false of the code (F1); `unquote_quote_fixed` proves it for the `%02X` variant, `c13_witness` exhibits the failure.',
	'C14': 'zlib itself is a parameter. JSON and message/http: oracle on the real code. The form codec is the theorem of C13 (`form_roundtrip_partial`, guard F1) and is exercised here through the codec and through Body.encode/decode.',
	'C15': 'Partial by nature: time zone, DST and locale are runtime environment. The model has no such input (that is the claim); the correspondence runs the real code in child processes under 6 zones × the installed locales and requires the one model answer. The asctime and RFC 850 forms are theorems as well (`asctime_roundtrip`, `rfc850_roundtrip` for the years 1970-2068 a two-digit year can name).',
	'C16': '',
	'C17': 'The parameter list of the field round-trips as a theorem (`params_roundtrip`); the dictionary lookups after it are tied by correspondence. Values with comma, quote, backslash: F20c.',
	'C18': 'The negotiation clause is an invariant of the server-side loop (`Props/C18Invariant.lean`, the induction of C06 with the versions as the frozen fields). The model has no object state: re-parsing into one object is compared step by step with what a fresh object gives (correspondence and oracle).',
	'C19': 'q texts that float() accepts outside the RFC grammar (`1e3`, `nan`) are outside the model and judged by the oracle.',
	'C20': 'The float square root in the overlap test is modelled exactly in integers and validated by the correspondence.',
}


def section3():
	out = []
	for i in range(1, 21):
		pid = 'C%02d' % i
		m = importlib.import_module('c%02d' % i)
		out.append('### %s — %s\n' % (pid, TITLES[pid]))
		out.append('**Decided by** Lean theorems (`lean/Httoop/Props/%s.lean`%s) + correspondence + oracle (`harness/props/c%02d.py`).\n' % (pid, ''.join(', `lean/%s.lean`' % x.replace('.', '/') for x in m.MODULES if not x.endswith(pid)), i))
		out.append('**What is proved.** ' + m.LEVEL_TEXT + '\n')
		out.append('**Theorems audited each run (%d):** %s.\n' % (len(m.THEOREMS), ', '.join('`%s`' % t.replace('Httoop.', '') for t in m.THEOREMS)))
		out.append('**Inputs of the correspondence and the oracle.** ' + m.RULE + '\n')
		if m.ASSUMPTIONS:
			out.append('**Assumptions / recorded findings that delimit the domain.** ' + '; '.join(m.ASSUMPTIONS) + '\n')
		out.append('**Trusted.** ' + ' '.join(t.rstrip('.') + '.' for t in m.TRUSTED) + ' ' + m.LEVEL_NOTE + '\n')
		if OPEN.get(pid):
			out.append('**Open / partial.** ' + OPEN[pid] + '\n')
		seeds = sorted(d for d in os.listdir(os.path.join(V, 'seeded')) if d.startswith(pid + '-'))
		out.append('**Seeded changes caught by this check:** ' + ', '.join(seeds) + ' (section 5).\n')
	return '\n'.join(out)


def section4():
	d = json.load(open(os.path.join(V, 'known_findings.json')))
	out = ['| id | property | status | commit | what |', '|---|---|---|---|---|']
	def key(e):
		import re
		m = re.match(r'F(\d+)(\w*)', e['id'])
		return (int(m.group(1)), m.group(2))
	for e in sorted(d, key=key):
		what = e['what']
		if what.startswith('fixed: '):
			what = what.split(' ', 3)[3]
		out.append('| %s | %s | %s | %s | %s |' % (e['id'], e['property'], e['status'], e.get('commit', ''), what.replace('|', '\\|')))
	return '\n'.join(out)


def section5():
	out = ['| seed | property | the change (first line of its notes) | caught by |', '|---|---|---|---|']
	base = os.path.join(V, 'seeded')
	for s in sorted(os.listdir(base)):
		if not s.startswith('C'):
			continue
		notes = os.path.join(base, s, 'notes.txt')
		first = ''
		if os.path.exists(notes):
			for ln in open(notes, errors='replace'):
				ln = ln.strip().strip('=').strip()
				if ln and not set(ln) <= set('=-'):
					first = ln
					break
		out.append('| %s | %s | %s | `vcheck.py %s` quick tier: VIOLATION with a replay on the real code |' % (s, s.split('-')[0], first.replace('|', '/')[:230], s.split('-')[0]))
	return '\n'.join(out)


def main():
	head = open(os.path.join(V, 'docs', 'design_head.md')).read()
	tail = open(os.path.join(V, 'docs', 'design_tail.md')).read()
	text = head + '\n## 3. The properties, as decided\n\n' + section3() + '\n## 4. Findings: repaired and recorded\n\n' + FINDINGS_INTRO + '\n' + section4() + '\n\n## 5. Seeded changes: which check catches which\n\n' + SEEDS_INTRO + '\n' + section5() + '\n\n' + tail
	open(os.path.join(V, 'DESIGN.md'), 'w').write(text)
	print('DESIGN.md: %d lines' % text.count('\n'))


FINDINGS_INTRO = """Every entry was first produced by a check (or by a probe that became part of a check's generator) as a concrete failing
input on the real code. `fixed` entries are `fix:` commits in /repo (the unedited suite has the same 13 failing tests before and after
each of them; those 13 fail on the pinned tree as well); they suppress nothing: the checks pass on the repaired tree and report the
violation again if it returns (verified for several by reverting the commit under `tools/seedtest.sh`). `known` entries are genuine defects
that are not repaired because the repair is not small and safe (a test pins the behaviour, or it is a design decision / feature); the owning
check prints `KNOWN-FINDING:` for each, replays its witness every run, and still reports any violation outside the recorded class.
The file is `known_findings.json`; nothing is added to it at run time.
"""

SEEDS_INTRO = """Each change was written by a fresh sub-agent that saw only the property text and its own scratch worktree, confirmed by
`tools/confirm_seed.sh` (demonstration passes on the pristine tree, fails with the patch, no new failure in the pinned suite) and stored under
`seeded/<id>/`. Fifteen rounds (the last two for ten and for six properties), 433 stored changes (the number is recomputed below from the directory). The share a round's first sweep missed stayed between a quarter and 40 per cent up to the last round: the agents are told what was already taken, so every round comes through new entry points, input types and object lifetimes - which is the reason to keep running rounds rather than a sign that the checks do not improve. `tools/psweep.sh` applies every stored change to a scratch copy of /repo (several in parallel; `tools/seedsweep.sh`
does the same on /repo's working tree, one at a time), runs the owning check and removes the copy; at the time of writing every stored change is
reported as VIOLATION by the quick tier of its check, with a failing input replayed on the real code (last full sweeps: all 533 stored up to round 14 under the seeds 0, 1, 2 and 3, the 12 of round 15 under seed 0;
the unchanged tree is quiet under the quick tier for the seeds 0-6 and under the thorough tier for the seeds 7, 21 and 33). Where a check first missed a change it was
strengthened - the generator was the gap nearly every time, an oracle clause a few times; no oracle was loosened:

* round 1/2 (ids -1 .. -4): C01 boundary mutations (stray CRLF where a start line is expected), C02 narrower F18 guard and empty trailer values, C03 work-bound
  oracle in a child interpreter (catastrophic regex backtracking) and larger token dictionaries, C05/C04 text pieces in list bodies, C05 1xx statuses, C06
  `*`-prefixed targets, password-only userinfo, CONNECT target variants, C07 fragmentations inside the trailer section, C09 narrower F33/F20 classes (a
  known-finding class that was too wide hid a change; a failing case inside a class now counts as known only while the pinned model agrees with the code),
  C10 relative references and hosts with a leading digit, C12 resolved-twice oracle bug, C14 coded messages from an independent sender (multi-member gzip),
  C15 comparisons against every operand form, C20 body supply modes (written to, partly read).
* round 3/4 (ids -5 .. -8): C03 payloads that decode to lone surrogates; C04 comparison of the text view of header values, UTF-8-looking Latin-1 values, method
  letter-case variants; C05 range responses (framing of a 206 and of what is sent instead) and method variants; C06 the Location of the 301 (canonical, equal
  to the independently computed path, not itself redirected), stray brackets in Host; C09 comma-joined element lists, encoded-word look-alikes, cookie dates,
  Set-Cookie lists; C11 climbing above the root after an authority, textual form of the normalised URI, IPvFuture hosts; C12 rootless dot paths, `://` later in
  a reference, authority without host, scheme-only references; C13/C14 BOM-like characters, coded octets handed to Body in every way; C15 datetime / struct_time
  views and the conditional header elements; C16 an exception escaping the harness is a violation with the input, not a harness error; C17 lax server data
  with a wrong password; C20 bodies with CRLF lines.
* round 5 (ids -9, -10 and the last of C04/C11/C12): C01 start lines and header lines that cross 1024 ... 65536 octets cut inside the line (a finite
  MAX_URI_LENGTH); C03 absolute-form targets over every registered and 60 well-known scheme names (a scheme class without `__slots__`); C04/C05 chunked framing
  selected through the Transfer-Encoding field, the Body flag, `transfer_encoding = None`, switched between two prepare() calls; C06 what lenient address
  parsers accept in Host (text after an address, short forms) with the oracle clause that a delivered Host has no URI delimiter, blank or control character
  (this found F63 on the pristine tree; `host_no_delimiter` is the theorem); C11 URIs put together by attribute assignments in any order (port before scheme,
  upper-case scheme; `normalize_port_explicit`); C12 segments with an encoded slash in either letter case, judged by segments read off the RFC result without
  the library's parser; C14 the form codec (was only in C13); C15 the three date forms as values of Last-Modified / If-(Un)Modified-Since; C18 several texts
  parsed into one Protocol / Status / Method / message object with composing in between (a stale memo); C20 weak and unquoted entity tags, Last-Modified forms.

* round 6 (ids -10 .. -12): C03 every codec name the library lists and every alias, each at least twice in a consulted field (`charset*=uu''..`); C04 a second,
  plain message on the same state machine after the composed one (chunked framing not reset between messages); C06 the Host field sent twice (RFC 7230 5.4);
  C08 values of 40-200 octets (line-wrapping base64 helpers) and a line break in a stored value that no assigned value had; C09 parameter names in mixed letter case,
  compared against what the caller handed in; C11 equality with an assembled URI on the left (found F64 on the unchanged tree); C12 percent-encoded octets
  in fragment-only and query-only references; C14 message/http bodies made of line breaks, empty lines and header-like lines; C15 a private non-English
  LC_TIME locale (built from C.utf8, activated through LOCPATH: the image has only C/POSIX) and instants handed over as aware datetime objects; C16 one element
  whose credentials change between two compositions (a stale cache).

* round 7 (ids -12 .. -14; the agents were asked for less obvious routes: other entry points, state carried between messages, helper modules): C02 every
  registered method that may carry a body (SEARCH) and tokens over the whole method alphabet; C03 a Trailer announced and none sent; C04 fields the composer
  has defaults for, set by the caller to the empty value; C07 Content-Length with parameters / quoted / as a list, and the message preceded by another
  (Content-Length or chunked) message on the same state machine; C08 `setdefault` in every letter case (new model operation); C09 cookie names that begin like an
  attribute name (found F67), and a second reading of a field after the elements of the first were changed (a cache shared between collections); C10 the composed
  text parsed into an object that held another URI, operands unchanged by `==`, dot and empty path segments (and, from a probe while waiting: F65, the host
  position); C12 escapes with hex digits in mixed case, the reference handed to `join()` as URI object / tuple / keywords; C14 form bodies without a charset
  parameter, one Body switched from one content coding to the other; C15 the expires attribute of Set-Cookie fields; C16 credentials given as non-ASCII
  text, an element built from the parameters of another and then changed; C17 the list route `Headers.elements()` (found F66), verification against the whole
  received field, URI perturbations behind the path; C18 comparison of a version with its text in every spelling (leading zeros), methods handed over as text.

* round 8 (ids -14 .. -16): C02 mixed-case escapes and `%2B` in targets, query pairs judged by the standard library's form reader; C03 (the token product is
  complete in the quick tier: a change caught only under some seeds was the reason); C04 the method handed over as octets, a Date the sender of a request
  set; C05 range requests when the application offered ranges / switched chunked on / set a coding / left a stale length itself; C07 trailer names with a percent
  sign, unannounced trailer fields named like fields the message has; C08 invalid names that equal a valid one under caseless matching (a cache shared
  between collections); C09 `Headers.append(name, value, **params)` and `formatparam(quote=True)`; C10 IDN hosts with letters that `casefold()` changes, 255
  octets in IPv4 hosts; C12 queries with percent-encoded UTF-8 whose continuation octets are 0x80-0x9F (a clause that does not need the library's parser for
  its expectation); C14 `compress()` of a body marked chunked; C15 the serialisation of a date built from a text (another weekday name, lower case, padded day);
  C16 quotes and backslashes in credentials set through the properties; C18 several requests on one connection, `CONNECT` in mixed case with an ordinary
  target; C19 the elements sent as several field lines with the name spelled differently, `get_element(name, which)` with a malformed weight elsewhere;
  C20 a Response object that served another range request before, a stale Content-Length on it.

* round 9 (ids -16 .. -18; several generators were widened while the agents worked, from reading their summaries: IPvFuture letter case, > 32 slash runs,
  URI objects that held another URI, IP-literal authorities in join(), named-file range bodies, zero-padded range positions, JSON under UTF-7 / EBCDIC, media types
  in capital letters, empty and blank-run reason phrases, asterisk- and authority-form targets): the remaining misses were C05 file-like bodies positioned at their
  end; C06 `*` as a path token; C07 a continuation line at the end of a trailer block; C08 `update()` from a dict / plain CaseInsensitiveDict / Headers (new
  operation); C09 elements built without parameters (a shared default); C12 the written form of the result against the RFC text itself (a quoting set changed in
  place by an earlier compose); C13 assigning a query to a URI that already has one; C15 one date compared again and again with operands that are dropped at once
  (a memo keyed by object identity); C16 the same field value parsed twice with the first result edited in between, the scheme name in any letter case; C18 a
  version above the server's without Host / with only the request line there, request lines of different length arriving in pieces on one connection; C19 the
  weight of an element changed after parsing.

* round 10 (ids -18 .. -20): C02 the standard method names in lower / mixed case carrying a body (a caseless method comparison); C03 media-type names where a
  coding is expected (`Content-Encoding: application/json`); C04/C05 bodies supplied as an iterator over a list; C05 `Transfer-Encoding` set by the caller with the
  coding name in another letter case (refused, or framed as chunked - never half of each); C06 percent signs in the Host field with the effective URI written down
  and read again by an independent reader; C09 lists built element by element with `append_element()` where two elements share a value; C12 `%2B` in queries,
  colons inside passwords (the authority read off the RFC result without the library's parser); C13 sequences of 100 ... 10001 pairs (a field limit); C16
  the credentials read through the `username` / `password` attributes; C17 the realm of the RECEIVED field differing in letter case only; C18 state kept per
  process (one object parsed twice, then fresh objects - as the very first cases of the run); C20 a Response object that answered a chunked exchange before, and
  the body of the 206 as it is sent. While looking at how the Host clause of C06 could become part of the invariant, the trailer section turned out to be able to
  change the Host field of a delivered request (F68, repaired in /repo; `Props/C06Trailers.lean`).

* round 11 (ids -20 .. -22; 16 of 40 missed at first - the agents had moved on to other input types, shared objects and other entry points; before their changes
  came back the generators had been widened in general: counts and sizes around the numbers a limit, a cache or a buffer would have - pipelines of 33 ... 1025
  messages, bodies and chunks of 32 KiB / 64 KiB / 256 KiB, collections of 1025 fields, 129 parameters, 1025 list elements, 129 ranges, 1025 segments and pairs):
  C02 the delivered body read through the file interface (`read()`, iteration), not only `bytes()`; C03 bracketed hosts of every sort in target and Host field
  (IPvFuture with odd versions); C04 text that is not in a Unicode normalisation form in paths and queries, no-break space at the ends of a field value (the
  generator itself had stripped it), and normalisation-sensitive characters in the shared text generator of C08 / C09 / C10 / C13; C07 a Connection field that
  nominates a framing field, the proxy state machine next to the server's, and the clause that chunked framing decides the delivered body; C11 URIs built from
  keywords / a dictionary without the empty components / the tuple, equal to the parsed URI and to the text in both directions; C12 scheme-qualified references
  with a one-segment rootless path (`mailto:`, `urn:`: a clause that needs no library call), a second question mark inside a query; C13 pairs handed over as dict /
  OrderedDict / list / iterator; C16 credentials as bytearray / memoryview; C17 an element built from the parameters of another and then changed; C18 a version
  handed from one message to another (`message.protocol = other.protocol`, `= ServerProtocol`) and version texts outside ASCII; C19 the field built by the
  application with `append(name, element)` and `append(name, value, **parameters)`, element texts contained in earlier ones, parameter names that sort behind `q`;
  C20 the representation handed over as a `Body` object on a Response that still holds the body of its last answer.

* round 12 (ids -22 .. -24; 18 of 40 missed at first, several of them closed from the agents' summaries before the sweep came back): C01 bodies under a
  content coding (Content-Length framed and in several chunks) cut inside the coded octets; C03 numbers that are not sizes (RFC 2231 section numbers, weights,
  range positions) - parsed in the child interpreter only, under a 3 GiB address-space limit, because a change that allocates by their value takes the check
  down with it otherwise - and 8-bit charset tokens of extended parameters; C04 a message object used for a second exchange with the new representation as a
  `Body` object of pieces, read back by the opposite state machine; C05 one `Body` object handed to the constructors of two responses (a 304 / HEAD / chunked
  answer in between); C06 an encoded question mark in the path (the Location of the 301), the Host field sent twice with the header section fed line by line,
  and - found by the full sweep, two older changes had become seed-dependent - every target form x Host present / absent x protocol x method deterministically,
  with the oracle clause that HTTP/1.1 without Host is never delivered; C07 `Transfer-Encoding` as an RFC 2047 encoded word, trailer announcements that
  only look like the field sent once a case or compatibility mapping is applied; C08 `Headers.fromkeys()`, iteration / `len()` / copies; C09 an element composed,
  changed through its parameter mapping and composed again, literal `%HH` in values that travel as extended parameters; C10 / C13 names and values of letters
  and digits outside ASCII only, `%41` as data; C11 keywords with the scheme in upper case and without the default port, encoded slashes and dots in paths to
  normalise; C12 sub-delimiters in fragments (the written-form clause now covers them), queries that begin or end with a plus sign; C14 content that is itself a
  gzip / zlib stream or begins like one, multipart parts labelled with a content coding; C16 text credentials that are not in a normalisation form, bytearray
  credentials composed twice; C17 the parameters handed over as text, request-targets that are not normal forms (`/%7Euser`, `/x?`); C18 a status handed from
  one response to another (same code, other phrase); C19 an empty quoted parameter value in a later list element, language ranges with digits; C20 one `Body`
  object handed to two exchanges.

* round 13 (ids -24 .. -26; 13 of 40 missed at first): C01 transfer codings other than chunked (501 wherever the stream is cut); C04 a charset chosen through
  `body.encoding` early in the run (an element cache shared between messages), responses composed against an HTTP/1.0 request; C08 one name twice in a constructor
  argument, a field received twice with the same one-octet value; C10 internationalised hosts that contain a delimiter; C12 an escaped colon in the user
  name (authority clause; a raw colon in the password is fine); C14 the form codec called without a charset; C15 `Date()` without argument and the Date of a
  prepared response under every zone; C16 `repr()` of an element before composing it; C17 entity bodies of 4096 / 8192 octets, percent signs in the values
  that enter the digest; C18 the hand-over through the constructor (`Response(protocol=request.protocol)`), instances of the status classes parsing another
  status; C19 a weight written twice, weights with stray quotes. Two older changes were caught under one seed only (C03-20, before that C06-6 / C06-18): their
  triggers are enumerated now, and the whole store is swept under two seeds.

* round 14 (ten properties only, ids -26 .. -28; 7 of 20 missed at first): C04 list / generator pieces of exactly k x 64 KiB under chunked framing, an
  empty reason phrase set by the caller; C08 `message.headers = mapping` from a plain `CaseInsensitiveDict` / dict; C09 letter case in the values of cookie
  attributes (`Domain=Example.COM`), multipart boundaries of every permitted length (a constructor that refuses a plain boundary is a violation, not "no round
  trip to judge"); C14 a `Body` that was decoded, emptied and filled again (`write()` / `parse()`); C16 one credential as octets and the other as text, in
  either order.

* round 15 (six parser-side properties, ids -27 / -28; 5 of 12 missed at first): C01 a Content-Length body of 10000 octets cut beyond 4096 / 8192 octets into
  it; C02 announced trailer names that begin like a forbidden one (`Host-Checksum`, `Trailer-Signature`), host names with the trailing root dot; C03
  percent signs inside a bracketed host (`[%00]`); C06 versions whose minor number has two or three digits (`HTTP/1.10`: not below 1.1) without a Host field.

Stored patches are rebased when a `fix:` commit touches the same lines (noted in their notes.txt). Six changes are kept under `seeded/rejected/` and are not
counted: C04-2, C12-1-superseded and C11-11 became harmless through the repairs F50 / F60 / F64 (their demonstrations pass with the patch applied); C06-9 and C07-10
show only when parse() is called again on a state machine whose previous call raised - outside the properties' quantifier and already undefined on the unchanged tree
(section 6.2); C09-12 changes only the letter case of free cookie attribute names, which are case-insensitive tokens (the unchanged library lower-cases the
parameter names of every other element itself).
"""

if __name__ == '__main__':
	main()
