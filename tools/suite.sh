#!/bin/bash
# tools/suite.sh — the pinned suite on /repo's working tree; prints the failures that are not among the 13 baseline ones
cd /repo
PYTHONPATH=/repo /venv/bin/python -m pytest -q -p no:cacheprovider --timeout=900 2>&1 | grep -E "^(FAILED|ERROR)" | sed 's/ - .*//' | sort > /tmp/suite_now.txt
echo "failing now: $(wc -l < /tmp/suite_now.txt); new: $(comm -13 <(sed 's/ - .*//' /tmp/base_fail.txt | sort) /tmp/suite_now.txt | wc -l)"
comm -13 <(sed 's/ - .*//' /tmp/base_fail.txt | sort) /tmp/suite_now.txt | head
