#!/bin/bash
# tools/seedsweep.sh [glob] — every stored seeded change (or those matching the glob, e.g. 'C0[1-4]-[56]') against its
# check (sequential: each one modifies /repo's working tree)
cd /verif
pat=${1:-C*}
for d in seeded/$pat/; do
  id=$(basename $d); prop=${id%-*}
  if ! git -C /repo apply --check /verif/$d/patch.diff 2>/dev/null; then echo "$id DOES-NOT-APPLY"; continue; fi
  out=$(tools/seedtest.sh /verif/$d/patch.diff $prop 2>&1 | tail -4)
  rc=$(echo "$out" | grep -o "rc=[0-9]*" | tail -1)
  echo "$id $rc $(echo "$out" | grep -c VIOLATION)"
done
