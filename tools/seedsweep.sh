#!/bin/bash
# tools/seedsweep.sh — every stored seeded change against its check (sequential: each one modifies /repo's working tree)
cd /verif
for d in seeded/C*/; do
  id=$(basename $d); prop=${id%-*}
  if ! git -C /repo apply --check /verif/$d/patch.diff 2>/dev/null; then echo "$id DOES-NOT-APPLY"; continue; fi
  out=$(tools/seedtest.sh /verif/$d/patch.diff $prop 2>&1 | tail -4)
  rc=$(echo "$out" | grep -o "rc=[0-9]*" | tail -1)
  echo "$id $rc $(echo "$out" | grep -c VIOLATION)"
done
