#!/bin/bash
# tools/runall.sh [tier] — run every claimed check on the current tree (in parallel), validate evidence.
tier=${1:-quick}
cd /verif
if ! git -C /repo diff --quiet; then echo "/repo is dirty"; exit 2; fi
ids=$(python3 -c "import json; print(' '.join(c['property_id'] for c in json.load(open('MANIFEST.json'))['checks']))")
/venv/bin/python harness/extract.py >/dev/null
(cd lean && lake build 2>&1 | tail -1)
for p in $ids; do
  ( VERIF_SEED=${VERIF_SEED:-0} /venv/bin/python harness/vcheck.py $p --tier $tier > /tmp/runall-$p.log 2>&1; echo "$p rc=$? $(tail -1 /tmp/runall-$p.log | cut -c1-160)" ) &
done
wait
python3-vt - <<'PY'
import json, jsonschema, glob
s=json.load(open('/root/.vp/EVIDENCE.schema.json'))
m=json.load(open('/verif/MANIFEST.json'))
for c in m['checks']:
    try:
        e=json.load(open('/verif/'+c['evidence_file'])); jsonschema.validate(e,s)
        cov=e['coverage']
        ok = cov['obligations']==cov['discharged'] and e.get('violations',0)==0
        print(c['property_id'], 'evidence', 'ok' if ok else 'NOT-CLEAN', cov['obligations'], cov['discharged'], e.get('violations'))
    except Exception as ex:
        print(c['property_id'], 'evidence INVALID', str(ex)[:100])
PY
