#!/usr/bin/env python3
"""tools/mkround.py <round> — scratch worktrees /tmp/wt<round>-Cxx of /repo and instruction files /tmp/agent<round>-Cxx.txt for a round of
seeded changes (the sub-agents get only the property text, never anything from /verif)."""
import json, os, subprocess, sys
V = '/verif'
rnd = sys.argv[1]
tmpl = open('/tmp/agent5-C20.txt').read() if False else None
props = [json.loads(l) for l in open(os.path.join(V, 'properties.jsonl'))]
for p in props:
	pid = p['id']
	wt = '/tmp/wt%s-%s' % (rnd, pid)
	if not os.path.exists(wt):
		subprocess.check_call(['git', '-C', '/repo', 'worktree', 'add', '-q', '--detach', wt, 'HEAD'])
	taken = []
	for base in (os.path.join(V, 'seeded'), os.path.join(V, 'seeded', 'rejected')):
		for s in sorted(os.listdir(base)):
			if not s.startswith(pid + '-'):
				continue
			first = ''
			n = os.path.join(base, s, 'notes.txt')
			if os.path.exists(n):
				for ln in open(n, errors='replace'):
					ln = ln.strip().strip('=').strip()
					if ln and not set(ln) <= set('=-'):
						first = ln
						break
			taken.append(' - %s' % first[:260])
	o1, o2 = '/tmp/out%s-%s-1' % (rnd, pid), '/tmp/out%s-%s-2' % (rnd, pid)
	text = '''You are helping test a verification effort by producing realistic regressions ("seeded bugs") for the Python library spaceone/httoop (a pure-Python sans-io HTTP/1.1 library). You work ONLY inside your own scratch git worktree at {wt} (a checkout of the library; the package is in {wt}/httoop, tests in {wt}/tests). Do not touch /repo or /verif, and do not read anything under /verif.

The property under test (read it carefully):

Property {pid}: {title}

{statement}

Quantifier: {quant}

Relevant files: {files}


Already taken (do NOT repeat these ideas, look in other places of the code and at other clauses of the property):
{taken}

Earlier rounds already produced many changes in the obvious functions. Prefer less obvious routes to the same observable behaviour: alternative public entry points (constructors taking other argument types, property setters, dictionary-style access, iteration, comparison operators), state carried between messages or between calls on one object (caches, flags that are not reset), boundary sizes, letter case, rarely used header fields / schemes / codecs, and helper modules the listed files depend on (httoop/util.py, httoop/six.py, httoop/meta.py, the element base classes).

Out of scope: a change that shows only when parse() is called AGAIN on a state machine whose previous parse() call already raised an exception (the state machine is not reusable after an error, on the unchanged library neither). Every history ends at the first raised status.

Use only file names inside your own directories ({wt}, {o1}, {o2}): other agents work in /tmp at the same time, so never write to shared names such as /tmp/c1.diff or /tmp/scratch. Do NOT use `git stash` (the stash is shared with other checkouts); use `git checkout -- .` inside your worktree only.

Your task: produce TWO different, independent source changes to the library (each as its own patch against the pristine worktree) that each BREAK this property while the library still imports and the existing test suite still passes. Requirements for each change:
 * It must be realistic: the kind of slip a maintainer could make in a refactoring or "optimisation" (off-by-one, wrong comparison operator, a forgotten reset, a case-handling shortcut, an ordering change, a subtly wrong regex/constant, two cooperating edits that each look harmless). Not a gratuitous `raise` or a check for a magic input.
 * It must need something specific to manifest: an unusual input, a particular multi-step sequence, a boundary value, an uncommon combination — NOT something ordinary use would expose at once, and not something the existing tests catch.
 * The existing test suite must still pass with the change: run it with
      cd {wt} && /venv/bin/python -m pytest -q -p no:cacheprovider -x --timeout=900 2>&1 | tail -5
   (takes about 25 s; on the pristine tree there are 13 known failures: tests named test_body_iterencode, test_wsgi*, test_application_xml, test_invalid_byte_ranges — those may keep failing, but no NEW failure may appear. Do not use -n/xdist. Without -x to see all failures.) Compare the set of failing tests before and after.
 * Provide a demonstration: a small standalone Python script demo.py (run as `cd <checkout> && PYTHONPATH=<checkout> /venv/bin/python demo.py`) that exits 0 on the pristine tree and exits non-zero (assertion failure showing the property violated) with the change applied. The demonstration must test the PROPERTY as stated above (observable behaviour through the public API), not an internal detail.

Deliver, for each of the two changes i in (1, 2), these files in {o1} and {o2}:
   patch.diff   (output of `git diff` in the worktree with only that change applied)
   demo.py
   notes.txt    (which part of the property it breaks; what specific input/sequence is needed for it to manifest; the test-suite result you observed before/after)
After writing each patch, restore the worktree with `git checkout -- .` before starting the next one, and leave the worktree clean at the end. Python to use: /venv/bin/python. There is no network. Keep your final answer short: list the two changes in one or two sentences each.
'''.format(wt=wt, pid=pid, title=p['title'], statement=p['statement'], quant=p['quantifier']['text'], files=', '.join(p['anchors']['files']), taken='\n'.join(taken), o1=o1, o2=o2)
	open('/tmp/agent%s-%s.txt' % (rnd, pid), 'w').write(text)
print('ok')
