#!/bin/bash
# tools/multiseed.sh <from> <to> [tier] — every check under the seeds from..to on the current tree; prints what is not OK
cd /verif
tier=${3:-quick}
for s in $(seq $1 $2); do
  for i in $(seq -w 1 20); do
    out=$(VERIF_SEED=$s /venv/bin/python harness/vcheck.py C$i --tier $tier 2>&1 | grep -E "^(OK|VIOLATION|  first|  corr|  broken|Traceback)" | cut -c1-500)
    echo "$out" | grep -q "^OK" || echo "seed=$s C$i: $out"
  done
done
echo "multiseed $1..$2 $tier done"
