#!/bin/bash
# tools/confirm_round.sh <PROP> <outdir-prefix>  — confirm /tmp/<prefix>-<PROP>-{1,2} as the next free seed ids of PROP
prop=$1; pre=$2
for i in 1 2; do
  out=/tmp/$pre-$prop-$i
  [ -f $out/patch.diff ] || { echo "$out: missing"; continue; }
  n=1; while [ -e /verif/seeded/$prop-$n ] || [ -e /verif/seeded/rejected/$prop-$n ] || ls -d /verif/seeded/rejected/$prop-$n-* >/dev/null 2>&1; do n=$((n+1)); done
  /verif/tools/confirm_seed.sh $out $prop-$n $prop
done
