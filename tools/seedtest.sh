#!/bin/bash
# tools/seedtest.sh <patch.diff> <PROP> [tier]  — apply a seeded change to /repo, run the check, undo it.
set -u
patch=$1; prop=$2; tier=${3:-quick}
cd /repo || exit 2
if ! git diff --quiet; then echo "/repo is dirty"; exit 2; fi
git apply "$patch" || { echo "patch does not apply"; exit 2; }
cd /verif
timeout 1800 /venv/bin/python harness/vcheck.py "$prop" --tier "$tier" 2>&1 | cut -c1-500 | tail -6
rc=${PIPESTATUS[0]}
git -C /repo checkout -- .
echo "rc=$rc"
