#!/bin/bash
# tools/seedtest.sh <patch.diff> <PROP> [tier]  — apply a seeded change to /repo, run the check, undo it.
set -u
patch=$1; prop=$2; tier=${3:-quick}
cd /repo || exit 2
if ! git diff --quiet; then echo "/repo is dirty"; exit 2; fi
git apply "$patch" || { echo "patch does not apply"; exit 2; }
cd /verif
# the evidence / replay files of the unchanged tree are put back afterwards (a seeded run must not end up in a commit)
save=$(mktemp -d /tmp/seedtest-save.XXXXXX)
cp -a evidence/$prop.json "$save/" 2>/dev/null
timeout 1800 /venv/bin/python harness/vcheck.py "$prop" --tier "$tier" 2>&1 | cut -c1-500 | tail -6
rc=${PIPESTATUS[0]}
git -C /repo checkout -- .
cp -a "$save/$prop.json" evidence/ 2>/dev/null; rm -rf "$save"
/venv/bin/python harness/extract.py >/dev/null 2>&1      # the generated tables follow the tree again
echo "rc=$rc"
