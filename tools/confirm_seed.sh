#!/bin/bash
# tools/confirm_seed.sh <outdir> <seed-id> <PROP>
# Confirms a seeded change in a fresh scratch worktree of /repo HEAD: demo passes pristine, fails with the
# patch, the pinned suite has no new failure; then stores it under /verif/seeded/<seed-id>/.
set -u
out=$1; sid=$2; prop=$3
wt=/tmp/confirm-$sid
git -C /repo worktree add -q --detach "$wt" HEAD || exit 2
cd "$wt"
PYTHONPATH=$wt /venv/bin/python "$out/demo.py" >/dev/null 2>&1; pristine=$?
git apply "$out/patch.diff" || { echo "$sid: patch does not apply to HEAD"; git -C /repo worktree remove --force "$wt"; exit 2; }
PYTHONPATH=$wt /venv/bin/python "$out/demo.py" >/tmp/confirm-$sid.demo 2>&1; patched=$?
/venv/bin/python -m pytest -q -p no:cacheprovider --timeout=900 2>&1 | grep -E "^(FAILED|ERROR)" | sed 's/ - .*//' | sort > /tmp/confirm-$sid.fail
new=$(comm -13 <(sed 's/ - .*//' /tmp/base_fail.txt | sort) /tmp/confirm-$sid.fail | wc -l)
cd /; git -C /repo worktree remove --force "$wt"
echo "$sid: demo pristine rc=$pristine patched rc=$patched new test failures=$new"
if [ "$pristine" = 0 ] && [ "$patched" != 0 ] && [ "$new" = 0 ]; then
  mkdir -p /verif/seeded/$sid
  cp "$out/patch.diff" "$out/demo.py" /verif/seeded/$sid/
  [ -f "$out/notes.txt" ] && cp "$out/notes.txt" /verif/seeded/$sid/notes.txt
  python3 - "$sid" "$prop" "$out" <<'PY'
import json, sys, os
sid, prop, out = sys.argv[1:4]
notes = open(os.path.join(out, 'notes.txt')).read() if os.path.exists(os.path.join(out, 'notes.txt')) else ''
json.dump({'id': sid, 'property': prop, 'needs': notes[:1500], 'confirmed': 'tools/confirm_seed.sh: demo exit 0 on pristine HEAD, non-zero with patch; full pytest suite: no failure beyond the 13 baseline failures', 'source': 'independent sub-agent given only the property text'}, open('/verif/seeded/%s/meta.json' % sid, 'w'), indent=1)
PY
  echo "$sid: KEPT"
else
  echo "$sid: REJECTED"
fi
