#!/bin/bash
# tools/confirm_ready.sh <round> [parallel] — confirm every finished pair /tmp/out<round>-Cxx-{1,2} not confirmed yet (marker /tmp/confirmed<round>-Cxx)
r=$1; par=${2:-4}
todo=()
for i in $(seq -w 1 20); do
  p=C$i
  [ -e /tmp/confirmed$r-$p ] && continue
  [ -f /tmp/out$r-$p-1/patch.diff ] && [ -f /tmp/out$r-$p-2/patch.diff ] && [ -f /tmp/out$r-$p-2/notes.txt ] || continue
  todo+=($p)
done
echo "confirming: ${todo[*]}"
printf '%s\n' "${todo[@]}" | xargs -r -P $par -I{} bash -c 'touch /tmp/confirmed'$r'-{}; /verif/tools/confirm_round.sh {} out'$r' >> /tmp/confirm'$r'.log 2>&1'
