#!/bin/bash
# tools/psweep.sh [glob] [workers] — the stored seeded changes against their checks, in parallel: every worker gets its own
# scratch copy of /verif (with the Lean build) and its own worktree of /repo's HEAD under $PSWEEP_DIR (default /tmp/psweep),
# so that /repo and /verif themselves are not touched.  Prints "<seed> rc=<rc> <violations>" per seed.
pat=${1:-C*}; workers=${2:-8}
root=${PSWEEP_DIR:-/tmp/psweep}
rm -rf "$root"; mkdir -p "$root"
ls -d /verif/seeded/$pat/ | xargs -n1 basename > "$root/all.txt"
# PSWEEP_IDS="C05-19 C12-18 ..." sweeps exactly those
if [ -n "$PSWEEP_IDS" ]; then echo $PSWEEP_IDS | tr ' ' '\n' > "$root/all.txt"; fi
for i in $(seq 1 $workers); do
  rsync -a --exclude .git --exclude replays --exclude evidence /verif/ "$root/verif-$i/"
  mkdir -p "$root/verif-$i/evidence" "$root/verif-$i/replays"
  git -C /repo worktree add -q --detach "$root/repo-$i" HEAD
done
worker() {
  i=$1
  awk -v n=$workers -v i=$i 'NR % n == i - 1' "$root/all.txt" | while read id; do
    prop=${id%-*}
    cd "$root/repo-$i"
    if ! git apply "/verif/seeded/$id/patch.diff" 2>/dev/null; then echo "$id DOES-NOT-APPLY"; continue; fi
    out=$(cd "$root/verif-$i" && HTTOOP_REPO="$root/repo-$i" timeout 1800 /venv/bin/python harness/vcheck.py $prop --tier quick 2>&1 | tail -4)
    rc=$?
    viol=$(echo "$out" | grep -c "^VIOLATION")
    ok=$(echo "$out" | grep -c "^OK")
    git checkout -q -- . ; git clean -fdq
    echo "$id viol=$viol ok=$ok"
  done
}
for i in $(seq 1 $workers); do worker $i > "$root/out-$i.txt" 2>&1 & done
wait
cat "$root"/out-*.txt | sort
for i in $(seq 1 $workers); do git -C /repo worktree remove --force "$root/repo-$i"; done
git -C /repo worktree prune
rm -rf "$root"
