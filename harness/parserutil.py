# -*- coding: utf-8 -*-
"""Adapters for the parser state machines: run the real ServerStateMachine / ClientStateMachine on a list
of fragments and print the canonical line the model driver prints (Ops/Parser.lean)."""
from core import hx, exc_name


def render_headers(h):
	items = list(dict.items(h))
	return '{' + ','.join('%s=%s' % (hx(k.encode('utf-8')), hx(v)) for k, v in items) + '}'


def render_request(req, resp):
	u = req.uri
	def t(x):
		return hx((x or u'').encode('utf-8'))
	port = u._port
	return 'M(%s;%s;%s;%s;%s;%s;%d.%d;%d.%d;%s;%s)' % (hx(bytes(req.method)), t(u.scheme), t(u.host), 'None' if not port else int(port), t(u.path), t(u.query_string),
		req.protocol.major, req.protocol.minor, resp.protocol.major, resp.protocol.minor, render_headers(req.headers), hx(bytes(req.body)))


def render_response(resp):
	return 'M(%d.%d;%d;%s;%s;%s)' % (resp.protocol.major, resp.protocol.minor, int(resp.status), hx(resp.status.reason.encode('latin-1')), render_headers(resp.headers), hx(bytes(resp.body)))


def new_sm(side, connect=False):
	if side == 'server':
		from httoop.server import ServerStateMachine
		return ServerStateMachine('http', 'localhost', 80)
	from httoop.client import ClientStateMachine
	from httoop import Request
	sm = ClientStateMachine()
	sm.request = Request('CONNECT' if connect else 'GET', 'h:443' if connect else '/')
	return sm


def run(side, frags, connect=False, raw=False):
	"""returns the canonical line; with raw=True also the list of per-call results for oracles"""
	sm = new_sm(side, connect)
	calls = []
	rawcalls = []
	err = None
	for f in frags:
		try:
			out = sm.parse(bytes(f))
		except Exception as e:
			err = e
			calls.append('E' + exc_name(e))
			rawcalls.append(e)
			break
		if side == 'server':
			calls.append(''.join(render_request(rq, rs) for rq, rs in out) + '.')
		else:
			calls.append(''.join(render_response(r) for r in out) + '.')
		rawcalls.append(out)
	if err is None:
		msg = sm.message
		if msg is None:
			state = 'idle'
		else:
			state = ('LF' if sm.line_end == b'\n' else 'CRLF') + ('+s' if sm.state['startline'] else '') + ('+h' if sm.state['headers'] else '')
		line = ' | '.join(calls) + ' # ' + hx(bytes(sm.buffer)) + ' ' + state
	else:
		line = ' | '.join(calls)
	if raw:
		return line, rawcalls, sm
	return line
