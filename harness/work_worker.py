# -*- coding: utf-8 -*-
"""Child interpreter for the work-bound part of C03: reads `side hexstream` lines, announces each before
parsing it and reports the outcome and the time it took.  The parent kills it when one input exceeds the
budget (a regular-expression match cannot be interrupted from inside the interpreter)."""
import os
import sys
import time

sys.path.insert(0, os.environ.get('HTTOOP_REPO', '/repo'))
sys.path.insert(0, __file__.rsplit('/', 1)[0])
import parserutil  # noqa: E402
from core import exc_name  # noqa: E402

try:
	import resource
	resource.setrlimit(resource.RLIMIT_AS, (3 << 30, 3 << 30))      # a memory bomb ends as MemoryError in here, not as a dead sandbox
except Exception:
	pass

for i, line in enumerate(sys.stdin):
	side, hexs, mode = line.split()
	data = bytes.fromhex(hexs)
	sys.stdout.write('start %d\n' % i)
	sys.stdout.flush()
	t0 = time.time()
	sm = parserutil.new_sm(side)
	try:
		if mode == '1':
			for j in range(len(data)):
				sm.parse(data[j:j + 1])
		else:
			sm.parse(data)
		out = 'ok'
	except BaseException as e:
		out = exc_name(e)
	sys.stdout.write('done %d %s %.4f\n' % (i, out, time.time() - t0))
	sys.stdout.flush()
