# -*- coding: utf-8 -*-
"""Seeded generators shared by the property modules (every choice comes from the rng passed in)."""
from __future__ import annotations


SENSITIVE = u'\u0301\u0308\u0327\u212b\u2126\ufb01\u00b5\u0130\u0131\u1e9e\u017f\u1100\u1161\u11a8\u00ad\u200b\u200d\ufeff\u2028\u0345\u03c2'


def unicode_char(rng, special=u''):
	r = rng.random()
	if special and r < 0.25:
		return rng.choice(special)
	if r < 0.55:
		return chr(rng.randrange(0x21, 0x7f))
	if r < 0.60:
		return chr(rng.randrange(0x00, 0x21))
	if r < 0.75:
		return chr(rng.randrange(0xa0, 0x100))
	if r < 0.80:
		return chr(rng.randrange(0x7f, 0xa0))
	if r < 0.92:
		if rng.random() < 0.15:
			# characters that a Unicode normalisation form, case folding or a compatibility mapping would change, invisible ones: data
			return rng.choice(SENSITIVE)
		c = rng.randrange(0x100, 0xffff)
		while 0xd800 <= c < 0xe000:
			c = rng.randrange(0x100, 0xffff)
		return chr(c)
	return chr(rng.randrange(0x10000, 0x110000))


def unicode_text(rng, n, special=u''):
	return u''.join(unicode_char(rng, special) for _ in range(n))


def fragmentations(rng, n, k):
	"""k random ways of cutting range(n) into consecutive fragments, as lists of cut positions"""
	out = []
	for _ in range(k):
		p = rng.choice((0.02, 0.1, 0.3, 0.6))
		out.append([i for i in range(1, n) if rng.random() < p])
	return out


def cut(data, cuts):
	prev = 0
	for c in list(cuts) + [len(data)]:
		yield data[prev:c]
		prev = c
