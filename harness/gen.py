# -*- coding: utf-8 -*-
"""Seeded generators shared by the property modules (every choice comes from the rng passed in)."""
from __future__ import annotations


def unicode_char(rng, special=u''):
	r = rng.random()
	if special and r < 0.25:
		return rng.choice(special)
	if r < 0.55:
		return chr(rng.randrange(0x21, 0x7f))
	if r < 0.60:
		return chr(rng.randrange(0x00, 0x21))
	if r < 0.75:
		return chr(rng.randrange(0xa0, 0x100))
	if r < 0.80:
		return chr(rng.randrange(0x7f, 0xa0))
	if r < 0.92:
		c = rng.randrange(0x100, 0xffff)
		while 0xd800 <= c < 0xe000:
			c = rng.randrange(0x100, 0xffff)
		return chr(c)
	return chr(rng.randrange(0x10000, 0x110000))


def unicode_text(rng, n, special=u''):
	return u''.join(unicode_char(rng, special) for _ in range(n))


def fragmentations(rng, n, k):
	"""k random ways of cutting range(n) into consecutive fragments, as lists of cut positions"""
	out = []
	for _ in range(k):
		p = rng.choice((0.02, 0.1, 0.3, 0.6))
		out.append([i for i in range(1, n) if rng.random() < p])
	return out


def cut(data, cuts):
	prev = 0
	for c in list(cuts) + [len(data)]:
		yield data[prev:c]
		prev = c
