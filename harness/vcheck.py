#!/venv/bin/python
# -*- coding: utf-8 -*-
"""vcheck.py Cxx [--tier quick|thorough] [--replay FILE]

exit 0: property held on everything explored (KNOWN-FINDING lines may be printed)
exit 1: "VIOLATION property=<id> replay=<path>[ no-failing-input-found]"
exit 2: the machinery itself failed (timeout, crash) — never a verdict
"""
from __future__ import annotations

import argparse
import importlib
import json
import os
import random
import sys
import time
import traceback

sys.dont_write_bytecode = True
sys.path.insert(0, os.path.dirname(os.path.abspath(__file__)))
import core  # noqa: E402
import extract  # noqa: E402


def main():
	ap = argparse.ArgumentParser()
	ap.add_argument('prop')
	ap.add_argument('--tier', default=os.environ.get('VERIF_TIER') or 'quick', choices=['quick', 'thorough'])
	ap.add_argument('--replay')
	ap.add_argument('--no-build', action='store_true', help='skip lake build/audit (debugging only; verdicts are then not evidence)')
	args = ap.parse_args()
	pid = args.prop.upper()
	seed = int(os.environ.get('VERIF_SEED') or 0)
	mod = importlib.import_module('props.%s' % pid.lower())
	res = core.Result(pid, args.tier, seed)
	rng = random.Random('%s/%d' % (pid, seed))
	checker_cmd = 'cd lean && lake build %s driver && lake env lean <audit: #print axioms of each theorem>' % ' '.join(mod.MODULES)
	known = [k for k in core.load_known() if k['property'] == pid]

	if args.replay:
		return replay(mod, args.replay)

	# 1. T1: regenerate tables from the source
	t = time.time()
	try:
		changed = extract.generate()
		res.notes.append('T1: Gen/Tables.lean %s (%.1fs)' % ('rewritten' if changed else 'unchanged', time.time() - t))
	except Exception as e:  # extraction itself failing means the source no longer has the shape the model reads
		res.broken.append('T1-extraction: %s: %s' % (type(e).__name__, e))
		res.notes.append(traceback.format_exc()[-1500:])

	# 2. build the theorems (re-checked against the regenerated tables) and the driver
	res.obligations = list(mod.THEOREMS)
	build_ok = True
	if not args.no_build:
		dok, dlog, dfailing = core.lake_build(['driver'])
		if not dok:
			res.broken.extend('lake-build(driver): %s' % f for f in (dfailing or ['(see log)']))
			res.notes.append(dlog[-3000:])
		ok, log, failing = core.lake_build(list(mod.MODULES))
		build_ok = dok
		if not ok:
			res.broken.extend('lake-build: %s' % f for f in (failing or ['(see log)']))
			res.notes.append(log[-3000:])
		# 3. audit
		if ok:
			axioms, missing, out = core.audit(mod.MODULES, mod.THEOREMS)
			res.axioms = axioms
			for t_ in mod.THEOREMS:
				if t_ in missing:
					res.broken.append('audit: theorem %s not found' % t_)
				elif not set(axioms[t_]) <= core.STD_AXIOMS:
					res.broken.append('audit: theorem %s depends on %s' % (t_, sorted(set(axioms[t_]) - core.STD_AXIOMS)))
				else:
					res.discharged.append(t_)
			hits = core.grep_forbidden()
			if hits:
				res.broken.extend('forbidden-construct: %s' % h for h in hits)
			if args.tier == 'thorough' and os.environ.get('VERIF_LEANCHECKER', '1') == '1':
				rc, out = core.run(['lake', 'env', 'leanchecker'] + list(mod.MODULES), cwd=core.LEAN, timeout=3600)
				res.notes.append('leanchecker rc=%d %s' % (rc, out[-300:].strip()))
				if rc != 0:
					res.broken.append('leanchecker: rc=%d' % rc)
	else:
		res.discharged = list(mod.THEOREMS)

	# 4. known findings: replay each witness on the real code
	for k in known:
		if k.get('status') != 'known':
			continue
		try:
			still = mod.finding_still_fails(k)
		except Exception as e:
			still = True
			res.notes.append('finding %s replay raised %s: %s' % (k['id'], type(e).__name__, e))
		if still:
			line = 'KNOWN-FINDING: property=%s %s: %s' % (pid, k['id'], k['what'])
			print(line)
			res.known_printed.append(line)
		else:
			res.notes.append('finding %s no longer reproduces on the current tree' % k['id'])
	known_ids = {k['id'] for k in known if k.get('status') == 'known'}

	# 5./6. correspondence + property oracle
	can_drive = (build_ok or args.no_build) and os.path.exists(core.DRIVER)
	try:
		explore(mod, res, rng, args.tier, known_ids, can_drive, mod.cases(rng, args.tier))
		if (res.broken or res.mismatches) and not res.violations and hasattr(mod, 'search'):
			# failing-input search: deeper stream, property oracle on the real code only
			n0 = res.evaluations
			explore(mod, res, rng, args.tier, known_ids, False, mod.search(rng, res))
			res.notes.append('failing-input search: %d further inputs' % (res.evaluations - n0))
	except Exception:
		traceback.print_exc()
		core.write_evidence(res, mod, checker_cmd)
		return 2

	# 7. verdict
	path = core.write_evidence(res, mod, checker_cmd)
	if res.violations:
		rel = core.write_replay(res, {'property': pid, 'kind': 'failing-input', 'violations': res.violations[:20], 'broken': res.broken, 'mismatches': res.mismatches[:20], 'seed': seed, 'tier': args.tier})
		print('VIOLATION property=%s replay=%s' % (pid, rel))
		print('  first: %s' % json.dumps(res.violations[0], default=repr)[:600])
		return 1
	if res.broken or res.mismatches:
		rel = core.write_replay(res, {'property': pid, 'kind': 'obligation-broken', 'broken': res.broken, 'mismatches': res.mismatches[:50], 'seed': seed, 'tier': args.tier, 'notes': res.notes})
		for b in res.broken[:10]:
			print('  broken: %s' % b)
		for m in res.mismatches[:5]:
			print('  correspondence: %s' % json.dumps(m, default=repr)[:400])
		print('VIOLATION property=%s replay=%s no-failing-input-found' % (pid, rel))
		return 1
	print('OK property=%s tier=%s seed=%d theorems=%d/%d cases=%d corr=%d distinct=%d wall=%.1fs evidence=%s' % (
		pid, args.tier, seed, len(res.discharged), len(res.obligations), res.evaluations, res.traces, len(res.distinct), time.time() - res.t0, os.path.relpath(path, core.VERIF)))
	return 0


def explore(mod, res, rng, tier, known_ids, can_drive, cases):
	"""Run correspondence (model driver vs. real code) and the property oracle over a case stream."""
	BATCH = getattr(mod, 'BATCH', 20000)
	batch = []

	def crashed(stage, case, exc):
		# an exception escaping from the adapters means the real code raised where it does not on the pinned tree
		# (every adapter catches what the library is allowed to raise): that is a failing input, not a harness error
		if len(res.violations) < 50:
			res.violations.append({'what': 'the real code raised %s: %s while the harness ran it (%s)' % (type(exc).__name__, str(exc)[:200], stage),
				'case': mod.describe(case), 'traceback': traceback.format_exc()[-1500:]})

	def flush():
		if not batch:
			return
		if hasattr(mod, 'prepare'):
			mod.prepare(batch)
		lines, spans = [], []
		for case in batch:
			try:
				ml = mod.model_lines(case) if can_drive else None
			except Exception as exc:
				crashed('model_lines', case, exc)
				ml = None
			if ml is None:
				spans.append(None)
				if can_drive:
					res.skipped += 1
			else:
				spans.append((len(lines), len(ml)))
				lines.extend(ml)
		outs = core.run_driver(lines) if lines else []
		if len(outs) != len(lines):
			raise RuntimeError('driver answered %d lines for %d' % (len(outs), len(lines)))
		for case, span in zip(batch, spans):
			res.evaluations += 1
			agree = None
			if span is not None:
				mo = outs[span[0]:span[0] + span[1]]
				try:
					io = mod.impl_lines(case)
				except Exception as exc:
					crashed('impl_lines', case, exc)
					io = ['raised']
				if any('skip' in l.split() or ';skip' in l for l in mo):
					# the model declares the input outside its domain (a stdlib routine it does not model)
					res.skipped += 1
					mo = io
				else:
					res.traces += 1
				agree = (mo == io)
				if not agree:
					for i, (a, b) in enumerate(zip(mo, io)):
						if a != b:
							res.mismatches.append({'op': lines[span[0] + i], 'model': a, 'impl': b, 'case': mod.describe(case)})
							break
					else:
						res.mismatches.append({'op': lines[span[0]], 'model': mo, 'impl': io, 'case': mod.describe(case)})
				key = mod.nontrivial(case, io)
				if key is not None:
					res.distinct.add(key)
				if len(res.samples) < 8 and (res.evaluations % 97 == 1):
					res.samples.append({'case': mod.describe(case), 'ops': lines[span[0]:span[0] + span[1]][:4], 'out': io[:4]})
			else:
				key = mod.nontrivial(case, None)
				if key is not None:
					res.distinct.add(key)
				if len(res.samples) < 8 and (res.evaluations % 97 == 1):
					res.samples.append({'case': mod.describe(case)})
			try:
				fail = mod.oracle(case)
			except Exception as exc:
				crashed('oracle', case, exc)
				fail = None
			if fail is not None:
				fid = fail.get('finding')
				if fid in known_ids and agree is not False:
					res.known_hits[fid] = res.known_hits.get(fid, 0) + 1
				else:
					if len(res.violations) < 50:
						v = dict(fail)
						v['case'] = mod.describe(case)
						if fid in known_ids:
							v['note'] = 'inside known class %s but the pinned model disagrees with the code here' % fid
						res.violations.append(v)
					else:
						res.violations.append(None) if False else None
			if hasattr(mod, 'tally'):
				mod.tally(case, res)
		del batch[:]

	for case in cases:
		batch.append(case)
		if len(batch) >= BATCH:
			flush()
	flush()


def replay(mod, path):
	with open(path) as f:
		data = json.load(f)
	bad = 0
	for v in data.get('violations', []):
		case = mod.undescribe(v['case'])
		fail = mod.oracle(case)
		print('replay %s -> %s' % (json.dumps(v['case'])[:200], 'STILL FAILS: %s' % fail if fail else 'passes now'))
		bad += bool(fail)
	for m in data.get('mismatches', []):
		case = mod.undescribe(m['case'])
		ml = mod.model_lines(case)
		mo = core.run_driver(ml)
		io = mod.impl_lines(case)
		print('replay corr %s -> %s' % (json.dumps(m['case'])[:200], 'agree' if mo == io else 'DIFFER model=%s impl=%s' % (mo, io)))
		bad += (mo != io)
	return 1 if bad else 0


if __name__ == '__main__':
	try:
		sys.exit(main())
	except SystemExit:
		raise
	except Exception:
		traceback.print_exc()
		sys.exit(2)
