# -*- coding: utf-8 -*-
"""An independent RFC 7230 message writer (requests and responses) and a mutator.  Nothing here uses httoop."""
from __future__ import annotations

# every method the registry of RFC 7231 / WebDAV / others knows that may carry a body, and tokens over the whole method alphabet
METHODS_BODY = [b'POST', b'PUT', b'PATCH', b'DELETE', b'M-POST', b'REPORT', b'SEARCH', b'PROPFIND', b'PROPPATCH', b'MKCOL', b'LOCK', b'OPTIONS', b'QUERY', b'ACL', b'BIND', b'MKCALENDAR',
	b"IT'S", b'X+Y', b'PRO*PFIND', b'A%B', b'A&B', b'A^B', b'post', b'Search', b'get', b'Trace', b'head', b'connect', b'Connect']
METHODS_NOBODY = [b'GET', b'HEAD', b'OPTIONS', b'TRACE', b'DELETE', b'M-SEARCH', b'X_Y.Z$', b'SEARCH', b'PROPFIND', b'COPY', b'MOVE', b'UNLOCK', b'PURGE', b"IT'S", b'X+Y', b'A*B', b'get']
NAMES = [b'X-A', b'Accept', b'accept-language', b'X-Custom_1', b'User-Agent', b'COOKIE', b'Via', b'x-b', b'If-None-Match', b'Cache-Control', b'Referer', b'X-Forwarded-For']
VALUES = [b'1', b'text/html', b'a, b', b'de;q=0.5', b'x=y', b'"quoted; value"', b'\xe9t\xe9', b'', b'a b  c', b'W/"etag"', b'no-cache', b'Mozilla/5.0 (X11; Linux)', b'=?x', b'1.2.3.4']


def randcase(rng, s):
	return bytes((c ^ 0x20) if (65 <= c <= 90 or 97 <= c <= 122) and rng.random() < 0.5 else c for c in s)


def ows(rng):
	return rng.choice([b'', b' ', b' ', b'  ', b'\t', b' \t'])


BIG = [False]      # set by a generator for a while: bodies around the sizes a buffer, a window or a limit would have


def gen_body(rng):
	n = rng.choice((0, 1, 2, 5, 17, 64, 300))
	if BIG[0]:
		n = rng.choice((4095, 4096, 4097, 8192, 16385, 32767, 32768, 65535, 65536, 65537, 100000, 262144))
		return (bytes(rng.randrange(256) for _ in range(251)) * (n // 251 + 1))[:n]
	mode = rng.randrange(3)
	if mode == 0:
		return bytes(rng.randrange(256) for _ in range(n))
	if mode == 1:
		return bytes(rng.choice(b'\r\n0123456789abcdef;: ') for _ in range(n))
	return bytes(rng.choice(b'hello world') for _ in range(n))


def chunked(rng, body, trailers):
	"""(wire octets of the chunked body, list of parts)"""
	out = []
	parts = []
	i = 0
	while i < len(body):
		k = rng.choice((1, 1, 2, 3, 7, 50, len(body))) if len(body) < 4000 else rng.choice((4096, 65535, 65536, 65537, 7, 1000, len(body)))
		part = body[i:i + k]
		i += len(part)
		parts.append(part)
		size = (b'%x' if rng.random() < 0.7 else b'%X') % len(part)
		if rng.random() < 0.1:
			size = b'0' * rng.randrange(1, 3) + size
		ext = rng.choice([b'', b'', b'', b';x', b';a=b', b' ;q="1"', b';n=1;m'])
		out.append(size + ext + b'\r\n' + part + b'\r\n')
	out.append(rng.choice([b'0', b'0', b'00', b'0;last']) + b'\r\n')
	for n, v in trailers:
		out.append(n + b': ' + v + b'\r\n')
	out.append(b'\r\n')
	return b''.join(out), parts


class Rec(object):
	"""what was written, field by field (the oracle compares deliveries with this)"""

	def __init__(self):
		self.method = self.target = self.version = None
		self.status = self.reason = None
		self.fields = []       # (name, value) as sent (value without OWS)
		self.trailers = []
		self.body = b''
		self.framing = None    # 'cl' | 'chunked' | 'none'
		self.wire = b''
		self.form = None       # request target form
		self.host = None


def gen_request(rng, last=False):
	r = Rec()
	r.version = rng.choice([(1, 1), (1, 1), (1, 1), (1, 0)])
	has_body = rng.random() < 0.5
	r.method = rng.choice(METHODS_BODY if has_body else METHODS_NOBODY)
	host = rng.choice([b'example.com', b'h', b'a.b.c:8080', b'127.0.0.1', b'[::1]', b'[2001:db8::1]:81', b'h:80', b'example.com.', b'Example.COM.:8080'])
	r.host = host
	form = rng.choice(['origin', 'origin', 'origin', 'absolute', 'asterisk' if not has_body else 'origin', 'authority' if not has_body else 'origin'])
	if form == 'origin':
		path = b''.join(b'/' + rng.choice([b'a', b'b', b'index.html', b'%7Euser', b'x%20y', b'caf%C3%A9', b';p', b'a=b', b'%2e%2ea', b'%e2%82%aC', b'%c3%Ab', b'x%2By', b'a+b']) for _ in range(rng.randrange(0, 4))) or b'/'
		if rng.random() < 0.2 and path != b'/':
			path += b'/'
		q = rng.choice([b'', b'', b'?a=1', b'?a=1&b=2', b'?q=x%20y', b'?k', b'?p=%2B1', b'?a=1%2b2&b=x+y', b'?k=%c3%Ab&l=%E2%82%aC', b'?a=1&b=2&a=3'])
		r.target = path + q
	elif form == 'absolute':
		r.target = b'http://' + host + rng.choice([b'/', b'/p', b'/p/q?x=1'])
	elif form == 'asterisk':
		r.method = b'OPTIONS'
		r.target = b'*'
	else:
		r.method = b'CONNECT'
		r.target = rng.choice([b'example.com:443', b'h:80', b'10.0.0.1:8443'])
	r.form = form
	fields = []
	if r.version == (1, 1) or rng.random() < 0.5:
		fields.append((b'Host', host))
	for _ in range(rng.randrange(0, 5)):
		fields.append((rng.choice(NAMES), rng.choice(VALUES)))
	others = [f for f in fields if f[0] != b'Host']
	if rng.random() < 0.3 and others:
		n = rng.choice(others)[0]
		fields.append((n, rng.choice(VALUES)))          # a repeated field
	rng.shuffle(fields)
	r.body = gen_body(rng) if has_body else b''
	wire_body = r.body
	if has_body and r.version == (1, 1) and rng.random() < 0.5:
		r.framing = 'chunked'
		if rng.random() < 0.4:
			r.trailers = [(rng.choice([b'X-Checksum', b'X-T2', b'Expires', b'Host-Checksum', b'Hostname', b'Trailer-Signature', b'Content-Length-Orig', b'Transfer-Encoding-Hint']), rng.choice([b'abc', b'1', b'x y', b''])) for _ in range(rng.randrange(1, 3))]
			names = []
			for n, _v in r.trailers:
				if n not in names:
					names.append(n)
			fields.append((b'Trailer', b', '.join(names)))
		fields.append((b'Transfer-Encoding', rng.choice([b'chunked', b'Chunked', b'CHUNKED'])))
		wire_body, _parts = chunked(rng, r.body, r.trailers)
	elif has_body:
		r.framing = 'cl'
		fields.append((b'Content-Length', b'%d' % len(r.body)))
	else:
		if rng.random() < 0.5:
			r.framing = 'cl'
			fields.append((b'Content-Length', b'0'))
		else:
			r.framing = 'none'
	r.fields = fields
	lines = [r.method + b' ' + r.target + b' HTTP/%d.%d' % r.version]
	for n, v in fields:
		lines.append(randcase(rng, n) + b':' + ows(rng) + v + ows(rng))
	r.wire = b'\r\n'.join(lines) + b'\r\n\r\n' + wire_body
	return r


REASONS = {200: b'OK', 201: b'Created', 204: b'No Content', 301: b'Moved Permanently', 304: b'Not Modified', 404: b'Not Found', 500: b'Internal Server Error', 418: b'I am a teapot', 599: b'X'}


def gen_response(rng):
	r = Rec()
	r.version = rng.choice([(1, 1), (1, 1), (1, 0)])
	r.status = rng.choice(list(REASONS))
	r.reason = REASONS[r.status]
	if rng.random() < 0.2:
		r.reason = rng.choice([b'', b'Not  Found', b'a\tb', b'Two Words', b'x'])      # an empty phrase, inner blank runs: the phrase is delivered as sent
	has_body = r.status not in (204, 304) and rng.random() < 0.6
	fields = []
	for _ in range(rng.randrange(0, 5)):
		fields.append((rng.choice([b'Server', b'Date', b'ETag', b'X-A', b'Set-Cookie', b'Vary', b'x-content', b'Cache-Control']), rng.choice(VALUES + [b'Sun, 06 Nov 1994 08:49:37 GMT', b'a=b; Path=/'])))
	r.body = gen_body(rng) if has_body else b''
	wire_body = r.body
	if has_body and r.version == (1, 1) and rng.random() < 0.5:
		r.framing = 'chunked'
		if rng.random() < 0.3:
			r.trailers = [(b'X-Trailer', rng.choice([b'abc', b'1', b'']))]
			fields.append((b'Trailer', b'X-Trailer'))
		fields.append((b'Transfer-Encoding', rng.choice([b'chunked', b'CHUNKED'])))
		wire_body, _parts = chunked(rng, r.body, r.trailers)
	else:
		r.framing = 'cl'
		fields.append((b'Content-Length', b'%d' % len(r.body)))
	r.fields = fields
	lines = [b'HTTP/%d.%d %d %s' % (r.version + (r.status, r.reason))]
	for n, v in fields:
		lines.append(randcase(rng, n) + b':' + ows(rng) + v + ows(rng))
	r.wire = b'\r\n'.join(lines) + b'\r\n\r\n' + wire_body
	return r


def gen_pipeline(rng, side, maxn=4):
	n = rng.randrange(1, maxn + 1)
	return [gen_request(rng) if side == 'server' else gen_response(rng) for _ in range(n)]


TOKENS = [b'\r', b'\n', b'\r\n', b' ', b'\t', b':', b';', b',', b'=', b'%', b'%ff', b'%c0%ae', b'%2e', b'..', b'/', b'//', b'?', b'#', b'@', b'\x00', b'\xff', b'\x80', b'=?', b'=?utf-8?b?aA==?=', b'"', b'\\',
	b'chunked', b'gzip', b'deflate', b'identity', b'Content-Length', b'Transfer-Encoding', b'Host', b'Trailer', b'Content-Encoding', b'HTTP/1.1', b'HTTP/1.0', b'HTTP/2.0', b'0', b'-1', b'+5', b'1_0', b'ffffffff', b'9' * 30, b'\r\n\r\n', b'0\r\n\r\n', b'[::1]', b'*', b'CONNECT', b'h2c', b'Upgrade', b'HTTP2-Settings',
	b'=?uu?q?abc?=', b'=?hex?q?ab?=', b'=?base64?b?aA==?=', b'=?zlib?q?x?=', b'=?rot13?q?x?=', b'=?utf-7?q?+AGE-?=', b'=?a\x00b?q?x?=', b'=?idna?q?x?=', b'=?unicode_escape?q?\\x?=', b'=?undefined?q?x?=', b'=?punycode?b?gA==?=',
	b"title*=a\x00b'en'x", b"title*=uu''x", b"title*=hex''zz", b"title*=utf-16''%ff", b"title*=undefined''x", b"; x*=idna''%ff", b'Content-Type: text/plain; charset*=', b'X: =?',
	# names of media types and codings, where a coding / a charset / a media type is expected
	b'application/json', b'multipart/form-data', b'multipart/byteranges', b'application/x-www-form-urlencoded', b'message/http', b'text/plain', b'application/gzip', b'application/zlib', b'x-gzip', b'GZIP', b'br', b'compress',
	# RFC 5987 charset tokens that are not text
	b"text/plain; title*=\xfctf-8'en'%e2%82%ac", b"a; t*=\xff''x", b"a; t*=utf-8'\xe9n'x", b"a; t*='", b"a; t*=''", b"a; t*='''"]


# numbers in a message that are not sizes (RFC 2231 section numbers, ...): if the work or the memory spent depends on their VALUE the interpreter
# may not survive, so these are parsed in a child interpreter with a memory limit only (the work-bound part of C03)
NUMERIC_BOMBS = [b'text/plain; charset*99999999999999999999=x', b'a; x*4294967296=y', b'a; x*0=a; x*18446744073709551616=b', b'a; x*-1=y', b'a; x*100000000=y; x*0=z',
	b'a; x*0*=utf-8\'\'a; x*999999999*=b', b'x; q=1e999999999', b'x; q=' + b'9' * 400, b'bytes=0-' + b'9' * 30, b'bytes=99999999999999999999-', b'0' * 3000 + b'1', b'1e9']


def mutate(rng, data):
	data = bytearray(data)
	for _ in range(rng.choice((1, 1, 1, 2, 3))):
		if not data:
			data = bytearray(rng.choice(TOKENS))
			continue
		k = rng.randrange(8)
		i = rng.randrange(len(data))
		if k == 0:
			del data[i:]
		elif k == 1:
			data[i] = rng.randrange(256)
		elif k == 2:
			data[i:i] = rng.choice(TOKENS)
		elif k == 3:
			j = min(len(data), i + rng.randrange(1, 8))
			del data[i:j]
		elif k == 4:
			j = min(len(data), i + rng.randrange(1, 20))
			data[i:i] = data[i:j]
		elif k == 5:
			data[i:i + 1] = rng.choice(TOKENS)
		elif k == 6:
			# delete a CR: bare LF line end
			p = data.find(b'\r', i)
			if p >= 0:
				del data[p]
		else:
			j = rng.randrange(len(data))
			data[i], data[j] = data[j], data[i]
	return bytes(data)
