# -*- coding: utf-8 -*-
"""T1 — regenerate lean/Httoop/Gen/Tables.lean from /repo's current source.

Everything the model takes as *data* (constant tables, regex single-octet acceptance tables, format
strings, registries, complete single-octet behaviour probes) is read from the imported modules and
the AST of the current working tree and written as Lean definitions.  Theorems that depend on them
are re-checked by `lake build` against what the source says now.
"""
from __future__ import annotations

import ast
import os
import sys

import core

OUT = os.path.join(core.LEAN, 'Httoop', 'Gen', 'Tables.lean')


def lbytes(b):
	return '[' + ', '.join(str(x) for x in bytes(b)) + ']'


def lstr(s):
	out = []
	for ch in s:
		if ch == '"' or ch == '\\':
			out.append('\\' + ch)
		elif ch == '\n':
			out.append('\\n')
		elif ch == '\r':
			out.append('\\r')
		elif ch == '\t':
			out.append('\\t')
		elif 32 <= ord(ch) < 127:
			out.append(ch)
		else:
			out.append('\\u{%x}' % ord(ch))
	return '"' + ''.join(out) + '"'


def source(rel):
	with open(os.path.join(core.REPO, rel)) as f:
		return f.read()


def func_constants(rel, qualname):
	"""all str/bytes constants inside the function `Class.func` of file rel, in source order"""
	tree = ast.parse(source(rel))
	parts = qualname.split('.')
	node = tree
	for p in parts:
		for child in ast.walk(node):
			if isinstance(child, (ast.ClassDef, ast.FunctionDef)) and child.name == p and child is not node:
				node = child
				break
		else:
			raise LookupError('%s not found in %s' % (qualname, rel))
	consts = []
	for n in ast.walk(node):
		if isinstance(n, ast.Constant) and isinstance(n.value, (bytes, str)):
			consts.append((n.lineno, n.col_offset, n.value))
	consts.sort(key=lambda x: (x[0], x[1]))
	return [c[2] for c in consts]


SECTIONS = []


def section(f):
	SECTIONS.append(f)
	return f


@section
def percent():
	from httoop.uri.percent_encoding import Percent
	from httoop.codecs.application.x_www_form_urlencoded import FormURLEncoded
	from httoop.uri.query_string import QueryString
	o = ['/-! percent_encoding.py -/']
	for name in ('GEN_DELIMS', 'SUB_DELIMS', 'RESERVED', 'UNRESERVED', 'SCHEME', 'PCHAR', 'USERINFO', 'PATH', 'QUERY', 'FRAGMENT'):
		o.append('def pct%s : List UInt8 := %s' % (name, lbytes(getattr(Percent, name))))
	o.append('def formUNQUOTED : List UInt8 := %s' % lbytes(FormURLEncoded.UNQUOTED))
	o.append('def queryUNQUOTED : List UInt8 := %s' % lbytes(QueryString.UNQUOTED))
	# HEX_MAP: key octets -> value octet
	items = sorted((bytes(k), bytes(v)) for k, v in Percent.HEX_MAP.items())
	if any(len(k) != 2 or len(v) != 1 for k, v in items):
		raise ValueError('HEX_MAP is no longer a map from two octets to one octet')
	o.append('def pctHexMap : List (UInt8 × UInt8 × UInt8) := [' + ', '.join('(%d, %d, %d)' % (k[0], k[1], v[0]) for k, v in items) + ']')
	# the format constant(s) of quote()
	fm = [c for c in func_constants('httoop/uri/percent_encoding.py', 'Percent.quote') if isinstance(c, bytes)]
	o.append('def pctQuoteConstants : List (List UInt8) := [' + ', '.join(lbytes(c) for c in fm) + ']')
	# complete single-octet behaviour probes: quote with empty safe set and with UNRESERVED
	o.append('def pctQuoteProbeNone : List (List UInt8) := [' + ', '.join(lbytes(Percent.quote(bytes([b]), b'')) for b in range(256)) + ']')
	o.append('def pctQuoteProbeUnreserved : List (List UInt8) := [' + ', '.join(lbytes(Percent.quote(bytes([b]))) for b in range(256)) + ']')
	return o


@section
def uri():
	from httoop.uri import URI
	import httoop.uri.uri as U
	o = ['/-! uri.py -/']
	items = sorted((bytes(k), int(v.PORT)) for k, v in URI.SCHEMES.items())
	o.append('def uriSchemes : List (List UInt8 × Nat) := [' + ', '.join('(%s, %d)' % (lbytes(k), p) for k, p in items) + ']')
	o.append('def uriBasePort : Option Nat := %s' % ('none' if URI.PORT is None else 'some %d' % URI.PORT))
	consts = func_constants('httoop/uri/uri.py', 'URI.parse')
	printable = [c for c in consts if isinstance(c, bytes) and len(c) > 30]
	schemechars = [c for c in consts if isinstance(c, str) and c.startswith('abcdefghijklmnopqrstuvwxyz') and ' ' not in c]
	o.append('def uriParsePrintable : List (List UInt8) := [' + ', '.join(lbytes(c) for c in printable) + ']')
	o.append('def uriParseSchemeChars : List (List UInt8) := [' + ', '.join(lbytes(c.encode()) for c in schemechars) + ']')
	return o


@section
def startline():
	from httoop.messages.method import Method
	from httoop.messages.protocol import Protocol
	from httoop.status import Status
	from httoop.version import ServerProtocol
	o = ['/-! method.py / protocol.py / status.py -/']
	def pat(r):
		return '(%s, %d)' % (lbytes(r.pattern), r.flags)
	o.append('def methodRe : List UInt8 × Nat := %s' % pat(Method.METHOD_RE))
	o.append('def statusRe : List UInt8 × Nat := %s' % pat(Status.STATUS_RE))
	o.append('def protocolRe : List UInt8 × Nat := %s' % pat(Protocol.PROTOCOL_RE))
	import re
	o.append('def methodReExpected : List UInt8 × Nat := (%s, %d)' % (lbytes(b'^[A-Z0-9$-_.]{1,20}\\Z'), re.IGNORECASE))
	o.append('def statusReExpected : List UInt8 × Nat := (%s, 0)' % lbytes(b'^([1-5]\\d{2})(?:\\s+([\\s\\x21-\\x7e]*))?\\Z'))
	o.append('def protocolReExpected : List UInt8 × Nat := (%s, 0)' % lbytes(b'^(HTTP)/(\\d+)\\.(\\d+)\\Z'))
	o.append('def methodCharTable : List Bool := [' + ', '.join('true' if Method.METHOD_RE.match(bytes([b])) else 'false' for b in range(256)) + ']')
	o.append('def statusReasonCharTable : List Bool := [' + ', '.join('true' if Status.STATUS_RE.match(b'200 ' + bytes([b])) else 'false' for b in range(256)) + ']')
	o.append('def protocolDigitTable : List Bool := [' + ', '.join('true' if Protocol.PROTOCOL_RE.match(b'HTTP/1.' + bytes([b])) else 'false' for b in range(256)) + ']')
	o.append('def serverProtocol : Nat × Nat := (%d, %d)' % tuple(ServerProtocol))
	# size limits the state machines carry by default (the model has none): every MAX_* attribute that is a finite number
	from httoop.server import ServerStateMachine
	from httoop.client import ClientStateMachine
	limits = []
	for cls, args in ((ServerStateMachine, ('http', 'localhost', 80)), (ClientStateMachine, ())):
		sm = cls(*args)
		for name in sorted(dir(sm)):
			if name.startswith('MAX_'):
				v = getattr(sm, name)
				if isinstance(v, (int, float)) and v == v and v not in (float('inf'), float('-inf')):
					limits.append('(%s, %d)' % (lbytes(('%s.%s' % (cls.__name__, name)).encode()), int(v)))
	o.append('def stateMachineLimits : List (List UInt8 × Nat) := [' + ', '.join(limits) + ']')
	return o


@section
def headers():
	from httoop.header.element import HEADER, HeaderElement
	from httoop.header.headers import Headers
	from httoop.header.messaging import Trailer
	o = ['/-! header/headers.py, header/element.py: registry and regular expressions -/']
	rows = []
	for key, cls in sorted(dict.items(HEADER)):
		sep = cls.join([b'\x00', b'\x01'])
		assert sep.startswith(b'\x00') and sep.endswith(b'\x01')
		rows.append('(%s, %s, %s, %s, %s)' % (lbytes(key.encode('ascii')), lbytes(cls.__name__.encode('ascii')), 'true' if cls.list_element else 'false', lbytes(cls.priority or b''), lbytes(sep[1:-1])))
	o.append('def headerRegistry : List (List UInt8 × List UInt8 × Bool × List UInt8 × List UInt8) := [' + ', '.join(rows) + ']')
	o.append('def headerDefaultJoin : List UInt8 := %s' % lbytes(HeaderElement.join([b'', b''])))
	o.append('def headerNameReTable : List Bool := [' + ', '.join('true' if Headers.HEADER_RE.search(bytes([b])) else 'false' for b in range(256)) + ']')
	o.append('def tspecialsTable : List Bool := [' + ', '.join('true' if HeaderElement.RE_TSPECIALS.search(bytes([b])) else 'false' for b in range(256)) + ']')
	o.append('def reSplit : List UInt8 := %s' % lbytes(HeaderElement.RE_SPLIT.pattern))
	o.append('def reParams : List UInt8 := %s' % lbytes(HeaderElement.RE_PARAMS.pattern))
	from httoop.header.messaging import Host
	# Host: the character class of RE_HOSTNAME over the 256 Latin-1 characters, and the pattern of HOSTPORT
	o.append('def hostnameCharTable : List Bool := [' + ', '.join('true' if Host.RE_HOSTNAME.match(chr(b)) else 'false' for b in range(256)) + ']')
	o.append('def hostnameTwoChars : Bool := %s' % ('true' if all(bool(Host.RE_HOSTNAME.match(a + b)) == (bool(Host.RE_HOSTNAME.match(a)) and bool(Host.RE_HOSTNAME.match(b))) for a in map(chr, range(256)) for b in u'a?# \x00\xff') else 'false'))
	o.append('def hostportRe : List UInt8 := %s' % lbytes(Host.HOSTPORT.pattern.encode('latin-1')))
	o.append('def trailerForbidden : List (List UInt8) := [' + ', '.join(lbytes(x.encode()) for x in Trailer.forbidden_headers) + ']')
	return o


def generate():
	body = ['/- GENERATED by harness/extract.py from %s — do not edit. -/' % 'the current /repo working tree', 'namespace Httoop.Gen', '']
	for sec in SECTIONS:
		body.extend(sec())
		body.append('')
	body.append('end Httoop.Gen')
	text = '\n'.join(body) + '\n'
	os.makedirs(os.path.dirname(OUT), exist_ok=True)
	with core.Lock('build'):
		return core.write_if_changed(OUT, text)


if __name__ == '__main__':
	print('changed' if generate() else 'unchanged')
