# -*- coding: utf-8 -*-
"""Runs httoop.date.Date on a batch of requests under the TZ / LC_TIME of this process (set by the parent
through the environment).  stdin: one request per line; stdout: one answer per line."""
import os
import sys
import time
import locale

sys.dont_write_bytecode = True
sys.path.insert(0, os.environ.get('HTTOOP_REPO', '/repo'))
time.tzset()
try:
	locale.setlocale(locale.LC_TIME, os.environ.get('LC_TIME', 'C'))
except locale.Error:
	pass
from httoop.date import Date  # noqa: E402


def name(e):
	return type(e).__name__


for line in sys.stdin:
	parts = line.split()
	try:
		if parts[0] == 'now':
			# Date() without argument is this moment (as a UTC instant, whatever the zone of the process), and so is the Date of a prepared response
			d = int(Date())
			off = d - int(time.time())
			from httoop import Request, Response
			from httoop.semantic.response import ComposedResponse
			resp = Response(200)
			ComposedResponse(resp, Request('GET', '/')).prepare()
			off2 = int(Date(resp.headers['Date'])) - int(time.time())
			print('ok' if abs(off) <= 3 and abs(off2) <= 3 else 'off:%d:%d' % (round(off / 60.0), round(off2 / 60.0)))
		elif parts[0] == 'c':
			print(bytes(Date(int(parts[1]))).hex())
		elif parts[0] == 'p':
			print('ok %d' % int(Date(bytes.fromhex(parts[1]))))
		elif parts[0] == 'cmp':
			a, b = Date(int(parts[1])), Date(int(parts[2]))
			ta = Date(bytes(a))
			out = '%d %d %d %d %d' % (a < b, a > b, a == b, ta < b, ta == b)
			# the other operand as an instant, as text and as octets in each of the three forms
			ops = [int(parts[2])]
			for h in parts[3:]:
				if h != '-':
					ops.append(bytes.fromhex(h))
					ops.append(bytes.fromhex(h).decode('ascii'))
			for x in ops:
				out += ' %d%d%d%d%d%d' % (a < x, a > x, a == x, a != x, a <= x, a >= x)
			# the same date compared again and again with operands that are dropped at once (texts built on the spot, floats)
			tmp = []
			tt = [min(253402300799, max(0, int(parts[1]) + d)) for d in (-1, 0, 1, 0, -1, 1, 0)]
			kept = [bytes(Date(t)) for t in tt]
			# each operand exists only for its comparison; the next one (another instant) is likely to be built at the same address
			lt = ['%d' % (a < k.decode('ascii')) for k in kept]
			eq = ['%d' % (a == k.decode('ascii')) for k in kept]
			gt = ['%d' % (a > float(t) + 0.0) for t in tt]
			for x, y, z in zip(lt, eq, gt):
				tmp.extend((x, y, z))
			out += ' ' + ''.join(tmp)
			# the other views of the instant: datetime and time struct, and dates built from them
			dt, st = a.datetime, a.gmtime
			out += ' %s %d %d %s %d' % (dt.isoformat(), int(Date(dt)), a == dt, '-'.join(str(v) for v in tuple(st)[:6]), int(Date(st)))
			bd, bs = b.datetime, b.gmtime
			out += ' %d%d%d %d%d%d' % (a < bd, a > bd, a == bd, a < bs, a > bs, a == bs)
			# the dates carried by the conditional header fields
			from httoop import Headers
			ta_, tb_ = bytes(a).decode('ascii'), bytes(b).decode('ascii')
			for n1, n2 in (('Last-Modified', 'If-Modified-Since'), ('If-Modified-Since', 'If-Unmodified-Since'), ('If-Unmodified-Since', 'Last-Modified')):
				h = Headers()
				h.parse(('%s: %s\r\n%s: %s' % (n1, ta_, n2, tb_)).encode('ascii'))
				x, y = h.element(n1), h.element(n2)
				for other in (y, b, tb_):
					out += ' %d%d%d%d' % (x == other, x != other, x < other, x > other)
			print(out)
		elif parts[0] == 'pc':
			# the serialisation of a date built from each text: the canonical form of its instant, whatever the text looked like
			out = []
			for h in parts[1:]:
				try:
					out.append(bytes(Date(bytes.fromhex(h))).hex())
				except Exception as e:
					out.append('err:%s' % name(e))
			print(' '.join(out))
		elif parts[0] == 'a':
			# the instant handed over as a time-zone-aware datetime (several offsets) and as a naive UTC one: text and instant
			import datetime as _dt
			t = int(parts[1])
			out = []
			for off in (0, 120, -330, 765, 840, -720):
				dt = _dt.datetime(1970, 1, 1, tzinfo=_dt.timezone.utc) + _dt.timedelta(seconds=t)
				dt = dt.astimezone(_dt.timezone(_dt.timedelta(minutes=off)))
				d = Date(dt)
				out.append('%s:%d:%d' % (bytes(d).hex(), int(d), d == t))
			n = _dt.datetime(1970, 1, 1) + _dt.timedelta(seconds=t)
			d = Date(n)
			out.append('%s:%d:%d' % (bytes(d).hex(), int(d), d == t))
			print(' '.join(out))
		elif parts[0] == 'h':
			# the text as the value of each date-carrying header field: the instant the element stands for
			from httoop import Headers
			text = bytes.fromhex(parts[1])
			out = []
			for n in ('Last-Modified', 'If-Modified-Since', 'If-Unmodified-Since'):
				try:
					h = Headers()
					h.parse(n.encode() + b': ' + text)
					out.append('%d' % int(h.element(n)))
				except Exception as e:
					out.append('err:%s' % name(e))
			# ... and as the expires attribute of two Set-Cookie fields (the list is split at commas, the date has one)
			try:
				h = Headers()
				h.parse(b'Set-Cookie: a=b; expires=' + text + b'; path=/\r\nSet-Cookie: c=d; expires=' + text)
				es = h.elements('Set-Cookie')
				out.append('%d:%s' % (len(es), ','.join('%d' % int(e.expires) if e.expires is not None else 'None' for e in es)))
			except Exception as e:
				out.append('err:%s' % name(e))
			print(' '.join(out))
		else:
			print('bad-op')
	except Exception as e:
		print('err %s' % name(e))
