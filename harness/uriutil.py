# -*- coding: utf-8 -*-
"""Adapters between httoop URI objects and the canonical lines of the model driver."""
from core import hx, exc_name


def render_uri(u):
	from httoop.uri.uri import URI
	cls = type(u)
	name = 'URI' if cls is URI else hx(cls.SCHEME.lower())
	def t(x):
		return hx((x or u'').encode('utf-8'))
	port = u._port
	return 'ok %s %s %s %s %s %s %s %s %s' % (name, t(u.scheme), t(u.username), t(u.password), t(u.host), 'None' if not port else int(port), t(u.path), t(u.query_string), t(u.fragment))


def guarded(f):
	try:
		return f()
	except Exception as e:
		return 'err ' + exc_name(e)
