# -*- coding: utf-8 -*-
"""Shared machinery of the httoop checks.

A check (``vcheck.py Cxx``) is: T1 extraction -> ``lake build`` of the property's theorems ->
axiom audit -> known-finding replay -> T2 correspondence (model driver vs. real code) -> property
oracle on the real code -> verdict + evidence.  See DESIGN.md section 2.5.
"""
from __future__ import annotations

import fcntl
import hashlib
import json
import os
import random
import re
import subprocess
import sys
import time
import traceback

VERIF = os.path.dirname(os.path.dirname(os.path.abspath(__file__)))
LEAN = os.path.join(VERIF, 'lean')
REPO = os.environ.get('HTTOOP_REPO', '/repo')
DRIVER = os.path.join(LEAN, '.lake', 'build', 'bin', 'driver')
STD_AXIOMS = {'propext', 'Classical.choice', 'Quot.sound'}
FORBIDDEN = re.compile(r'\b(sorry|admit|native_decide|bv_decide|implemented_by|unsafe)\b|^\s*axiom\s|maxHeartbeats\s+0\b')

sys.dont_write_bytecode = True
if REPO not in sys.path:
	sys.path.insert(0, REPO)


def hx(b):
	"""hex transport of an octet string ('-' = empty)."""
	b = bytes(b)
	return b.hex() if b else '-'


def unhx(s):
	return b'' if s == '-' else bytes.fromhex(s)


def exc_name(e):
	"""Canonical name of a Python exception for comparison with the model's PyExc."""
	from httoop.exceptions import InvalidLine, InvalidHeader, InvalidURI, InvalidDate, InvalidBody, DecodeError, EncodeError
	from httoop.status import StatusException
	if isinstance(e, StatusException):
		return 'status:%d' % int(e.code)
	for cls, name in ((InvalidLine, 'InvalidLine'), (InvalidHeader, 'InvalidHeader'), (InvalidURI, 'InvalidURI'), (InvalidDate, 'InvalidDate'), (InvalidBody, 'InvalidBody'), (DecodeError, 'DecodeError'), (EncodeError, 'EncodeError')):
		if isinstance(e, cls):
			return name
	return 'escape:%s' % type(e).__name__


class Lock(object):
	def __init__(self, name):
		self.path = os.path.join(LEAN, '.' + name + '.lock')

	def __enter__(self):
		self.fd = open(self.path, 'w')
		fcntl.flock(self.fd, fcntl.LOCK_EX)

	def __exit__(self, *a):
		fcntl.flock(self.fd, fcntl.LOCK_UN)
		self.fd.close()


def write_if_changed(path, text):
	try:
		with open(path) as f:
			if f.read() == text:
				return False
	except IOError:
		pass
	tmp = path + '.tmp%d' % os.getpid()
	with open(tmp, 'w') as f:
		f.write(text)
	os.rename(tmp, path)
	return True


def run(cmd, cwd=None, timeout=3600, input=None):
	p = subprocess.run(cmd, cwd=cwd, stdout=subprocess.PIPE, stderr=subprocess.STDOUT, timeout=timeout, input=input)
	return p.returncode, p.stdout.decode('utf-8', 'replace')


def lake_build(targets, clean=False):
	"""Build the given lake targets; returns (ok, log, failing declaration names)."""
	with Lock('build'):
		if clean:
			run(['lake', 'clean'], cwd=LEAN)
		rc, out = run(['lake', 'build'] + list(targets), cwd=LEAN, timeout=7200)
	failing = []
	if rc != 0:
		# error: Httoop/Props/C13.lean:12:8: ...   -> map positions to enclosing theorem names
		for m in re.finditer(r'error: (\S+\.lean):(\d+):(\d+)', out):
			failing.append(enclosing_decl(os.path.join(LEAN, m.group(1)), int(m.group(2))))
	return rc == 0, out, sorted(set(x for x in failing if x))


def enclosing_decl(path, line):
	try:
		with open(path) as f:
			lines = f.read().split('\n')
	except IOError:
		return None
	name = None
	for i, l in enumerate(lines[:line]):
		m = re.match(r'\s*(?:private\s+|protected\s+)?(?:theorem|lemma|def|example|instance|abbrev)\s+(\S+)?', l)
		if m:
			name = '%s:%s' % (os.path.relpath(path, LEAN), m.group(1) or 'example@%d' % (i + 1))
	return name or '%s:%d' % (os.path.relpath(path, LEAN), line)


def lean_sources():
	for root, _dirs, files in os.walk(LEAN):
		if '.lake' in root:
			continue
		for f in files:
			if f.endswith('.lean'):
				yield os.path.join(root, f)


def strip_comments(text):
	text = re.sub(r'/-.*?-/', lambda m: '\n' * m.group(0).count('\n'), text, flags=re.S)
	return re.sub(r'--.*', '', text)


def grep_forbidden():
	hits = []
	for path in lean_sources():
		with open(path) as f:
			text = strip_comments(f.read())
		for i, l in enumerate(text.split('\n')):
			if FORBIDDEN.search(l):
				hits.append('%s:%d: %s' % (os.path.relpath(path, LEAN), i + 1, l.strip()))
	return hits


def audit(modules, theorems):
	"""#print axioms for every theorem; returns {theorem: [axioms]} and the theorems that are missing."""
	src = ''.join('import %s\n' % m for m in modules) + ''.join('#print axioms %s\n' % t for t in theorems)
	h = hashlib.sha1(src.encode()).hexdigest()[:12]
	path = os.path.join(LEAN, '.lake', 'audit_%s_%d.lean' % (h, os.getpid()))
	os.makedirs(os.path.dirname(path), exist_ok=True)
	with open(path, 'w') as f:
		f.write(src)
	try:
		rc, out = run(['lake', 'env', 'lean', path], cwd=LEAN, timeout=1800)
	finally:
		os.unlink(path)
	res = {}
	for m in re.finditer(r"'([^']+)' depends on axioms: \[([^\]]*)\]", out, flags=re.S):
		res[m.group(1)] = [a.strip() for a in m.group(2).replace('\n', ' ').split(',') if a.strip()]
	for m in re.finditer(r"'([^']+)' does not depend on any axioms", out):
		res[m.group(1)] = []
	missing = [t for t in theorems if t not in res]
	return res, missing, out


def run_driver(lines, timeout=3600):
	"""Feed protocol lines to the compiled model driver; returns the list of output lines."""
	data = ('\n'.join(lines) + '\n').encode('ascii')
	p = subprocess.run([DRIVER], input=data, stdout=subprocess.PIPE, stderr=subprocess.PIPE, timeout=timeout)
	if p.returncode != 0:
		raise RuntimeError('driver failed rc=%s: %s' % (p.returncode, p.stderr[-2000:]))
	out = p.stdout.decode('ascii', 'replace').split('\n')
	if out and out[-1] == '':
		out.pop()
	return out


def load_known():
	with open(os.path.join(VERIF, 'known_findings.json')) as f:
		return json.load(f)


class Result(object):
	"""What one run of a check found; turned into the verdict and the evidence file."""

	def __init__(self, pid, tier, seed):
		self.pid, self.tier, self.seed = pid, tier, seed
		self.t0 = time.time()
		self.obligations = []       # theorem names
		self.discharged = []        # theorem names built + audited
		self.broken = []            # obligations / correspondence ops that no longer check
		self.mismatches = []        # (line, model, impl)
		self.violations = []        # dicts: input + observed/expected (not covered by a known finding)
		self.known_hits = {}        # finding id -> count of generated inputs inside that class
		self.known_printed = []     # KNOWN-FINDING lines
		self.evaluations = 0
		self.traces = 0
		self.distinct = set()
		self.samples = []
		self.hist = {}
		self.skipped = 0
		self.notes = []
		self.axioms = {}
		self.exhaustive = False

	def count(self, key, n=1):
		self.hist[key] = self.hist.get(key, 0) + n


def write_evidence(res, mod, checker_cmd):
	ev = {
		'property_id': res.pid,
		'tier': res.tier,
		'seed': res.seed,
		'level': 'proof',
		'coverage': {
			'obligations': len(res.obligations),
			'discharged': len(res.discharged),
			'checker_cmd': checker_cmd,
			'trusted_base': list(getattr(mod, 'TRUSTED', [])) + [
				'Lean 4.33.0 kernel; axioms per theorem as listed under "axioms" (subset of propext, Classical.choice, Quot.sound; no native_decide, no bv_decide, no own axioms)',
				'harness/extract.py (T1 table regeneration) and the correspondence harness (T2): the model is tested against the code, not verified against it',
			],
			'theorems': res.obligations,
			'axioms': res.axioms,
			'broken': res.broken,
			'evaluations': res.evaluations,
			'traces_validated_against_impl': res.traces,
			'distinct_nontrivial': len(res.distinct),
			'rule': getattr(mod, 'RULE', ''),
			'samples': res.samples[:8],
			'histogram': dict(sorted(res.hist.items())),
			'skipped_out_of_model_domain': res.skipped,
			'correspondence_mismatches': len(res.mismatches),
			'known_findings_printed': res.known_printed,
			'known_class_inputs': res.known_hits,
			'exhaustive': bool(res.exhaustive),
			'notes': res.notes,
		},
		'assumptions': list(getattr(mod, 'ASSUMPTIONS', [])),
		'wall_s': round(time.time() - res.t0, 3),
		'violations': len(res.violations) + (1 if (res.broken or res.mismatches) and not res.violations else 0),
	}
	os.makedirs(os.path.join(VERIF, 'evidence'), exist_ok=True)
	path = os.path.join(VERIF, 'evidence', '%s.json' % res.pid)
	with open(path + '.tmp', 'w') as f:
		json.dump(ev, f, indent=1, sort_keys=True, default=repr)
	os.rename(path + '.tmp', path)
	return path


def write_replay(res, payload):
	os.makedirs(os.path.join(VERIF, 'replays'), exist_ok=True)
	rel = os.path.join('replays', '%s-%s-%d.json' % (res.pid, res.tier, res.seed))
	with open(os.path.join(VERIF, rel), 'w') as f:
		json.dump(payload, f, indent=1, sort_keys=True, default=repr)
	return rel
