# -*- coding: utf-8 -*-
"""C14 — content codings and media-type codecs are lossless."""
from __future__ import annotations

import io
import json
import zlib

from core import hx, exc_name

ID = 'C14'
MODULES = ['Httoop.Props.C14', 'Httoop.Props.C13Form']
THEOREMS = [
	'Httoop.Codecs.compress_roundtrip',
	'Httoop.Codecs.wire_coded_roundtrip',
	'Httoop.Codecs.wire_plain',
	'Httoop.chunkSize_hexLower',
	'Httoop.Codecs.dechunk_chunkFrame',
	'Httoop.Codecs.mpDecode_mpEncode',
	'Httoop.Codecs.mpPart_roundtrip',
	'Httoop.Codecs.plain_roundtrip_utf8',
	'Httoop.Codecs.plain_roundtrip_latin1',
	'Httoop.Codecs.plain_roundtrip_ascii',
	'Httoop.Form.form_roundtrip_partial',
	'Httoop.Form.form_text_roundtrip',
	'Httoop.Codecs.c14_multipart_witness',
	'Httoop.Codecs.c14_boundary_witness',
]
TRUSTED = [
	'zlib (gzip / deflate) is a parameter of the theorems (any enc/dec with dec (enc x) = x); that the stdlib codecs satisfy the law is checked on every generated input by the oracle, not proved',
	'json.dumps / json.loads and the codecs behind str.encode for charsets other than UTF-8, ISO-8859-1, ASCII are stdlib: the JSON and message/http codecs are decided by the oracle on the real code (round trip), the model covers the octet-level glue',
	'header blocks of multipart parts are composed and parsed by the Headers model of C08 (tied there)',
]
ASSUMPTIONS = ['multipart: the delimiter "--boundary" does not occur in a part (the property\'s own proviso); Multipart.decode of data without any delimiter raises IndexError, not DecodeError (malformed input, outside the property; the model reproduces it)']
RULE = ('octet strings: every single octet value, all-equal and incompressible blocks, lengths around 0/1/4095/4096/4097/8192/10000, as bytes, list of pieces, generator, BytesIO; gzip and deflate through Body.compress/decompress, through composer + state machine (Content-Length and chunked), and coded messages from an independent sender (hand-written RFC 1952 members, one or several, optional header fields; zlib streams at all levels/window sizes); '
	'multipart: 0-4 parts with header sets and binary contents, boundaries over the valid alphabet incl. dashes, contents that contain near-misses of the delimiter; mutated multipart data for the decoder; text/plain over UTF-8 / ISO-8859-1 / ASCII incl. unencodable text; JSON values incl. non-ASCII and nested; form data (pairs over letters, "+", space, "&", "=", "%", ";" and non-ASCII text, code points >= U+0010 - below that is C13\'s F1) through the codec and through Body.encode/decode; '
	'message/http for simple requests and responses with 0-3 header fields and bodies of random octets or of line breaks, empty lines and header-like lines; non-trivial = a successful round trip; distinct by encoded octets')


def _fix_gzip_time():
	import gzip

	class T(object):
		@staticmethod
		def time():
			return 0
	gzip.time = T


def gzipmod_compress(data):
	import gzip
	return gzip.compress(data, mtime=0)


def blocks(rng, tier):
	yield b''
	for b in range(256):
		yield bytes([b])
	for n in (2, 3, 100, 4095, 4096, 4097, 8191, 8192, 8193, 10000):
		yield bytes(rng.randrange(256) for _ in range(n))
		yield b'a' * n
	# around the deflate window (32 KiB), the 16-bit sizes of stored blocks and gzip fields, and well beyond
	for n in (32767, 32768, 32769, 65535, 65536, 65537) + ((300000,) if tier == 'thorough' else ()):
		yield (bytes(rng.randrange(256) for _ in range(509)) * (n // 509 + 1))[:n]
		yield (b'a' * 999 + b'b') * (n // 1000) + b'c' * (n % 1000)
	yield bytes(range(256)) * 20
	# content that is itself a coded stream, or only begins like one (a .gz / .zz file served with a content coding on top)
	yield gzipmod_compress(b'an inner gzip stream ' * 20)
	yield zlib.compress(b'an inner zlib stream ' * 20)
	yield b'\x1f\x8b\x08' + b'not a gzip stream at all'
	yield b'\x1f\x8b'
	yield b'\x78\x9c' + b'not a zlib stream'


def pieces_of(rng, data):
	k = rng.randrange(5)
	if k == 0 or not data:
		return ('bytes', (data,))
	if k == 1:
		cuts = sorted({rng.randrange(len(data) + 1) for _ in range(rng.choice((1, 2, 5)))})
		ps, prev = [], 0
		for c in cuts + [len(data)]:
			ps.append(data[prev:c])
			prev = c
		return ('list', tuple(ps))
	if k == 2:
		h = len(data) // 2
		return ('gen', (data[:h], b'', data[h:]))
	if k == 3:
		return ('bytesio', (data,))
	return ('list', (data[:1], data[1:]))


BOUNDARY_CHARS = b"abcdefghijklmnopqrstuvwxyzABCDEFGHIJKLMNOPQRSTUVWXYZ0123456789'()+_,-./:=?"


def boundary(rng):
	k = rng.randrange(6)
	if k == 0:
		return rng.choice((b'-', b'--', b'x', b'-x', b'x-', b'a--', b'b'))
	return bytes(rng.choice(BOUNDARY_CHARS) for _ in range(rng.choice((1, 3, 8, 30, 70))))


def part(rng, b):
	hs = []
	for _ in range(rng.choice((0, 1, 1, 2, 3))):
		hs.append((rng.choice(('Content-Type', 'Content-Disposition', 'X-Part', 'Content-ID', 'Content-Transfer-Encoding')), rng.choice(('text/plain', 'application/octet-stream', 'form-data; name="f"; filename="a.bin"', 'binary', '<1@x>', 'v'))))
	if rng.random() < 0.12:
		hs.append(('Content-Encoding', rng.choice(('gzip', 'deflate', 'identity'))))      # a part labelled with a coding: its content is kept as it is
	k = rng.randrange(8)
	if k == 7:
		c = gzipmod_compress(b'part content ' * rng.randrange(1, 30))
	elif k == 0:
		c = b''
	elif k == 1:
		c = bytes(rng.randrange(256) for _ in range(rng.choice((1, 10, 200))))
	elif k == 2:
		c = b'--' + b[:-1] if b else b'--'          # near miss of the delimiter
	elif k == 3:
		c = b'-' + b + b'\r\n--'
	elif k == 4:
		c = b'\r\n\r\nline\r\n'
	elif k == 5:
		c = b'x\r\n-' + b'-' * rng.randrange(3)
	else:
		c = b'text ' * rng.randrange(5)
	return (tuple(dict(hs).items()), c)


TEXTS = [u'', u'plain ascii', u'caf\xe9', u'€ uro', u'\U0001f600', u'\xff\x00', u'a\x80b', u'퟿', u'line\r\nline', u'\ufeff', u'\ufeffwith a byte order mark', u'\ufeff\ufeffx', u'x\ufeff']


def jvalue(rng, depth=0):
	k = rng.randrange(9 if depth < 3 else 6)
	if k == 0:
		return None
	if k == 1:
		return rng.choice((True, False))
	if k == 2:
		return rng.randrange(-10 ** 12, 10 ** 12)
	if k == 3:
		return rng.choice((0.5, -1.25, 1e10, 3.0))
	if k in (4, 5):
		return rng.choice(TEXTS[:-1]) + u''.join(chr(rng.choice((0x41, 0xe9, 0x20ac, 0x1f600, 0x22, 0x5c, 0x0a))) for _ in range(rng.randrange(4)))
	if k in (6, 7):
		return [jvalue(rng, depth + 1) for _ in range(rng.randrange(4))]
	return {rng.choice((u'k', u'\xe9', u'key two', u'')) + str(i): jvalue(rng, depth + 1) for i in range(rng.randrange(4))}


def cases(rng, tier):
	for data in blocks(rng, tier):
		for coding in ('gzip', 'deflate'):
			yield ('zip', coding, pieces_of(rng, data), rng.choice((False, True)))
	n = 6000 if tier == 'thorough' else 800
	for _ in range(n):
		ln = rng.choice((0, 1, 2, 17, 300, 4096, 5000, 9000))
		data = bytes(rng.randrange(256) for _ in range(ln)) if rng.random() < 0.5 else bytes(rng.choice(b'ab \n') for _ in range(ln))
		yield ('zip', rng.choice(('gzip', 'deflate')), pieces_of(rng, data), rng.choice((False, True)))
	# coded messages from an independent sender (not the library's composer): gzip as one or several members, with optional
	# header fields (name, comment, extra, header CRC); zlib streams at every level and window size
	for _ in range(n):
		ln = rng.choice((0, 1, 5, 300, 4096, 4097, 9000, 9000, 32768, 65536, 70000))
		data = (bytes(rng.randrange(256) for _ in range(min(ln, 1021))) * (ln // 1021 + 1))[:ln] if rng.random() < 0.5 else bytes(rng.choice(b'ab \n') for _ in range(min(ln, 5000))) * (ln // 5000 + 1)
		yield ('zipwire', rng.choice(('gzip', 'deflate')), data, rng.randrange(10 ** 9))
	n = 20000 if tier == 'thorough' else 3000
	for _ in range(n):
		b = boundary(rng)
		yield ('mp', b, tuple(part(rng, b) for _ in range(rng.choice((0, 1, 1, 2, 3, 4)))))
	for _ in range(n):
		b = boundary(rng)
		ps = tuple(part(rng, b) for _ in range(rng.choice((0, 1, 2))))
		yield ('mpdec', b, mutate(rng, mp_encode_ref(b, ps)))
	for t in TEXTS:
		for cs in ('utf8', 'latin1', 'ascii'):
			yield ('plain', cs, t)
	for _ in range(n):
		t = u''.join(chr(rng.choice((0x41, 0x7f, 0x80, 0xe9, 0xff, 0x100, 0x20ac, 0xd7ff, 0xe000, 0x1f600, 0x0a, 0x00, 0xfeff, 0xfffe, 0xfeff))) for _ in range(rng.randrange(6)))
		yield ('plain', rng.choice(('utf8', 'latin1', 'ascii')), t)
		yield ('plaindec', rng.choice(('utf8', 'latin1', 'ascii')), (rng.choice((b'', b'', b'\xef\xbb\xbf', b'\xff\xfe', b'\xef\xbb')) + bytes(rng.choice((0x41, 0x80, 0xc3, 0xa9, 0xe2, 0x82, 0xac, 0xf0, 0x9f, 0xff, 0xed, 0xa0)) for _ in range(rng.randrange(6)))))
	for _ in range(n):
		yield ('json', rng.choice((None, 'UTF-8', 'ISO-8859-1', 'ASCII', 'UTF-16', 'UTF-32', 'utf-7', 'cp500', 'utf-16-le', 'cp1252')), json.dumps(jvalue(rng)))
	for pairs in FORMS:
		yield ('form', 'utf-8', pairs)
		yield ('form', 'iso8859-1', pairs)
	for _ in range(n):
		cs = rng.choice(('utf-8', 'iso8859-1'))
		alpha = u'ab+ &=%;/?#~.-_*\u00e9\u00ff' + (u'\u20ac\U0001f600' if cs == 'utf-8' else u'') + u'\x10\x7f'
		def text(lo):
			return u''.join(rng.choice(alpha) for _ in range(rng.randrange(lo, 7)))
		yield ('form', cs, tuple((text(1), text(0)) for _ in range(rng.choice((0, 1, 1, 2, 3)))))
	for _ in range(n // 4):
		yield ('http', rng.randrange(10 ** 9))


# directed form data: the characters with a meaning of their own inside application/x-www-form-urlencoded
FORMS = (
	((u'name', u'x+y'),), ((u'q', u'1 + 1 = 2'),), ((u'a+b', u'c d'),), ((u'a', u'%2B'),), ((u'a', u'+'), (u'+', u' ')), ((u'a b', u'c&d=e'),),
	((u'a', u'%20'), (u'b', u'%')), ((u'k', u''), (u'l', u'v')), ((u'a', u'1'), (u'a', u'2')), ((u'x', u'a;b'),), ((u'\u00e9', u'\u00ff+ '),),
)


def mutate(rng, data):
	data = bytearray(data)
	for _ in range(rng.choice((0, 1, 1, 2))):
		if not data:
			data = bytearray(rng.choice((b'--', b'\r\n', b'x')))
			continue
		i = rng.randrange(len(data))
		k = rng.randrange(5)
		if k == 0:
			del data[i:]
		elif k == 1:
			del data[i:i + rng.randrange(1, 4)]
		elif k == 2:
			data[i:i] = rng.choice((b'--', b'\r\n', b'\r\n\r\n', b'-', b'x'))
		elif k == 3:
			data[i] = rng.randrange(256)
		else:
			del data[:i]
	return bytes(data)


def search(rng, res):
	return cases(rng, 'thorough')


def make_body(kind, pieces):
	from httoop.messages.body import Body
	b = Body()
	if kind == 'bytes':
		b.set(pieces[0])
	elif kind == 'list':
		b.set(list(pieces))
	elif kind == 'gen':
		b.set((p for p in pieces))
	elif kind == 'bytesio':
		b.set(io.BytesIO(pieces[0]))
	return b


def codec_of(coding):
	from httoop.codecs.application.gzip import GZip
	from httoop.codecs.application.zlib import Deflate
	return GZip if coding == 'gzip' else Deflate


def part_body(hs, c):
	from httoop.messages.body import Body
	b = Body()
	b.headers.clear()
	for k, v in hs:
		b.headers[k] = v
	b.set(c)
	return b


def mp_encode_ref(boundary, parts):
	"""RFC 2046 5.1.1 writer, independent of the library (header block via a plain join)"""
	out = b''
	for hs, c in parts:
		out += b'--' + boundary + b'\r\n' + b''.join(k.encode() + b': ' + v.encode() + b'\r\n' for k, v in hs) + b'\r\n' + c + b'\r\n'
	return out + b'--' + boundary + b'--\r\n'


def ctype(boundary):
	from httoop.header import ContentType
	return ContentType.parse(b'multipart/mixed; boundary="' + boundary + b'"')


def model_lines(case):
	k = case[0]
	if k == 'zip':
		_, coding, (kind, pieces), chunked = case
		_fix_gzip_time()
		content = b''.join(pieces)
		enc = codec_of(coding).encode(content) if content else b''
		f = 'f' if kind in ('bytes', 'bytesio') else 'l'
		return ['bd.wire 1 %d %s %s - %s' % (1 if chunked else 0, f, hx(enc), ' '.join(hx(p) for p in pieces)),
			'bd.wire 0 %d %s - - %s' % (1 if chunked else 0, f, ' '.join(hx(p) for p in pieces))]
	if k == 'mp':
		_, b, parts = case
		args = []
		for hs, c in parts:
			args += [hx(bytes(part_body(hs, c).headers)), hx(c)]
		return ['mp.encode %s %s' % (hx(b), ' '.join(args)), 'mp.decode %s %s' % (hx(b), hx(mp_encode_ref(b, parts)))]
	if k == 'mpdec':
		return ['mp.decode %s %s' % (hx(case[1]), hx(case[2]))]
	if k == 'form':
		from props import c13
		return c13.model_lines(case)
	if k == 'plain':
		return ['plain.encode %s %s' % (case[1], hx(case[2].encode('utf-8', 'surrogatepass')))] if not any(0xd800 <= ord(c) < 0xe000 for c in case[2]) else None
	if k == 'plaindec':
		return ['plain.decode %s %s' % (case[1], hx(case[2]))]
	return None


PYCS = {'utf8': 'UTF-8', 'latin1': 'ISO8859-1', 'ascii': 'ASCII'}


def impl_lines(case):
	k = case[0]
	if k == 'zip':
		_, coding, (kind, pieces), chunked = case
		_fix_gzip_time()
		out = []
		for coded in (True, False):
			b = make_body(kind, pieces)
			if coded:
				b.content_encoding = coding
			b.chunked = chunked
			out.append(hx(b''.join(iter(b))))
		return out
	if k == 'mp':
		from httoop.codecs.multipart.multipart import Multipart
		_, b, parts = case
		enc = Multipart.encode([part_body(hs, c) for hs, c in parts], None, ctype(b))
		return [hx(enc), mp_decode_line(b, mp_encode_ref(b, parts))]
	if k == 'mpdec':
		return [mp_decode_line(case[1], case[2])]
	if k == 'form':
		from props import c13
		return c13.impl_lines(case)
	if k == 'plain':
		from httoop.codecs.text.plain import PlainText
		try:
			return ['ok ' + hx(PlainText.encode(case[2], PYCS[case[1]]))]
		except Exception as e:
			return ['err ' + exc_name(e)]
	if k == 'plaindec':
		from httoop.codecs.text.plain import PlainText
		try:
			return ['ok ' + hx(PlainText.decode(case[2], PYCS[case[1]]).encode('utf-8'))]
		except Exception as e:
			return ['err ' + exc_name(e)]


def mp_decode_line(b, data):
	from httoop.codecs.multipart.multipart import Multipart
	try:
		bodies = Multipart.decode(data, None, ctype(b))
	except Exception as e:
		n = exc_name(e)
		return 'err ' + n
	# compare on the octet level: the block as received is not kept by the code, so re-derive (block, content) independently
	out = []
	raw = raw_parts(b, data)
	if raw is None or len(raw) != len(bodies):
		return 'ok ?'
	for (blk, c), body in zip(raw, bodies):
		if bytes(body) != c:
			return 'ok body-mismatch'
		out += [hx(blk), hx(c)]
	return 'ok ' + (' '.join(out) if out else '()')


def raw_parts(b, data):
	"""(block, content) of well-formed multipart data, by an independent scan"""
	d = b'--' + b
	segs = data.split(d)
	if segs[0] != b'' or len(segs) < 2 or segs[-1] not in (b'--', b'--\r\n'):
		return None
	out = []
	for s in segs[1:-1]:
		if not s.startswith(b'\r\n'):
			return None
		s = s[2:]
		if s.startswith(b'\r\n'):
			blk, c = b'', s[2:]
		elif b'\r\n\r\n' in s:
			blk, c = s.split(b'\r\n\r\n', 1)
		else:
			return None
		if not c.endswith(b'\r\n'):
			return None
		out.append((blk, c[:-2]))
	return out


def contains_delim(b, hs_bytes, c):
	"""does the delimiter occur in (or straddle the end of) the part as framed?"""
	d = b'--' + b
	framed = b'\r\n' + hs_bytes + c + b'\r\n' + d
	return framed.find(d) != len(framed) - len(d)


def oracle(case):
	k = case[0]
	if k == 'zip':
		_, coding, (kind, pieces), chunked = case
		content = b''.join(pieces)
		# through the body object
		b = make_body(kind, pieces)
		b.content_encoding = coding
		try:
			b.compress()
			mid = bytes(b)
			b.content_encoding = coding
			b.decompress()
			back = bytes(b)
		except Exception as e:
			return {'what': 'Body.compress/decompress raised %s: %s' % (exc_name(e), e), 'case': describe(case), 'finding': None}
		if back != content:
			return {'what': 'Body.compress/decompress returned %d octets for %d' % (len(back), len(content)), 'case': describe(case), 'finding': None}
		if content:
			ref = zlib.decompress(mid, 31 if coding == 'gzip' else 15)
			if ref != content:
				return {'what': 'the compressed content is not a %s stream of the content' % coding, 'case': describe(case), 'finding': None}
		# the coded octets handed to a fresh body in every way the API offers: constructor, write() in two steps, pieces, iterator
		from httoop import Body
		half = len(mid) // 2
		def written():
			x = Body()
			x.write(mid[:half])
			x.write(mid[half:])
			return x
		for how, mk in (('constructor', lambda: Body(mid)), ('write', written), ('list', lambda: Body([mid[:half], mid[half:]])),
				('iterator', lambda: Body(iter([mid[:half], mid[half:]]))), ('bytearray', lambda: Body(bytearray(mid)))):
			try:
				x = mk()
				x.content_encoding = coding
				x.decompress()
				got = bytes(x)
			except Exception as e:
				return {'what': 'decompress of a body supplied by %s raised %s: %s' % (how, exc_name(e), e), 'case': describe(case), 'finding': None}
			if got != content:
				return {'what': 'decompress of a body supplied by %s returned %d octets for %d' % (how, len(got), len(content)), 'case': describe(case), 'finding': None}
		# compressing a body that is marked for chunked transfer: the stored content is the coded stream, the chunk framing is added on the wire
		if content:
			try:
				z = make_body(kind, pieces)
				z.chunked = True
				z.content_encoding = coding
				z.compress()
				z.chunked = False
				stored = bytes(z)
				okz = zlib.decompress(stored, 31 if coding == 'gzip' else 15) == content
			except Exception as e:
				return {'what': 'compress() of a body marked chunked: %s: %s' % (exc_name(e), e), 'case': describe(case), 'finding': None}
			if not okz:
				return {'what': 'compress() of a body marked chunked stores octets that are no %s stream of the content' % coding, 'case': describe(case), 'finding': None}
		# one Body object whose coding is changed: what it puts on the wire is a stream of the coding it announces at that moment
		if kind in ('bytes', 'list') and content:
			other = 'deflate' if coding == 'gzip' else 'gzip'
			try:
				y = make_body(kind, pieces)
				y.content_encoding = coding
				first = b''.join(iter(y))
				y.content_encoding = other
				announced = y.content_encoding
				second = b''.join(iter(y))
				ok1 = zlib.decompress(first, 31 if coding == 'gzip' else 15) == content
				ok2 = zlib.decompress(second, 31 if other == 'gzip' else 15) == content
			except Exception as e:
				return {'what': 'a body switched from %s to %s raised %s: %s' % (coding, other, exc_name(e), e), 'case': describe(case), 'finding': None}
			if not (ok1 and ok2):
				return {'what': 'a body switched from %s to %s announces %s but its octets are not such a stream of the content' % (coding, other, announced), 'case': describe(case), 'finding': None}
		# through the wire: composer -> state machine
		for side in ('response', 'request'):
			r = wire_roundtrip(side, coding, kind, pieces, chunked)
			if r is not None:
				r['case'] = describe(case)
				return r
		return None
	if k == 'mp':
		from httoop.codecs.multipart.multipart import Multipart
		_, b, parts = case
		bodies = [part_body(hs, c) for hs, c in parts]
		clean = not any(contains_delim(b, bytes(body.headers), c) for body, (hs, c) in zip(bodies, parts))
		if not clean:
			return None
		try:
			enc = Multipart.encode(bodies, None, ctype(b))
			dec = Multipart.decode(enc, None, ctype(b))
		except Exception as e:
			return {'what': 'multipart encode/decode raised %s: %s' % (exc_name(e), e), 'case': describe(case), 'finding': None}
		if len(dec) != len(parts):
			return {'what': 'multipart: %d parts came back for %d' % (len(dec), len(parts)), 'case': describe(case), 'finding': None}
		for body, (hs, c) in zip(dec, parts):
			if bytes(body) != c:
				return {'what': 'multipart: part content differs', 'case': describe(case), 'finding': None}
			got = {k_.lower(): v for k_, v in dict.items(body.headers)}
			exp = {k_.lower(): v.encode() for k_, v in hs}
			exp.setdefault('content-type', b'text/plain; charset=US-ASCII')
			if got != exp:
				return {'what': 'multipart: part headers differ: %r != %r' % (got, exp), 'case': describe(case), 'finding': None}
		# and through a Body with the multipart media type
		from httoop.messages.body import Body
		outer = Body(mimetype='multipart/form-data; boundary="%s"' % b.decode('latin-1'))
		try:
			outer.encode(bodies)
			again = outer.decode()
		except Exception as e:
			return {'what': 'Body.encode/decode (multipart) raised %s: %s' % (exc_name(e), e), 'case': describe(case), 'finding': None}
		if [bytes(x) for x in again] != [c for _, c in parts]:
			return {'what': 'Body.encode/decode (multipart): contents differ', 'case': describe(case), 'finding': None}
		return None
	if k == 'plain':
		from httoop.codecs.text.plain import PlainText
		_, cs, t = case
		try:
			t.encode(PYCS[cs])
		except UnicodeEncodeError:
			return None
		try:
			back = PlainText.decode(PlainText.encode(t, PYCS[cs]), PYCS[cs])
		except Exception as e:
			return {'what': 'text/plain round trip raised %s' % exc_name(e), 'case': describe(case), 'finding': None}
		if back != t:
			return {'what': 'text/plain round trip: %r != %r' % (back, t), 'case': describe(case), 'finding': None}
		return None
	if k == 'form':
		from httoop.codecs.application.x_www_form_urlencoded import FormURLEncoded
		from httoop.messages.body import Body
		_, cs, pairs = case
		mt = 'application/x-www-form-urlencoded; charset=%s' % cs
		if len(pairs) % 3 == 2:
			mt = mt.replace('application/x-www-form-urlencoded', 'Application/X-WWW-Form-UrlEncoded')
		if cs == 'utf-8' and len(pairs) % 2:
			mt = 'application/x-www-form-urlencoded'      # no charset parameter: the body's default (UTF-8) on both sides
		try:
			back = FormURLEncoded.decode(FormURLEncoded.encode(pairs, cs), cs)
			b = Body(mimetype=mt)
			b.encode(pairs)
			back2 = Body(mimetype=mt).decode(bytes(b))
		except Exception as e:
			return {'what': 'form round trip (charset %s) raised %s: %s' % (cs, exc_name(e), e), 'case': describe(case), 'finding': None}
		if back != tuple(pairs) or tuple(back2) != tuple(pairs):
			return {'what': 'form round trip (charset %s): %r came back as %r / through Body %r' % (cs, pairs, back, back2), 'case': describe(case), 'finding': None}
		# the codec called without a charset: whatever its default is, it is the same on both sides
		try:
			enc0 = FormURLEncoded.encode(pairs)
		except UnicodeError:
			enc0 = None      # text outside the default charset: refused, nothing was produced
		except Exception as e:
			return {'what': 'form encode without a charset raised %s: %s' % (exc_name(e), e), 'case': describe(case), 'finding': None}
		if enc0 is not None:
			try:
				back0 = FormURLEncoded.decode(enc0)
			except Exception as e:
				back0 = 'raised %s' % exc_name(e)
			if back0 != tuple(pairs):
				return {'what': 'form round trip without a charset: %r came back as %r' % (pairs, back0), 'case': describe(case), 'finding': None}
		return None
	if k == 'json':
		from httoop.codecs.application.json import JSON
		from httoop.messages.body import Body
		_, cs, text = case
		v = json.loads(text)
		try:
			back = JSON.decode(JSON.encode(v, cs), cs)
			mtj = ('application/json', 'Application/JSON', 'APPLICATION/json')[len(text) % 3] + ('; charset=%s' % cs if cs else '')      # media types are case-insensitive
			b = Body(mimetype=mtj)
			b.encode(v)
			back2 = Body(mimetype=mtj).decode(bytes(b))
		except Exception as e:
			return {'what': 'JSON round trip (charset %s) raised %s: %s' % (cs, exc_name(e), e), 'case': describe(case), 'finding': None}
		if back != v or back2 != v:
			return {'what': 'JSON round trip (charset %s): value differs' % cs, 'case': describe(case), 'finding': None}
		# one Body object whose content is replaced (truncate + write, parse) after it was decoded / encoded: decode() reads what is there now
		try:
			other = {'replaced': [1, 2, v]}
			b3 = Body(mimetype=mtj)
			b3.encode(v)
			b3.decode()
			raw = JSON.encode(other, cs)
			b3.seek(0)
			b3.truncate()
			b3.write(raw)
			got3 = b3.decode()
			b4 = Body(mimetype=mtj)
			b4.encode(v)
			b4.decode()
			b4.seek(0)
			b4.truncate()
			b4.parse(raw)
			got4 = b4.decode()
			if got3 != other or got4 != other:
				return {'what': 'a Body that was decoded, then emptied and filled again (write / parse) decodes to %r / %r, its content now is %r' % (got3, got4, other), 'case': describe(case), 'finding': None}
		except Exception as e:
			return {'what': 'replacing the content of a decoded Body raised %s: %s' % (exc_name(e), e), 'case': describe(case), 'finding': None}
		return None
	if k == 'http':
		return http_roundtrip(case[1], case)
	if k == 'zipwire':
		return zipwire_oracle(case)
	return None


def wire_roundtrip(side, coding, kind, pieces, chunked):
	from httoop import Request, Response
	from httoop.semantic.response import ComposedResponse
	from httoop.semantic.request import ComposedRequest
	from httoop.client import ClientStateMachine
	from httoop.server import ServerStateMachine
	content = b''.join(pieces)
	req, resp = Request(), Response()
	if side == 'response':
		msg = resp
		msg.body = make_body(kind, pieces)
		msg.headers['Content-Encoding'] = coding
		c = ComposedResponse(resp, req)
	else:
		req.method = 'POST'
		req.uri = '/x'
		req.headers['Host'] = 'h'
		msg = req
		msg.body = make_body(kind, pieces)
		# a request's coding is the caller's business: coded body object + header field, sent chunked (the length of the coded octets is not known)
		msg.body.content_encoding = coding
		msg.headers['Content-Encoding'] = coding
		c = ComposedRequest(req)
		chunked = True
	try:
		if chunked:
			c.chunked = True
		c.prepare()
		wire = b''.join(c)
	except Exception as e:
		return {'what': 'composing a %s with Content-Encoding %s raised %s: %s' % (side, coding, exc_name(e), e), 'finding': None}
	try:
		if side == 'response':
			sm = ClientStateMachine()
			sm.request = req
			out = [m for m in sm.parse(wire)]
		else:
			sm = ServerStateMachine('http', 'h', 80)
			out = [m[0] for m in sm.parse(wire)]
	except Exception as e:
		return {'what': 'parsing the composed %s (%s) raised %s: %s' % (side, coding, exc_name(e), e), 'wire': wire[:300].hex(), 'finding': None}
	if len(out) != 1:
		return {'what': 'the composed %s (%s) parsed into %d messages' % (side, coding, len(out)), 'wire': wire[:300].hex(), 'finding': None}
	got = bytes(out[0].body)
	if got != content:
		return {'what': 'coded %s (%s, %s, chunked=%s): parser returned %d octets for %d sent' % (side, coding, kind, chunked, len(got), len(content)), 'wire': wire[:300].hex(), 'finding': None}
	return None


def gzip_member(rng, data):
	"""RFC 1952 member written by hand around a raw deflate stream"""
	import struct
	flg = 0
	extra = name = comment = b''
	if rng.random() < 0.3:
		flg |= 4
		x = bytes(rng.randrange(256) for _ in range(rng.randrange(6)))
		extra = struct.pack('<H', len(x)) + x
	if rng.random() < 0.3:
		flg |= 8
		name = rng.choice((b'file.bin', b'a', b'')) + b'\x00'
	if rng.random() < 0.2:
		flg |= 16
		comment = b'comment\x00'
	head = b'\x1f\x8b\x08' + bytes([flg]) + struct.pack('<I', rng.choice((0, 1234567890))) + bytes([rng.choice((0, 2, 4)), rng.choice((3, 255, 0))]) + extra + name + comment
	if rng.random() < 0.2:
		head = head[:3] + bytes([flg | 2]) + head[4:]
		head += struct.pack('<H', zlib.crc32(head) & 0xffff)
	co = zlib.compressobj(rng.choice((0, 1, 6, 9)), zlib.DEFLATED, -15)
	raw = co.compress(data) + co.flush()
	return head + raw + struct.pack('<II', zlib.crc32(data) & 0xffffffff, len(data) & 0xffffffff)


def zipwire(coding, data, seed):
	import random
	rng = random.Random(seed)
	if coding == 'gzip':
		if data and rng.random() < 0.6:
			cuts = sorted({rng.randrange(1, len(data) + 1) for _ in range(rng.choice((1, 2, 3)))} | {len(data)})
			coded, prev = b'', 0
			for c in cuts:
				coded += gzip_member(rng, data[prev:c])
				prev = c
		else:
			coded = gzip_member(rng, data)
	else:
		co = zlib.compressobj(rng.choice((0, 1, 6, 9)), zlib.DEFLATED, rng.choice((9, 12, 15)))
		coded = co.compress(data) + co.flush()
	side = rng.choice(('server', 'client'))
	head = (b'POST /x HTTP/1.1\r\nHost: h\r\n' if side == 'server' else b'HTTP/1.1 200 OK\r\n') + b'Content-Encoding: ' + coding.encode() + b'\r\n'
	if rng.random() < 0.5:
		wire = head + b'Content-Length: %d\r\n\r\n' % len(coded) + coded
	else:
		wire = head + b'Transfer-Encoding: chunked\r\n\r\n'
		i = 0
		while i < len(coded):
			k = rng.choice((1, 7, 100, 5000))
			wire += b'%x\r\n%s\r\n' % (len(coded[i:i + k]), coded[i:i + k])
			i += k
		wire += b'0\r\n\r\n'
	return side, wire


def zipwire_oracle(case):
	import parserutil
	_, coding, data, seed = case
	side, wire = zipwire(coding, data, seed)
	sm = parserutil.new_sm(side)
	try:
		out = [m[0] if side == 'server' else m for m in sm.parse(wire)]
	except Exception as e:
		return {'what': 'a %s-coded %s from an independent sender: parse raised %s: %s' % (coding, 'request' if side == 'server' else 'response', exc_name(e), e), 'wire': wire[:200].hex(), 'case': describe(case), 'finding': None}
	if len(out) != 1 or bytes(out[0].body) != data:
		got = bytes(out[0].body) if out else b''
		return {'what': 'a %s-coded message from an independent sender: parser returned %d octets for %d sent (%d messages)' % (coding, len(got), len(data), len(out)), 'wire': wire[:200].hex(), 'case': describe(case), 'finding': None}
	return None


def http_roundtrip(seed, case):
	import random
	from httoop import Request, Response
	from httoop.codecs.message.http import HTTP
	rng = random.Random(seed)
	if rng.random() < 0.5:
		m = Request()
		m.method = rng.choice(('GET', 'POST', 'DELETE', 'M-SEARCH'))
		m.uri = rng.choice(('/', '/a/b?x=1', '*', '/%C3%A9'))
		m.protocol = rng.choice(((1, 1), (1, 0)))
	else:
		m = Response()
		m.status = rng.choice((200, 204, 404, 500))
		m.protocol = rng.choice(((1, 1), (1, 0)))
	for _ in range(rng.randrange(4)):
		m.headers[rng.choice(('X-A', 'Accept', 'Server', 'Content-Language'))] = rng.choice(('v', 'text/html', 'a, b', 'x y'))
	if rng.random() < 0.5:
		m.body = bytes(rng.randrange(256) for _ in range(rng.choice((0, 1, 20))))
	else:
		# bodies made of the octets that delimit the parts of a message: empty lines, a leading line break, header-like lines
		m.body = b''.join(rng.choice((b'\r\n', b'\r\n\r\n', b'\n', b'\r', b'a', b'X-A: v', b'GET / HTTP/1.1', b' ', b'\r\n \r\n')) for _ in range(rng.randrange(1, 7)))
	try:
		enc = HTTP.encode(m)
		back = HTTP.decode(enc)
	except Exception as e:
		return {'what': 'message/http round trip raised %s: %s' % (exc_name(e), e), 'case': describe(case), 'finding': None}
	bad = []
	if type(back) is not type(m):
		bad.append('type %s' % type(back).__name__)
	elif isinstance(m, Request):
		if (bytes(back.method), bytes(back.uri), tuple(back.protocol)) != (bytes(m.method), bytes(m.uri), tuple(m.protocol)):
			bad.append('request line')
	else:
		if (int(back.status), tuple(back.protocol)) != (int(m.status), tuple(m.protocol)):
			bad.append('status line')
	if dict(dict.items(back.headers)) != dict(dict.items(m.headers)):
		bad.append('headers')
	if bytes(back.body) != bytes(m.body):
		bad.append('body')
	if bad:
		return {'what': 'message/http round trip differs in ' + ', '.join(bad), 'encoded': enc[:200].hex(), 'case': describe(case), 'finding': None}
	return None


def nontrivial(case, outs):
	k = case[0]
	if k == 'zip':
		return (k, case[1], case[2][0], len(b''.join(case[2][1])), case[3])
	if k in ('mp', 'mpdec'):
		return (k, outs[-1][:200]) if outs and outs[-1].startswith('ok') else None
	if k in ('plain', 'plaindec'):
		return (k, case[1], outs[0]) if outs and outs[0].startswith('ok') else None
	if k == 'zipwire':
		return (k, case[1], len(case[2]), case[3] % 97)
	if k == 'form':
		return (k, case[1], case[2]) if outs and outs[-1].startswith('ok') else None
	return (k, case[1], case[2] if k == 'json' else None)


def tally(case, res):
	res.count('kind:' + case[0])
	if case[0] == 'zip':
		res.count('coding:%s' % case[1])
		res.count('source:%s' % case[2][0])
		res.count('chunked:%s' % case[3])
	if case[0] == 'mp':
		res.count('parts:%d' % len(case[2]))


def describe(case):
	k = case[0]
	if k == 'zip':
		return ['zip', case[1], [case[2][0], [p.hex() for p in case[2][1]]], case[3]]
	if k == 'mp':
		return ['mp', case[1].hex(), [[list(map(list, hs)), c.hex()] for hs, c in case[2]]]
	if k == 'mpdec':
		return ['mpdec', case[1].hex(), case[2].hex()]
	if k == 'plain':
		return ['plain', case[1], case[2].encode('utf-8', 'surrogatepass').hex()]
	if k == 'plaindec':
		return ['plaindec', case[1], case[2].hex()]
	if k == 'zipwire':
		return ['zipwire', case[1], case[2].hex(), case[3]]
	return list(case)


def undescribe(d):
	k = d[0]
	if k == 'zip':
		return ('zip', d[1], (d[2][0], tuple(bytes.fromhex(p) for p in d[2][1])), d[3])
	if k == 'mp':
		return ('mp', bytes.fromhex(d[1]), tuple((tuple(tuple(h) for h in hs), bytes.fromhex(c)) for hs, c in d[2]))
	if k == 'mpdec':
		return ('mpdec', bytes.fromhex(d[1]), bytes.fromhex(d[2]))
	if k == 'plain':
		return ('plain', d[1], bytes.fromhex(d[2]).decode('utf-8', 'surrogatepass'))
	if k == 'plaindec':
		return ('plaindec', d[1], bytes.fromhex(d[2]))
	if k == 'zipwire':
		return ('zipwire', d[1], bytes.fromhex(d[2]), d[3])
	if k == 'form':
		return ('form', d[1], tuple(tuple(p) for p in d[2]))
	return tuple(d)


def finding_still_fails(k):
	w = k['witness']
	if w[0] == 'call':
		return call_witness(w[1])
	return oracle(undescribe(w)) is not None


def call_witness(name):
	from httoop.codecs.multipart.multipart import Multipart
	if name == 'mp-no-delimiter':
		try:
			Multipart.decode(b'', None, ctype(b'x'))
		except IndexError:
			return True
		except Exception:
			return False
		return False
	if name == 'mp-empty-headers':
		from httoop.messages.body import Body
		b = Body()
		b.headers.clear()
		b.set(b'content')
		try:
			back = Multipart.decode(Multipart.encode([b], None, ctype(b'x')), None, ctype(b'x'))
			return [bytes(x) for x in back] != [b'content']
		except Exception:
			return True
	return False


LEVEL_TEXT = ('Theorems for EVERY codec pair (enc, dec) with dec (enc x) = x and all piece lists: Body.compress then decompress returns the content; the octets the body iterator puts on the wire (one coded stream, Content-Length or chunk framing) '
	'dechunk and decode back to the content, for every piece list, empty pieces and empty content included. Multipart: for every boundary and every list of (header section, content) parts in which the delimiter does not occur (not even straddling the part end), '
	'decode (encode parts) = parts - arbitrary binary contents, any number of parts; text/plain: decode (encode t) = t for UTF-8, ISO-8859-1, ASCII wherever encode succeeds; form data: decode (encode pairs) = pairs for all pair lists with non-empty names (the theorems of C13, guard: no octet below 0x10, F1). Model tied to the code by correspondence on the body iterator, multipart encode/decode (also mutated data), text/plain, form data. '
	'That zlib/gzip satisfy the law, JSON and message/http: oracle on the real code.')
LEVEL_NOTE = 'Trusted: Lean kernel; correspondence harness; zlib, json and the str codecs (stdlib). Defects found by this check were repaired (fixed: F41 per-piece compression truncated multi-piece deflate bodies, F43 empty coded body answered 400, F44 message/http without header fields, F24 multipart part without header fields).'
