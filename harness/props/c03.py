# -*- coding: utf-8 -*-
"""C03 — hostile input is contained: parse() only ever raises HTTP status errors."""
from __future__ import annotations

import sys
import time
import zlib
import gzip as gzipmod
import io

import parserutil
import wire
from core import hx, exc_name
from gen import cut

ID = 'C03'
MODULES = ['Httoop.Props.C03', 'Httoop.Props.C01']
THEOREMS = [
	'Httoop.Parser.feed_no_escape',
	'Httoop.Parser.feedAll_no_escape',
	'Httoop.Parser.run_no_escape',
	'Httoop.Parser.status_codes_raised',
	'Httoop.Parser.movedPermanently_outer',
	'Httoop.Parser.uparse_inner',
	'Httoop.Parser.eparse_inner',
	'Httoop.Parser.hsparse_inner',
	'Httoop.Parser.c03_witness_400',
	'Httoop.Parser.c03_witness_301',
	'Httoop.Parser.c03_witness_505',
	'Httoop.Parser.c03_witness_501',
	'Httoop.Parser.c03_witness_411',
	'Httoop.Parser.c03_witness_ok',
	'Httoop.Parser.chunked_fuel',
]
TRUSTED = [
	'exceptions are data in the model: every modelled Python operation that can raise returns Except PyExc; the theorem is about the model, the correspondence (exception class and status code compared call by call on hostile streams) ties it to the code',
	'the parts the model does not contain answer needsOracle: zlib decompression, email.header.decode_header, the idna codec - for those inputs only the oracle on the real code speaks',
	'interpreter stack depth and running time are measured, not proved: the oracle runs deep inputs under a lowered recursion limit and checks that numeric content does not drive the work',
]
ASSUMPTIONS = ['the ClientStateMachine needs its .request attribute set by the caller before parse() (API precondition)', 'a status raised by parse() ends the history: the state machine is not fed again after an error (DESIGN.md 6.2)']
RULE = ('grammar-aware mutations of valid requests/responses with a token dictionary (invalid escapes, over-long UTF-8, "=?" look-alikes, C0/8-bit octets, unknown/unimplemented codings, corrupt and valid gzip/deflate bodies, absurd lengths, Host forms, RFC 2231 continuations) '
	'x fragmentations; absolute-form targets over every scheme name in the URI registry of the tree and 60 well-known ones, in three letter cases; every token and every codec name as value / parameter / list member of every field the parser consults; work bound: long runs with hostile tails in every regex-validated position, each parse under a wall-clock budget in a child interpreter; deep inputs (thousands of tiny chunks / header lines / pipelined messages / trailers) under a lowered recursion limit; huge numerals; non-trivial = an HTTP error or a delivery; distinct by outcome line')
BATCH = 4000

SEEDS = [
	b'GET /a/b?x=1 HTTP/1.1\r\nHost: example.com\r\nAccept: text/html;q=0.5\r\nConnection: keep-alive\r\n\r\n',
	b'POST /p HTTP/1.1\r\nHost: h\r\nContent-Type: text/plain; charset=utf-8\r\nContent-Length: 5\r\n\r\nhello',
	b'POST /p HTTP/1.1\r\nHost: h\r\nTransfer-Encoding: chunked\r\nTrailer: X-T\r\n\r\n5;a=b\r\nhello\r\n0\r\nX-T: v\r\n\r\n',
	b'PUT /p HTTP/1.1\r\nHost: [::1]:8080\r\nContent-Encoding: gzip\r\nContent-Length: %d\r\n\r\n%s' % (len(gzipmod.compress(b'data\xff')), gzipmod.compress(b'data\xff')),
	b'PUT /p HTTP/1.1\r\nHost: h\r\nContent-Encoding: deflate\r\nContent-Length: %d\r\n\r\n%s' % (len(zlib.compress(b'\x00\x80\xff')), zlib.compress(b'\x00\x80\xff')),
	b'OPTIONS * HTTP/1.1\r\nHost: h\r\n\r\n',
	b'CONNECT h:443 HTTP/1.1\r\nHost: h:443\r\n\r\n',
	b'GET http://user@example.com:80/x?y#z HTTP/1.1\r\nHost: example.com\r\n\r\n',
	b'GET / HTTP/1.1\r\nHost: h\r\nConnection: Upgrade, HTTP2-Settings\r\nUpgrade: h2c\r\nHTTP2-Settings: AAMAAABkAAQAAP__\r\n\r\n',
	b'POST / HTTP/1.1\r\nHost: h\r\nContent-Type: multipart/form-data; boundary="x y"; name*0=a; name*1=b; f*=utf-8\'\'%C3%A9\r\nContent-Length: 0\r\n\r\n',
	b'GET / HTTP/1.0\r\n\r\n',
	# a trailer announced and none sent; announced twice; sent empty
	b'POST /p HTTP/1.1\r\nHost: h\r\nTransfer-Encoding: chunked\r\nTrailer: X-T\r\n\r\n5\r\nhello\r\n0\r\n\r\n',
	b'POST /p HTTP/1.1\r\nHost: h\r\nTransfer-Encoding: chunked\r\nTrailer: X-T, X-U\r\n\r\n0\r\nX-U:\r\n\r\n',
	b'POST /p HTTP/1.1\r\nHost: h\r\nTransfer-Encoding: chunked\r\nTrailer:\r\n\r\n0\r\n\r\n',
]
CSEEDS = [
	b'HTTP/1.1 200 OK\r\nContent-Type: text/html\r\nContent-Length: 2\r\n\r\nhi',
	b'HTTP/1.1 200 OK\r\nTransfer-Encoding: chunked\r\nTrailer: Expires\r\n\r\n2\r\nhi\r\n0\r\nExpires: 0\r\n\r\n',
	b'HTTP/1.0 404 Not Found\r\nSet-Cookie: a=b; Path=/\r\nContent-Encoding: gzip\r\nContent-Length: %d\r\n\r\n%s' % (len(gzipmod.compress(b'x')), gzipmod.compress(b'x')),
	b'HTTP/1.1 204 No Content\r\nDate: Sun, 06 Nov 1994 08:49:37 GMT\r\n\r\n',
	b'HTTP/1.1 200 OK\r\nTransfer-Encoding: chunked\r\nTrailer: Expires\r\n\r\n2\r\nhi\r\n0\r\n\r\n',
]


def cases(rng, tier):
	for s in SEEDS:
		yield ('s', 'server', s, ((),))
	for s in CSEEDS:
		yield ('s', 'client', s, ((),))
	for t in (b'GET /%ff HTTP/1.1\r\nHost: h\r\n\r\n', b'GET /?%ff HTTP/1.1\r\nHost: h\r\n\r\n', b'GET / HTTP/1.1\r\nHost: a\nb\r\n\r\n', b'GET / HTTP/1.1\r\nHost: a\x00b\r\n\r\n', b'GET / HTTP/1.1\r\nHost: x=?y\r\n\r\n',
			b'GET http://a..b/ HTTP/1.1\r\nHost: h\r\n\r\n', b'POST / HTTP/1.1\r\nHost: h\r\nContent-Encoding: identity\r\nContent-Length: 1\r\n\r\nx', b'POST / HTTP/1.1\r\nHost: h\r\nContent-Encoding: gzip\r\nContent-Length: 2\r\n\r\nab',
			b'GET / HTTP/' + b'9' * 5000 + b'.1\r\nHost: h\r\n\r\n', b'GET / HTTP/1.1\r\nHost: h:' + b'9' * 5000 + b'\r\n\r\n', b'POST / HTTP/1.1\r\nHost: h\r\nContent-Length: ' + b'9' * 5000 + b'\r\n\r\n',
			b'POST / HTTP/1.1\r\nHost: h\r\nTransfer-Encoding: chunked\r\n\r\n' + b'f' * 5000 + b'\r\nab'):
		yield ('s', 'server', t, ((), tuple(range(1, min(len(t), 200)))))
	# a bare LF (or a lost CRLF) inside chunked framing of a CRLF message, cut right behind it and fed octet by octet
	head = b'POST / HTTP/1.1\r\nHost: h\r\nTransfer-Encoding: chunked\r\n\r\n'
	for tail in (b'5\nhello\r\n0\r\n\r\n', b'5\r\nhello\n0\r\n\r\n', b'5\r\nhello\r\n0\n\r\n', b'5\r\nhel\nlo\r\n0\r\n\r\n', b'5\r\nhello0\n', b'5\n', b'\n', b'5;x\ny', b'0\n\n', b'5\r\nhello\r\n0\r\nX: y\n\n'):
		t = head + tail
		cuts = [(), tuple(range(1, len(t)))] + [(len(head) + i,) for i in range(1, len(tail))]
		yield ('s', 'server', t, tuple(cuts))
		t2 = b'HTTP/1.1 200 OK\r\nTransfer-Encoding: chunked\r\n\r\n' + tail
		yield ('s', 'client', t2, ((), tuple(range(1, len(t2)))))
	# coded bodies that end too early or announce what is not there (gzip members cut at every kind of place, a second member begun,
	# optional header fields announced and absent; zlib streams cut), Content-Length framed and chunked, on both sides
	full_gz = gzipmod.compress(b'hello world ' * 10)
	full_zl = zlib.compress(b'hello world ' * 10)
	broken = [full_gz[:n] for n in (1, 2, 3, 9, 10, 12, len(full_gz) // 2, len(full_gz) - 8, len(full_gz) - 4, len(full_gz) - 1)] + [full_gz + full_gz[:5], full_gz + b'\x1f', full_gz + b'x',
		b'\x1f\x8b\x08\x04' + full_gz[4:10], b'\x1f\x8b\x08\x08' + full_gz[4:10], b'\x1f\x8b\x08\x10' + full_gz[4:10], b'\x1f\x8b\x08\x02' + full_gz[4:]]
	broken_zl = [full_zl[:n] for n in (1, 2, 3, len(full_zl) // 2, len(full_zl) - 4, len(full_zl) - 1)] + [full_zl + b'x']
	for name_, bodies_ in ((b'gzip', broken), (b'deflate', broken_zl), (b'gzip', broken_zl[:2]), (b'deflate', broken[:3])):
		for bd in bodies_:
			yield ('s', 'server', b'POST / HTTP/1.1\r\nHost: h\r\nContent-Encoding: ' + name_ + b'\r\nContent-Length: %d\r\n\r\n' % len(bd) + bd, ((),))
			yield ('s', 'client', b'HTTP/1.1 200 OK\r\nContent-Encoding: ' + name_ + b'\r\nContent-Length: %d\r\n\r\n' % len(bd) + bd, ((),))
			yield ('s', 'server', b'POST / HTTP/1.1\r\nHost: h\r\nContent-Encoding: ' + name_ + b'\r\nTransfer-Encoding: chunked\r\n\r\n%x\r\n' % len(bd) + bd + b'\r\n0\r\n\r\n', ((),))
	# bracketed hosts of every sort in the target and in the Host field: address literals, IPvFuture with odd versions, look-alikes
	for h in (b'[%00]', b'[::1%00]', b'[%5B]', b'[%3A%3A1]', b'[vx.y]', b'[v.addr]', b'[v1_0.a]', b'[vzz.1]', b'[vhost.example.com]', b'[vF.a]', b'[v1.fe:DC]', b'[V1.a]', b'[v\xb2.a]', b'[v1.]', b'[v.]', b'[v-1.a]', b'[v+1.a]', b'[v 1.a]', b'[v1a.b]',
			b'[v0x1.a]', b'[::1]', b'[::g]', b'[1.2.3.4]', b'[]', b'[', b']', b'[::1%25eth0]', b'[' + b'1:' * 40 + b']', b'[v' + b'9' * 5000 + b'.a]'):
		for t in (b'GET http://' + h + b'/ HTTP/1.1\r\nHost: h\r\n\r\n', b'CONNECT ' + h + b':443 HTTP/1.1\r\nHost: h\r\n\r\n', b'GET / HTTP/1.1\r\nHost: ' + h + b'\r\n\r\n',
				b'GET //' + h + b'/x HTTP/1.1\r\nHost: h\r\n\r\n', b'GET http://u@' + h + b':81/ HTTP/1.0\r\n\r\n'):
			yield ('s', 'server', t, ((),))
	n = 200000 if tier == 'thorough' else 5000
	for _ in range(n):
		side = rng.choice(('server', 'server', 'server', 'client'))
		if rng.random() < 0.5:
			s = rng.choice(SEEDS if side == 'server' else CSEEDS)
		else:
			s = b''.join(r.wire for r in wire.gen_pipeline(rng, side, 2))
		for _ in range(rng.choice((1, 1, 2, 4))):
			s = wire.mutate(rng, s)
		cuts = [()]
		if rng.random() < 0.5:
			cuts.append(tuple(sorted({rng.randrange(1, len(s)) for _ in range(rng.choice((1, 3, 10)))})) if len(s) > 1 else ())
		if rng.random() < 0.1 and len(s) < 300:
			cuts.append(tuple(range(1, len(s))))
		yield ('s', side, s, tuple(cuts))
	# directed: every token (plus every codec name Python knows, as RFC 2047 word and RFC 2231 charset) as the value / a
	# parameter / a list member of every field the parser looks at, in a header, an upgrade request and a trailer
	toks = directed_tokens()
	combos = [(f, t, tm, b) for f in FIELDS for t in toks for tm in TEMPLATES for b in BASES]
	if tier != 'thorough':
		# the whole product for the token dictionary, every codec-name token at least twice in a field the parser consults, and a sample of the rest
		base = set(wire.TOKENS)
		combos = ([(f, t, tm, b) for f in FIELDS for t in wire.TOKENS for tm in TEMPLATES for b in BASES]
			+ [(rng.choice(FIELDS[:9]), t, rng.choice(TEMPLATES), rng.choice(BASES)) for t in toks if t not in base for _ in (0, 1)]
			+ rng.sample(combos, 2000))
	for f, t, tm, b in combos:
		yield ('s', 'server', b % (f, tm % t), ((),))
	# every scheme name the URI registry knows on this tree, and the well-known ones it may learn, as absolute-form targets
	import httoop.uri
	live = {k.decode('latin-1') for k in httoop.uri.URI.SCHEMES}
	for sc in sorted(set(SCHEME_NAMES) | live):
		for form in (b'%s://h/p', b'%s://h:1/', b'%s:opaque', b'%s:/p', b'%s://u@h/?q#f', b'%s://[::1]/'):
			for name in (sc, sc.upper(), sc.capitalize()):
				yield ('s', 'server', b'GET ' + form % name.encode() + b' HTTP/1.1\r\nHost: h\r\n\r\n', ((),))
	# work bound (oracle only): long runs with a hostile tail in every position a regular expression looks at
	yield ('work', 0 if tier == 'quick' else 1)
	# depth / size stress (oracle only)
	for kind in ('chunks', 'headers', 'pipeline', 'trailers', 'continuations', 'conn-elements', 'params'):
		yield ('deep', kind, 3000 if tier == 'quick' else 40000)


SCHEME_NAMES = ('http', 'https', 'ws', 'wss', 'ftp', 'ftps', 'sftp', 'file', 'mailto', 'urn', 'data', 'ldap', 'ldaps', 'imap', 'imaps', 'pop', 'pop3', 'smtp', 'nfs', 'mms', 'git', 'ssh',
	'git+ssh', 'svn', 'svn+ssh', 'telnet', 'gopher', 'news', 'nntp', 'rtsp', 'sip', 'sips', 'tel', 'irc', 'ircs', 'dav', 'dns', 'about', 'blob', 'javascript', 'h2', 'h2c', 'coap', 'mqtt',
	'amqp', 'redis', 's3', 'jdbc', 'magnet', 'tag', 'view-source', 'ws+unix', 'http+unix', 'unix', 'rsync', 'smb', 'afp', 'xmpp', 'webcal', 'geo', 'cid', 'mid')
FIELDS = [b'Host', b'Content-Type', b'Content-Length', b'Transfer-Encoding', b'Trailer', b'Connection', b'Upgrade', b'HTTP2-Settings', b'Content-Encoding', b'X-Foo', b'Accept', b'Cookie', b'Content-Disposition']
TEMPLATES = [b'%s', b'a; %s', b'"%s"', b'a, %s', b'a; x=%s']
BASES = [b'POST / HTTP/1.1\r\nHost: h\r\n%s: %s\r\nContent-Length: 1\r\n\r\nx',
	b'POST / HTTP/1.1\r\nHost: h\r\nConnection: Upgrade, HTTP2-Settings\r\nUpgrade: h2c\r\n%s: %s\r\n\r\n',
	b'POST / HTTP/1.1\r\nHost: h\r\nTransfer-Encoding: chunked\r\nTrailer: X-Foo\r\n\r\n0\r\n%s: %s\r\n\r\n']


def directed_tokens():
	import encodings.aliases
	names = set(encodings.aliases.aliases.values()) | set(encodings.aliases.aliases.keys()) | {'idna', 'punycode', 'undefined', 'unicode_escape', 'raw_unicode_escape', 'utf_8_sig', 'mbcs', 'oem'}
	try:
		# the names the library itself lists (aimed at, not trusted): every one of them, also in upper case
		from httoop.util import KNOWN_ENCODINGS
		names |= set(KNOWN_ENCODINGS) | {n.upper() for n in KNOWN_ENCODINGS}
	except Exception:
		pass
	names = sorted(names)
	return (list(wire.TOKENS) + [b'=?%s?q?ab=ff?=' % n.encode() for n in names] + [b'=?%s?b?/4A=?=' % n.encode() for n in names]
		+ [b"t*=%s''%%ff%%80a" % n.encode() for n in names]
		# payloads that some codecs decode to lone surrogates (UTF-7 "+2AA-", the escape codecs "\\ud800"): no text, not encodable again
		+ [b'=?%s?q?+2AA-?=' % n.encode() for n in names] + [b'=?%s?q?=5Cud800?=' % n.encode() for n in names]
		+ [b"t*=%s''+2AA-" % n.encode() for n in names] + [b"t*=%s''%%5Cud800" % n.encode() for n in names])


def search(rng, res):
	return cases(rng, 'thorough')


def model_lines(case):
	if case[0] != 's':
		return None
	_, side, s, frs = case
	return ['sm.%s %s' % (side, ' '.join(hx(f) for f in cut(s, c) if f) or '-') for c in frs]


def impl_lines(case):
	_, side, s, frs = case
	return [parserutil.run(side, [f for f in cut(s, c) if f] or [b'']) for c in frs]


def deep_input(kind, n):
	if kind == 'chunks':
		return 'server', b'POST / HTTP/1.1\r\nHost: h\r\nTransfer-Encoding: chunked\r\n\r\n' + b'1\r\na\r\n' * n + b'0\r\n\r\n', 1
	if kind == 'headers':
		return 'server', b'GET / HTTP/1.1\r\nHost: h\r\n' + b''.join(b'X-%d: v\r\n' % i for i in range(min(n, 5000))) + b'\r\n', 1
	if kind == 'pipeline':
		return 'server', b'GET / HTTP/1.1\r\nHost: h\r\nContent-Length: 0\r\n\r\n' * min(n, 3000), min(n, 3000)
	if kind == 'trailers':
		m = min(n, 3000)
		return 'server', b'POST / HTTP/1.1\r\nHost: h\r\nTransfer-Encoding: chunked\r\nTrailer: ' + b', '.join(b'T%d' % i for i in range(m)) + b'\r\n\r\n0\r\n' + b''.join(b'T%d: v\r\n' % i for i in range(m)) + b'\r\n', 1
	if kind == 'continuations':
		return 'server', b'GET / HTTP/1.1\r\nHost: h\r\nX: a\r\n' + b' b\r\n' * min(n, 5000) + b'\r\n', 1
	if kind == 'conn-elements':
		return 'server', b'GET / HTTP/1.1\r\nHost: h\r\nConnection: ' + b', '.join([b'x'] * min(n, 2000)) + b'\r\n\r\n', 1
	if kind == 'params':
		return 'server', b'POST / HTTP/1.1\r\nHost: h\r\nContent-Type: text/plain' + b''.join(b'; p%d="v"' % i for i in range(min(n, 600))) + b'\r\nContent-Length: 0\r\n\r\n', 1


RUNS = [b'a' * 40, b'a.' * 20, b'a' * 3000, b'1' * 40, b' ' * 40, b'\t ' * 20, b'"' * 40, b'\\"' * 20, b',' * 40, b';' * 40, b'=' * 40, b'%' * 40, b'=?' * 20, b'a=b;' * 12, b'a-' * 20, b'a b' * 14, b'.' * 40, b'%41' * 20]
TAILS = [b'', b'\x01', b' ', b'"', b'/', b'=', b'..', b'\x7f', b'\\', b'\xff', b';', b'*']
WORK_BUDGET = 15.0


def work_inputs(full):
	out = []
	for v in wire.NUMERIC_BOMBS:
		for f in FIELDS + [b'Range', b'Accept', b'TE', b'Accept-Encoding']:
			out.append(('server', b'POST / HTTP/1.1\r\nHost: h\r\n%s: %s\r\nContent-Length: 0\r\n\r\n' % (f, v), 0))
			out.append(('client', b'HTTP/1.1 200 OK\r\n%s: %s\r\nContent-Length: 0\r\n\r\n' % (f, v), 0))
	for run in RUNS:
		for tail in TAILS:
			v = run + tail
			for f in FIELDS:
				if f == b'Host':
					out.append(('server', b'POST / HTTP/1.1\r\nHost: %s\r\nContent-Length: 0\r\n\r\n' % v, 0))
					out.append(('server', b'POST / HTTP/1.1\r\nHost: %s:80\r\nContent-Length: 0\r\n\r\n' % v, 0))
					out.append(('server', b'POST / HTTP/1.1\r\nHost: [%s]\r\nContent-Length: 0\r\n\r\n' % v, 0))
				else:
					out.append(('server', b'POST / HTTP/1.1\r\nHost: h\r\n%s: %s\r\nContent-Length: 0\r\n\r\n' % (f, v), 0))
					out.append(('server', b'POST / HTTP/1.1\r\nHost: h\r\n%s: x; p=%s\r\nContent-Length: 0\r\n\r\n' % (f, v), 0))
			out.append(('server', b'POST /%s HTTP/1.1\r\nHost: h\r\n\r\n' % v, 0))
			out.append(('server', b'POST /?%s HTTP/1.1\r\nHost: h\r\n\r\n' % v, 0))
			out.append(('server', b'POST http://%s/ HTTP/1.1\r\nHost: h\r\n\r\n' % v, 0))
			out.append(('server', b'%s / HTTP/1.1\r\nHost: h\r\n\r\n' % v, 0))
			out.append(('server', b'GET / HTTP/%s\r\nHost: h\r\n\r\n' % v, 0))
			out.append(('server', b'GET / HTTP/1.1\r\n%s: x\r\n\r\n' % v, 0))
			out.append(('client', b'HTTP/1.1 200 %s\r\nContent-Length: 0\r\n\r\n' % v, 0))
			out.append(('client', b'HTTP/1.1 %s\r\nContent-Length: 0\r\n\r\n' % v, 0))
			out.append(('server', b'POST / HTTP/1.1\r\nHost: h\r\nTransfer-Encoding: chunked\r\n\r\n%s\r\n' % v, 0))
			if full and len(v) < 100:
				out.append(('server', b'POST / HTTP/1.1\r\nHost: %s\r\nContent-Length: 0\r\n\r\n' % v, 1))
	return out


def work_oracle(full):
	import os
	import select
	import subprocess
	inputs = work_inputs(full)
	here = os.path.dirname(os.path.dirname(os.path.abspath(__file__)))
	p = subprocess.Popen([sys.executable, os.path.join(here, 'work_worker.py')], stdin=subprocess.PIPE, stdout=subprocess.PIPE)
	import threading
	payload = ''.join('%s %s %d\n' % (side, data.hex(), mode) for side, data, mode in inputs).encode()

	def feed():
		try:
			p.stdin.write(payload)
			p.stdin.close()
		except Exception:
			pass
	threading.Thread(target=feed, daemon=True).start()
	cur = None
	buf = b''
	deadline = time.time() + WORK_BUDGET
	try:
		while True:
			r, _, _ = select.select([p.stdout], [], [], max(0.0, deadline - time.time()))
			if not r:
				side, data, mode = inputs[cur if cur is not None else 0]
				return {'what': 'parse() still busy after %.0f s on an input of %d octets: the work is not bounded by the size of the input' % (WORK_BUDGET, len(data)), 'side': side, 'stream': data.hex(), 'per_octet': mode, 'finding': None}
			chunk = os.read(p.stdout.fileno(), 65536)
			if not chunk:
				break
			buf += chunk
			*lines, buf = buf.split(b'\n')
			for ln in lines:
				w = ln.split()
				if w[0] == b'start':
					cur = int(w[1])
					deadline = time.time() + WORK_BUDGET
				elif w[0] == b'done':
					name = w[2].decode()
					if name != 'ok' and not allowed(name):
						side, data, mode = inputs[int(w[1])]
						return {'what': 'parse() raised %s' % name, 'side': side, 'stream': data.hex(), 'cuts': [], 'finding': None}
	finally:
		try:
			p.kill()
		except Exception:
			pass
		p.wait()
	if cur != len(inputs) - 1:
		return {'what': 'work-bound worker stopped after input %r of %d' % (cur, len(inputs)), 'finding': None}
	return None


def allowed(name):
	if not name.startswith('status:'):
		return False
	code = int(name.split(':')[1])
	return code in (101, 301) or 400 <= code <= 599


def oracle(case):
	if case[0] == 's':
		_, side, s, frs = case
		for c in frs:
			sm = parserutil.new_sm(side)
			try:
				for f in cut(s, c):
					if f:
						sm.parse(f)
			except Exception as e:
				name = exc_name(e)
				if not allowed(name):
					return {'what': 'parse() raised %s: %s' % (name, str(e)[:120]), 'side': side, 'stream': s.hex(), 'cuts': list(c), 'finding': None}
		return None
	if case[0] == 'work':
		return work_oracle(case[1])
	_, kind, n = case
	side, data, want = deep_input(kind, n)
	sm = parserutil.new_sm(side)
	import inspect
	depth = len(inspect.stack(0))
	old = sys.getrecursionlimit()
	t0 = time.time()
	try:
		sys.setrecursionlimit(depth + 150)
		out = sm.parse(data)
	except Exception as e:
		sys.setrecursionlimit(old)
		name = exc_name(e)
		if not allowed(name):
			return {'what': 'deep input (%s x %d) raised %s under a recursion limit of +150 frames' % (kind, n, name), 'finding': None}
		return None
	finally:
		sys.setrecursionlimit(old)
	if len(out) != want:
		return {'what': 'deep input (%s x %d) delivered %d messages, expected %d' % (kind, n, len(out), want), 'finding': None}
	return None


def nontrivial(case, outs):
	if case[0] == 's' and outs:
		return outs[0][:200]
	if case[0] == 'deep':
		return case[1]
	if case[0] == 'work':
		return 'work'
	return None


def tally(case, res):
	res.count('kind:' + case[0])
	if case[0] == 's':
		res.count('side:' + case[1])


def describe(case):
	if case[0] == 's':
		return ['s', case[1], case[2].hex(), [list(c) for c in case[3]]]
	return list(case)


def undescribe(d):
	if d[0] == 's':
		return ('s', d[1], bytes.fromhex(d[2]), tuple(tuple(c) for c in d[3]))
	return tuple(d)


def finding_still_fails(k):
	return oracle(undescribe(k['witness'])) is not None


LEVEL_TEXT = ('Theorem over ALL octet strings, states and call sequences: one call of the model\'s parse() (feed) either returns or fails with an HTTP status error whose code is 301, 400, 411, 501 or 505 - never with any other exception value, apart from the three '
	'stdlib routines the model does not contain (needsOracle); every loop of the model carries fuel >= buffer length + 1 and the chunk loop is a loop, not a recursion (constant depth). '
	'Exception class and status code are compared with the real parse() call by call on hostile streams; stack depth is measured under a lowered recursion limit on deep inputs.')
LEVEL_NOTE = 'Trusted: Lean kernel; the inventory of raising operations is the model itself (each modelled function returns Except PyExc); zlib / decode_header / idna are judged by the oracle only. Escapes found by this check and its probes were repaired (fixed: entries F7-F15, F28, F34, F35, F37-F39).'
