# -*- coding: utf-8 -*-
"""C15 — HTTP dates are canonical, round-trip and do not depend on the local time zone."""
from __future__ import annotations

import datetime
import os
import re
import subprocess
import sys

import core
from core import hx

ID = 'C15'
MODULES = ['Httoop.Props.C15']
THEOREMS = [
	'Httoop.Date.year_enum',
	'Httoop.Date.year_fact',
	'Httoop.Date.month_fact',
	'Httoop.Date.era_arith',
	'Httoop.Date.era_facts',
	'Httoop.Date.civil_roundtrip',
	'Httoop.Date.civil_ranges',
	'Httoop.Date.hms_roundtrip',
	'Httoop.Date.compose_shape',
	'Httoop.Date.date_roundtrip',
	'Httoop.Date.asctime_roundtrip',
	'Httoop.Date.rfc850_roundtrip',
	'Httoop.Date.rfc850_window_witness',
	'Httoop.Date.weekday_correct',
	'Httoop.Date.compare_agrees',
]
TRUSTED = [
	'time.gmtime / calendar.timegm are the proleptic Gregorian calendar as written in Model/Date.lean (civil-from-days / days-from-civil); validated by T2 against the stdlib on every generated instant',
	'email.utils.parsedate_tz is modelled on exactly the three RFC 7231 forms; other texts are "unknown" to the model and skipped',
	'time zone, DST rules and locale have no counterpart in the model: the correspondence runs the real code in subprocesses under 6 TZ settings x the available LC_TIME locales and requires the one model answer from all',
]
ASSUMPTIONS = ['only the C / C.utf8 / POSIX locales are installed in the sandbox; other LC_TIME locales could not be exercised']
RULE = ('instants: 0, 2^31 +-1, 253402300799, every month/year boundary +-1s for sampled years, leap days (incl. 2000, 2100), DST transition instants of the six zones for sampled years +-1s/+-1h, random; '
	'each in the three textual forms; every case is run under TZ in {UTC, Europe/Berlin, America/New_York, Asia/Kolkata, Australia/Lord_Howe, Pacific/Apia} x LC_TIME in {C, C.utf8, and a private non-English locale built from C.utf8 with other day and month names (activated through LOCPATH)}; also as the value of the three date-carrying header fields and as the expires attribute of Set-Cookie fields and handed over as aware / naive datetime objects; '
	'non-trivial = all configurations agree with the model on compose and on the three parses; distinct by instant')

ZONES = ['UTC', 'Europe/Berlin', 'America/New_York', 'Asia/Kolkata', 'Australia/Lord_Howe', 'Pacific/Apia']
LOCALES = ['C', 'C.utf8']
DAYS = ['Mon', 'Tue', 'Wed', 'Thu', 'Fri', 'Sat', 'Sun']
LONG = ['Monday', 'Tuesday', 'Wednesday', 'Thursday', 'Friday', 'Saturday', 'Sunday']
MONTHS = ['Jan', 'Feb', 'Mar', 'Apr', 'May', 'Jun', 'Jul', 'Aug', 'Sep', 'Oct', 'Nov', 'Dec']
EPOCH = datetime.datetime(1970, 1, 1)
MAXT = 253402300799

_cache = {}


def forms(t):
	"""the three textual forms of instant t, written independently of httoop and of time/locale"""
	d = EPOCH + datetime.timedelta(seconds=t)
	imf = '%s, %02d %s %04d %02d:%02d:%02d GMT' % (DAYS[d.weekday()], d.day, MONTHS[d.month - 1], d.year, d.hour, d.minute, d.second)
	r850 = '%s, %02d-%s-%02d %02d:%02d:%02d GMT' % (LONG[d.weekday()], d.day, MONTHS[d.month - 1], d.year % 100, d.hour, d.minute, d.second)
	asc = '%s %s %2d %02d:%02d:%02d %04d' % (DAYS[d.weekday()], MONTHS[d.month - 1], d.day, d.hour, d.minute, d.second, d.year)
	return imf.encode(), r850.encode(), asc.encode(), d.year


def cases(rng, tier):
	yield ('now',)
	seen = set()
	def emit(t):
		if 0 <= t <= MAXT and t not in seen:
			seen.add(t)
			return [('t', t)]
		return []
	for t in (0, 1, 86399, 86400, 784111777, 2 ** 31 - 1, 2 ** 31, 2 ** 32, 951782400, 951868799, 4107542400, MAXT, MAXT - 1, 1720000000, 1711846800, 1711850400, 1729994400):
		for c in emit(t):
			yield c
	years = list(range(1970, 2040)) + [2068, 2069, 2070, 2099, 2100, 2101, 2400, 3000, 9998, 9999]
	ny = len(years) if tier == 'thorough' else 14
	for y in rng.sample(years, ny):
		for m in range(1, 13):
			base = int((datetime.datetime(y, m, 1) - EPOCH).total_seconds())
			for dt in (-1, 0, 1, 86399):
				for c in emit(base + dt):
					yield c
		for (mm, dd) in ((2, 28), (2, 29), (3, 1), (12, 31)):
			try:
				base = int((datetime.datetime(y, mm, dd) - EPOCH).total_seconds())
			except ValueError:
				continue
			for dt in (0, 43200, 86399):
				for c in emit(base + dt):
					yield c
		# DST transitions of the six zones happen on Sundays of Mar/Apr/Sep/Oct/Nov at 00:00-03:00 local
		for mm in (3, 4, 9, 10, 11):
			for dd in range(1, 32, 1 if tier == 'thorough' else 6):
				try:
					base = int((datetime.datetime(y, mm, dd) - EPOCH).total_seconds())
				except ValueError:
					continue
				for hh in (0, 1, 2, 3, 15, 16):
					for c in emit(base + hh * 3600 + rng.choice((0, 1, 1799, 1800, 3599))):
						yield c
	n = 30000 if tier == 'thorough' else 1500
	for _ in range(n):
		r = rng.random()
		t = rng.randrange(0, 2 ** 31) if r < 0.5 else rng.randrange(0, 4102444800) if r < 0.8 else rng.randrange(0, MAXT + 1)
		for c in emit(t):
			yield c
	for _ in range(n // 3):
		a = rng.randrange(0, 2 ** 32)
		b = a + rng.choice((-86400, -3600, -1, 0, 1, 3600, 86400, rng.randrange(-10 ** 8, 10 ** 8)))
		if 0 <= b <= MAXT:
			yield ('cmp', a, b)
	for s in (b'Sun, 06 Nov 1994 08:49:37 GMT', b'Sunday, 06-Nov-94 08:49:37 GMT', b'Sun Nov  6 08:49:37 1994', b'Sun, 06 Nov 1994 08:49:37', b'garbage', b'', b'Sun, 06 Nov 1994 08:49:37 GMTx'):
		yield ('p', s)


def search(rng, res):
	return cases(rng, 'thorough')


def text_variants(imf, r850, asc):
	"""the three forms, then texts of the same length as the IMF-fixdate that a lenient parser also reads: another weekday name,
	lower case, a space-padded day"""
	wrong = (b'Mon' if not imf.startswith(b'Mon') else b'Tue') + imf[3:]
	padded = imf[:5] + b' ' + imf[6:] if imf[5:6] == b'0' else imf
	return [imf, r850, asc, wrong, imf.lower(), padded, imf[:-3] + b'gmt']


def requests(case):
	if case[0] == 'now':
		return ['now']
	if case[0] == 't':
		imf, r850, asc, year = forms(case[1])
		return ['c %d' % case[1], 'p %s' % imf.hex(), 'p %s' % r850.hex(), 'p %s' % asc.hex(), 'h %s' % imf.hex(), 'h %s' % r850.hex(), 'h %s' % asc.hex(), 'a %d' % case[1], 'pc ' + ' '.join(x.hex() for x in text_variants(imf, r850, asc))]
	if case[0] == 'cmp':
		imf, r850, asc, year = forms(case[2])
		return ['cmp %d %d %s %s %s' % (case[1], case[2], imf.hex(), r850.hex() if 1970 <= year <= 2068 else '-', asc.hex())]
	return ['p %s' % case[1].hex()] if case[1] else ['p 00']


_private = {}


def private_locale():
	"""a non-English LC_TIME locale for machines that have only C/POSIX: a copy of C.utf8 whose compiled LC_TIME has the day and
	month names replaced by other names of the same length (so the binary layout stays valid); activated through LOCPATH.
	-> (directory, name) or None"""
	if 'v' in _private:
		return _private['v']
	_private['v'] = None
	import atexit, shutil, tempfile
	src = None
	for cand in ('/usr/lib/locale/C.utf8', '/usr/lib/locale/C.UTF-8', '/usr/lib64/locale/C.utf8'):
		if os.path.isfile(os.path.join(cand, 'LC_TIME')):
			src = cand
			break
	if src is None:
		return None
	base = tempfile.mkdtemp(prefix='c15-locale-', dir=os.environ.get('VERIF_SCRATCH') or None)
	atexit.register(shutil.rmtree, base, True)
	dst = os.path.join(base, 'xx_XX.utf8')
	shutil.copytree(src, dst)
	path = os.path.join(dst, 'LC_TIME')
	data = open(path, 'rb').read()
	# narrow and wide (UTF-32, what wcsftime and so Python's time.strftime read) strings; whole NUL-terminated names only
	for old, new in (('Monday', 'Montag'), ('Tuesday', 'Dienstg'), ('Wednesday', 'Mittwochs'), ('Thursday', 'Donnerst'), ('Friday', 'Freitg'), ('Saturday', 'Samstags'), ('Sunday', 'Sonntg'),
			('Mon', 'Mo.'), ('Tue', 'Die'), ('Wed', 'Mit'), ('Thu', 'Don'), ('Fri', 'Fre'), ('Sat', 'Sam'), ('Sun', 'Son'),
			('January', 'Januars'), ('February', 'Februars'), ('March', 'Maerz'), ('October', 'Oktober'), ('December', 'Dezember'),
			('Jan', 'Jae'), ('Mar', 'Mrz'), ('May', 'Mai'), ('Oct', 'Okt'), ('Dec', 'Dez')):
		assert len(old) == len(new)
		data = data.replace(old.encode() + b'\0', new.encode() + b'\0')
		data = data.replace(old.encode('utf-32-le') + b'\0\0\0\0', new.encode('utf-32-le') + b'\0\0\0\0')
	open(path, 'wb').write(data)
	# usable?  (a child process, as the workers are)
	env = dict(os.environ, LOCPATH=base, LC_TIME='xx_XX.utf8')
	env.pop('LC_ALL', None)
	try:
		out = subprocess.run([sys.executable, '-c', "import locale, calendar; locale.setlocale(locale.LC_TIME, ''); print(calendar.day_abbr[1], calendar.month_abbr[3])"], env=env, stdout=subprocess.PIPE, stderr=subprocess.DEVNULL, timeout=60).stdout.decode('utf-8', 'replace').split()
	except Exception:
		out = []
	if out == ['Die', 'Mrz']:
		_private['v'] = (base, 'xx_XX.utf8')
	return _private['v']


def prepare(batch, tier='quick'):
	"""run the whole batch in one worker subprocess per (TZ, LC_TIME) configuration"""
	lines, spans = [], {}
	for case in batch:
		r = requests(case)
		spans[case] = (len(lines), len(r))
		lines.extend(r)
	data = ('\n'.join(lines) + '\n').encode()
	procs = []
	priv = private_locale()
	for tz in ZONES:
		for lc in LOCALES + ([priv[1]] if priv and tz in ('UTC', 'Europe/Berlin') else []):
			env = dict(os.environ, TZ=tz, LC_TIME=lc, LC_ALL='', HTTOOP_REPO=core.REPO, PYTHONDONTWRITEBYTECODE='1')
			env.pop('LC_ALL', None)
			if priv and lc == priv[1]:
				env['LOCPATH'] = priv[0]
			p = subprocess.Popen([sys.executable, os.path.join(core.VERIF, 'harness', 'date_worker.py')], stdin=subprocess.PIPE, stdout=subprocess.PIPE, env=env)
			procs.append(((tz, lc), p))
	outs = {}
	for cfg, p in procs:
		out, _ = p.communicate(data, timeout=1800)
		o = out.decode().split('\n')
		if o and o[-1] == '':
			o.pop()
		if len(o) != len(lines):
			raise RuntimeError('date worker %r answered %d lines for %d' % (cfg, len(o), len(lines)))
		outs[cfg] = o
	for case in batch:
		a, n = spans[case]
		_cache[case] = {cfg: o[a:a + n] for cfg, o in outs.items()}


def model_lines(case):
	if case[0] == 't':
		imf, r850, asc, year = forms(case[1])
		return ['date.compose %d' % case[1], 'date.parse %s' % hx(imf), 'date.parse %s' % hx(r850), 'date.parse %s' % hx(asc)]
	if case[0] == 'p':
		return ['date.parse %s' % hx(case[1] or b'\x00')]
	return None


def impl_lines(case):
	"""the UTC / C configuration's answers in the model's canonical form (the other configurations are compared by the oracle)"""
	res = _cache[case][('UTC', 'C')]
	if case[0] == 't':
		imf, r850, asc, year = forms(case[1])
		return ['%s %s %s' % (res[0] if not res[0].startswith('err') else res[0], hx(r850), hx(asc))] + [r if r.startswith('ok') else 'err InvalidDate' if r == 'err InvalidDate' else r for r in res[1:4]]
	return [r for r in res]


def oracle(case):
	per = _cache[case]
	base = per[('UTC', 'C')]
	for cfg, r in per.items():
		if r != base:
			return {'what': 'result depends on the process time zone / locale', 'config': list(cfg), 'got': r, 'utc': base, 'case': list(case), 'finding': None}
	if case[0] == 'now':
		if base != ['ok']:
			return {'what': 'Date() without argument / the Date field of a prepared response is not this moment (minutes off: %s)' % base, 'case': list(case), 'finding': None}
		return None
	if case[0] == 't':
		t = case[1]
		imf, r850, asc, year = forms(t)
		bad = []
		if base[0] != imf.hex():
			bad.append('composed %r, expected the IMF-fixdate %r' % (bytes.fromhex(base[0]) if not base[0].startswith('err') else base[0], imf))
		if not re.match(rb'^(Mon|Tue|Wed|Thu|Fri|Sat|Sun), \d{2} (Jan|Feb|Mar|Apr|May|Jun|Jul|Aug|Sep|Oct|Nov|Dec) \d{4} \d{2}:\d{2}:\d{2} GMT$', bytes.fromhex(base[0]) if not base[0].startswith('err') else b''):
			bad.append('not fixed-length IMF-fixdate')
		if base[1] != 'ok %d' % t:
			bad.append('IMF-fixdate parsed to %s' % base[1])
		if 1970 <= year <= 2068 and base[2] != 'ok %d' % t:
			bad.append('RFC 850 form parsed to %s' % base[2])
		if base[3] != 'ok %d' % t:
			bad.append('asctime form parsed to %s' % base[3])
		# the same three forms as the value of Last-Modified / If-Modified-Since / If-Unmodified-Since
		for i, form in ((4, 'IMF-fixdate'), (5, 'RFC 850 form'), (6, 'asctime form')):
			if form == 'RFC 850 form' and not 1970 <= year <= 2068:
				continue
			if base[i] != ('%d' % t + ' ') * 3 + '2:%d,%d' % (t, t):
				bad.append('%s as a header field value (Last-Modified, If-Modified-Since, If-Unmodified-Since, then number of Set-Cookie elements : their expires instants) gives %s' % (form, base[i]))
		# the instant handed over as datetime objects (aware with six offsets, naive UTC)
		if year <= 9998 and base[7] != ' '.join(['%s:%d:1' % (imf.hex(), t)] * 7):
			bad.append('Date(datetime) for the instant, aware with offsets 0/+2h/-5:30/+12:45/+14h/-12h and naive UTC, gives (text:instant:equal) %s' % base[7])
		# a date built from a text serialises canonically (the three forms must be read; the lenient variants may be refused)
		pcs = base[8].split(' ')
		for i, (txt, got) in enumerate(zip(text_variants(imf, r850, asc), pcs)):
			if i == 1 and not 1970 <= year <= 2068:
				continue
			if got.startswith('err:'):
				if i < 3:
					bad.append('Date(%r) raised %s' % (txt, got[4:]))
			elif got != imf.hex():
				bad.append('Date(%r) serialises as %r, the canonical form of its instant is %r' % (txt, bytes.fromhex(got), imf))
		if bad:
			return {'what': '; '.join(bad), 'instant': t, 'finding': None}
	if case[0] == 'cmp':
		a, b = case[1], case[2]
		exp = '%d %d %d %d %d' % (a < b, a > b, a == b, a < b, a == b)
		imf, r850, asc, year = forms(b)
		nops = 1 + 2 * (3 if 1970 <= year <= 2068 else 2)
		exp += (' %d%d%d%d%d%d' % (a < b, a > b, a == b, a != b, a <= b, a >= b)) * nops
		ts_ = [min(MAXT, max(0, a + d)) for d in (-1, 0, 1, 0, -1, 1, 0)]
		exp += ' ' + ''.join('%d%d%d' % (a < t_, a == t_, a > t_) for t_ in ts_)
		import datetime as _dt
		da = _dt.datetime(1970, 1, 1) + _dt.timedelta(seconds=a)
		exp += ' %s %d 1 %s %d' % (da.isoformat(), a, '-'.join(str(v) for v in (da.year, da.month, da.day, da.hour, da.minute, da.second)), a)
		exp += ' %d%d%d %d%d%d' % (a < b, a > b, a == b, a < b, a > b, a == b)
		exp += (' %d%d%d%d' % (a == b, a != b, a < b, a > b)) * 9
		if base[0] != exp:
			return {'what': 'date comparison disagrees with comparison of the instants', 'a': a, 'b': b, 'got': base[0], 'expected': exp, 'finding': None}
	return None


def nontrivial(case, outs):
	if case[0] == 't' and outs and outs[1].startswith('ok'):
		return case[1]
	return None


def tally(case, res):
	res.count('kind:' + case[0])
	if case[0] == 't':
		y = (EPOCH + datetime.timedelta(seconds=case[1])).year
		res.count('year:%s' % ('<2038' if y < 2038 else '<2100' if y < 2100 else '>=2100'))


def describe(case):
	return [case[0]] + [x.hex() if isinstance(x, bytes) else x for x in case[1:]]


def undescribe(d):
	if d[0] == 'p':
		return ('p', bytes.fromhex(d[1]))
	return tuple(d)


def finding_still_fails(k):
	case = undescribe(k['witness'])
	prepare([case])
	return oracle(case) is not None


LEVEL_TEXT = ('Theorems for EVERY whole second in [0, 253402300799]: gmtime/timegm are inverse (the year formula by complete kernel enumeration of the 146 097 days of a 400-year era, lifted to all eras; '
	'month/day by linear arithmetic), the composed text is the 29-octet IMF-fixdate, parse(compose t) = t, equal texts iff equal instants, weekday by recurrence from Thursday 1970-01-01. '
	'The model has no time zone, DST or locale input; the correspondence requires the real code to give the one model answer under 6 zones x 2 locales. The same instant written in asctime form (every instant) or in RFC 850 form (years 1970-2068, all the two-digit year can name; 2069 reads as 1969: rfc850_window_witness) parses back to the instant - theorems too.')
LEVEL_NOTE = 'Trusted: Lean kernel; the calendar transcription and the three-form reading of parsedate_tz (T2-validated); extract.py/correspondence; libc/zoneinfo behaviour is observed, not modelled (partial by nature, DESIGN.md section 4).'
