# -*- coding: utf-8 -*-
"""C08 — header collections are case-insensitive, order-preserving and round-trip."""
from __future__ import annotations

from core import hx, exc_name
from gen import unicode_text

ID = 'C08'
MODULES = ['Httoop.Props.C08', 'Httoop.Props.C08Roundtrip']
THEOREMS = [
	'Httoop.Headers.setdefault_spec',
	'Httoop.Headers.compose_parse_roundtrip',
	'Httoop.Headers.parse_block',
	'Httoop.Headers.sortItems_perm',
	'Httoop.Headers.c08_roundtrip_witness',
	'Httoop.Headers.title_case_insensitive',
	'Httoop.Headers.formatKey_case_insensitive',
	'Httoop.Headers.ops_case_insensitive',
	'Httoop.Headers.get_put_same',
	'Httoop.Headers.get_put_other',
	'Httoop.Headers.get_del_same',
	'Httoop.Headers.map_laws',
	'Httoop.Headers.name_rejected_on_assign',
	'Httoop.Headers.name_rejected_on_parse',
	'Httoop.Headers.line_without_colon',
	'Httoop.Headers.parse_line_step',
	'Httoop.Headers.header_tables',
]
TRUSTED = [
	'str.title() on ASCII is modelled by Headers.title; non-ASCII names are rejected before title-casing since the fix: commit (F31), so Unicode title-casing never matters',
	'Python dict: insertion order, replace-in-place on assignment (modelled by Coll.put/get?/del on an association list with unique keys)',
	'values containing "=?" take the email.header.decode_header branch in append(); the model skips those sequences (counted)',
]
ASSUMPTIONS = ['compose() of collections holding Set-Cookie / WWW-Authenticate / Proxy-Authenticate (field-specific split) is outside the model and judged by the oracle only',
	'compose_parse_roundtrip assumes the stored names are canonical (what formatkey produces) and the values are as the parser stores them (no outer white space, no CR)']
RULE = ('operation sequences (length <= 30) of set/get/contains/del/pop/append/setdefault/update (from a dict, a plain CaseInsensitiveDict, a Headers)/parse/compose over names from the token alphabet in random letter case, registered names, invalid names '
	'(separators, controls, 8-bit, ligatures), values over visible ASCII / Latin-1 / arbitrary Unicode (RFC 2047 on assignment), short and 40-200 octets long; parse blocks with repeated fields, continuation lines, odd whitespace; '
	'non-trivial = sequence with >= 2 distinct surviving keys; distinct by final collection')

TOKEN = "!#$%&'*+-.^_`|~0123456789abcdefghijklmnopqrstuvwxyzABCDEFGHIJKLMNOPQRSTUVWXYZ"
KNOWN = ['Content-Length', 'content-type', 'ETAG', 'www-authenticate', 'Set-Cookie', 'cookie', 'accept', 'TE', 'X-Custom', 'x-custom', 'Host', 'date', 'connection', 'Via', 'content-md5', 'trailer', 'Server']
BADNAMES = [b'a b', b'a:b', b'a\tb', b'x\x00', b'na\xefve', b'(x)', b'a,b', b'a;b', b'a=b', b'{x}', b'a/b', b'"q"', b'a\\b', b'x\x7f', b'[x]', b'a?b', b'a@b', b'<x>', 'ﬁeld'.encode('utf-8'), 'ßa'.encode('utf-8'), b'x\r', b'a\nb', 'é'.encode('utf-8')]


def rand_case(rng, s):
	return ''.join(c.upper() if rng.random() < 0.5 else c.lower() for c in s)


def gen_name(rng):
	r = rng.random()
	if r < 0.45:
		return rand_case(rng, rng.choice(KNOWN)).encode()
	if r < 0.85:
		return ''.join(rng.choice(TOKEN) for _ in range(rng.randrange(1, 9))).encode()
	return rng.choice(BADNAMES)


def gen_value(rng):
	r = rng.random()
	if r < 0.6:
		return ''.join(chr(rng.randrange(0x21, 0x7f)) for _ in range(rng.randrange(0, 10))).encode()
	if r < 0.75:
		return ''.join(rng.choice('ab ,;=?"\t') for _ in range(rng.randrange(0, 8))).strip().encode()
	if r < 0.9:
		return bytes(rng.randrange(0xa0, 0x100) for _ in range(rng.randrange(1, 5)))
	if r < 0.93:
		# long text: the encoded word of a value of 40-200 octets (line-length limits of base64 helpers are 57 / 76)
		return unicode_text(rng, rng.choice((19, 20, 25, 40, 60)))
	if r < 0.95:
		return ''.join(chr(rng.randrange(0x21, 0x7f)) for _ in range(rng.choice((75, 76, 77, 200, 1000)))).encode()
	return unicode_text(rng, rng.randrange(1, 5))  # str: goes through encode_rfc2047


def gen_block(rng, names):
	lines = []
	for _ in range(rng.randrange(1, 6)):
		n = rng.choice(names) if rng.random() < 0.6 else gen_name(rng)
		v = gen_value(rng)
		if isinstance(v, str):
			v = v.encode('utf-8')
		v = v.replace(b'\r', b'').replace(b'\n', b'')
		sep = rng.choice([b': ', b':', b':  ', b' : ' if rng.random() < 0.1 else b': '])
		lines.append(n + sep + v + rng.choice([b'', b'', b' ', b'\t']))
		if rng.random() < 0.15:
			lines.append(rng.choice([b' ', b'\t']) + b'cont' + rng.choice([b'', b' x']))
	if rng.random() < 0.05:
		lines.append(b'no colon here')
	return b'\r\n'.join(lines)


# a valid name, then names that are invalid (8-bit) but equal to it under caseless matching or compatibility folding
LOOKALIKES = [(b'Strasse-X', [b'Stra\xdfe-X', 'Stra\u00dfe-X'.encode('utf-8')]), (b'Keep-Alive', ['\u212aeep-Alive'.encode('utf-8'), b'\xe2\x84\xaaeep-alive']),
	(b'file-name', ['\ufb01le-name'.encode('utf-8')]), (b'Access', [b'Acce\xdf', 'Acce\u017f\u017f'.encode('utf-8')])]


def cases(rng, tier):
	for good, bads in LOOKALIKES:
		for bad in bads:
			yield ('seq', (('S', good, b'v'), ('G', good), ('S', bad, b'w'), ('G', good), ('A', bad, b'x'), ('F', bad, b'y'), ('G', good), ('C',)))
	yield ('seq', (('S', b'content-length', b'1'), ('G', b'CONTENT-LENGTH'), ('H', b'Content-length'), ('D', b'cOnTeNt-LeNgTh'), ('H', b'content-length')))
	yield ('seq', (('R', b'A: 1\r\nB: 2\r\na: 3\r\nSet-Cookie: x=1\r\nset-cookie: y=2\r\nCookie: p=1\r\ncookie: q=2'), ('C',)))
	# a field received twice with the same short value, with an empty value; the same name twice in a constructor argument
	for blk in (b'X-Retry: 1\r\nx-retry: 1', b'Cookie: a\r\ncookie: a', b'X-E: \r\nx-e: ', b'X-E: a\r\nx-e: \r\nX-E: c', b'Via: \r\nvia: b', b'X-Z: \r\nX-Z: \r\nX-Z: '):
		yield ('seq', (('R', blk), ('G', b'x-retry'), ('G', b'cookie'), ('G', b'X-E'), ('C',)))
	for bad in BADNAMES:
		yield ('seq', (('S', bad, b'v'),))
		yield ('seq', (('R', bad + b': v'),))
		yield ('seq', (('A', bad, b'v'),))
	n = 60000 if tier == 'thorough' else 8000
	for _ in range(n):
		names = [gen_name(rng) for _ in range(rng.randrange(1, 5))]
		ops = []
		for _ in range(rng.choice((1, 2, 4, 8, 15, 30))):
			name = rng.choice(names)
			if rng.random() < 0.5:
				try:
					name = rand_case(rng, name.decode('ascii')).encode()
				except UnicodeDecodeError:
					pass
			k = rng.choice('SSSGGHDPAAARCFU')
			if k == 'U':
				# update() from a one-field mapping: a dict, a plain CaseInsensitiveDict, a Headers collection
				# (a plain CaseInsensitiveDict title-cases its keys itself - 'ßa' becomes 'Ssa' there, before Headers sees it: ASCII names only for that one)
				ops.append((rng.choice(('U0', 'U1', 'U2') if all(b < 0x80 for b in name) else ('U0', 'U2')), name, gen_value(rng)))
			elif k in 'SAF':
				ops.append((k, name, gen_value(rng)))
			elif k in 'GHDP':
				ops.append((k, name))
			elif k == 'R':
				ops.append(('R', gen_block(rng, names)))
			else:
				ops.append(('C',))
		yield ('seq', tuple(ops))
	for c in big_cases(rng, tier):
		yield c


def big_cases(rng, tier):
	"""large collections (field counts around the numbers a limit or a cache size would have), read back in another letter case,
	a repeated field received many times, long values"""
	for count in (33, 65, 129, 300) + ((1025,) if tier == 'thorough' else ()):
		names = [b'X-F%d-%s' % (i, rng.choice((b'a', b'B', b'cd'))) for i in range(count)]
		ops = [('S', n, b'v%d' % i) for i, n in enumerate(names)]
		ops += [('G', names[0].upper()), ('G', names[-1].lower()), ('H', names[count // 2].swapcase()), ('D', names[1].lower()), ('G', names[1]), ('C',)]
		yield ('seq', tuple(ops))
		block = b'\r\n'.join(rand_case(rng, 'X-Rep').encode() + b': ' + (b'%d' % i) for i in range(count))
		yield ('seq', (('R', block), ('G', b'x-rep'), ('C',)))
		block = b'\r\n'.join(n + b': ' + (b'%d' % i) for i, n in enumerate(names))
		yield ('seq', (('R', block), ('G', names[-1].upper()), ('H', names[0].lower()), ('C',)))
	for size in (1023, 4096, 8191, 8192, 65536):
		yield ('seq', (('S', b'X-Long', b'a' * size), ('G', b'x-long'), ('C',)))
		yield ('seq', (('R', b'X-Long: ' + b'b' * size + b'\r\nX-Next: 1'), ('G', b'X-LONG'), ('G', b'x-next'), ('C',)))


def search(rng, res):
	return cases(rng, 'thorough')


def enc_value(v):
	"""what Headers.formatvalue stores for this value (str values are RFC 2047 / Latin-1 encoded by the library)"""
	from httoop import Headers
	return Headers.formatvalue(v)


def model_lines(case):
	toks = []
	for op in case[1]:
		toks.append('S' if op[0].startswith('U') else op[0])
		for a in op[1:]:
			toks.append(hx(enc_value(a) if isinstance(a, str) else a))
	return ['hdr.seq ' + ' '.join(toks)]


def do_update(h, k, name, value):
	from httoop import Headers
	from httoop.util import CaseInsensitiveDict
	try:
		key = name.decode('ascii')
	except UnicodeDecodeError:
		key = name
	if k == 'U0':
		h.update({key: value})
	elif k == 'U1':
		m = CaseInsensitiveDict()
		m[key] = value
		h.update(m)
	else:
		h.update(Headers({key: value}))


def apply_ops(ops):
	from httoop import Headers
	h = Headers()
	outs = []
	for op in ops:
		try:
			k = op[0]
			if k.startswith('U'):
				do_update(h, k, op[1], op[2])
				outs.append('ok')
			elif k == 'S':
				h[op[1]] = op[2]
				outs.append('ok')
			elif k == 'A':
				h.append(op[1], op[2])
				outs.append('ok')
			elif k == 'F':
				r = h.setdefault(op[1], op[2])
				outs.append('some:' + hx(r))
			elif k == 'G':
				r = h.getbytes(op[1])
				outs.append('None' if r is None else 'some:' + hx(r))
			elif k == 'H':
				outs.append(str(op[1] in h).lower())
			elif k == 'D':
				del h[op[1]]
				outs.append('ok')
			elif k == 'P':
				r = h.pop(op[1], None)
				outs.append('None' if r is None else 'some:' + hx(r))
			elif k == 'R':
				snapshot = dict(dict.items(h))
				try:
					h.parse(op[1])
				except Exception:
					dict.clear(h)
					for kk, vv in snapshot.items():
						dict.__setitem__(h, kk, vv)
					raise
				outs.append('ok')
			elif k == 'C':
				outs.append(hx(bytes(h)))
		except Exception as e:
			outs.append('err ' + exc_name(e))
			break
	return outs, h


def render_coll(h):
	items = list(dict.items(h))
	return '{' + ','.join('%s=%s' % (hx(k.encode('utf-8')), hx(v)) for k, v in items) + '}'


def impl_lines(case):
	outs, h = apply_ops(case[1])
	return [';'.join(outs) + ' ' + render_coll(h)]


def is_bad_name(name):
	return any(b <= 0x20 or b >= 0x7f or b in b'()<>@,;:\\"/[]?={}' for b in name)


def oracle(case):
	"""the property on the real code, against a reference multimap"""
	from httoop import Headers
	from httoop.exceptions import InvalidHeader
	ops = case[1]
	ref = {}       # lower-case name -> value bytes (what the collection must answer), None = unknown (after parse/append combos)
	h = Headers()
	dirty = False
	for op in ops:
		k = op[0]
		upd = k if k.startswith('U') else None
		if upd:
			k = 'S'
		if k == 'R' and (b'\n' in op[1].replace(b'\r\n', b'') or b'\r' in op[1].replace(b'\r\n', b'')):
			dirty = True
		name = op[1] if len(op) > 1 and k != 'R' else None
		try:
			if k in 'SAF' and is_bad_name(name):
				try:
					if upd:
						do_update(h, upd, name, op[2])
					else:
						(h.__setitem__ if k == 'S' else h.append if k == 'A' else h.setdefault)(name, op[2])
				except InvalidHeader:
					continue
				return {'what': 'invalid field name accepted on assignment', 'name': name.decode('latin-1'), 'finding': None}
			if k in 'SAF' and any(c in (op[2] if isinstance(op[2], str) else op[2].decode('latin-1')) for c in u'\r\n\x0b\x0c\x1c\x1d\x1e\x85\u2028\u2029'):
				dirty = True      # the caller put a line break into a value: composing it is the caller's problem
			if k == 'F':
				was = h.getbytes(name)
				r = h.setdefault(name, op[2])
				want = was if was is not None else enc_value(op[2])
				if r != want:
					return {'what': 'setdefault returned %r, expected %r' % (r, want), 'name': name.decode('latin-1'), 'finding': None}
				for alt in (name, name.lower(), name.upper(), name.title(), name.swapcase()):
					if h.getbytes(alt) != want or alt not in h:
						return {'what': 'after setdefault the field is not found under the spelling %r (or holds %r)' % (alt, h.getbytes(alt)), 'name': name.decode('latin-1'), 'finding': None}
				if was is None:
					ref[name.lower()] = want
			elif k == 'S':
				if upd:
					do_update(h, upd, name, op[2])
				else:
					h[name] = op[2]
				ref[name.lower()] = enc_value(op[2])
			elif k == 'A':
				h.append(name, op[2])
				key = name.lower()
				if key in ref and (ref[key] is None or ref[key]):
					ref[key] = None   # combined value: checked by the parse/append correspondence, not by this reference
				else:
					ref[key] = enc_value(op[2])
			elif k in 'GH':
				if is_bad_name(name):
					continue
				got = h.getbytes(name)
				has = name in h
				if has != (got is not None):
					return {'what': 'membership and lookup disagree', 'name': name.decode('latin-1'), 'finding': None}
				for alt in (name.lower(), name.upper(), name.title(), name.swapcase()):
					if h.getbytes(alt) != got or (alt in h) != has:
						return {'what': 'lookup/membership depends on the letter case of the name', 'name': name.decode('latin-1'), 'other': alt.decode('latin-1'), 'finding': None}
				if name.lower() in ref and ref[name.lower()] is not None and got != ref[name.lower()]:
					return {'what': 'lookup does not return what was assigned (in another letter case)', 'name': name.decode('latin-1'), 'got': repr(got), 'expected': repr(ref[name.lower()]), 'finding': None}
				if name.lower() not in ref and has and not any(o[0] == 'R' for o in ops):
					return {'what': 'name reported present though never set', 'name': name.decode('latin-1'), 'finding': None}
			elif k in 'DP':
				if is_bad_name(name):
					continue
				present = name in h
				if k == 'D':
					if present:
						del h[name]
				else:
					h.pop(name, None)
				ref.pop(name.lower(), None)
				if name.upper() in h or name.lower() in h:
					return {'what': 'name still present after deletion in another letter case', 'name': name.decode('latin-1'), 'finding': None}
			elif k == 'R':
				block = op[1]
				lines = block.split(b'\r\n')
				fields = []
				ok = True
				for line in lines:
					if line[:1] in (b' ', b'\t') and fields:
						fields[-1][1] += line[1:]
						continue
					n, sep, v = line.partition(b':')
					if not sep or is_bad_name(n):
						ok = False
						break
					fields.append([n, v.lstrip()])
				before = {kk: vv for kk, vv in dict.items(h)}
				try:
					h.parse(block)
				except InvalidHeader:
					if ok:
						return {'what': 'well-formed header block rejected', 'block': block.decode('latin-1'), 'finding': None}
					return None  # state after a failed parse is unspecified; stop here
				if not ok:
					return {'what': 'header block with an invalid field name or a line without colon accepted', 'block': block.decode('latin-1'), 'finding': None}
				# repeated fields combined in arrival order with the field's separator
				from httoop.header.element import HEADER, HeaderElement
				exp = {}
				for kk, vv in before.items():
					exp[kk.lower()] = vv
				for n, v in fields:
					v = v.rstrip()
					key = n.decode('ascii').lower()
					El = HEADER.get(n.decode('ascii'), HeaderElement)
					exp[key] = El.join([exp[key], v]) if key in exp else v
				got = {kk.lower(): vv for kk, vv in dict.items(h)}
				if got != exp:
					return {'what': 'parsed fields are not combined in arrival order with the separator of the field', 'block': block.decode('latin-1'), 'got': repr(got), 'expected': repr(exp), 'finding': None}
				for n, v in fields:
					ref[n.lower()] = None
			elif k == 'C':
				wire = bytes(h)
				if not wire.endswith(b'\r\n'):
					return {'what': 'composed header section is not CRLF terminated', 'finding': None}
				if any(b'\r' in v or b'\n' in v for v in dict.values(h)):
					if not dirty:
						return {'what': 'a stored field value contains a line break although no assigned value did: the composed section has a broken line', 'wire': wire[:300].hex(), 'finding': None}
					continue
				h2 = Headers()
				h2.parse(wire[:-4] if wire.endswith(b'\r\n\r\n') else wire[:-2])
				from httoop.header.element import HEADER, HeaderElement
				def normal(kk, vv):
					El = HEADER.get(kk, HeaderElement)
					if vv != vv.strip():
						return False
					if El.list_element:
						try:
							return El.join(El.split(vv)) == vv
						except Exception:
							return False
					return True
				if dict(dict.items(h2)) != dict(dict.items(h)) and all(normal(kk, vv) for kk, vv in dict.items(h)):
					return {'what': 'parse(compose(h)) != h', 'h': repr(dict(dict.items(h))), 'h2': repr(dict(dict.items(h2))), 'finding': None}
		except InvalidHeader as e:
			# RFC 2047 look-alikes in stored values make lookups raise (F14 class, C03/C09); not a C08 matter
			return None
		except Exception as e:
			return {'what': 'operation raised %s: %s' % (exc_name(e), e), 'op': repr(op)[:200], 'finding': None}
	# the collection as it stands, through its other views: iteration, length, a copy that is then changed
	try:
		keys = list(h.keys())
		if len(h) != len(keys) or len({k_.lower() for k_ in keys}) != len(keys):
			return {'what': 'len() is %d, iteration yields %d names (%d different ones ignoring case)' % (len(h), len(keys), len({k_.lower() for k_ in keys})), 'finding': None}
		for k_ in keys:
			for alt in (k_, k_.lower(), k_.upper()):
				if alt not in h or h.getbytes(alt) != h.getbytes(k_):
					return {'what': 'the name %r that iteration yields is not found (or answers differently) under the spelling %r' % (k_, alt), 'finding': None}
		if sorted((k_.lower(), h.getbytes(k_)) for k_ in keys) != sorted((k_.lower(), (v_ if isinstance(v_, bytes) else v_.encode('latin-1'))) for k_, v_ in dict.items(h)):
			return {'what': 'items of the collection and lookups by the iterated names disagree', 'finding': None}
		# a collection made with fromkeys(): the same name rules and the same spellings as every other way in
		used = [op[1] for op in ops if len(op) > 1 and op[0] != 'R' and isinstance(op[1], bytes)]
		good = [n_ for n_ in used if not is_bad_name(n_)]
		if good:
			fk = Headers.fromkeys(good, b'v')
			for n_ in good:
				for alt in (n_, n_.lower(), n_.upper(), n_.title(), n_.swapcase()):
					if alt not in fk or fk.getbytes(alt) != b'v':
						return {'what': 'Headers.fromkeys(): the name %r is not found under the spelling %r' % (n_, alt), 'finding': None}
			fk2 = Headers()
			w_ = bytes(fk)
			fk2.parse(w_[:-4] if w_.endswith(b'\r\n\r\n') else w_[:-2])
			if dict(dict.items(fk2)) != dict(dict.items(fk)):
				return {'what': 'Headers.fromkeys(): parse(compose(h)) != h: %r / %r' % (dict(dict.items(fk2)), dict(dict.items(fk))), 'finding': None}
		for n_ in used:
			if is_bad_name(n_):
				try:
					Headers.fromkeys([n_], b'v')
				except InvalidHeader:
					continue
				return {'what': 'Headers.fromkeys() accepts the invalid field name %r' % (n_,), 'finding': None}
		# a collection assigned to a message from a plain CaseInsensitiveDict / dict (message.headers = mapping): the same name rules and spellings
		from httoop import Request as _Rq
		from httoop.util import CaseInsensitiveDict as _CID
		for mk_ in (lambda d_: _CID(d_), lambda d_: dict(d_)):
			rq_ = _Rq()
			rq_.headers = mk_({'ETag': b'"x"', 'content-md5': b'abc', 'TE': b'trailers', 'X-Plain': b'1'})
			for n_ in (b'etag', b'ETAG', b'Content-MD5', b'CONTENT-md5', b'te', b'x-PLAIN'):
				if n_ not in rq_.headers or rq_.headers.getbytes(n_) is None:
					return {'what': 'message.headers = mapping: the field is not found under the spelling %r: %r' % (n_, dict(dict.items(rq_.headers))), 'finding': None}
			rq_.headers[b'etag'] = b'"y"'
			if len(rq_.headers) != 4 or rq_.headers.getbytes('ETag') != b'"y"':
				return {'what': 'message.headers = mapping, then an assignment in another letter case: %r' % (dict(dict.items(rq_.headers)),), 'finding': None}
			for badn in ('x bad', 'a:b'):
				try:
					rq2_ = _Rq()
					rq2_.headers = mk_({badn: b'v'})
				except InvalidHeader:
					continue
				return {'what': 'message.headers = mapping accepts the invalid field name %r' % (badn,), 'finding': None}
		# one name twice in a constructor argument, in different letter case: the later value, whatever the spellings
		for first_, second_ in ((b'x-request-id', b'X-Request-Id'), (b'X-Request-Id', b'x-request-id'), (b'ETAG', b'ETag'), (b'content-md5', b'Content-MD5')):
			for mk in (lambda prs: Headers(prs), lambda prs: Headers(iter(prs))):
				hc = mk([(first_.decode(), b'one'), ('X-Other', b'o'), (second_.decode(), b'two')])
				if hc.getbytes(first_) != b'two' or hc.getbytes(second_) != b'two' or len(hc) != 2:
					return {'what': 'Headers([(%r, one), (X-Other, o), (%r, two)]) holds %r' % (first_, second_, dict(dict.items(hc))), 'finding': None}
		before = dict(dict.items(h))
		clone = Headers(h)
		if dict(dict.items(clone)) != before:
			return {'what': 'Headers(h) is not equal to h: %r / %r' % (dict(dict.items(clone)), before), 'finding': None}
		clone['X-Clone-Only'] = b'1'
		for k_ in list(clone.keys())[:1]:
			clone[k_.swapcase()] = b'changed-in-the-copy'
		if dict(dict.items(h)) != before:
			return {'what': 'changing a copy Headers(h) changed h: %r, before %r' % (dict(dict.items(h)), before), 'finding': None}
	except InvalidHeader:
		pass
	except Exception as e:
		return {'what': 'reading the collection through keys() / len() / Headers(h) raised %s: %s' % (exc_name(e), e), 'finding': None}
	return None


def nontrivial(case, outs):
	if outs and outs[0].count('=') >= 2 and 'err' not in outs[0]:
		return outs[0].split(' ', 1)[1]
	return None


def tally(case, res):
	for op in case[1]:
		res.count('op:' + op[0])


def describe(case):
	return ['seq', [[op[0]] + [a.hex() if isinstance(a, bytes) else {'str': a} for a in op[1:]] for op in case[1]]]


def undescribe(d):
	return ('seq', tuple(tuple([op[0]] + [bytes.fromhex(a) if isinstance(a, str) else a['str'] for a in op[1:]]) for op in d[1]))


def finding_still_fails(k):
	return oracle(undescribe(k['witness'])) is not None


LEVEL_TEXT = ('Theorems for ALL names, values and collections: names differing only in ASCII letter case have the same canonical key (or are both rejected), hence set/get/contains/delete/pop/append agree; '
	'the association list obeys the map laws (get after set, other keys untouched, absent after delete); any separator, control or 8-bit octet in a name rejects assignment and parsing; '
	'a parsed line is appended to the stored value with the registered separator (inductive step of order-preserving combination); serialising a collection and parsing the block gives the collection back, field for field (compose_parse_roundtrip). HEADER_RE, TSPECIALS, splitter patterns and the whole registry are '
	'regenerated and re-proved each run; whole op sequences incl. parse/compose are compared with the code.')
LEVEL_NOTE = 'Trusted: Lean kernel; dict semantics; ASCII str.title(); extract.py/correspondence. The round trip is a theorem for collections with canonical, pairwise different names, values without outer white space or CR, and no list-valued field (Set-Cookie, WWW-Authenticate, Proxy-Authenticate: field-specific composition, oracle).'
