# -*- coding: utf-8 -*-
"""C04 — a composed message parses back to the same message."""
from __future__ import annotations

import composeutil as cu
import parserutil
from core import hx, exc_name

ID = 'C04'
MODULES = ['Httoop.Props.C04', 'Httoop.Props.C04Whole']
THEOREMS = [
	'Httoop.integerStr_natToDec',
	'Httoop.Compose.cl_reads_back',
	'Httoop.Compose.compose_parse_body_length',
	'Httoop.Compose.compose_parse_body_chunked',
	'Httoop.Compose.compose_parse_body_coded',
	'Httoop.Compose.length_truthful',
	'Httoop.Compose.chunked_reads_back',
	'Httoop.chunkSize_hexLower',
	'Httoop.StartLine.status_roundtrip',
	'Httoop.StartLine.version_roundtrip',
	'Httoop.StartLine.response_line_roundtrip',
	'Httoop.Parser.lines_noDbl',
	'Httoop.Parser.response_head',
	'Httoop.Parser.response_roundtrip',
	'Httoop.Parser.response_roundtrip_chunked',
	'Httoop.Parser.c04_response_witness',
	'Httoop.Parser.c04_response_chunked_witness',
]
TRUSTED = [
	'the theorems join the composer framing model (C05) and the parser model (C01-C03, C07): what the body iterator writes for either framing, the parser model reads back octet for octet, with the Content-Length text read by the library\'s own integer(); '
	'start line, request target and header section round trips are the theorems of C18, C10 (piecewise) and C08 (per field line), tied to the code there',
	'the end-to-end statement (the whole message, all components at once) is decided by the oracle on the real code and by running the parser MODEL on every composed wire (correspondence)',
	'zlib is a parameter (C14)',
]
ASSUMPTIONS = ['F1d: code points below U+0010 in path segments or query text are percent-encoded with one hex digit (F1 of C13)', 'F26d: query pairs with ASCII control characters U+0010-U+001F, U+007F are refused by the parser (F26 of C13)', 'F23: chunked framing on HTTP/1.0 (recorded, C05)', 'HTTP/1.1 requests carry a Host (explicit field or absolute target): without it the server answers 400 by design']
RULE = ('messages built through the public API from valid components: method tokens (all of METHOD_RE\'s alphabet, 1-20 octets), 0-4 path segments and 0-3 query pairs over arbitrary Unicode (ASCII, Latin-1, BMP, astral, "/", "%", "+", "&", "=", spaces), statuses 100-599 with default or own reason phrase, versions 1.0/1.1, '
	'1-4 header fields with Latin-1 values (no CR/LF, no outer white space), bodies from bytes/text/list/generator/BytesIO/file incl. empty and multi-block, Content-Length or chunked (asked for through ComposedMessage.chunked, the Transfer-Encoding field or the Body flag), responses also with gzip/deflate; composed, then parsed by the opposite state machine in one call and in fragments, followed on the same state machine by a second, plain message; '
	'non-trivial = one message delivered and equal; distinct by (kind, framing, coding, source, sizes)')

METHOD_CHARS = 'ABCDEFGHIJKLMNOPQRSTUVWXYZabcdefghijklmnopqrstuvwxyz0123456789-_.$'
SEG_ALPHABETS = [u'abcXYZ019-._~', u'a b+&=?#%;:@,!$\'()*', u'äöüßéñÿ', u'€→日本語', u'\U0001f600\U0001f4a9x', u'/a', u'%41%7e', u'%2541%e9%20o100', u'a%4',
	# text that is not in a Unicode normalisation form / that case folding or compatibility mapping would change: data, to be kept as it is
	u'e\u0301a\u0308o\u0302', u'\u212b\u2126\ufb01\u00b5K', u'\u1100\u1161\u11a8x', u'\u0130\u0131I\u1e9e\u017f']
CTL_ALPHABETS = [u'\x10\x1f\x7fa', u'\x01\x0fa']
HEADER_NAMES = ['X-Foo', 'X-Bar', 'Accept-Language', 'Cache-Control', 'X-Custom-Header', 'From', 'Pragma', 'Warning']
DEFAULTED_NAMES = ['User-Agent', 'Accept', 'Accept-Ranges', 'Server', 'Allow']
SOURCES = ['bytes', 'text', 'list', 'gen', 'iter', 'textlist', 'bytesio', 'file', 'none']


def word(rng, alphabets, lo=1, hi=8):
	a = rng.choice(alphabets)
	if alphabets is SEG_ALPHABETS and rng.random() < 0.01:
		a = rng.choice(CTL_ALPHABETS)      # the classes of the recorded findings F1d, F26d
	return u''.join(rng.choice(a) for _ in range(rng.randrange(lo, hi)))


def known_status(code):
	from httoop.status import STATUSES
	return code in STATUSES


def lowchars(s):
	return any(ord(c) < 0x10 for c in s)


def ctlchars(s):
	return any(0x10 <= ord(c) < 0x20 or ord(c) == 0x7f for c in s)


def gen_case(rng):
	kind = rng.choice(('request', 'response'))
	method = ''.join(rng.choice(METHOD_CHARS) for _ in range(rng.choice((1, 3, 7, 20)))) if rng.random() < 0.3 else rng.choice(('GET', 'POST', 'PUT', 'DELETE', 'OPTIONS', 'PATCH', 'HEAD', 'TRACE', 'SEARCH', 'get', 'Head', 'search', 'Get', 'pOST', 'trace'))
	segs = tuple(word(rng, SEG_ALPHABETS) for _ in range(rng.randrange(0, 5)))
	segs = tuple(s for s in segs if s not in (u'.', u'..'))
	query = tuple((word(rng, SEG_ALPHABETS), word(rng, SEG_ALPHABETS, 0, 6)) for _ in range(rng.randrange(0, 4)))
	status = rng.choice((200, 200, 201, 202, 206, 301, 302, 400, 401, 404, 418, 500, 503, rng.randrange(200, 600)))
	reason = None if rng.random() < 0.7 else rng.choice(('OK', 'Very Well', 'Nope', 'x', 'Not  Found', 'a\tb', 'Three   spaces', ''))
	if reason is None and not known_status(status):
		reason = 'Custom'      # "every status with a reason phrase": a code the library has no phrase for gets one from the caller
	version = rng.choice(((1, 1), (1, 1), (1, 0)))
	fields = []
	for name in rng.sample(HEADER_NAMES, rng.randrange(1, 5)):
		v = word(rng, [u'abc XYZ 019', u'text/html; q=0.5, */*', u'äöü éè', u'"quoted, value"', u'a=b; c="d e"', u'\xa0x\xff', u'na\xc3\xafve \xc2\xa0\xc3\xa9', u'\xc3\xa4\xe2\x82\xacx'], 1, 12).strip(u' \t')      # optional white space of a field is SP / HTAB; anything else at the ends (U+00A0 ...) is content
		fields.append((name, v or u'v'))
	if rng.random() < 0.25:
		# a field the composer has a default for, set by the caller - also to the empty value
		name = rng.choice(DEFAULTED_NAMES)
		fields.append((name, rng.choice((u'', u'', u'x/1.0', u'text/plain', u'none', u'*/*;q=0.1'))))
	if kind == 'request' and rng.random() < 0.15:
		fields.append((u'Date', rng.choice((u'Sun, 06 Nov 1994 08:49:37 GMT', u'Thu, 01 Jan 1970 00:00:00 GMT'))))      # a request keeps the Date its sender gave it (a response is stamped by the composer)
	source = rng.choice(SOURCES)
	n = rng.choice((0, 1, 5, 300, 4096, 4097, 9000) * 4 + (65536, 131072))      # (pieces of exactly k * 64 KiB among them)
	if source in ('text', 'textlist'):
		data = u''.join(rng.choice(u'ab é€\n') for _ in range(n)).encode('utf-8')
	else:
		data = bytes(rng.randrange(256) for _ in range(n)) if rng.random() < 0.6 else b'line\r\n' * (n // 6)
	if source in ('list', 'gen', 'iter', 'textlist') and data:
		h = rng.randrange(len(data) + 1)
		if source == 'textlist':
			while h < len(data) and (data[h] & 0xC0) == 0x80:
				h += 1
		pieces = (data[:h], data[h:])
		if n >= 65536 and source != 'textlist' and rng.random() < 0.7:
			pieces = (data[:65536], data[65536:]) if len(data) > 65536 and rng.random() < 0.5 else (data,)      # one piece of exactly k * 64 KiB
			pieces = tuple(x for x in pieces if x)
	else:
		pieces = (data,) if source != 'none' else ()
	if kind == 'request' and method == 'TRACE':
		source, pieces = 'none', ()        # the server refuses a TRACE request with a body by design
	# chunked framing asked for through ComposedMessage.chunked (True), through the header API ('field'), or only on the Body object ('body': prepare() settles it)
	chunked = rng.choice((None, None, True, True, 'field', 'body')) if version == (1, 1) else None
	coding = rng.choice((None, None, 'gzip', 'deflate')) if kind == 'response' and version == (1, 1) else None
	return ('m', kind, method, segs, query, status, reason, version, tuple(fields), source, pieces, chunked, coding, rng.randrange(10 ** 6))


def cases(rng, tier):
	n = 40000 if tier == 'thorough' else 4000
	for _ in range(n):
		yield gen_case(rng)


def search(rng, res):
	return cases(rng, 'thorough')


def build(case):
	from httoop import Request, Response
	from httoop.semantic.request import ComposedRequest
	from httoop.semantic.response import ComposedResponse
	_, kind, method, segs, query, status, reason, version, fields, source, pieces, chunked, coding, seed = case
	keep = []
	if kind == 'request':
		m = Request()
		m.method = method.encode('ascii') if seed % 3 == 0 else method      # the method as octets or as text
		m.uri.path_segments = [u''] + list(segs) if segs else [u'', u'']
		if query:
			m.uri.query = query
		m.protocol = version
		m.headers['Host'] = 'example.org'
		comp = ComposedRequest(m)
		req = m
	else:
		req = Request()
		req.method = 'GET'
		if seed % 3 == 0:
			req.protocol = (1, 0)      # the request that is answered was HTTP/1.0: the response keeps the version its sender gave it
		m = Response()
		m.status = status
		if reason is not None:
			m.status.reason = reason
		m.protocol = version
		comp = ComposedResponse(m, req)
	for k, v in fields:
		m.headers[k] = v
	src = cu.make_source(source, pieces, keep)
	if src is not None:
		m.body = src
	if coding:
		m.headers['Content-Encoding'] = coding
	if chunked == 'field':
		m.headers['Transfer-Encoding'] = 'chunked'
	elif chunked == 'body':
		m.body.chunked = True
	elif chunked:
		comp.chunked = True
	return m, comp, req, keep


def fragments(wire, seed):
	import random
	rng = random.Random(seed)
	yield [wire]
	if len(wire) > 1:
		cuts = sorted({rng.randrange(1, len(wire)) for _ in range(rng.choice((1, 3, 8)))})
		out, prev = [], 0
		for c in cuts + [len(wire)]:
			out.append(wire[prev:c])
			prev = c
		yield out


_WIRE = {}


def compose_once(case):
	"""one composition per case for model and implementation lines (the Date field is the wall clock)"""
	if case not in _WIRE:
		_WIRE[case] = compose(case)
	return _WIRE[case]


BATCH = 2000


def prepare(batch):
	"""called by vcheck before each batch: the cache only has to live for one batch"""
	_WIRE.clear()


def compose(case):
	m, comp, req, keep = build(case)
	try:
		comp.prepare()
		wire = b''.join(comp)
	finally:
		for f in keep:
			f.close()
	return m, req, wire


def bodiless(case):
	_, kind, method, segs, query, status, reason, version, fields, source, pieces, chunked, coding, seed = case
	if kind == 'request':
		return method in ('GET', 'HEAD', 'SEARCH')
	return status < 200 or status in (204, 205, 304)


def _fix_gzip_time():
	import gzip

	class T(object):
		@staticmethod
		def time():
			return 0
	gzip.time = T


def model_lines(case):
	"""the parser MODEL on the wire the real composer produced"""
	_fix_gzip_time()
	try:
		m, req, wire = compose_once(case)
	except Exception:
		return None
	side = 'server' if case[1] == 'request' else 'client'
	return ['sm.%s %s' % (side, ' '.join(hx(f) for f in fr if f)) for fr in fragments(wire, case[-1])]


def impl_lines(case):
	_fix_gzip_time()
	m, req, wire = compose_once(case)
	side = 'server' if case[1] == 'request' else 'client'
	return [parserutil.run(side, [f for f in fr if f]) for fr in fragments(wire, case[-1])]


def reused_message_oracle(pieces):
	"""one message object used for two exchanges, the second representation handed over as a Body object made of pieces (and the
	same for a request): the opposite state machine reads exactly the second content"""
	from httoop import Request, Response
	from httoop.client import ClientStateMachine
	from httoop.server import ServerStateMachine
	from httoop.messages.body import Body
	from httoop.semantic.request import ComposedRequest
	from httoop.semantic.response import ComposedResponse
	first = [p for p in pieces if p] or [b'0123456789']
	second = [b'the second representation, ', b'which is considerably longer than the first one ' * 2, b'', b'end']
	get = Request('GET', '/r')
	resp = Response(200, body=Body(list(first)))
	c = ComposedResponse(resp, get)
	c.prepare()
	b''.join(c)
	resp.body = Body(list(second))
	c.prepare()
	w = b''.join(c)
	sm = ClientStateMachine()
	sm.request = get
	out = list(sm.parse(w))
	if len(out) != 1 or bytes(out[0].body) != b''.join(second) or sm.buffer:
		return 'a response object used for a second exchange with a new Body object of pieces: sent %d octets of content, the client read %r and kept %d octets' % (len(b''.join(second)), [bytes(o.body)[:40] for o in out], len(sm.buffer))
	req = Request('POST', '/r', body=Body(list(first)))
	req.headers['Host'] = 'h'
	c = ComposedRequest(req)
	c.prepare()
	b''.join(c)
	req.body = Body(list(second))
	c.prepare()
	w = b''.join(c)
	sm = ServerStateMachine('http', 'h', 80)
	out = [x[0] for x in sm.parse(w)]
	if len(out) != 1 or bytes(out[0].body) != b''.join(second) or sm.buffer:
		return 'a request object used for a second exchange with a new Body object of pieces: sent %d octets of content, the server read %r and kept %d octets' % (len(b''.join(second)), [bytes(o.body)[:40] for o in out], len(sm.buffer))
	return None


_once = []


def charset_scenario():
	"""early in the run: one message whose text body is sent as ISO-8859-1 (chosen through the public setter body.encoding), then a
	message declared UTF-8 with the same text - each is read back as the octets of ITS charset (what the first did must not show in the second)"""
	from httoop import Request, Response
	from httoop.client import ClientStateMachine
	from httoop.server import ServerStateMachine
	from httoop.semantic.request import ComposedRequest
	from httoop.semantic.response import ComposedResponse
	text = u'Gr\xfc\xdfe aus K\xf6ln'
	resp = Response(200)
	resp.body.encoding = 'ISO8859-1'
	resp.body = text
	get = Request('GET', '/')
	c = ComposedResponse(resp, get)
	c.prepare()
	sm = ClientStateMachine()
	sm.request = get
	out = list(sm.parse(b''.join(c)))
	if len(out) != 1 or bytes(out[0].body) != text.encode('iso8859-1'):
		return 'a text body sent as ISO-8859-1 (body.encoding) is read back as %r' % ([bytes(o.body) for o in out],)
	for cs in ('UTF-8', 'utf-8'):
		req = Request('POST', '/g', {'Host': 'example.com', 'Content-Type': 'text/plain; charset=%s' % cs})
		req.body.mimetype = 'text/plain; charset=%s' % cs
		req.body = text
		c = ComposedRequest(req)
		c.prepare()
		out = [x[0] for x in ServerStateMachine('http', 'example.com', 80).parse(b''.join(c))]
		if len(out) != 1 or bytes(out[0].body) != text.encode('utf-8'):
			return 'after a message in ISO-8859-1, a text body declared %s is read back as %r' % (cs, [bytes(o.body) for o in out])
	resp = Response(200)
	resp.body = text
	c = ComposedResponse(resp, get)
	c.prepare()
	sm = ClientStateMachine()
	sm.request = get
	out = list(sm.parse(b''.join(c)))
	if len(out) != 1 or bytes(out[0].body) != text.encode('utf-8'):
		return 'after a message in ISO-8859-1, a response with a text body and the default charset is read back as %r' % ([bytes(o.body) for o in out],)
	return None


def oracle(case):
	_, kind, method, segs, query, status, reason, version, fields, source, pieces, chunked, coding, seed = case
	from httoop.client import ClientStateMachine
	from httoop.server import ServerStateMachine
	if not _once:
		_once.append(1)
		try:
			r0 = charset_scenario()
		except Exception as e:
			r0 = 'the charset scenario raised %s: %s' % (exc_name(e), e)
		if r0:
			return {'what': r0, 'case': describe(case), 'finding': None}
	if seed % 9 == 0 and source in ('list', 'bytes'):
		try:
			r0 = reused_message_oracle(pieces)
		except Exception as e:
			r0 = 'a message object used for a second exchange raised %s: %s' % (exc_name(e), e)
		if r0:
			return {'what': r0, 'case': describe(case), 'finding': None}
	try:
		m, req, wire = compose(case)
	except Exception as e:
		fid = 'F1d' if any(lowchars(s) for s in segs) else None
		return {'what': 'building/composing raised %s: %s' % (exc_name(e), e), 'case': describe(case), 'finding': fid}
	want_body = b'' if bodiless(case) else b''.join(pieces)
	for fr in fragments(wire, seed):
		out = []
		try:
			if kind == 'request':
				sm = ServerStateMachine('http', 'example.org', 80)
				for f in fr:
					out.extend(x[0] for x in sm.parse(f))
			else:
				sm = ClientStateMachine()
				sm.request = req
				for f in fr:
					out.extend(sm.parse(f))
		except Exception as e:
			fid = None
			if any(lowchars(s) for s in segs) or any(lowchars(k + v) for k, v in query):
				fid = 'F1d'
			elif any(ctlchars(k + v) for k, v in query):
				fid = 'F26d'
			return {'what': 'the opposite state machine raised %s: %s' % (exc_name(e), str(e)[:150]), 'wire': wire[:300].hex(), 'case': describe(case), 'finding': fid}
		if len(out) != 1:
			return {'what': '%d messages delivered for one composed %s (%d fragments)' % (len(out), kind, len(fr)), 'wire': wire[:300].hex(), 'case': describe(case), 'finding': None}
		got = out[0]
		bad = []
		lowc = any(ord(c) < 0x10 for s in segs for c in s) or any(ord(c) < 0x10 for k, v in query for c in k + v)
		if kind == 'request':
			if str(got.method) != method:
				bad.append('method %r' % str(got.method))
			want_segs = [u''] + list(segs) if segs else [u'', u'']
			if got.uri.path_segments != want_segs:
				bad.append('path %r != %r' % (got.uri.path_segments, want_segs))
			if tuple(got.uri.query) != tuple(query):
				bad.append('query %r != %r' % (tuple(got.uri.query), tuple(query)))
		else:
			if int(got.status) != status:
				bad.append('status %r' % int(got.status))
			if got.status.reason != m.status.reason:
				bad.append('reason %r != %r' % (got.status.reason, m.status.reason))
		if tuple(got.protocol) != version:
			bad.append('version %r' % (tuple(got.protocol),))
		for k, v in fields:
			w = got.headers.getbytes(k)
			if w != v.encode('latin-1'):
				bad.append('field %s: %r != %r' % (k, w, v.encode('latin-1')))
			elif got.headers[k] != v:
				# the text the application reads, against the text the caller supplied (not against the sender's own reading)
				bad.append('field %s reads %r, %r was set' % (k, got.headers[k], v))
		if bytes(got.body) != want_body:
			bad.append('body: %d octets, %d sent' % (len(bytes(got.body)), len(want_body)))
		if bad:
			return {'what': '; '.join(bad)[:400], 'wire': wire[:300].hex(), 'case': describe(case), 'finding': 'F1d' if lowc and all(b.startswith(('path', 'query')) for b in bad) else None}
		# the connection goes on: a second, plain message composed by the library and sent to the SAME state machine is one message again
		follow, fbody = followup(kind)
		try:
			if kind == 'request':
				out2 = [x[0] for x in sm.parse(follow)]
			else:
				sm.request = req
				out2 = list(sm.parse(follow))
		except Exception as e:
			return {'what': 'the message after this one on the same connection: the state machine raised %s: %s' % (exc_name(e), str(e)[:150]), 'wire': wire[:300].hex(), 'case': describe(case), 'finding': None}
		if len(out2) != 1 or bytes(out2[0].body) != fbody:
			return {'what': 'the message after this one on the same connection: %d delivered%s' % (len(out2), (', body %r' % bytes(out2[0].body)[:40]) if out2 else ''), 'wire': wire[:300].hex(), 'case': describe(case), 'finding': None}
	return None


_follow = {}


def followup(kind):
	"""a plain Content-Length message composed by the library (once per run) and its body"""
	if kind not in _follow:
		from httoop import Request, Response
		from httoop.semantic.request import ComposedRequest
		from httoop.semantic.response import ComposedResponse
		body = b'1\r\nsecond message\r\n0\r\n\r\n'      # looks like chunks to a reader that still believes in chunked framing
		if kind == 'request':
			m = Request()
			m.method = 'POST'
			m.uri = '/second'
			m.headers['Host'] = 'example.org'
			m.body = body
			c = ComposedRequest(m)
		else:
			r = Request()
			r.method = 'GET'
			m = Response()
			m.status = 200
			m.body = body
			c = ComposedResponse(m, r)
		c.prepare()
		_follow[kind] = (b''.join(c), body)
	return _follow[kind]


def nontrivial(case, outs):
	_, kind, method, segs, query, status, reason, version, fields, source, pieces, chunked, coding, seed = case
	n = len(b''.join(pieces))
	return (kind, chunked, coding, source, 0 if n == 0 else 1 if n <= 4096 else 2, len(segs), len(query), version)


def tally(case, res):
	res.count('kind:' + case[1])
	res.count('source:' + case[9])
	res.count('chunked:%s' % case[11])
	res.count('coding:%s' % case[12])


def describe(case):
	_, kind, method, segs, query, status, reason, version, fields, source, pieces, chunked, coding, seed = case
	return ['m', kind, method, list(segs), [list(q) for q in query], status, reason, list(version), [list(f) for f in fields], source, [p.hex() for p in pieces], chunked, coding, seed]


def undescribe(d):
	return ('m', d[1], d[2], tuple(d[3]), tuple(tuple(q) for q in d[4]), d[5], d[6], tuple(d[7]), tuple(tuple(f) for f in d[8]), d[9], tuple(bytes.fromhex(p) for p in d[10]), d[11], d[12], d[13])


def finding_still_fails(k):
	return oracle(undescribe(k['witness'])) is not None


LEVEL_TEXT = ('Theorems joining the composer framing model (C05) with the parser model (C01-C03): the Content-Length the composer writes is read back by the library\'s own integer() as the number it stands for (every n of up to 4300 digits), the parser then takes exactly the content and leaves the rest of the stream; '
	'with chunked framing the reader returns exactly the content for any number and size of pieces; with a content coding (any lawful codec) decoding what was read gives the content. Start line and version round trips are the theorems of C18, target and header fields those of C10/C08 (piecewise). '
	'For RESPONSES the whole message is one theorem (response_roundtrip, response_roundtrip_chunked): status line (response_line_roundtrip), header section (C08 round trip; the block has no empty line inside: lines_noDbl) and body under a truthful Content-Length or in chunks as the composer frames them, '
	'fed to the client-side state machine in one call, come back as exactly one message with the same version, status, reason, fields and body, nothing retained (through the pipeline theorem of C02). '
	'Requests (the target goes through URI parse, normalisation and the Host hooks), content codings, every body source and fragmented delivery are decided by the oracle on the real code; the parser MODEL is run on every composed wire and compared with the real parser.')
LEVEL_NOTE = 'Trusted: Lean kernel; correspondence harness; the end-to-end equality of all components is a theorem for responses and oracle-level for requests (no single theorem composes C18+C10+C08+C05+C02 on the request side). Defects found by this check were repaired (F50 colon in path, F51 empty reason phrase); F1d, F26d are the C04 views of recorded findings F1, F26.'
