# -*- coding: utf-8 -*-
"""C12 — reference resolution agrees with RFC 3986 section 5.2 (after normalisation, C11's reading)."""
from __future__ import annotations

import rfc3986
from core import hx, exc_name
from uriutil import render_uri, guarded

ID = 'C12'
MODULES = ['Httoop.Props.C12', 'Httoop.Props.C12Whole']
THEOREMS = [
	'Httoop.Uri.join_eq_rfc',
	'Httoop.Uri.toRef_rfcRecord',
	'Httoop.Uri.join_eq_rfc_scheme',
	'Httoop.Uri.rfcRecord_port',
	'Httoop.Uri.normalize_normalBase',
	'Httoop.Uri.join_path_merge',
	'Httoop.Uri.join_path_merge_empty',
	'Httoop.Uri.join_eq_rfc_witness',
	'Httoop.Uri.join_path_eq_rfc',
	'Httoop.Uri.join_scheme_ref',
	'Httoop.Uri.join_components',
	'Httoop.Uri.join_path_cases',
	'Httoop.Uri.parent_trick',
	'Httoop.Uri.join_relative_path_eq_merge',
	'Httoop.Uri.base_fragment_needed_witness',
	'Httoop.Uri.readings_differ_witness',
]
TRUSTED = [
	'Spec/Rfc3986.lean transcribes RFC 3986 5.2.2-5.2.4; presence of a component = non-empty (httoop cannot tell "?" from an absent query; such references are outside the quantifier)',
	'the transcription in Spec/Rfc3986.lean is compared on every case with a second, independent transcription (harness/rfc3986.py, driver operation rfc.resolve): no httoop code on either side of that comparison',
	'the dot-segment step is section 5.2.4 applied to the slash-collapsed path (C11 fixes that normal form; readings_differ_witness shows where it differs from 5.2.4 alone)',
]
ASSUMPTIONS = ['bases are normalised absolute http(s) URIs without fragment (the property\'s quantifier)']
RULE = ('bases: normalised http(s) URIs with/without path, trailing slash, query; references: scheme-qualified, network-path, absolute-path, relative-path over '
	'{".", "..", "", "g", "a.b", "...", segments with an encoded slash in either letter case next to dots, escapes with hex digits in mixed case}; network-path references also handed to join() as URI object / tuple / keywords with the host in upper case, query-only, fragment-only, empty; non-trivial = result differs from both base and reference text; distinct by result')

BASES = [u'http://[2001:db8::1]/a/b?q', u'http://[v1.fe:DC]:81/x/y', u'http://a/b/c/d;p?q', u'http://a/b/c/d', u'http://a/b/c/', u'http://a', u'http://a/', u'https://h.example/x', u'http://a/b?x=1', u'https://u:p@h:8443/p/q/r', u'http://a/b/c/d/e/f/', u'http://svc:20:r:k@a/b/c', u'http://a/b?x=1%2B1&y=+z', u'http://a/b?x?y']
RSEGS = [u'.', u'..', u'', u'g', u'a.b', u'...', u'h', u'g', u'h', u'x:', u'http:', u'a:b', u'@', u'a@b', u'x%2F..', u'%2F..', u'g%2Fh', u'y%2f..', u'..%2F', u'%2f', u'%cE%bB', u'%c3%Ab', u'%Ce%Bb.x']
RFC_EXAMPLES = [u'mailto:John.Doe@example.com', u'urn:isbn:0451450523', u'tel:+1-816-555-1212', u'news:comp.lang@x', u'g?y?z', u'?objectClass?one', u'//h/p?a?b#c?d', u'g:h', u'g', u'./g', u'g/', u'/g', u'//g', u'?y', u'g?y', u'#s', u'g#s', u'g?y#s', u';x', u'g;x', u'g;x?y#s', u'', u'.', u'./', u'..', u'../', u'../g', u'../..', u'../../', u'../../g',
	u'../../../g', u'../../../../g', u'/./g', u'/../g', u'g.', u'.g', u'g..', u'..g', u'./../g', u'./g/.', u'g/./h', u'g/../h', u'g;x=1/./y', u'g;x=1/../y', u'g?y/./x', u'g#s/./x', u'http:g', u'HTTP://X/./y']


def gen_ref(rng):
	kind = rng.randrange(8)
	segs = u'/'.join(rng.choice(RSEGS) for _ in range(rng.randrange(1, 6)))
	q = rng.choice([u'', u'', u'?y', u'?y=1&z', u'?t=12:30', u'?u=http://o/i', u'?a/b', u'?a@b', u'?a%20b=c%26d', u'?%41=%7e', u'?k=%C3%9C', u'?%E2%82%AC=%C3%9F', u'?x=%C2%80', u'?x=1%2B1', u'?a%2Bb=c+d', u'?+=%2B', u'?y?z', u'?a=b?c=d', u'??', u'?lang=c++', u'?+x', u'?+', u'?x+', u'?a=1&+'])
	f = rng.choice([u'', u'', u'#s', u'#a:b', u'#x/y', u'#//z', u'#a%20b', u'#%41', u'#%C3%A9', u'#a%2Fb?c', u'#%25', u'#t=10,20', u'#a+b', u'#a&b=c', u'#+', u"#!$'()*;"])
	if kind == 0:
		return rng.choice([u'http', u'https', u'ftp', u'x']) + u'://' + rng.choice([u'b', u'B.c', u'u@b:81']) + u'/' + segs + q + f
	if kind == 1:
		return u'//' + rng.choice([u'b', u'B.c:8080', u'u:p@b', u'u:p:w@b', u'u::@b:81', u'us%3Aer:pw@g', u'u%40v:p%3Aw@g', u'[::1]:8080', u'[2001:DB8::A]', u'127.0.0.1']) + rng.choice([u'', u'/' + segs]) + q + f
	if kind == 2:
		return u'/' + segs + q + f
	if kind in (3, 4, 5):
		if segs.startswith(u'/') or not segs:
			segs = u'g' + segs
		return segs + q + f
	if kind == 6:
		return rng.choice([u'?y', u'?y=2#s', u'#s', u'', u'#a%20b', u'#%41', u'?a%20b', u'?y#%C3%A9', rng.choice([u'http', u'g', u'mailto', u'x-y']) + u':' + rng.choice([u'', u'/']) + segs + q + f])
	return rng.choice(RFC_EXAMPLES)


def cases(rng, tier):
	for b in BASES:
		for r in RFC_EXAMPLES:
			yield ('join', b, r)
	n = 400000 if tier == 'thorough' else 30000
	for _ in range(n):
		yield ('join', rng.choice(BASES), gen_ref(rng))


def search(rng, res):
	return cases(rng, 'thorough')


def spec_args(base, ref):
	b, r = rfc3986.split(base), rfc3986.split(ref)
	opt = [b[0], b[1], b[3], b[4], r[0], r[1], r[3], r[4]]
	fl = ''.join('1' if x is not None else '0' for x in opt)
	vals = [b[0], b[1], b[2], b[3], b[4], r[0], r[1], r[2], r[3], r[4]]
	return [hx(fl.encode())] + [hx((v or u'').encode('utf-8')) for v in vals]


def model_lines(case):
	return ['uri.join %s %s' % (hx(case[1].encode()), hx(case[2].encode())), 'rfc.resolve ' + ' '.join(spec_args(case[1], case[2]))]


def spec_line(base, ref):
	"""the second transcription of RFC 3986 5.2.2 (harness/rfc3986.py), rendered like the driver renders Spec/Rfc3986.lean"""
	t = rfc3986.resolve(base, ref, remove_dot_segments=lambda p: rfc3986.remove_dot_segments(rfc3986.collapse(p)))
	r = lambda v: 'none' if v is None else 'some:' + hx(v.encode('utf-8'))
	return '%s %s %s %s %s' % (r(t[0]), r(t[1]), hx(t[2].encode('utf-8')), r(t[3]), r(t[4]))


def impl_join(base, ref):
	from httoop.uri import URI
	try:
		bytes(URI(ref.encode()))      # an application that logs or stores the reference composes it first; that must not change what follows
	except Exception:
		pass
	return URI(base.encode()).join(ref.encode())


def impl_lines(case):
	return [guarded(lambda: render_uri(impl_join(case[1], case[2]))), spec_line(case[1], case[2])]


def degenerate(ref):
	"""references whose RFC components are defined-but-empty; httoop cannot represent them"""
	rs, ra, rp, rq, rf = rfc3986.split(ref)
	if ra is not None and ra.rpartition('@')[2].partition(':')[0] == '':
		return True      # an authority without a host ("//@/x", "//:80/x")
	return rq == '' or rf == '' or ra == ''


def rootless_dots(ref):
	"""F59: a scheme-qualified reference without authority whose path is rootless and has a dot segment"""
	rs, ra, rp, rq, rf = rfc3986.split(ref)
	return rs is not None and ra is None and not rp.startswith('/') and any(s in ('.', '..') for s in rp.split('/'))


def slash_before_scheme_mark(ref):
	"""F58: a reference with "://" in a later segment ("h/http://x", "mailto:x://y"): URI.parse takes everything in front
	of the first "://" for a scheme and refuses it (pinned by tests/uri/test_uri_parsing.py::test_invalid_uri_scheme_characters[/])"""
	r = ref.split('#')[0].split('?')[0]
	pre, sep, _rest = r.partition('://')
	return bool(sep) and not r.startswith('/') and ('/' in pre or ':' in pre)


def expected(base, ref):
	from httoop.uri import URI
	# C11's normal form: section 5.2.4 applied to the slash-collapsed (merged) path
	ts, ta, tp, tq, tf = rfc3986.resolve(base, ref, remove_dot_segments=lambda p: rfc3986.remove_dot_segments(rfc3986.collapse(p)))
	text = (ts + u':' if ts is not None else u'') + (u'//' + ta if ta is not None else u'') + tp + (u'?' + tq if tq is not None else u'') + (u'#' + tf if tf is not None else u'')
	u = URI(text.encode())
	u.normalize()
	return u


def oracle(case):
	base, ref = case[1], case[2]
	if degenerate(ref):
		return None
	try:
		exp = expected(base, ref)
	except Exception:
		# the expectation needs the library's own parser for the RFC result; when that refuses, at least this much is
		# independent: a reference whose query is percent-encoded UTF-8 text without control characters is a valid reference
		import re as _r
		from urllib.parse import unquote_to_bytes as _u
		rs, ra, rp, rq, rf = rfc3986.split(ref)
		if rq and _r.match(u"^[A-Za-z0-9._~!$&'()*+,;=:@/?%-]*$", rq) and not _r.search(u'%(?![0-9A-Fa-f]{2})', rq):
			raw = _u(rq)
			try:
				raw.decode('utf-8')
				plain = not any(b < 0x20 or b == 0x7f for b in raw)
			except UnicodeDecodeError:
				plain = False
			if plain and not degenerate(ref) and not slash_before_scheme_mark(ref):
				try:
					impl_join(base, ref.replace(u'?' + rq, u'', 1))      # the same reference without its query is accepted
				except Exception:
					return None
				try:
					impl_join(base, ref)
				except Exception as e:
					return {'what': 'join raised %s for a reference whose query %r is percent-encoded UTF-8 text' % (exc_name(e), rq), 'base': base, 'ref': ref, 'finding': None}
		return None
	try:
		got = impl_join(base, ref)
	except Exception as e:
		return {'what': 'join raised %s' % exc_name(e), 'base': base, 'ref': ref, 'finding': 'F58' if exc_name(e) == 'InvalidURI' and slash_before_scheme_mark(ref) else None}
	def text(u):
		try:
			return bytes(u).decode('latin-1')
		except Exception as e:  # F15: hosts with empty/over-long labels cannot be composed; compare tuples only
			return 'compose raised %s' % exc_name(e)
	# the other ways of handing the reference to join(): a URI object, its tuple, keywords - host in upper case (the parsed form is lower case)
	try:
		from httoop.uri import URI
		r = URI(ref.encode())
		t = r.tuple
		if r.host:
			t2 = t[:3] + (r.host.upper(),) + t[4:]
			names = ('scheme', 'username', 'password', 'host', 'port', 'path', 'query_string', 'fragment')
			for how, res in (('URI object', lambda: URI(base.encode()).join(URI(t2))), ('tuple', lambda: URI(base.encode()).join(t2)), ('keywords', lambda: URI(base.encode()).join(**{k: v for k, v in zip(names, t2) if v}))):
				other = res()
				if other.tuple != got.tuple:
					return {'what': 'join() given the reference as %s (host in upper case) gives %r, given as text %r' % (how, other.tuple, got.tuple), 'base': base, 'ref': ref, 'finding': None}
	except Exception as e:
		if not (exc_name(e) == 'InvalidURI'):
			return {'what': 'join() with the reference as an object raised %s: %s' % (exc_name(e), e), 'base': base, 'ref': ref, 'finding': None}
	# the segments, read off the RFC result without the library's parser: an encoded slash stays inside its segment
	import re as _re
	from urllib.parse import unquote as _unq
	if _re.search(u'%2[fF]', base + ref):
		ts, ta, tp, tq, tf = rfc3986.resolve(base, ref, remove_dot_segments=lambda p: rfc3986.remove_dot_segments(rfc3986.collapse(p)))
		if _re.match(u"^[A-Za-z0-9/._~;:@=-]*$", _re.sub(u'%2[fF]', u'', tp)):
			want = [_unq(x) for x in tp.split(u'/')]
			if list(got.path_segments) != want:
				return {'what': 'the path segments of the result are %r, RFC 3986 5.2 gives %r (an encoded slash is data, not a separator)' % (list(got.path_segments), want), 'base': base, 'ref': ref, 'finding': 'F59' if rootless_dots(ref) else None}
	# the written form, against the RFC result itself when nothing in it needs escaping or case folding (no library call on this side)
	ts, ta, tp, tq, tf = rfc3986.resolve(base, ref, remove_dot_segments=lambda p: rfc3986.remove_dot_segments(rfc3986.collapse(p)))
	plain = (ts or u'') + u'://' + (ta or u'') + tp + (u'?' + tq if tq is not None else u'') + (u'#' + tf if tf is not None else u'')
	import re as _re2
	if ts in (u'http', u'https') and ta and tp and _re2.match(u"^https?://[a-z0-9]+(\\.[a-z0-9]+)*(:[0-9]+)?/[A-Za-z0-9._~:@;=/-]*(\\?[A-Za-z0-9._~:@;=/&?-]+)?(#[A-Za-z0-9._~:@;=/?!$&'()*+,-]+)?$", plain) \
			and not _re2.search(u':(80|443)(/|$)', plain[6:]) and not rootless_dots(ref) and u'//' not in tp \
			and not any(pair.count(u'=') > 1 for pair in (tq or u'').split(u'&')):      # (a second '=' inside a pair is data for the query codec, which escapes it: another spelling of the same pairs)
		if text(got) != plain:
			return {'what': 'the result is written %r, RFC 3986 5.2 gives %r (nothing in it needs escaping)' % (text(got), plain), 'base': base, 'ref': ref, 'finding': None}
	# a scheme-qualified reference without authority and with a one-segment rootless path (mailto:, urn:, tel:): the reference alone
	# decides, and ':' and '@' inside such a path are data that needs no escaping (RFC 3986 3.3: pchar)
	rs_, ra_, rp_, rq_, rf_ = rfc3986.split(ref)
	if rs_ is not None and ra_ is None and rq_ is None and rf_ is None and _re2.match(u"^[A-Za-z][A-Za-z0-9+.-]*$", rs_) and _re2.match(u"^[A-Za-z0-9._~:@+,;=-]+$", rp_) and rp_ not in (u'.', u'..'):
		want_text = rs_.lower() + u':' + rp_
		if text(got) != want_text:
			return {'what': 'the result is written %r, the reference %r alone decides and nothing in it needs escaping' % (text(got), want_text), 'base': base, 'ref': ref, 'finding': None}
	# the authority with user information, read off the RFC result without the library's parser (a password may contain colons)
	if ta and ts in (u'http', u'https') and _re2.match(u'^([a-z0-9:]|%3A|%40)*@[a-z0-9.]+(:[0-9]+)?$', ta):      # (escaped colons and at-signs stay escaped)
		want_auth = _re2.sub(u':(80|443)$', u'', ta) if ta.endswith(u':80' if ts == u'http' else u':443') else ta
		ui_, _at, hp_ = want_auth.rpartition(u'@')
		un_, colon_, pw_ = ui_.partition(u':')
		want_auth = un_ + colon_ + pw_.replace(u'%3A', u':') + _at + hp_      # a colon inside the password needs no escape (the first raw colon ends the user name)
		if want_auth.split(u'@')[0].endswith(u':') and want_auth.count(u':') == 1:
			want_auth = want_auth.replace(u':@', u'@')      # an empty password is not written
		t = text(got)
		got_auth = t.split(u'://', 1)[1].split(u'/', 1)[0].split(u'?')[0].split(u'#')[0] if u'://' in t else None
		if got_auth is not None and got_auth != want_auth and not want_auth.startswith(u'@') and not want_auth.startswith(u':'):
			return {'what': 'the authority of the result is written %r, RFC 3986 5.2.2 gives %r' % (got_auth, want_auth), 'base': base, 'ref': ref, 'finding': None}
	if got.tuple != exp.tuple or text(got) != text(exp):
		return {'what': 'join differs from RFC 3986 5.2.2 + normalisation', 'base': base, 'ref': ref, 'got': [text(got), list(got.tuple)], 'expected': [text(exp), list(exp.tuple)], 'finding': 'F59' if rootless_dots(ref) else None}
	return None


def nontrivial(case, outs):
	if outs and outs[0].startswith('ok') and not degenerate(case[2]) and case[2]:
		return outs[0]
	return None


def tally(case, res):
	rs, ra, rp, rq, rf = rfc3986.split(case[2])
	kind = 'scheme' if rs is not None else 'netpath' if ra is not None else 'empty' if not (rp or rq or rf) else 'abs' if rp.startswith('/') else 'rel' if rp else 'query' if rq is not None else 'frag'
	res.count('ref:' + kind)


def describe(case):
	return list(case)


def undescribe(d):
	return tuple(d)


def finding_still_fails(k):
	return oracle(undescribe(k['witness'])) is not None


LEVEL_TEXT = ('THE WHOLE STATEMENT is a theorem (Props/C12Whole.lean): for EVERY normalised absolute base without fragment (NormalBase; normalize_normalBase shows that normalize() of any absolute URI yields one, with or without a path) and EVERY reference record without scheme - network-path, absolute-path, relative-path, query-only, fragment-only, empty - '
	'base.join(reference) = normalize(rfcRecord) (join_eq_rfc), where rfcRecord carries exactly the five components that the transcription of RFC 3986 5.2.2 ("transform references") prescribes (toRef_rfcRecord: scheme, authority, path, query, fragment each from the reference or the base as in the RFC; rfcRecord_port: the port goes with the authority, else the default of the base scheme); '
	'references with a scheme: join_eq_rfc_scheme. The path link (join_path_merge, join_path_merge_empty): the text join() hands to abspath() - base path, "/../" unless the base path ends with a slash, reference path - has the same normal form as the RFC 5.2.3 merge, for every base path without dot segments and slash runs and every reference path of any length (collapse passes over both junctions, the split is the segment list, parent_trick pops the last base segment), also for a base without path. '
	'Earlier pieces: which component comes from where (join_components, join_path_cases), parent_trick, join_relative_path_eq_merge, and abspath = remove_dot_segments of the collapsed path (abspath_eq_rfc of C11, join_path_eq_rfc). '
	'The RFC transcription itself is compared on every generated case with a second independent transcription (rfc.resolve against harness/rfc3986.py).')
LEVEL_NOTE = 'Trusted: Lean kernel, the RFC transcription, extract.py/correspondence. Degenerate references ("?", "#", "//", "s:") are outside the quantifier and skipped by the oracle.'
