# -*- coding: utf-8 -*-
"""C19 — quality values order content negotiation."""
from __future__ import annotations

import itertools

from core import hx, exc_name

ID = 'C19'
MODULES = ['Httoop.Props.C19']
THEOREMS = [
	'Httoop.Accept.bytesLt_trans',
	'Httoop.Accept.bytesLt_total',
	'Httoop.Accept.keyLt_trans',
	'Httoop.Accept.keyLt_total',
	'Httoop.Accept.ge_trans',
	'Httoop.Accept.ge_total',
	'Httoop.Accept.ge_antisymm',
	'Httoop.Accept.sorted_nonincreasing',
	'Httoop.Accept.sorted_perm',
	'Httoop.Accept.order_independent',
	'Httoop.Accept.malformed_q_invalid',
]
TRUSTED = [
	'sorted(reverse=True) is a stable sort using only "<" (modelled by List.mergeSort with the same comparison; any correct sort of a total order gives the same list: order_independent)',
	'float(): the RFC 7231 q grammar is exact thousandths; texts float() accepts outside it (1e3, .5, nan ...) are out of the model\'s domain and skipped (counted); pyFloatOk models which texts float() rejects (validated by T2)',
	'Python str comparison = code point order = UTF-8 octet order',
]
ASSUMPTIONS = ['an empty q text ("q=") gives quality None and is outside the property ("non-empty quality value")']
RULE = ('lists of 1-8 elements (media ranges, wildcards, charsets, codings, languages, parameters incl. quoted commas/semicolons) x q in {absent, 0, 1, 0.001..0.999, 0.5 spellings, malformed}; '
	'all orderings for <= 5 elements (sampled beyond), for Accept, Accept-Charset, Accept-Encoding, Accept-Language, TE; non-trivial = >= 2 distinct qualities and accepted; distinct by (name, result)')

NAMES = ['Accept', 'Accept-Charset', 'Accept-Encoding', 'Accept-Language', 'TE']
VALUES = {
	'Accept': [b'text/html', b'application/json', b'*/*', b'text/*', b'*', b'application/xhtml+xml', b'text/plain;format=flowed', b'a/b;x="1,2";y=3', b'image/png;title="a;b"'],
	'Accept-Charset': [b'utf-8', b'iso-8859-1', b'*', b'us-ascii'],
	'Accept-Encoding': [b'gzip', b'deflate', b'identity', b'*', b'br'],
	'Accept-Language': [b'de', b'en-US', b'en', b'*', b'fr-CH'],
	'TE': [b'trailers', b'deflate', b'gzip', b'chunked'],
}
MALFORMED = [b'abc', b'1.0.0', b'0,5', b'0.5x', b'x0.5', b'--1', b'1e', b'.', b'0x1', b'1_', b'_1', b'half', b'1/2', b'\xbd']
ODD = [b'1e0', b'.5', b'5.', b'+0.5', b'0.5000', b'1e-3', b'2', b'nan', b'inf', b'1_0', b'0.0005', b'1.001', b'-0']


def gen_q(rng):
	r = rng.random()
	if r < 0.25:
		return None
	if r < 0.35:
		return rng.choice([b'0', b'1', b'1.0', b'1.000', b'0.0', b'0.', b'1.'])
	if r < 0.80:
		n = rng.randrange(1, 1000)
		t = b'0.%03d' % n
		return t.rstrip(b'0') if rng.random() < 0.5 and not t.endswith(b'.0') else t
	if r < 0.92:
		return rng.choice(MALFORMED)
	return rng.choice(ODD)


def element(rng, name):
	v = rng.choice(VALUES[name])
	q = gen_q(rng)
	if q is None:
		return v
	sep = rng.choice([b';q=', b'; q=', b' ; q = ', b';q=', b';Q='])
	ext = rng.choice([b'', b'', b'', b';ext=1']) if rng.random() < 0.1 else b''
	return v + sep + q + ext


def cases(rng, tier):
	yield ('acc', 'Accept', b'text/html;q=0.5, application/json, */*;q=0.1')
	yield ('acc', 'Accept', b'application/json;q=0.001, text/html;q=0')
	yield ('acc', 'Accept', b'a/b;q=abc')
	yield ('acc', 'Accept-Language', b'de;q=0.5x, en')
	# elements whose text occurs inside an earlier one, parameters whose names sort behind "q"
	yield ('acc', 'Accept', b'text/html;level=1;q=0.7, text/html')
	yield ('acc', 'Accept-Language', b'en-US, en;q=0.8, e')
	yield ('acc', 'Accept-Encoding', b'x-gzip, gzip;q=0.5, zip')
	yield ('acc', 'Accept-Charset', b'iso-8859-15, iso-8859-1;q=0.3')
	yield ('acc', 'Accept', b'application/json;version=2;q=0.5, text/html;title=x;q=0.9, a/b;schema=s')
	yield ('acc', 'TE', b'trailers, deflate;q=0.5, trailer')
	# an empty quoted parameter value in a later element; language ranges with digits (RFC 4647), charsets and codings with digits and signs
	yield ('acc', 'Accept', b'a/b, c/d;y=""')
	yield ('acc', 'Accept', b'a/b;q=0.7, c/d;y="";q=0.2, e/f;z="x,y"')
	yield ('acc', 'Accept-Language', b'es-419;q=0.8, en, de-CH-1996;q=0.5, zh-Hant-TW, *;q=0.1, x-klingon, i-enochian')
	yield ('acc', 'Accept-Charset', b'iso-8859-1, utf-8;q=0.9, windows-1252;q=0.1, x-mac_roman')
	yield ('acc', 'Accept-Encoding', b'x-compress, br;q=1.0, zstd;q=0.9, identity;q=0')
	# a weight written twice, weights with stray quotes: not numbers
	for v in (b'text/html;q=0.5;q=high', b'text/html;q=high;q=0.5', b'a/b;q=0.5", c/d', b'a/b;q="0.7, c/d', b'a/b;q=0.2"", c/d', b'a/b;q="0.8", c/d;q=0.1', b'a/b;q=\'0.5\''):
		for name_ in ('Accept', 'Accept-Language', 'TE'):
			yield ('acc', name_, v)
	n = 6000 if tier == 'thorough' else 1500
	for _ in range(n):
		name = rng.choice(NAMES)
		k = rng.choice((1, 2, 2, 3, 3, 4, 5, 6, 8))
		els = [element(rng, name) for _ in range(k)]
		if k <= 4 or (k == 5 and tier == 'thorough'):
			perms = list(itertools.permutations(els))
		else:
			perms = [tuple(rng.sample(els, len(els))) for _ in range(12)]
		seen = set()
		for p in perms:
			if p in seen:
				continue
			seen.add(p)
			yield ('acc', name, rng.choice([b', ', b',', b' , ']).join(p))
	# long lists: element counts around the numbers a limit, a cache or a sorting shortcut would have
	for k in (17, 33, 65, 129, 300) + ((1025,) if tier == 'thorough' else ()):
		for name in NAMES:
			els = [element(rng, name) for _ in range(k)]
			yield ('acc', name, b', '.join(els))
	# dense q grid: adjacent thousandths
	for i in range(0, 1000, 1 if tier == 'thorough' else 7):
		a, b = b'0.%03d' % i, b'0.%03d' % min(i + 1, 999)
		yield ('acc', 'Accept', b'text/html;q=' + a + b', application/json;q=' + b)
		yield ('acc', 'Accept', b'application/json;q=' + b + b', text/html;q=' + a)


def search(rng, res):
	return cases(rng, 'thorough')


def model_lines(case):
	kind = b'a' if case[1] == 'Accept' else b'o'
	return ['acc.elements %s %s' % (hx(kind), hx(case[2]))]


def impl_elements(name, value):
	from httoop import Headers
	h = Headers()
	h[name] = value
	return h.elements(name)


def impl_lines(case):
	try:
		els = impl_elements(case[1], case[2])
		out = []
		for e in els:
			q = e.quality
			if q is None:
				return ['skip-none']
			t = q * 1000
			out.append('%d:%s' % (round(t), hx(bytes(e))))
		return ['ok ' + (' '.join(out) if out else '()')]
	except Exception as ex:
		return ['err ' + exc_name(ex)]


def qtexts(value):
	import re
	return [m.group(1).strip() for m in re.finditer(br';\s*[qQ]\s*=\s*([^;,]*)', value)]


def oracle(case):
	from httoop.exceptions import InvalidHeader
	from httoop.header import HEADER
	name, value = case[1], case[2]
	qs = qtexts(value)
	def isnum(t):
		try:
			float(t)
			return True
		except ValueError:
			return False
	malformed = [t for t in qs if t and not isnum(t)]
	odd = [t for t in qs if not t or (isnum(t) and (float(t) != float(t) or not (0 <= float(t) <= 1) or b'e' in t.lower() or b'_' in t))]
	# asking for one element by its value looks at the whole field as well: a malformed weight anywhere makes it fail
	if malformed:
		from httoop import Headers
		try:
			first = value.split(b',')[0].split(b';')[0].strip().decode('latin-1')
			h0 = Headers()
			h0[name] = value
			if first and b'"' not in value:
				r = h0.get_element(name, first)
				return {'what': 'get_element(%r, %r) returned %r although the field has the malformed quality value %r' % (name, first, bytes(r) if r is not None else None, malformed[0]), 'name': name, 'value': value.decode('latin-1'), 'finding': None}
		except InvalidHeader:
			pass
		except Exception:
			pass
	try:
		els = impl_elements(name, value)
	except InvalidHeader:
		if not malformed and not any(b'ext=' in value for _ in [0]):
			return {'what': 'field without a malformed quality value rejected', 'name': name, 'value': value.decode('latin-1'), 'finding': None}
		return None
	except Exception as ex:
		if odd:
			return None
		return {'what': 'elements() raised %s' % exc_name(ex), 'name': name, 'value': value.decode('latin-1'), 'finding': None}
	if malformed:
		return {'what': 'non-empty quality value that is not a number was accepted', 'name': name, 'value': value.decode('latin-1'), 'q': [t.decode('latin-1') for t in malformed], 'finding': None}
	if odd:
		return None
	quals = [e.quality for e in els]
	if any(a < b for a, b in zip(quals, quals[1:])):
		return {'what': 'elements not in non-increasing order of quality', 'name': name, 'value': value.decode('latin-1'), 'qualities': quals, 'finding': None}
	Element = HEADER[name]
	def canon(e):
		return (e.value, sorted((k, v if isinstance(v, bytes) else v.encode('utf-8')) for k, v in e.params.items()), e.quality)
	singles = sorted(canon(e) for e in (Element.parse(x) for x in Element.split(value)))
	got = sorted(canon(e) for e in els)
	if singles != got:
		return {'what': 'returned elements are not exactly the listed elements (each once, with parameters)', 'name': name, 'value': value.decode('latin-1'), 'finding': None}
	# an element whose weight is changed afterwards has the new weight (and is ordered by it)
	if els:
		try:
			again = impl_elements(name, value)
			e0 = again[0]
			e0.params['q'] = '0.001'
			if abs((e0.quality or 0) - 0.001) > 1e-9:
				return {'what': 'after params["q"] = "0.001" the element has quality %r' % (e0.quality,), 'name': name, 'value': value.decode('latin-1'), 'finding': None}
			resorted = Element.sorted(again)
			if len(again) > 1 and all((e.quality or 0) > 0.001 for e in again[1:]) and resorted[-1] is not e0:
				return {'what': 'after lowering its weight to 0.001 the element is not sorted last', 'name': name, 'value': value.decode('latin-1'), 'finding': None}
		except InvalidHeader:
			pass
	# the same elements sent as several field lines, the name spelled differently each time
	parts = Element.split(value)
	if len(parts) >= 2:
		from httoop import Headers
		h2 = Headers()
		spell = [name, name.lower(), name.upper(), name.title()]
		h2.parse(b'\r\n'.join(spell[i % 4].encode() + b': ' + p.strip() for i, p in enumerate(parts)))
		els3 = h2.elements(name)
		if sorted(canon(e) for e in els3) != got or [e.quality for e in els3] != quals:
			return {'what': 'the elements sent as %d field lines (names in different letter case) come back as %r' % (len(parts), [bytes(e) for e in els3]), 'name': name, 'value': value.decode('latin-1'), 'finding': None}
	# the same field put together by the application, element by element: append(name, text) and append(name, value, **parameters)
	if len(parts) >= 1:
		from httoop import Headers
		try:
			h4 = Headers()
			for part in parts:
				h4.append(name, part.strip())
			els4 = h4.elements(name)
			if sorted(canon(e) for e in els4) != got or [e.quality for e in els4] != quals:
				return {'what': 'the field built with append(name, element) for each element reads back as %r' % ([bytes(e) for e in els4],), 'name': name, 'value': value.decode('latin-1'), 'stored': repr(h4.get(name)), 'finding': None}
			tx = lambda x: x if isinstance(x, str) else x.decode('latin-1')
			simple = all(tx(k).isidentifier() and isinstance(v, (str, bytes)) and tx(v).isalnum() for e in els for k, v in e.params.items() if tx(k) != 'q')
			if simple and all(e.value and u';' not in e.value and u',' not in e.value for e in els):
				h5 = Headers()
				for e in (Element.parse(x) for x in parts):
					kw = {tx(k): tx(v) for k, v in e.params.items() if tx(k) != 'q'}
					qv = [tx(v) for k, v in e.params.items() if tx(k) == 'q']
					if qv:
						kw['q'] = qv[0]      # the weight ends the media range parameters
					h5.append(name, e.value, **kw)
				els5 = h5.elements(name)
				if sorted(canon(e) for e in els5) != got or [e.quality for e in els5] != quals:
					return {'what': 'the field built with append(name, value, **parameters) for each element reads back as %r' % ([bytes(e) for e in els5],), 'name': name, 'value': value.decode('latin-1'), 'stored': repr(h5.get(name)), 'finding': None}
		except Exception as ex:
			return {'what': 'building the field with append() and reading it raised %s: %s' % (exc_name(ex), ex), 'name': name, 'value': value.decode('latin-1'), 'finding': None}
	# independence of the order sent: reverse and rotate
	for alt in (parts[::-1], parts[1:] + parts[:1]):
		els2 = impl_elements(name, b', '.join(alt))
		if [e.quality for e in els2] != quals or sorted(bytes(e) for e in els2) != sorted(bytes(e) for e in els):
			return {'what': 'result depends on the order sent', 'name': name, 'value': value.decode('latin-1'), 'other': b', '.join(alt).decode('latin-1'), 'finding': None}
		if [bytes(e) for e in els2] != [bytes(e) for e in els]:
			return {'what': 'result sequence depends on the order sent', 'name': name, 'value': value.decode('latin-1'), 'other': b', '.join(alt).decode('latin-1'), 'finding': None}
	return None


def nontrivial(case, outs):
	if outs and outs[0].startswith('ok') and len({x.split(':')[0] for x in outs[0].split()[1:]}) >= 2:
		return (case[1], outs[0])
	return None


def tally(case, res):
	res.count('name:' + case[1])
	res.count('elements:%d' % (case[2].count(b',') + 1))


def describe(case):
	return [case[0], case[1], case[2].hex()]


def undescribe(d):
	return (d[0], d[1], bytes.fromhex(d[2]))


def finding_still_fails(k):
	return oracle(undescribe(k['witness'])) is not None


LEVEL_TEXT = ('Theorems for lists of ANY length: the order handed to sorted() is a total preorder with an antisymmetric key (quality, composed text), so the result is non-increasing in quality, '
	'a permutation of the parsed elements, and independent of the order sent; a non-empty q text rejected by float() makes the element invalid. The element parser/composer model '
	'(quote-aware splitting, parameters, RFC 2231) is tied by correspondence on whole field values for the five header names.')
LEVEL_NOTE = 'Trusted: Lean kernel; sorted() stability/uses only "<"; float() accept/reject as modelled by pyFloatOk (T2-validated); extract.py/correspondence. q texts outside the RFC grammar that float() accepts are skipped by the model and judged by the oracle only.'
