# -*- coding: utf-8 -*-
"""C13 — percent-encoding and form encoding are exact inverses."""
from __future__ import annotations

import itertools

from core import hx, exc_name
from gen import unicode_text

ID = 'C13'
MODULES = ['Httoop.Props.C13', 'Httoop.Props.C13Form']
THEOREMS = [
	'Httoop.Percent.unquote_quote_partial',
	'Httoop.Percent.unquote_quote_fixed',
	'Httoop.Percent.c13_witness',
	'Httoop.Percent.quote_alphabet_partial',
	'Httoop.Percent.quote_probe_none',
	'Httoop.Percent.quote_probe_unreserved',
	'Httoop.Percent.hexmap_is_hex',
	'Httoop.Percent.safe_sets_wellformed',
	'Httoop.Form.decode_encode',
	'Httoop.Form.form_roundtrip_partial',
	'Httoop.Form.querystring_roundtrip_partial',
	'Httoop.Form.form_text_roundtrip',
	'Httoop.Form.c13_form_witness',
	'Httoop.Form.query_refuses_controls',
]
TRUSTED = [
	'CPython str.encode/bytes.decode for UTF-8 and ISO-8859-1 are inverse on encodable text (the model works on the charset-encoded octets; UTF-8 validity is modelled)',
	'Python bytes.split/replace/strip/partition/join semantics as re-implemented in Httoop.Basic / Model.Form (validated by T2)',
]
ASSUMPTIONS = ['F1 (single-digit escapes below 0x10) is a recorded finding; the proved statements carry the guard Escapable']
RULE = ('exhaustive 1- and 2-octet strings x the seven safe sets (quick: all 1-octet, 2-octet for one set chosen by seed + 20k sampled; thorough: all), random longer strings; '
	'pair sequences over ASCII specials/Latin-1/BMP/astral for form (utf-8, iso8859-1) and URI.query; raw decode of mutated encoded strings; '
	'non-trivial = produced at least one escape and round-tripped; distinct by (kind, canonical output)')

SETS = ['UNRESERVED', 'SCHEME', 'PCHAR', 'USERINFO', 'PATH', 'QUERY', 'FRAGMENT']
_P = None


def P():
	global _P
	if _P is None:
		from httoop.uri.percent_encoding import Percent
		_P = Percent
	return _P


def safe_set(name):
	return getattr(P(), name) if name != 'EMPTY' else b''


def cases(rng, tier):
	# corpus first
	for data in (b'\n', b'%', b'%41', b'%4', b'%%41', b'a b+c', b'\x00\x0f\x10\xff', b'%zz%41%4g'):
		for s in SETS:
			yield ('q', s, data)
		yield ('u', data)
	for s in SETS + ['EMPTY']:
		for b in range(256):
			yield ('q', s, bytes([b]))
	two = SETS if tier == 'thorough' else [SETS[rng.randrange(len(SETS))]]
	for s in two:
		for a in range(256):
			for b in range(256):
				yield ('q', s, bytes([a, b]))
	n = 200000 if tier == 'thorough' else 20000
	for _ in range(n):
		k = rng.choice((3, 4, 5, 8, 16, 40))
		mode = rng.randrange(3)
		if mode == 0:
			data = bytes(rng.randrange(256) for _ in range(k))
		elif mode == 1:
			data = bytes(rng.choice(b'%%%0129aAfFgG+ &=\x0a\x10\xff') for _ in range(k))
		else:
			data = bytes(rng.randrange(16, 256) for _ in range(k))
		yield ('q', rng.choice(SETS), data)
		yield ('u', data)
	n = 100000 if tier == 'thorough' else 6000
	for _ in range(n):
		npairs = rng.choice((0, 1, 1, 2, 3, 4))
		pairs = []
		for _ in range(npairs):
			name = unicode_text(rng, rng.choice((1, 1, 2, 5)), special=u'&=+% ;#?/')
			value = unicode_text(rng, rng.choice((0, 1, 2, 6)), special=u'&=+% ;#?/')
			if rng.random() < 0.06:
				# characters a lenient codec might drop or fold: byte order mark, non-characters, combining marks
				odd = rng.choice((u'\ufeff', u'\ufffe', u'e\u0301', u'\u212b', u'\u00ad', u'\u200b'))
				if rng.random() < 0.5:
					name = odd + name
				else:
					value = odd + value
			pairs.append((name, value))
		cs = rng.choice(('utf-8', 'iso8859-1'))
		yield ('form', cs, tuple(pairs))
		yield ('query', tuple(pairs))
	# percent signs followed by hex digits, names and values made of letters / digits outside ASCII only: data like any other
	for pairs in (((u'name', u'%41'),), ((u'%e9', u'x'),), ((u'a', u'100%25'), (u'%2B', u'%26')), ((u'caf\u00e9', u'\u0432'),), ((u'\u65e5\u672c', u'\u0663'),), ((u'k', u'%'), (u'%', u'%%41')), ((u'\u00df', u'\u00b5\u00aa'),),
			((u'a b', u''),), ((u'a+b', u''),), ((u' ', u''),), ((u'a b', u''), (u'c', u'')), ((u'x y z', u''),), ((u'token', u''),)):
		for cs in ('utf-8', 'iso8859-1'):
			yield ('form', cs, pairs)
		yield ('query', pairs)
	# long sequences: pair counts around the round numbers a field limit or a block size would use
	for npairs in (100, 255, 256, 257, 999, 1000, 1001, 1002, 1023, 1024, 1025, 2049) + ((4097, 10001) if tier == 'thorough' else ()):
		pairs = tuple((u'k%d' % i, rng.choice((u'', u'v', u'a b', u'1+1', u'x=y&z'))) for i in range(npairs))
		yield ('form', rng.choice(('utf-8', 'iso8859-1')), pairs)
		yield ('query', pairs)
	for _ in range(n):
		k = rng.choice((1, 3, 6, 12))
		data = bytes(rng.choice(b'ab=&&+%%2fF0\xc3\xa9\xff\x1f ') for _ in range(k))
		yield ('fdec', rng.choice(('utf-8', 'iso8859-1')), data)
		yield ('qdec', data)


def search(rng, res):
	return cases(rng, 'thorough')


def encodable(pairs, cs):
	try:
		for n, v in pairs:
			n.encode(cs), v.encode(cs)
		return True
	except UnicodeEncodeError:
		return False


def model_lines(case):
	kind = case[0]
	if kind == 'q':
		return ['pct.quote %s %s' % (hx(safe_set(case[1])), hx(case[2])), 'pct.unquote %s' % hx(P().quote(case[2], safe_set(case[1])))]
	if kind == 'u':
		return ['pct.unquote %s' % hx(case[1])]
	if kind == 'form':
		cs, pairs = case[1], case[2]
		if not encodable(pairs, cs):
			return None
		from httoop.codecs.application.x_www_form_urlencoded import FormURLEncoded
		flat = ' '.join('%s %s' % (hx(n.encode(cs)), hx(v.encode(cs))) for n, v in pairs)
		enc = FormURLEncoded.encode(pairs, cs)
		return [('form.encode %s %s' % (hx(FormURLEncoded.UNQUOTED), flat)).strip(), 'form.decode %s %s' % (hx(cs[:1].encode()), hx(enc))]
	if kind == 'query':
		from httoop.uri.query_string import QueryString
		pairs = case[1]
		flat = ' '.join('%s %s' % (hx(n.encode('utf-8')), hx(v.encode('utf-8'))) for n, v in pairs)
		enc = QueryString.encode(pairs, 'UTF-8')
		return [('form.encode %s %s' % (hx(QueryString.UNQUOTED), flat)).strip(), 'query.decode %s' % hx(enc)]
	if kind == 'fdec':
		return ['form.decode %s %s' % (hx(case[1][:1].encode()), hx(case[2]))]
	if kind == 'qdec':
		return ['query.decode %s' % hx(case[1])]


def render_pairs(pairs, cs):
	flat = [x.encode(cs) for p in pairs for x in p]
	return 'ok ' + (' '.join(hx(x) for x in flat) if flat else '()')


def dec_line(f, cs):
	try:
		return render_pairs(f(), cs)
	except Exception as e:
		return 'err ' + exc_name(e)


def impl_lines(case):
	from httoop.codecs.application.x_www_form_urlencoded import FormURLEncoded
	from httoop.uri.query_string import QueryString
	kind = case[0]
	if kind == 'q':
		q = P().quote(case[2], safe_set(case[1]))
		return [hx(q), hx(P().unquote(q))]
	if kind == 'u':
		return [hx(P().unquote(case[1]))]
	if kind == 'form':
		cs, pairs = case[1], case[2]
		enc = FormURLEncoded.encode(pairs, cs)
		return [hx(enc), dec_line(lambda: FormURLEncoded.decode(enc, cs), cs)]
	if kind == 'query':
		enc = QueryString.encode(case[1], 'UTF-8')
		return [hx(enc), dec_line(lambda: QueryString.decode(enc, 'UTF-8'), 'utf-8')]
	if kind == 'fdec':
		return [dec_line(lambda: FormURLEncoded.decode(case[2], case[1]), case[1])]
	if kind == 'qdec':
		return [dec_line(lambda: QueryString.decode(case[1], 'UTF-8'), 'utf-8')]


HEXD = b'0123456789ABCDEFabcdef'


def wellformed(q, safe):
	i = 0
	safe = set(safe) - {0x25}
	while i < len(q):
		if q[i] == 0x25:
			if i + 2 >= len(q) + 0 and i + 2 > len(q) - 0:
				pass
			if len(q) < i + 3 or q[i + 1] not in HEXD or q[i + 2] not in HEXD:
				return False
			i += 3
		elif q[i] in safe:
			i += 1
		else:
			return False
	return True


def oracle(case):
	"""the property itself on the real code"""
	kind = case[0]
	if kind == 'q':
		safe = safe_set(case[1])
		data = case[2]
		q = P().quote(data, safe)
		back = P().unquote(q)
		ok = back == data and wellformed(q, safe)
		if not ok:
			eff = set(safe) - {0x25}
			fid = 'F1' if any(b < 16 and b not in eff for b in data) else None
			return {'what': 'unquote(quote(x)) != x or ill-formed escape', 'input': data.hex(), 'set': case[1], 'quoted': q.hex(), 'back': back.hex(), 'finding': fid}
		return None
	if kind == 'form':
		from httoop.codecs.application.x_www_form_urlencoded import FormURLEncoded
		cs, pairs = case[1], case[2]
		if not encodable(pairs, cs) or any(not n for n, v in pairs):
			return None
		try:
			back = FormURLEncoded.decode(FormURLEncoded.encode(pairs, cs), cs)
		except Exception as e:
			back = 'raised %s' % exc_name(e)
		if back != tuple(pairs):
			fid = 'F1' if any(b < 16 for n, v in pairs for b in (n + v).encode(cs)) else None
			return {'what': 'form decode(encode(pairs)) != pairs', 'pairs': pairs, 'charset': cs, 'back': back, 'finding': fid}
		# the pairs handed over in the other containers the codec accepts: a dictionary (its order is the order of insertion), a list
		# of pairs, an iterator
		if len({n for n, v in pairs}) == len(pairs) and pairs:
			import collections
			for how, mk in (('a dict', lambda: dict(pairs)), ('an OrderedDict', lambda: collections.OrderedDict(pairs)), ('a list of pairs', lambda: [tuple(p) for p in pairs]), ('an iterator', lambda: iter(pairs))):
				try:
					back = FormURLEncoded.decode(FormURLEncoded.encode(mk(), cs), cs)
				except Exception as e:
					back = 'raised %s' % exc_name(e)
				if back != tuple(pairs):
					return {'what': 'form decode(encode(pairs)) != pairs when the pairs are handed over as %s' % how, 'pairs': pairs, 'charset': cs, 'back': back, 'finding': None}
		return None
	if kind == 'query':
		from httoop.uri import URI
		pairs = case[1]
		if any(not n for n, v in pairs):
			return None
		try:
			u = URI()
			u.query = pairs
			back = u.query
			# also through the textual URI
			u2 = URI(b'http://h/p')
			u2.query = pairs
			back2 = URI(bytes(u2)).query
			# ... and on an object that already has a query: the assignment replaces it (also by nothing)
			u3 = URI(b'http://h/p?old=1&older=2')
			u3.query = pairs
			if back == tuple(pairs) and back2 == back and u3.query != tuple(pairs):
				back = ('on a URI that had a query', u3.query)
			if back == tuple(pairs) and back2 != back:
				back = ('via-text', back2)
			if back == tuple(pairs) and pairs and len({n for n, v in pairs}) == len(pairs):
				u4 = URI(b'http://h/p')
				u4.query = dict(pairs)      # a dictionary: its order is the order of insertion
				if u4.query != tuple(pairs):
					back = ('set from a dict', u4.query)
		except Exception as e:
			back = 'raised %s' % exc_name(e)
		if back != tuple(pairs):
			txt = u''.join(n + v for n, v in pairs)
			fid = None
			if any(b < 16 for b in txt.encode('utf-8')):
				fid = 'F1'
			elif any(0x10 <= ord(c) < 0x20 or ord(c) == 0x7f for c in txt) and back == 'raised InvalidURI':
				fid = 'F26'
			return {'what': 'URI.query read back != pairs set', 'pairs': pairs, 'back': back, 'finding': fid}
		return None
	return None


def nontrivial(case, outs):
	kind = case[0]
	if kind == 'q':
		q = outs[0] if outs else hx(P().quote(case[2], safe_set(case[1])))
		return ('q', case[1], q) if '25' in q else None
	if kind in ('form', 'query') and case[-1]:
		return (kind, case[1:]) if outs is None or outs[-1].startswith('ok') else None
	if kind in ('u', 'fdec', 'qdec'):
		return (kind, case[1:]) if outs and len(outs[0]) > 4 else None
	return None


def tally(case, res):
	res.count('kind:' + case[0])


def describe(case):
	kind = case[0]
	if kind == 'q':
		return {'kind': 'q', 'set': case[1], 'data': case[2].hex()}
	if kind == 'u':
		return {'kind': 'u', 'data': case[1].hex()}
	if kind == 'form':
		return {'kind': 'form', 'charset': case[1], 'pairs': [list(p) for p in case[2]]}
	if kind == 'query':
		return {'kind': 'query', 'pairs': [list(p) for p in case[1]]}
	return {'kind': kind, 'charset': case[1] if kind == 'fdec' else None, 'data': case[-1].hex()}


def undescribe(d):
	k = d['kind']
	if k == 'q':
		return ('q', d['set'], bytes.fromhex(d['data']))
	if k == 'u':
		return ('u', bytes.fromhex(d['data']))
	if k == 'form':
		return ('form', d['charset'], tuple(tuple(p) for p in d['pairs']))
	if k == 'query':
		return ('query', tuple(tuple(p) for p in d['pairs']))
	if k == 'fdec':
		return ('fdec', d['charset'], bytes.fromhex(d['data']))
	return ('qdec', bytes.fromhex(d['data']))


def finding_still_fails(k):
	return oracle(undescribe(k['witness'])) is not None

LEVEL_TEXT = ('Theorems (Lean kernel) over all octet strings and all safe sets: unquote(quote s) = s and the alphabet claim under the F1 guard, the full statement for the %02X variant, '
	'the form round trip for every pair list with non-empty names (in order), for the safe sets regenerated from the source; the model is tied to the code by 256-entry behaviour tables '
	're-proved each run and by exhaustive 1-/2-octet + random correspondence. Unbounded in length; the guard is the recorded finding F1.')
LEVEL_NOTE = ('Trusted: Lean kernel; CPython charset codecs (UTF-8/Latin-1 inverse on encodable text); extract.py and the correspondence harness. Modelled not verified: bytes.split/replace/strip/partition. '
	'URI.query set/read is covered by correspondence + oracle and by querystring_roundtrip_partial at the octet level; the C0/DEL refusal is finding F26.')
