# -*- coding: utf-8 -*-
"""C18 — start-line components round-trip; protocol versions are totally ordered; negotiation."""
from __future__ import annotations

import itertools

from core import hx, exc_name

ID = 'C18'
MODULES = ['Httoop.Props.C18', 'Httoop.Props.C18Invariant']
THEOREMS = [
	'Httoop.Parser.run_negotiated',
	'Httoop.Parser.delivered_requests_negotiated',
	'Httoop.Parser.c18_invariant_witness',
	'Httoop.StartLine.natToDec_spec',
	'Httoop.StartLine.version_roundtrip',
	'Httoop.StartLine.version_rejects',
	'Httoop.StartLine.protocol_total_order',
	'Httoop.StartLine.server_negotiates',
	'Httoop.StartLine.major_above_is_505',
	'Httoop.StartLine.method_roundtrip',
	'Httoop.StartLine.method_rejects',
	'Httoop.StartLine.code_digits',
	'Httoop.StartLine.status_roundtrip',
	'Httoop.StartLine.status_rejects',
	'Httoop.StartLine.request_line_fields',
	'Httoop.StartLine.response_line_fields',
	'Httoop.StartLine.regex_tables',
]
TRUSTED = [
	'Python re: the recognisers are hand-written for the three pattern texts that regex_tables pins (T1), with their character classes probed over all 256 octets; tuple comparison and min() semantics',
	'b"%d" formatting and int() of ASCII digits (natToDec/decNat, validated by T2); CPython\'s 4300-digit int() limit is modelled',
]
ASSUMPTIONS = ['HTTP/1.2-style requests (same major, higher minor) are answered 505 by the code (pinned by tests/api/test_statemachine.py::test_max_protocol); the oracle accepts either 505 or a 1.1 answer there']
RULE = ('exhaustive: status codes 0-999 x 8 phrases (words, hyphen, apostrophe, empty, 8-bit), versions [0,3]x[0,11] (parse/compose, all ordered pairs for comparison, also against the version written as text with leading zeros, negotiation, also for several requests on one connection), methods of length <= 2 over the accepted alphabet (+ length 3 sampled), '
	'single-octet corruptions (256 values x every position) of two valid start lines; random longer methods; methods handed over as text (non-ASCII refused); sequences of 2-5 texts parsed into ONE Protocol / Status / Method / Request / Response object with composing in between; non-trivial = accepted and round-tripped; distinct by canonical output')

PHRASES = [b'OK', b'Not Found', b"I'm a teapot", b'Non-Authoritative Information', b'x', b'A_b 9', b'', b'caf\xe9']
ALPHA = b'ABCXYZabcxyz0189-_.$'


def cases(rng, tier):
	# first of all, before anything else has been parsed in this process: one object parsed twice with different versions, then
	# fresh objects for the same texts (a value remembered per process from the first parse must not show later)
	for kind, a, b in (('reqline', b'GET / HTTP/1.1', b'POST /a HTTP/1.0'), ('respline', b'HTTP/1.0 200 OK', b'HTTP/1.1 404 Not Found'),
			('reqline', b'GET / HTTP/0.9', b'GET / HTTP/3.7'), ('respline', b'HTTP/2.5 200 OK', b'HTTP/0.3 200 OK'), ('proto', b'HTTP/1.3', b'HTTP/2.1')):
		yield ('seq', kind, (a, b))
		yield ('seq', kind, (b, a, b))
		yield (kind, a)
		yield (kind, b)
	for code in range(0, 1000):
		for ph in PHRASES:
			yield ('status', code, ph)
	for a in range(0, 4):
		for b in range(0, 12):
			yield ('proto', b'HTTP/%d.%d' % (a, b))
			yield ('neg', a, b)
			for c in range(0, 4):
				for d in range(0, 12):
					yield ('cmp', a, b, c, d)
	# several requests on ONE connection: each is answered with the lower of its own version and the server's
	for _ in range(300):
		yield ('negseq', tuple(rng.choice(((1, 0), (1, 0), (1, 1), (0, 9), (0, 0), (1, 1))) for _ in range(rng.randrange(2, 6))))      # versions the server speaks: a refusal ends the connection
	# comparison with the version written as text, in every spelling the grammar allows (leading zeros), octets and str
	for a in range(0, 4):
		for b in range(0, 12):
			for c, d in ((a, b), (a, (b + 1) % 12), ((a + 1) % 4, b), (1, 1), (1, 0)):
				for fmt in (b'HTTP/%d.%d', b'HTTP/0%d.0%d', b'HTTP/%d.00%d'):
					yield ('cmpt', a, b, fmt % (c, d), rng.choice((0, 1)))
	# a version handed from one message to another stays a value of its own (message.protocol = other.protocol / ServerProtocol)
	for a in range(0, 4):
		for b in (0, 1, 9, 11):
			yield ('handover', a, b, (a + 1) % 4, (b + 3) % 12)
	# versions handed over as text with characters outside ASCII: never a version (nothing is dropped or folded to make it one)
	for t in (u'HTTP/1.1\xe9', u'\u200bHTTP/1.0', u'HTTP/1\u0660.1', u'HTTP/\uff11.1', u'H\u0422TP/1.1', u'HTTP/1.1\xa0', u'HTTP\u2215' + u'1.1', u'HTTP/1\u20241', u'HTTP/1.1', u'HTTP/01.10', u'http/1.1'):
		yield ('ptext', t)
	# methods handed over as text
	for t in (u'GET', u'get', u'M-SEARCH', u'G\xc9T', u'\u20ac', u'G T', u'GE\u0301T', u'POST\xa0', u'\xb5', u'PATCH', u'A?B', u'X_Y.Z$'):
		yield ('mtext', t)
	for t in (b'HTTP/1', b'HTTP/1.', b'HTTP/.1', b'http/1.1', b'HTTP/1.1 ', b'HTTP/1.1\n', b'HTTP/01.001', b'HTTP/1.1.1', b'HTTPS/1.1', b'HTTP/1_0.1', b'HTTP/+1.1', b'HTTP/1.1x', b'HTTP/' + b'9' * 5000 + b'.1', b'HTTP/10.11'):
		yield ('proto', t)
	full = bytes(range(0x24, 0x60)) + b'abz'
	for n in (1, 2):
		for t in itertools.product(ALPHA, repeat=n):
			yield ('method', bytes(t))
	for b in range(256):
		yield ('method', bytes([b]))
		yield ('method', b'GE' + bytes([b]) + b'T')
	for t in itertools.product(ALPHA, repeat=3):
		if tier == 'thorough' or rng.random() < 0.15:
			yield ('method', bytes(t))
	for n in (19, 20, 21, 40):
		yield ('method', b'A' * n)
	n = 20000 if tier == 'thorough' else 2000
	for _ in range(n):
		yield ('method', bytes(rng.choice(full) for _ in range(rng.randrange(1, 24))))
	req = b'GET /index.html HTTP/1.1'
	resp = b'HTTP/1.1 200 OK then'
	for i in range(len(req)):
		for b in range(256):
			yield ('reqline', req[:i] + bytes([b]) + req[i + 1:])
	for i in range(len(resp)):
		for b in range(256):
			yield ('respline', resp[:i] + bytes([b]) + resp[i + 1:])
	for line in (b'GET /', b'GET / HTTP/1.1 extra', b' GET  /  HTTP/1.0 ', b'GET\t/\tHTTP/1.1', b'', b'   ', b'HTTP/1.1 200', b'HTTP/1.1  200  OK', b'HTTP/1.1 200 OK\t'):
		yield ('reqline', line)
		yield ('respline', line)
	for _ in range(n):
		parts = [rng.choice([b'GET', b'M-SEARCH', b'get', b'G T', b'', b'CONNECT', b'connect', b'Connect', b'options', b'OPTIONS', b'head', b'Trace']), rng.choice([b'/', b'*', b'/a?b', b'', b'h:443', b'/x']), rng.choice([b'HTTP/1.1', b'HTTP/1.0', b'HTTP/2.0', b'HTTP/1', b'HTTP/ 1.1'])]
		yield ('reqline', rng.choice([b' ', b'  ', b'\t']).join(parts))
		yield ('respline', rng.choice([b'HTTP/1.1', b'HTTP/1.0', b'HTTP/3.9']) + rng.choice([b' ', b'  ', b'']) + bytes(rng.choice(b'0123456789') for _ in range(rng.choice((2, 3, 3, 3, 4)))) + rng.choice([b' OK', b'  Two  words', b'', b' \xe9']))


	# the same on ONE object that is parsed, composed and parsed again (a value remembered from the earlier text must not show)
	for _ in range(n):
		kind = rng.choice(('proto', 'proto', 'status', 'method', 'reqline', 'respline'))
		steps = []
		for _ in range(rng.randrange(2, 6)):
			if kind == 'proto':
				steps.append(rng.choice([b'HTTP/%d.%d' % (rng.randrange(0, 4), rng.randrange(0, 12)), b'HTTP/1.1', b'HTTP/1.0', b'HTTP/1', b'http/1.1', b'HTTP/01.1']))
			elif kind == 'status':
				steps.append(b'%d %s' % (rng.choice((200, 204, 404, 99, 600, 500, 101)), rng.choice(PHRASES)))
			elif kind == 'method':
				steps.append(rng.choice([b'GET', b'POST', b'get', b'M-SEARCH', b'G T', b'', b'HEAD', b'PUT']))
			elif kind == 'reqline':
				steps.append(rng.choice([b'GET', b'POST', b'get', b'']) + b' ' + rng.choice([b'/', b'/a?b', b'*']) + b' ' + rng.choice([b'HTTP/1.1', b'HTTP/1.0', b'HTTP/2.0', b'HTTP/1']))
			else:
				steps.append(rng.choice([b'HTTP/1.1', b'HTTP/1.0', b'HTTP/3.9']) + b' ' + rng.choice([b'200 OK', b'404 Not Found', b'204', b'99 x', b'500 Two  words']))
		yield ('seq', kind, tuple(steps))


def search(rng, res):
	return cases(rng, 'thorough')


def model_lines(case):
	k = case[0]
	if k == 'status':
		return ['sl.status %s' % hx(b'%d %s' % (case[1], case[2]))]
	if k == 'proto':
		return ['sl.protocol %s' % hx(case[1])]
	if k == 'neg':
		return ['sl.negotiate %d %d' % (case[1], case[2])]
	if k == 'cmp':
		return ['sl.cmp %d %d %d %d' % case[1:]]
	if k == 'method':
		return ['sl.method %s' % hx(case[1])]
	if k == 'reqline':
		return ['sl.request %s' % hx(case[1])]
	if k == 'respline':
		return ['sl.response %s' % hx(case[1])]
	if k == 'negseq':
		return ['sl.negotiate %d %d' % v for v in case[1]]
	if k == 'cmpt':
		import re
		m = re.match(rb'^HTTP/(\d+)\.(\d+)$', case[3])
		return ['sl.cmp %d %d %d %d' % (case[1], case[2], int(m.group(1)), int(m.group(2)))]
	if k in ('handover', 'ptext'):
		return None
	if k == 'mtext':
		try:
			return ['sl.method %s' % hx(case[1].encode('ascii'))]
		except UnicodeEncodeError:
			return None
	if k == 'seq':
		# the model has no object state: every step is what a fresh object gives
		return [model_lines((case[1], t) if case[1] != 'status' else ('status',) + split_status(t))[0] for t in case[2]]


def split_status(t):
	code, _, ph = t.partition(b' ')
	return (int(code), ph)


def guarded(f):
	try:
		return 'ok ' + f()
	except Exception as e:
		return 'err ' + exc_name(e)


def negotiate(a, b):
	from httoop.server import ServerStateMachine
	if (a, b) > (1, 1):
		# a version the server does not speak is refused as such: with and without a Host field, and as soon as the request line is there
		from httoop.status import HTTP_VERSION_NOT_SUPPORTED
		for wire in (b'GET / HTTP/%d.%d\r\n\r\n' % (a, b), b'GET / HTTP/%d.%d\r\n' % (a, b), b'GET / HTTP/%d.%d\r\nHost: a b\r\n\r\n' % (a, b)):
			sm0 = ServerStateMachine('http', 'localhost', 80)
			try:
				sm0.parse(wire)
			except HTTP_VERSION_NOT_SUPPORTED:
				continue
			raise AssertionError('request %r is not answered with 505' % wire)
	sm = ServerStateMachine('http', 'localhost', 80)
	out = sm.parse(b'GET / HTTP/%d.%d\r\nHost: localhost\r\n\r\n' % (a, b))
	(request, response), = out
	return tuple(response.protocol), tuple(request.protocol)


def negotiate_seq(versions):
	from httoop.server import ServerStateMachine
	sm = ServerStateMachine('http', 'localhost', 80)
	out = []
	for i, (a, b) in enumerate(versions):
		def f():
			# requests of different length, the first ones arriving in pieces cut inside the request line
			line = b'GET /%s HTTP/%d.%d\r\nHost: localhost\r\n\r\n' % (b'long/path/' * (3 - i) if i < 3 else b'', a, b)
			got = []
			for piece in ((line[:17], line[17:30], line[30:]) if i % 2 == 0 else (line,)):
				got.extend(sm.parse(piece))
			(request, response), = got
			return '%d %d' % tuple(response.protocol)
		out.append(guarded(f))
	return out


def impl_lines(case):
	from httoop.messages.method import Method
	from httoop.messages.protocol import Protocol
	from httoop.status import Status
	from httoop.messages import Request, Response
	from httoop.exceptions import InvalidURI
	k = case[0]
	if k == 'status':
		def f():
			s = Status()
			s.parse(b'%d %s' % (case[1], case[2]))
			return '%d %s %s' % (int(s), hx(s.reason.encode('latin-1')), hx(bytes(s)))
		return [guarded(f)]
	if k == 'proto':
		def f():
			p = Protocol()
			p.parse(case[1])
			return '%d %d %s' % (p.major, p.minor, hx(bytes(p)))
		return [guarded(f)]
	if k == 'neg':
		return [guarded(lambda: '%d %d' % negotiate(case[1], case[2])[0])]
	if k == 'cmp':
		x, y = Protocol((case[1], case[2])), Protocol((case[3], case[4]))
		return [' '.join(str(v).lower() for v in (x < y, x == y, x > y, x <= y, x >= y))]
	if k == 'method':
		def f():
			m = Method()
			m.parse(case[1])
			return hx(bytes(m))
		return [guarded(f)]
	if k == 'reqline':
		def f():
			r = Request()
			try:
				r.parse(case[1])
			except InvalidURI:
				pass  # the target is C06's business; method and version are already set at this point
			return '%s %d %d' % (hx(bytes(r.method)), r.protocol.major, r.protocol.minor)
		return [guarded(f)]
	if k == 'respline':
		def f():
			r = Response()
			r.parse(case[1])
			return '%d %d %d %s' % (r.protocol.major, r.protocol.minor, int(r.status), hx(r.status.reason.encode('latin-1')))
		return [guarded(f)]
	if k == 'seq':
		return seq_impl(case[1], case[2])
	if k == 'negseq':
		return negotiate_seq(case[1])
	if k == 'cmpt':
		x = Protocol((case[1], case[2]))
		y = case[3].decode('ascii') if case[4] else case[3]
		return [' '.join(str(v).lower() for v in (x < y, x == y, x > y, x <= y, x >= y))]
	if k == 'mtext':
		def f():
			m = Method(case[1])
			return hx(bytes(m))
		return [guarded(f)]


def setp(req, t):
	req.protocol = t
	return req


def setm(req, t):
	req.method = t
	return req


def seq_impl(kind, steps):
	"""one object, every text parsed into it in turn, composed after each step; the lines are those of the single-step kinds"""
	from httoop.messages.method import Method
	from httoop.messages.protocol import Protocol
	from httoop.status import Status
	from httoop.messages import Request, Response
	from httoop.exceptions import InvalidURI
	obj = {'proto': Protocol, 'status': Status, 'method': Method, 'reqline': Request, 'respline': Response}[kind]()
	out = []
	for t in steps:
		def f():
			if kind == 'proto':
				obj.parse(t)
				return '%d %d %s' % (obj.major, obj.minor, hx(bytes(obj)))
			if kind == 'status':
				obj.parse(t)
				return '%d %s %s' % (int(obj), hx(obj.reason.encode('latin-1')), hx(bytes(obj)))
			if kind == 'method':
				obj.parse(t)
				return hx(bytes(obj))
			if kind == 'reqline':
				try:
					obj.parse(t)
				except InvalidURI:
					pass
				bytes(obj)      # composed between two parses
				return '%s %d %d' % (hx(bytes(obj.method)), obj.protocol.major, obj.protocol.minor)
			obj.parse(t)
			bytes(obj)
			return '%d %d %d %s' % (obj.protocol.major, obj.protocol.minor, int(obj.status), hx(obj.status.reason.encode('latin-1')))
		out.append(guarded(f))
	return out


def oracle(case):
	"""the property on the real code"""
	if case[0] == 'negseq':
		got = negotiate_seq(case[1])
		want = ['ok %d %d' % min(v, (1, 1)) for v in case[1]]
		if got != want:
			return {'what': 'requests %r on one connection are answered with the versions %r, the lower of request and server version is %r' % (list(case[1]), got, want), 'finding': None}
		return None
	if case[0] == 'cmpt':
		from httoop.messages.protocol import Protocol
		import re
		a, b = case[1], case[2]
		m = re.match(rb'^HTTP/(\d+)\.(\d+)$', case[3])
		c, d = int(m.group(1)), int(m.group(2))
		x = Protocol((a, b))
		y = case[3].decode('ascii') if case[4] else case[3]
		try:
			got = (x < y, x == y, x > y, x <= y, x >= y, x != y)
		except Exception as e:
			return {'what': 'comparing Protocol((%d, %d)) with %r raised %s' % (a, b, y, exc_name(e)), 'finding': None}
		want = ((a, b) < (c, d), (a, b) == (c, d), (a, b) > (c, d), (a, b) <= (c, d), (a, b) >= (c, d), (a, b) != (c, d))
		if got != want:
			return {'what': 'Protocol((%d, %d)) against the text %r: <, ==, >, <=, >=, != give %r, the numbers give %r' % (a, b, y, got, want), 'finding': None}
		return None
	if case[0] == 'handover':
		from httoop.messages import Request, Response
		from httoop.messages.protocol import Protocol
		_, a, b, c, d = case
		text = b'HTTP/%d.%d' % (a, b)
		try:
			req = Request()
			req.parse(b'GET / ' + text)
			resp = Response()
			resp.protocol = req.protocol
			first = bytes(resp.protocol)
			resp.parse(b'HTTP/%d.%d 200 OK' % (c, d))
			if first != text or bytes(req.protocol) != text or bytes(req) != b'GET / ' + text + b'\r\n' or bytes(resp.protocol) != b'HTTP/%d.%d' % (c, d):
				return {'what': 'a response was given the version of a request (%r) and then read its own status line (HTTP/%d.%d): the request now composes %r, the response %r' % (text, c, d, bytes(req), bytes(resp.protocol)), 'finding': None}
			import httoop
			sp = getattr(httoop, 'ServerProtocol', None)
			if sp is not None:
				before = bytes(sp)
				up = Response()
				up.protocol = sp
				up.parse(b'HTTP/%d.%d 200 OK' % (c, d))
				if bytes(sp) != before:
					return {'what': 'a message was given the server\'s version and then read HTTP/%d.%d: the server now speaks %r (before %r)' % (c, d, bytes(sp), before), 'finding': None}
			# the same hand-over through the constructor
			req2 = Request()
			req2.parse(b'GET / ' + text)
			resp2 = Response(protocol=req2.protocol)
			resp2.parse(b'HTTP/%d.%d 404 Not Found' % (c, d))
			if bytes(req2.protocol) != text or bytes(req2) != b'GET / ' + text + b'\r\n':
				return {'what': 'Response(protocol=request.protocol), then the response read HTTP/%d.%d: the request (%r) now composes %r' % (c, d, text, bytes(req2)), 'finding': None}
			# the status classes of httoop.status are statuses like any other: what an instance parsed is what it composes
			import httoop.status as _st
			for clsname in ('OK', 'BAD_REQUEST', 'NOT_FOUND', 'MOVED_PERMANENTLY'):
				cls_ = getattr(_st, clsname, None)
				if cls_ is None:
					continue
				for line_ in (b'%d Custom Phrase' % (100 + (a * 12 + b) * 11 % 500), b'400 Malformed Start Line', b'200 Fine'):
					try:
						inst = cls_()
						inst.parse(line_)
					except Exception:
						continue      # (an instance that refuses to parse another status is fine)
					if bytes(inst) != line_ or int(inst) != int(line_.split()[0]):
						return {'what': '%s().parse(%r) composes %r (code %d)' % (clsname, line_, bytes(inst), int(inst)), 'finding': None}
			# ... and a status handed from one response to another: code AND reason phrase (also onto a response that has the same code)
			for code, phrase in ((200, b'Fine'), (404, b'Nope'), (100 + (a * 12 + b) * 7 % 500, b'Custom Phrase')):
				upstream = Response()
				upstream.parse(b'HTTP/1.1 %d %s' % (code, phrase))
				answer = Response(code)
				answer.status = upstream.status
				if bytes(answer) != b'HTTP/1.1 %d %s\r\n' % (code, phrase):
					return {'what': 'a response was given the status of another (%d %r): it composes %r' % (code, phrase, bytes(answer)), 'finding': None}
				answer.status = 404
				if bytes(answer) != b'HTTP/1.1 404 Not Found\r\n':
					return {'what': 'a response with the status %d %r was then given the code 404: it composes %r' % (code, phrase, bytes(answer)), 'finding': None}
		except Exception as e:
			return {'what': 'handing a version from one message to another raised %s: %s' % (exc_name(e), e), 'finding': None}
		return None
	if case[0] == 'ptext':
		from httoop.messages.protocol import Protocol
		from httoop.messages import Request
		t = case[1]
		ascii_ok = all(ord(ch) < 0x80 for ch in t)
		for how, f in (('Protocol(text)', lambda: bytes(Protocol(t))), ('request.protocol = text', lambda: bytes(setp(Request(), t).protocol))):
			try:
				r = f()
			except Exception as e:
				if exc_name(e) in ('InvalidLine', 'TypeError', 'ValueError', 'UnicodeEncodeError'):
					continue
				return {'what': '%s for %r raised %s' % (how, t, exc_name(e)), 'finding': None}
			if not ascii_ok:
				return {'what': '%s accepts %r (not ASCII) as the version %r' % (how, t, r), 'finding': None}
		if not ascii_ok:
			try:
				if Protocol((1, 1)) == t or Protocol((1, 0)) == t:
					return {'what': 'a version compares equal to the text %r (not ASCII)' % (t,), 'finding': None}
			except Exception:
				pass
		return None
	if case[0] == 'mtext':
		from httoop.messages.method import Method
		from httoop.messages import Request
		t = case[1]
		# a text is a method exactly when its ASCII octets are one for Method.parse (non-ASCII text never is)
		try:
			m0 = Method()
			m0.parse(t.encode('ascii'))
			token = True
		except Exception:
			token = False
		for how, f in (('Method(text)', lambda: bytes(Method(t))), ('request.method = text', lambda: bytes(setm(Request(), t).method))):
			try:
				r = f()
			except ValueError:
				r = None
			except Exception as e:
				return {'what': '%s with %r raised %s' % (how, t, exc_name(e)), 'finding': None}
			if r is not None and not token:
				return {'what': '%s accepts %r, which Method.parse refuses as octets (or which is not ASCII), as the method %r' % (how, t, r), 'finding': None}
			if r is not None and r != t.encode('ascii'):
				return {'what': '%s turns %r into %r' % (how, t, r), 'finding': None}
		return None
	if case[0] == 'seq':
		# after every successful parse the object composes to what a fresh object composes for that text
		kind, steps = case[1], case[2]
		got = seq_impl(kind, steps)
		for t, g in zip(steps, got):
			fresh = impl_lines((kind, t) if kind != 'status' else ('status',) + split_status(t))[0]
			if g != fresh:
				return {'what': 'an object parsed again differs from a fresh one: %s after the earlier steps, %s fresh' % (g, fresh), 'kind': kind, 'steps': [x.decode('latin-1') for x in steps], 'finding': None}
		# and the composed start line of a message object follows the last successful parse
		if kind in ('reqline', 'respline'):
			from httoop.messages import Request, Response
			from httoop.exceptions import InvalidURI
			obj = (Request if kind == 'reqline' else Response)()
			for t in steps:
				try:
					obj.parse(t)
				except InvalidURI:
					continue
				except Exception:
					continue
				fresh = (Request if kind == 'reqline' else Response)()
				fresh.parse(t)
				if bytes(obj) != bytes(fresh):
					return {'what': 'start line composed after re-parsing is %r, a fresh object gives %r' % (bytes(obj), bytes(fresh)), 'kind': kind, 'steps': [x.decode('latin-1') for x in steps], 'finding': None}
		return None
	from httoop.messages.method import Method
	from httoop.messages.protocol import Protocol
	from httoop.status import Status
	from httoop.messages import Request, Response
	from httoop.exceptions import InvalidLine
	k = case[0]
	try:
		if k == 'status':
			code, ph = case[1], case[2]
			words = bool(ph) and all(w.isalnum() for w in ph.replace(b'_', b'a').split(b' ')) and not ph.startswith(b' ')
			text = b'%d %s' % (code, ph)
			if 100 <= code <= 599 and words:
				s = Status()
				s.parse(text)
				if int(s) != code or s.reason.encode('ascii') != ph or bytes(s) != text:
					return {'what': 'status does not round-trip', 'text': text.decode(), 'got': [int(s), s.reason], 'finding': None}
				r = Response()
				r.parse(b'HTTP/1.1 ' + text)
				if int(r.status) != code or r.status.reason.encode('ascii') != ph or bytes(r) != b'HTTP/1.1 ' + text + b'\r\n':
					return {'what': 'status line does not round-trip', 'text': text.decode(), 'finding': None}
			elif not (100 <= code <= 599):
				try:
					Status().parse(text)
				except InvalidLine:
					return None
				return {'what': 'status code outside 100-599 accepted', 'text': text.decode(), 'finding': None}
			return None
		if k == 'proto':
			t = case[1]
			import re
			canonical = re.match(br'^HTTP/(0|[1-9][0-9]{0,50})\.(0|[1-9][0-9]{0,50})$', t) and not t.endswith(b'\n')
			wellformed = re.match(br'^HTTP/[0-9]+\.[0-9]+$', t) and not t.endswith(b'\n')
			try:
				p = Protocol()
				p.parse(t)
			except InvalidLine:
				if canonical:
					return {'what': 'valid version rejected', 'text': t.decode('latin-1'), 'finding': None}
				return None
			except ValueError:
				return None  # F28 (C03): int() digit limit; not a C18 matter
			if not wellformed:
				return {'what': 'version not of the form HTTP/digits.digits accepted', 'text': t.decode('latin-1')[:60], 'finding': None}
			if canonical and bytes(p) != t:
				return {'what': 'version does not round-trip', 'text': t.decode(), 'got': bytes(p).decode(), 'finding': None}
			return None
		if k == 'cmp':
			a, b, c, d = case[1:]
			x = Protocol((a, b))
			for y in (Protocol((c, d)), (c, d), b'HTTP/%d.%d' % (c, d), u'HTTP/%d.%d' % (c, d)):
				got = (x < y, x == y, x > y, x <= y, x >= y, x != y)
				exp = ((a, b) < (c, d), (a, b) == (c, d), (a, b) > (c, d), (a, b) <= (c, d), (a, b) >= (c, d), (a, b) != (c, d))
				if got != exp:
					return {'what': 'version comparison is not the numeric order on (major, minor)', 'left': [a, b], 'right': repr(y), 'got': got, 'expected': exp, 'finding': None}
			return None
		if k == 'neg':
			a, b = case[1], case[2]
			from httoop.status import HTTP_VERSION_NOT_SUPPORTED
			try:
				resp, req = negotiate(a, b)
			except HTTP_VERSION_NOT_SUPPORTED:
				if (a, b) <= (1, 1):
					return {'what': 'version not above the server\'s own refused with 505', 'version': [a, b], 'finding': None}
				return None
			if a > 1:
				return {'what': 'major version above the server\'s own accepted', 'version': [a, b], 'finding': None}
			if resp != min((a, b), (1, 1)) or req != (a, b):
				return {'what': 'response version is not the lower of request version and 1.1', 'version': [a, b], 'got': list(resp), 'finding': None}
			return None
		if k == 'method':
			m = case[1]
			ok = 1 <= len(m) <= 20 and all(chr(c).isalnum() and c < 128 or c in b'-_.$' for c in m)
			bad = not m or len(m) > 20 or any(c <= 0x20 or c >= 0x7f for c in m)
			try:
				x = Method()
				x.parse(m)
				r = Request()
				r.parse(m + b' / HTTP/1.1')
			except InvalidLine:
				if ok:
					return {'what': 'valid method rejected', 'method': m.decode('latin-1'), 'finding': None}
				return None
			if bad:
				return {'what': 'method with whitespace/control/8-bit octets (or empty/over-long) accepted', 'method': m.decode('latin-1'), 'finding': None}
			if ok and (bytes(x) != m or bytes(r.method) != m or not bytes(r).startswith(m + b' / HTTP/1.1')):
				return {'what': 'method does not round-trip', 'method': m.decode('latin-1'), 'finding': None}
			return None
		if k in ('reqline', 'respline'):
			line = case[1]
			fields = line.split()
			want = 3 if k == 'reqline' else 2
			if k == 'respline' and len(fields) > 2:
				return None
			if len(fields) != want or (k == 'respline' and len(line.strip().split(None, 1)) != 2):
				try:
					(Request() if k == 'reqline' else Response()).parse(line)
				except InvalidLine:
					return None
				except Exception:
					return None
				return {'what': 'start line with the wrong number of fields accepted', 'line': line.decode('latin-1'), 'finding': None}
			if k == 'reqline':
				# a request line made of a method Method.parse accepts, an origin-form target and a version parses and composes back
				import re
				m, t, v = fields
				try:
					Method().parse(m)
					mok = True
				except Exception:
					mok = False
				if mok and m != b'CONNECT' and re.match(rb'^/[A-Za-z0-9/._~-]*$', t) and b'//' not in t and b'/.' not in t and re.match(rb'^HTTP/[0-9]\.[0-9]$', v) and line == b' '.join(fields):
					r = Request()
					try:
						r.parse(line)
					except Exception as e:
						return {'what': 'well-formed request line refused with %s' % exc_name(e), 'line': line.decode('latin-1'), 'finding': None}
					if bytes(r) != line + b'\r\n':
						return {'what': 'request line composes back as %r' % bytes(r), 'line': line.decode('latin-1'), 'finding': None}
			return None
	except Exception as e:
		return {'what': 'oracle raised %s: %s' % (exc_name(e), e), 'case': repr(case)[:200], 'finding': None}
	return None


def nontrivial(case, outs):
	if outs and outs[0].startswith(('ok', 'true', 'false')):
		return (case[0], outs[0])
	return None


def tally(case, res):
	res.count('kind:' + case[0])


def describe(case):
	if case[0] == 'seq':
		return ['seq', case[1], [x.hex() for x in case[2]]]
	return [case[0]] + [x.hex() if isinstance(x, bytes) else x for x in case[1:]]


def undescribe(d):
	k = d[0]
	if k in ('proto', 'method', 'reqline', 'respline'):
		return (k, bytes.fromhex(d[1]))
	if k == 'status':
		return (k, d[1], bytes.fromhex(d[2]))
	if k == 'seq':
		return (k, d[1], tuple(bytes.fromhex(x) for x in d[2]))
	if k == 'negseq':
		return (k, tuple(tuple(v) for v in d[1]))
	if k == 'cmpt':
		return (k, d[1], d[2], bytes.fromhex(d[3]), d[4])
	if k in ('mtext', 'ptext'):
		return (k, d[1])
	return tuple(d)


def finding_still_fails(k):
	return oracle(undescribe(k['witness'])) is not None


LEVEL_TEXT = ('Theorems for ALL inputs: decimal print/parse inverse (natToDec_spec), version compose/parse round trip and rejection of ill-formed versions, the (major, minor) order is a strict total order '
	'with <=, >= its closures, the server answers 505 exactly above 1.1 and otherwise the lower version - also as an INVARIANT OF THE STATE MACHINE (delivered_requests_negotiated): for every sequence of parse() calls with any octets and any number of requests on the connection, every request handed out carries the lower of its own version and 1.1 as response version -, methods over the stated alphabet (1-20) are accepted verbatim and any whitespace/control/8-bit octet rejects, '
	'every code 100-599 with a phrase of visible ASCII round-trips, wrong field counts reject. The recognisers are tied to the source regexes by pattern-text equality and 256-entry class tables re-proved each run, '
	'and by exhaustive correspondence over the finite spaces the property names.')
LEVEL_NOTE = 'Trusted: Lean kernel; Python re for the pinned pattern texts; tuple comparison/min; extract.py/correspondence. Comparison against tuple/text operands goes through Protocol(other) and is covered by the oracle (exhaustive), not by a separate theorem.'
