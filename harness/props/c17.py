# -*- coding: utf-8 -*-
"""C17 — Digest responses equal the RFC computation; only matching credentials verify."""
from __future__ import annotations

import hashlib

from core import hx, exc_name

ID = 'C17'
MODULES = ['Httoop.Props.C17']
THEOREMS = [
	'Httoop.Digest.digest_eq_rfc',
	'Httoop.Digest.digest_eq_rfc_a1',
	'Httoop.Digest.check_iff',
	'Httoop.Digest.check_accepts_own',
	'Httoop.Digest.check_rejects_password',
	'Httoop.Digest.check_rejects_field',
	'Httoop.Digest.check_rejects_realm',
	'Httoop.Digest.md5_fixed_len',
	'Httoop.Digest.parseAtom_formatParam',
	'Httoop.Digest.params_roundtrip',
	'Httoop.Digest.c17_params_witness',
	'Httoop.Digest.c17_rfc2617_example',
	'Httoop.Digest.c17_comma_witness',
]
TRUSTED = [
	'the hash is a parameter H of every theorem; the driver instantiates it with an MD5 written in Lean (Model/Md5.lean), validated against hashlib on every digest the correspondence compares',
	'check_rejects_*: reductions - an accepted wrong credential yields an explicit collision of H; nothing is assumed about MD5 beyond its fixed output length, which is proved for the Lean MD5 (md5_fixed_len)',
	'HeaderElement.parse in front of the scheme parser: the RFC 2047 branch ("=?" in the field) and nonce generation (time, uuid4) are not modelled (needsOracle)',
]
ASSUMPTIONS = ['F20c: parameter values containing a comma, a double quote or a backslash, or leading/trailing white space in an unquoted value, do not survive the field (DigestAuthScheme.parse splits on every comma and does not unescape) - recorded finding']
RULE = ('credential tuples over printable ASCII with "/", ":", "@", "=", spaces, empty values, and the hostile classes (comma, quote, backslash, outer white space, 8-bit, "=?") x qop in {absent, auth, auth-int, other} '
	'x algorithm in {absent, MD5, MD5-sess, SHA-256, unknown} x precomputed A1; the RFC 2617 and RFC 7616 examples; for verification every single-field perturbation of a valid tuple (the URI also with a query / fragment appended or cut), checked against realm + response and against the whole received field; the field read back through element(), parse() and the list route elements(); '
	'garbage and mutated fields for the parser; non-trivial = a digest computed and verified; distinct by composed field')

FIELDS = ['username', 'realm', 'password', 'nonce', 'cnonce', 'nc', 'method', 'uri', 'entity_body', 'qop', 'algorithm', 'A1', 'response', 'opaque']
SAFE = b'abcdefghijklmnopqrstuvwxyzABCDEFGHIJKLMNOPQRSTUVWXYZ0123456789-._~!$&\'*+^`|%#{}'
QUOTED = b'/:@= ()<>;[]?'


def value(rng, hostile=0.0):
	r = rng.random()
	if r < hostile:
		k = rng.randrange(8)
		base = bytes(rng.choice(SAFE + QUOTED) for _ in range(rng.randrange(0, 6)))
		return [base + b',' + base, b'"' + base, base + b'\\' + base, b' ' + base, base + b'\t', b'\xe9' + base, b'=?' + base, base + b'"x"'][k]
	n = rng.choice((0, 1, 1, 2, 5, 8, 20, 40)) if r < 0.9 else rng.choice((64, 200))
	alpha = SAFE if rng.random() < 0.4 else SAFE + QUOTED * 3
	return bytes(rng.choice(alpha) for _ in range(n))


def tuple_(rng, hostile=0.0):
	p = {}
	for f in ('username', 'realm', 'password', 'nonce', 'cnonce', 'nc', 'method', 'uri', 'entity_body'):
		p[f] = value(rng, hostile)
	if not p['nonce'].replace(b'"', b''):
		p['nonce'] = b'n0nce'
	p['nc'] = rng.choice((b'00000001', b'0000000a', p['nc']))
	p['method'] = rng.choice((b'GET', b'POST', b'HEAD', p['method']))
	if rng.random() < 0.1:
		p['entity_body'] = bytes(rng.randrange(256) for _ in range(97)) * rng.choice((42, 43, 84, 85))      # around 4096 / 8192 octets
		p['entity_body'] = p['entity_body'][:rng.choice((4095, 4096, 4097, 8192, 12288))]
	if rng.random() < 0.1:
		# percent signs in the values that enter the digest (they are formatted into it, not format strings themselves)
		for f_ in rng.sample(['nonce', 'cnonce', 'nc', 'realm', 'username'], 2):
			p[f_] = rng.choice((b'100%', b'a%%b', b'%s', b'%d%%', b'ab%20cd', b'%(x)s'))
	if rng.random() < 0.3:
		# request-targets as clients send them: escapes in either letter case, empty queries, percent signs - an octet string, not normalised
		p['uri'] = rng.choice((b'/%7Emufasa/x', b'/search?q=', b'/index.html?', b'/a%2fb', b'/dir/my%20file.html', b'/s?q=100%25&lang=de', b'/literal%%percent', b'/A/../b', b'//x//y', b'*', b'http://H.example:80/p', b'/a?b#c'))
	qop = rng.choice((None, b'auth', b'auth-int', None, b'auth', b'auth-int', b'', b'auth-conf', b'AUTH'))
	if qop is not None:
		p['qop'] = qop
	alg = rng.choice((None, b'MD5', b'MD5-sess', None, b'MD5', b'MD5-sess', b'md5', b'SHA-256', b'MD5\xff', b'', b'X'))
	if alg is not None:
		p['algorithm'] = alg
	if rng.random() < 0.15:
		p['A1'] = rng.choice((b'', b'939e7578ed9e3c518a452acee763bce9:n:c', value(rng)))
	if rng.random() < 0.3:
		p['opaque'] = value(rng, hostile)
	if rng.random() < 0.1:
		p['response'] = rng.choice((b'', b'0' * 32, value(rng)))
	if rng.random() < 0.1:
		del p[rng.choice(('username', 'realm', 'password', 'nonce', 'cnonce', 'nc', 'method', 'uri', 'entity_body'))]
	return p


def printable(rng):
	n = rng.choice((1, 2, 5, 8, 20))
	return bytes(rng.randrange(0x20, 0x7F) for _ in range(n))


def valid_tuple(rng, anyprintable=False):
	p = {}
	for f in ('username', 'realm', 'password', 'nonce', 'cnonce', 'nc', 'method', 'uri', 'entity_body', 'opaque'):
		v = value(rng)
		if anyprintable and rng.random() < 0.3:
			v = printable(rng)
		p[f] = v
	if not p['nonce']:
		p['nonce'] = b'dcd98b7102dd2f0e8b11d0f600bfb0c093'
	qop = rng.choice((None, b'auth', b'auth-int'))
	if qop:
		p['qop'] = qop
	alg = rng.choice((None, b'MD5', b'MD5-sess'))
	if alg:
		p['algorithm'] = alg
	return p


RFC2617 = {'username': b'Mufasa', 'realm': b'testrealm@host.com', 'nonce': b'dcd98b7102dd2f0e8b11d0f600bfb0c093', 'uri': b'/dir/index.html', 'password': b'Circle Of Life', 'method': b'GET',
	'qop': b'auth', 'nc': b'00000001', 'cnonce': b'0a4f113b', 'opaque': b'5ccc069c403ebaf9f0171e9517f40e41'}
RFC7616 = {'username': b'Mufasa', 'realm': b'http-auth@example.org', 'nonce': b'7ypf/xlj9XXwfDPEoM4URrv/xwf94BcCAzFZH4GiTo0v', 'uri': b'/dir/index.html', 'password': b'Circle of Life', 'method': b'GET',
	'qop': b'auth', 'nc': b'00000001', 'cnonce': b'f2/wE4q74E6zIJEtWaHKaf5wv/H5QzzpXusqGemxURZJ', 'opaque': b'FQhe/qaU925kfnzjCev0ciny7QMkPqMAFRtzCUYo5tdS', 'algorithm': b'MD5'}


def freeze(p):
	return tuple(sorted(p.items()))


def cases(rng, tier):
	yield ('full', freeze(RFC2617))
	yield ('full', freeze(RFC7616))
	legacy = dict(RFC2617)
	for k in ('qop', 'nc', 'cnonce'):
		del legacy[k]
	yield ('full', freeze(legacy))
	for qop in (None, b'auth', b'auth-int'):
		for alg in (None, b'MD5', b'MD5-sess'):
			p = dict(RFC2617, entity_body=b'v=1&a=b')
			p.pop('qop')
			if qop:
				p['qop'] = qop
			if alg:
				p['algorithm'] = alg
			yield ('full', freeze(p))
			yield ('full', freeze(dict(p, entity_body=b'')))
			yield ('perturb', freeze(p))
	n = 30000 if tier == 'thorough' else 4000
	for _ in range(n):
		yield ('full', freeze(valid_tuple(rng)))
	for _ in range(n // 2):
		yield ('full', freeze(valid_tuple(rng, True)))
	for _ in range(n // 3):
		yield ('perturb', freeze(valid_tuple(rng)))
	for _ in range(n):
		yield ('raw', freeze(tuple_(rng, 0.15)))
	for _ in range(n):
		yield ('parse', garbage(rng))


def garbage(rng):
	parts = []
	for k in rng.sample(['username', 'realm', 'nonce', 'uri', 'response', 'algorithm', 'cnonce', 'opaque', 'qop', 'nc', 'Username', 'x', ''], rng.randrange(0, 11)):
		v = value(rng, 0.2)
		form = rng.randrange(5)
		if form == 0:
			parts.append(k.encode() + b'=' + v)
		elif form == 1:
			parts.append(k.encode() + b'="' + v + b'"')
		elif form == 2:
			parts.append(k.encode() + b' = ' + v)
		elif form == 3:
			parts.append(k.encode())
		else:
			parts.append(k.encode() + b'=""' + v)
	sep = rng.choice((b', ', b',', b' , ', b',,', b';'))
	return rng.choice((b'Digest ', b'digest ', b'DIGEST ', b'Digest', b'Digest  ')) + sep.join(parts)


def search(rng, res):
	return cases(rng, 'thorough')


def args(p):
	return ' '.join('~' if f not in p else hx(p[f]) for f in FIELDS)


def model_lines(case):
	if case[0] == 'parse':
		return ['dg.parse %s' % hx(case[1])]
	p = dict(case[1])
	lines = ['dg.calc ' + args(p), 'dg.compose ' + args(p)]
	if case[0] in ('full', 'raw'):
		w = impl_compose(p)
		if w is not None:
			lines.append('dg.parse %s' % hx(w))
	if case[0] == 'perturb':
		for q in perturbations(p):
			lines.append('dg.check %s %s' % (args(q), args(dict(p, response=reference(p) or b''))))
		for alt in realm_alts(p):
			lines.append('dg.check %s %s' % (args(p), args(dict(p, realm=alt, response=reference(p) or b''))))
	return lines


def bud(p):
	from httoop.util import ByteUnicodeDict
	return ByteUnicodeDict(p)


def impl_calc(p):
	from httoop.authentication.digest import DigestAuthRequestScheme as D
	try:
		return 'ok ' + hx(D.calculate_request_digest(bud(p)))
	except Exception as e:
		return 'err ' + exc_name(e)


def impl_compose(p):
	from httoop.header.auth import Authorization
	try:
		return bytes(Authorization('Digest', dict(p)))
	except Exception:
		return None


def impl_compose_line(p):
	from httoop.header.auth import Authorization
	try:
		return 'ok ' + hx(bytes(Authorization('Digest', dict(p))))
	except Exception as e:
		return 'err ' + exc_name(e)


WIRE = ['username', 'realm', 'password', 'nonce', 'cnonce', 'nc', 'method', 'uri', 'entity_body', 'qop', 'algorithm', 'A1', 'response', 'opaque']


def impl_parse_line(w):
	from httoop.header.auth import Authorization
	try:
		e = Authorization.parse(w)
		if e.value.lower() != 'digest':
			return 'skip'
		ps = e.params
		return 'ok ' + ' '.join('~' if f not in ps else hx(ps[f]) for f in WIRE)
	except Exception as ex:
		return 'err ' + exc_name(ex)


def impl_check_line(q, given):
	from httoop.authentication.digest import DigestAuthRequestScheme as D
	try:
		return 'ok ' + ('true' if D.check(bud(q), bud(given)) else 'false')
	except Exception as e:
		return 'err ' + exc_name(e)


def impl_lines(case):
	if case[0] == 'parse':
		return [impl_parse_line(case[1])]
	p = dict(case[1])
	lines = [impl_calc(p), impl_compose_line(p)]
	if case[0] in ('full', 'raw'):
		w = impl_compose(p)
		if w is not None:
			lines.append(impl_parse_line(w))
	if case[0] == 'perturb':
		for q in perturbations(p):
			lines.append(impl_check_line(q, dict(p, response=reference(p) or b'')))
		for alt in realm_alts(p):
			lines.append(impl_check_line(p, dict(p, realm=alt, response=reference(p) or b'')))
	return lines


def realm_alts(p):
	"""realms of a RECEIVED field that differ from the protected one (also in letter case only); the response is left as computed"""
	r = p.get('realm') or b''
	return [v for v in dict.fromkeys((r.swapcase(), r.lower(), r.upper(), r + b'x', r[:-1])) if v != r]


def perturbations(p):
	"""the tuple itself, then every single-field change of what enters the digest"""
	out = [dict(p)]
	for f in ('username', 'realm', 'password', 'nonce', 'cnonce', 'nc', 'method', 'uri', 'entity_body'):
		if f not in p:
			continue
		for v in (p[f] + b'x', p[f][:-1] if p[f] else b'y', p[f].swapcase() if p[f].swapcase() != p[f] else p[f] + b':'):
			if v != p[f]:
				out.append(dict(p, **{f: v}))
	if 'uri' in p:
		# the request the server sees differs from the signed one only behind the path
		for v in (p['uri'] + b'?x=1', p['uri'] + b'?', p['uri'] + b'#f', p['uri'] + b'/', p['uri'].partition(b'?')[0]):
			if v != p['uri']:
				out.append(dict(p, uri=v))
	return out


def H(x):
	return hashlib.md5(x).hexdigest().encode()


def reference(p):
	"""RFC 2617 section 3.2.2 / RFC 7616 section 3.4, written from the RFC text; None outside its domain"""
	qop = p.get('qop')
	alg = p.get('algorithm')
	if qop not in (None, b'auth', b'auth-int') or alg not in (None, b'MD5', b'MD5-sess'):
		return None
	need = ['username', 'realm', 'password', 'nonce', 'method', 'uri'] + (['nc', 'cnonce'] if qop else []) + (['cnonce'] if alg == b'MD5-sess' else []) + (['entity_body'] if qop == b'auth-int' else [])
	if any(k not in p for k in need):
		return None
	a1 = p['username'] + b':' + p['realm'] + b':' + p['password']
	if alg == b'MD5-sess':
		a1 = H(a1) + b':' + p['nonce'] + b':' + p['cnonce']
	a2 = p['method'] + b':' + p['uri']
	if qop == b'auth-int':
		a2 += b':' + H(p['entity_body'])
	if qop:
		return H(H(a1) + b':' + p['nonce'] + b':' + p['nc'] + b':' + p['cnonce'] + b':' + qop + b':' + H(a2))
	return H(H(a1) + b':' + p['nonce'] + b':' + H(a2))


def wire_safe(v):
	"""values the field can carry (finding F20c delimits the rest)"""
	if any(c in v for c in b',"\\'):
		return False
	import re
	if not re.search(rb'[ ()<>@,;:\\"/\[\]?=]', v) and v != v.strip():
		return False
	return True


def digest_relevant(p, f):
	qop = p.get('qop')
	alg = p.get('algorithm')
	if f in ('nc',):
		return bool(qop)
	if f == 'cnonce':
		return bool(qop) or alg == b'MD5-sess'
	if f == 'entity_body':
		return qop == b'auth-int'
	return True


def oracle(case):
	from httoop.authentication.digest import DigestAuthRequestScheme as D
	from httoop.header.auth import Authorization
	from httoop import Headers
	if case[0] == 'parse' or case[0] == 'raw':
		return None
	p = dict(case[1])
	ref = reference(p)
	if ref is None:
		return None
	if 'A1' in p or 'response' in p:
		return None
	# (a) the response equals the RFC computation
	try:
		got = D.calculate_request_digest(bud(p))
	except Exception as e:
		return {'what': 'calculate_request_digest raised %s: %s' % (exc_name(e), e), 'params': describe(case)[1], 'finding': None}
	if got != ref:
		return {'what': 'response %r differs from the RFC computation %r' % (got, ref), 'params': describe(case)[1], 'finding': None}
	if case[0] == 'full':
		# (b) it survives the field, with every other parameter, through Authorization and through Headers
		try:
			w = bytes(Authorization('Digest', dict(p)))
			h = Headers()
			h.parse(b'Authorization: ' + w)
			ps = h.element('Authorization').params
			ps2 = Authorization.parse(w).params
			ps3 = h.elements('Authorization')[0].params      # the list route: split at white space outside quotes first
		except Exception as e:
			fid = 'F20c' if not all(wire_safe(v) for k, v in p.items() if k in ('username', 'realm', 'nonce', 'uri', 'cnonce', 'nc', 'opaque', 'qop', 'algorithm')) or b'=?' in w else None
			return {'what': 'compose/parse of the field raised %s: %s' % (exc_name(e), e), 'params': describe(case)[1], 'finding': fid}
		# the same parameters handed over as text: the same field (nothing is normalised on the way; the digest-uri is an octet string)
		try:
			pt = {k: v.decode('ascii') for k, v in p.items() if isinstance(v, bytes)}
		except UnicodeDecodeError:
			pt = None
		stable = bool((p.get('nonce') or b'').replace(b'"', b''))      # (without a usable nonce the library draws a random one for every composition)
		if pt is not None and len(pt) == len(p) and stable:
			try:
				wt = bytes(Authorization('Digest', pt))
			except Exception as e:
				return {'what': 'the parameters handed over as text: composing raised %s: %s' % (exc_name(e), e), 'params': describe(case)[1], 'finding': None}
			if wt != w:
				return {'what': 'the parameters handed over as text compose %r, as octets %r' % (wt[:200], w[:200]), 'params': describe(case)[1], 'finding': None}
		# a second element built from the parameters of the first (a server putting its own data next to them) is a value of its own:
		# changing it does not change the first, which still composes the same field and still verifies
		try:
			e1 = Authorization('Digest', dict(p))
			e2 = Authorization('Digest', e1.params)
			e2.params['nonce'] = (p.get('nonce') or b'') + b'-other'
			e2.params['password'] = b'another password'
			if bytes(e1) != w and stable:
				return {'what': 'changing an element built from the parameters of another changed that other: it now composes %r, before %r' % (bytes(e1)[:120], w[:120]), 'params': describe(case)[1], 'finding': None}
		except Exception as e:
			return {'what': 'building an element from the parameters of another raised %s: %s' % (exc_name(e), e), 'params': describe(case)[1], 'finding': None}
		expect = {k: p[k] for k in ('username', 'realm', 'nonce', 'uri', 'algorithm', 'opaque', 'qop') if k in p}
		expect['response'] = ref
		if p.get('qop'):
			expect['cnonce'] = p['cnonce']
			expect['nc'] = p['nc']
		for got_ps in (ps, ps2, ps3):
			gotd = {(k.decode() if isinstance(k, bytes) else k): v for k, v in dict.items(got_ps)}
			if gotd != expect:
				diff = sorted(k for k in set(gotd) | set(expect) if gotd.get(k) != expect.get(k))
				fid = 'F20c' if all(not wire_safe(expect.get(k, b'')) for k in diff if k in expect) and all(k in expect for k in diff) else None
				if b'=?' in w:
					fid = 'F20c'
				return {'what': 'parameters %s do not survive the field: %r' % (diff, {k: (expect.get(k), gotd.get(k)) for k in diff}), 'field': w.hex(), 'params': describe(case)[1], 'finding': fid}
			# server side verification with the right password and request data
			server = dict(p)
			try:
				if not D.check(bud(server), got_ps):
					return {'what': 'check() rejects the field composed from the same credentials', 'field': w.hex(), 'params': describe(case)[1], 'finding': None}
			except Exception as e:
				return {'what': 'check() raised %s' % exc_name(e), 'params': describe(case)[1], 'finding': None}
			# a server that copies the received parameters (the response among them) into its own data and adds what it
			# knows must still verify the response: with another password the field must not verify
			if 'password' in p and p.get('A1') is None:
				lax = dict(p)
				lax.update(gotd)
				lax['password'] = p['password'] + b'!'
				try:
					if D.check(bud(lax), got_ps):
						return {'what': 'check() accepts the field although the server data (received parameters + another password) do not give its response', 'field': w.hex(), 'params': describe(case)[1], 'finding': None}
				except Exception as e:
					return {'what': 'check() raised %s' % exc_name(e), 'params': describe(case)[1], 'finding': None}
	if case[0] == 'perturb':
		given = bud({'realm': p['realm'], 'response': ref})
		# ... and as a server has them: every parameter of the received field
		received = {k: p[k] for k in ('username', 'realm', 'nonce', 'uri', 'algorithm', 'opaque', 'qop') if k in p}
		received['response'] = ref
		if p.get('qop'):
			received['cnonce'] = p['cnonce']
			received['nc'] = p['nc']
		for q in perturbations(p):
			try:
				ok2 = D.check(bud(q), bud(received))
			except Exception as e:
				return {'what': 'check() raised %s' % exc_name(e), 'params': describe(case)[1], 'finding': None}
			if ok2 != (reference(q) == ref and q['realm'] == p['realm']):
				changed = [f for f in q if q[f] != p.get(f)]
				return {'what': 'check() against the whole received field %s credentials that differ in %s (%r)' % ('accepts' if ok2 else 'rejects', changed or 'nothing', {f: q[f] for f in changed}), 'params': describe(case)[1], 'finding': None}
		for q in perturbations(p):
			try:
				ok = D.check(bud(q), given)
			except Exception as e:
				return {'what': 'check() raised %s' % exc_name(e), 'params': describe(case)[1], 'finding': None}
			same = reference(q) == ref and q['realm'] == p['realm']
			if ok != same:
				changed = [f for f in q if q[f] != p.get(f)]
				return {'what': 'check() %s credentials that differ in %s' % ('accepts' if ok else 'rejects', changed or 'nothing'), 'params': describe(case)[1], 'finding': None}
		# the received field names another realm than the protected one (the response is the one for the protected realm)
		for alt in realm_alts(p):
			try:
				ok3 = D.check(bud(p), bud(dict(received, realm=alt)))
			except Exception as e:
				return {'what': 'check() raised %s' % exc_name(e), 'params': describe(case)[1], 'finding': None}
			if ok3:
				return {'what': 'check() accepts a received field whose realm %r is not the protected realm %r' % (alt, p['realm']), 'params': describe(case)[1], 'finding': None}
		# a response that is a prefix / extension of the right one must not verify
		for bad in (ref[:-1], ref + b'0', b'', ref.upper() if ref.upper() != ref else ref[::-1]):
			if D.check(bud(p), bud({'realm': p['realm'], 'response': bad})):
				return {'what': 'check() accepts the wrong response %r' % bad, 'params': describe(case)[1], 'finding': None}
	return None


def nontrivial(case, outs):
	if case[0] == 'parse':
		return ('parse', outs[0]) if outs and outs[0].startswith('ok') else None
	if outs and outs[0].startswith('ok'):
		return (case[0], outs[1] if len(outs) > 1 else outs[0])
	return None


def tally(case, res):
	res.count('kind:' + case[0])
	if case[0] != 'parse':
		p = dict(case[1])
		res.count('qop:%s' % (p.get('qop', b'~').decode('latin-1') or '-'))
		res.count('alg:%s' % (p.get('algorithm', b'~').decode('latin-1') or '-'))


def describe(case):
	if case[0] == 'parse':
		return ['parse', case[1].hex()]
	return [case[0], {k: v.hex() for k, v in case[1]}]


def undescribe(d):
	if d[0] == 'parse':
		return ('parse', bytes.fromhex(d[1]))
	return (d[0], freeze({k: bytes.fromhex(v) for k, v in d[1].items()}))


def finding_still_fails(k):
	return oracle(undescribe(k['witness'])) is not None


LEVEL_TEXT = ('Theorems for EVERY hash function H and every credential tuple: for qop in {absent, auth, auth-int} and algorithm in {absent, MD5, MD5-sess} the response computed by the model of calculate_request_digest equals the RFC 2617/7616 formula '
	'(also with a precomputed A1 for MD5-sess); check() accepts exactly when the realms agree and the given response is the computed one; if it accepts credentials differing in the password or in any single field entering the digest then H has a collision (reduction; fixed output length proved for the Lean MD5); '
	'every list of parameters (any number, in order) survives formatparam, the ", " join and the atoms of the scheme parser when the values carry no comma, quote or backslash (params_roundtrip). Model tied to the code by correspondence on calculate, compose, parse (also garbage) and check, with MD5 computed in Lean.')
LEVEL_NOTE = 'Trusted: Lean kernel; correspondence harness; Model/Md5.lean (validated against hashlib each run). The theorem params_roundtrip covers the (key, value) list of the field; the dictionary lookups that follow (which keys are required, qop-dependent ones) are compared with the code by the correspondence.'
