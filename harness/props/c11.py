# -*- coding: utf-8 -*-
"""C11 — URI normalisation is idempotent, removes dot segments, matches RFC 3986 5.2.4; equality."""
from __future__ import annotations

import itertools

import rfc3986
from core import hx, exc_name
from uriutil import render_uri, guarded

ID = 'C11'
MODULES = ['Httoop.Props.C11']
THEOREMS = [
	'Httoop.Uri.normalize_path_rfc',
	'Httoop.Uri.abspath_eq_rfc',
	'Httoop.Uri.abspathCore_outOf',
	'Httoop.Uri.abspathCore_eq_rfc',
	'Httoop.Uri.abspath_rooted',
	'Httoop.Rfc3986.rdsLoop_segs',
	'Httoop.Uri.abspath_normal',
	'Httoop.Uri.abspath_fixed',
	'Httoop.Uri.abspath_idem',
	'Httoop.Uri.abspath_clean',
	'Httoop.Uri.normPath_idem',
	'Httoop.Uri.normalize_idem',
	'Httoop.Uri.normalize_lower',
	'Httoop.Uri.normalize_port_explicit',
	'Httoop.Uri.normalize_port_component',
	'Httoop.Uri.normalize_port_witness',
	'Httoop.Uri.eq_refl',
	'Httoop.Uri.eq_symm',
	'Httoop.Uri.eq_trans',
	'Httoop.Uri.eq_iff_normTuple',
	'Httoop.Uri.schemes_ports_positive',
	'Httoop.Uri.parse_charsets',
]
TRUSTED = [
	'text is modelled as its UTF-8 octets; str.split/join/startswith/lower on ASCII delimiters commute with UTF-8 encoding',
	're.sub(u"\\\\/{2,}", u"/", path) is modelled by Uri.collapse (validated by T2 on the exhaustive path enumeration)',
	'Spec/Rfc3986.lean is a transcription of RFC 3986 5.2.4 by hand; it is compared with an independent Python transcription on every enumerated path',
]
ASSUMPTIONS = ['URI._port is falsy or a positive int and every registered PORT is positive (schemes_ports_positive re-checks the registry)']
RULE = ('all absolute paths of <= 6 (thorough: 7) segments over {"", ".", "..", "a", "b", "...", ".a", "a."} + random longer paths; URIs with scheme/host case and port variants, as text and put together from components by attribute assignments in random order (port before / after the scheme, scheme in any letter case, assigned twice), each also compared with itself and with URI(its normalised tuple); '
	'equality over random triples incl. textual forms; non-trivial = the normalised path differs from the input path; distinct by normalised output')

SEGS = [u'', u'.', u'..', u'a', u'b', u'...', u'.a', u'a.']
REGISTERED_PORTS = {u'http': 80, u'https': 443, u'ftp': 21, u'svn+ssh': 22, u'git+ssh': 22, u'ldap': 389, u'imap': 143, u'nfs': 2049, u'mms': 1755}      # IANA / RFC defaults, not read from the code


def cases(rng, tier):
	for p in (u'/', u'/..', u'/../x', u'/a/../../b/.', u'//', u'/a//b/../', u'/./././', u'/.../..a/a../..'):
		yield ('path', p)
	# many separate slash runs (a count limit in the collapsing step), long runs, many dot segments
	for k in (31, 32, 33, 34, 64, 100, 257):
		yield ('path', u'/a' + u'//b' * k)
		yield ('path', u'/a' + u'//b/..' * k + u'/c')
		yield ('path', u'/' * k + u'a' + u'/' * k)
		yield ('path', u'/x' * k + u'/..' * (k - 1))
	maxn = 7 if tier == 'thorough' else 6
	if tier == 'quick':
		# all up to 5 exhaustively, a seeded third of length 6
		for n in range(1, 6):
			for t in itertools.product(SEGS, repeat=n):
				yield ('path', u'/' + u'/'.join(t))
		for t in itertools.product(SEGS, repeat=6):
			if rng.random() < 0.25:
				yield ('path', u'/' + u'/'.join(t))
	else:
		for n in range(1, maxn + 1):
			for t in itertools.product(SEGS, repeat=n):
				yield ('path', u'/' + u'/'.join(t))
	n = 40000 if tier == 'thorough' else 4000
	alpha = SEGS + [u'%2e', u'%2E%2e', u'c', u'a%2fb', u'\u00e9', u'x y'.replace(' ', '%20')]
	for _ in range(n):
		k = rng.randrange(7, 24)
		yield ('path', u'/' + u'/'.join(rng.choice(alpha) for _ in range(k)))
		yield ('path', u'/'.join(rng.choice(alpha) for _ in range(rng.randrange(1, 6))))
	for _ in range(n):
		yield ('norm', gen_uri(rng))
	for t_ in (u'http://h//', u'http://h///', u'HTTP://H////?q', u'https://h//#f', u'ftp://h//', u'http://h/.//', u'http://h//..'):
		yield ('norm', t_)
	for _ in range(n):
		yield ('asg', gen_assignments(rng))
	for _ in range(n):
		a = gen_uri(rng)
		b = variant(rng, a) if rng.random() < 0.7 else gen_uri(rng)
		c = variant(rng, b) if rng.random() < 0.7 else gen_uri(rng)
		yield ('eq', a, b, c)


def search(rng, res):
	return cases(rng, 'thorough')


def gen_uri(rng):
	scheme = rng.choice([u'http', u'HTTP', u'https', u'Https', u'ftp', u'x-y', u'FOO', u'svn+ssh'])
	host = rng.choice([u'example.com', u'EXAMPLE.com', u'a', u'A.b.C', u'127.0.0.1', u'h-1.x', u'[v1.FE:DC]', u'[v1.fe:dc]', u'[::1]', u'[2001:DB8::A]', u'[vF.X-y]'])
	port = rng.choice([u'', u'', u':', u':80', u':443', u':8080', u':21', u':22'])
	path = u''.join(u'/' + rng.choice(SEGS + [u'c', u'%7Ex', u'%7ex', u'a%2Fb', u'b%2F..', u'%2f', u'..%2f', u'%2E%2e']) for _ in range(rng.randrange(0, 6)))
	q = rng.choice([u'', u'', u'?a=1', u'?a=1&b=%20', u'?x'])
	f = rng.choice([u'', u'', u'#f'])
	ui = rng.choice([u'', u'', u'', u'u@', u'u:p@'])
	return u'%s://%s%s%s%s%s%s' % (scheme, ui, host, port, path, q, f)


def gen_assignments(rng):
	"""a URI put together from components: attribute assignments in a random order (the port before or after the scheme,
	the scheme in any letter case), as a list of (name, text) pairs; an empty port text stands for None"""
	names = [u'scheme', u'host', u'port', u'path', u'username', u'query_string', u'fragment']
	rng.shuffle(names)
	names = names[:rng.randrange(2, 8)]
	if rng.random() < 0.8 and u'scheme' not in names:
		names.insert(rng.randrange(len(names) + 1), u'scheme')
	if rng.random() < 0.3:
		names.append(rng.choice([u'scheme', u'port', u'host']))      # assigned twice
	out = []
	for n in names:
		if n == u'scheme':
			v = rng.choice([u'http', u'HTTP', u'Http', u'https', u'HTTPS', u'ftp', u'FTP', u'svn+ssh', u'x-y', u'FOO', u'ws', u'WSS', u'ldap', u'File'])
		elif n == u'host':
			v = rng.choice([u'example.com', u'EXAMPLE.com', u'a', u'A.b.C', u'127.0.0.1', u'[::1]', u'[2001:DB8::A]'])
		elif n == u'port':
			v = rng.choice([u'', u'', u'80', u'443', u'8080', u'21', u'1', u'65535'])
		elif n == u'path':
			v = u''.join(u'/' + rng.choice(SEGS + [u'c', u'~x']) for _ in range(rng.randrange(0, 5)))
		elif n == u'username':
			v = rng.choice([u'', u'u', u'U'])
		elif n == u'query_string':
			v = rng.choice([u'', u'a=1', u'A=%7e'])
		else:
			v = rng.choice([u'', u'f', u'F'])
		out.append((n, v))
	return tuple(out)


def variant(rng, a):
	"""an equivalent or near-equivalent textual form"""
	r = rng.randrange(8)
	if r == 5:
		# climb above the root right after the authority: "/../x" is "/x"
		i = a.find(u'/', a.find(u'://') + 3)
		return a + u'/..' if i < 0 else a[:i] + rng.choice([u'/..', u'/../..', u'/.', u'/x/../..']) + a[i:]
	if r == 6:
		# the text of the normalised URI
		try:
			from httoop.uri import URI
			u = URI(a.encode())
			u.normalize()
			return bytes(u).decode()
		except Exception:
			return a
	if r == 7:
		return a.replace(u'example.com', u'Example.COM').replace(u'://a', u'://A').replace(u'[v1.FE:DC]', u'[v1.fe:dc]').replace(u'[2001:DB8::A]', u'[2001:db8::a]')
	if r == 0:
		return a.replace(u'example', u'EXAMPLE').replace(u'http', u'HTTP')
	if r == 1:
		return a.replace(u'/a', u'/./a').replace(u'/b', u'/x/../b')
	if r == 2:
		return a.replace(u'.com/', u'.com:80/').replace(u'%7E', u'~')
	if r == 3:
		return a.replace(u'/', u'//', 3)
	return a


def model_lines(case):
	k = case[0]
	if k == 'path':
		p = case[1].encode('utf-8')
		return ['uri.abspath %s' % hx(p), 'uri.rds %s' % hx(p)]
	if k == 'norm':
		t = case[1].encode('utf-8')
		return ['uri.norm %s' % hx(t), 'uri.normcompose %s' % hx(t)]
	if k == 'asg':
		return ['uri.assign ' + ' '.join('%s %s' % (hx(n.encode()), hx(v.encode())) for n, v in case[1])]
	if k == 'eq':
		return ['uri.eq %s %s' % (hx(case[1].encode()), hx(case[2].encode())), 'uri.eq %s %s' % (hx(case[2].encode()), hx(case[3].encode()))]


def impl_abspath(p):
	from httoop.uri import URI
	u = URI()
	u.path = p
	u.abspath()
	return u.path


def reparsed(text):
	from httoop.uri import URI
	w = URI(b'http://old.example:8080/old?o=1#o')
	w.parse(text.encode('utf-8'))
	return w


def reset(text):
	from httoop.uri import URI
	w = URI(b'ftp://old.example/old')
	w.set(text.encode('utf-8'))
	return w


def built(pairs):
	from httoop.uri import URI
	u = URI()
	for n, v in pairs:
		setattr(u, n, (int(v) if v else None) if n == u'port' else v)
	return u


def impl_lines(case):
	from httoop.uri import URI
	k = case[0]
	if k == 'path':
		p = case[1]
		return [hx(impl_abspath(p).encode('utf-8')), hx(rfc3986.remove_dot_segments(rfc3986.collapse(p)).encode('utf-8'))]
	if k == 'norm':
		def f():
			u = URI(case[1].encode('utf-8'))
			u.normalize()
			return u
		return [guarded(lambda: render_uri(f())), guarded(lambda: 'ok ' + hx(bytes(f())))]
	if k == 'asg':
		def g():
			u = built(case[1])
			u.normalize()
			return render_uri(u) + ' eff=%s' % (u.port if u.port else None,)
		return [guarded(g)]
	if k == 'eq':
		return [guarded(lambda: 'ok ' + str(URI(case[1].encode()) == case[2].encode()).lower()), guarded(lambda: 'ok ' + str(URI(case[2].encode()) == case[3].encode()).lower())]


def oracle(case):
	from httoop.uri import URI
	k = case[0]
	if k == 'path':
		p = case[1]
		if not p.startswith(u'/'):
			return None
		try:
			u = URI(b'http://example.com')
			u.path = p
			u.normalize()
			once = u.tuple
			u.normalize()
			twice = u.tuple
		except Exception as e:
			return {'what': 'normalize raised %s' % exc_name(e), 'path': p, 'finding': None}
		path = once[5]
		segs = path.split(u'/')
		expect = rfc3986.remove_dot_segments(rfc3986.collapse(p))
		bad = []
		if once != twice:
			bad.append('not idempotent: %r then %r' % (once[5], twice[5]))
		if u'.' in segs or u'..' in segs:
			bad.append('dot segment left')
		if u'//' in path:
			bad.append('slash run left')
		if path != expect:
			bad.append('differs from RFC 3986 5.2.4 on the collapsed path: %r' % expect)
		if bad:
			return {'what': '; '.join(bad), 'path': p, 'normalised': path, 'finding': None}
		return None
	if k == 'norm':
		try:
			u = URI(case[1].encode('utf-8'))
		except Exception:
			return None
		# an object that held another URI before, and a scheme class given a URI of another scheme, read the text like a fresh object
		try:
			from httoop.uri import HTTP
			fresh = (type(u), u.tuple, u.port)
			for how, mk in (('parsed into a used object', lambda: reparsed(case[1])), ('set() on a used object', lambda: reset(case[1])), ('HTTP(text)', lambda: HTTP(case[1].encode('utf-8')))):
				w = mk()
				if (type(w), w.tuple, w.port) != fresh:
					return {'what': '%s gives %r (%s, port %r), URI(text) gives %r (%s, port %r)' % (how, w.tuple, type(w).__name__, w.port, fresh[1], fresh[0].__name__, fresh[2]), 'uri': case[1], 'finding': None}
		except ImportError:
			pass
		# the same URI put together from its components - keywords or a dictionary that leave the empty ones out, the tuple - equals
		# the parsed one, its text and URI(text), in both directions
		names = ('scheme', 'username', 'password', 'host', 'port', 'path', 'query_string', 'fragment')
		t0 = u.tuple
		kw = {k_: v_ for k_, v_ in zip(names, t0) if v_}
		kwu = dict(kw, scheme=kw['scheme'].upper()) if kw.get('scheme') else None
		kwn = {k_: v_ for k_, v_ in kw.items() if not (k_ == 'port' and u.port == {u'http': 80, u'https': 443, u'ftp': 21}.get(u.scheme))}      # the default port left out
		if kwu:
			try:
				wu = URI(**{k_: v_ for k_, v_ in kwu.items() if k_ in kwn})
				if not (wu == u and u == wu and wu == case[1].encode('utf-8')):
					return {'what': 'URI built from keywords with the scheme in upper case and without the default port: equal to the parsed URI %r / reversed %r / to the text %r (%r)' % (wu == u, u == wu, wu == case[1].encode('utf-8'), wu.tuple), 'uri': case[1], 'finding': None}
				wu.normalize()
				once_ = wu.tuple
				wu.normalize()
				if wu.tuple != once_ or (u.scheme in (u'http', u'https', u'ftp') and not wu.tuple[4]):
					return {'what': 'URI built from keywords with the scheme in upper case: normalised %r, again %r (default port explicit?)' % (once_, wu.tuple), 'uri': case[1], 'finding': None}
			except Exception as e:
				return {'what': 'URI built from keywords with the scheme in upper case raised %s: %s' % (exc_name(e), e), 'uri': case[1], 'finding': None}
		for how, mk in (('keywords without the empty components', lambda: URI(**kw)), ('a dictionary without the empty components', lambda: URI(dict(kw))), ('its tuple', lambda: URI(t0))):
			try:
				w = mk()
				ok = (w == u, u == w, w == case[1].encode('utf-8'), w == URI(case[1].encode('utf-8')), w.tuple == t0)
			except Exception as e:
				return {'what': 'URI built from %s: %s raised' % (how, exc_name(e)), 'uri': case[1], 'finding': None}
			if not all(ok):
				return {'what': 'URI built from %s: equal to the parsed URI %r / reversed %r / to the text %r / to URI(text) %r / same components %r (%r)' % ((how,) + ok + (w.tuple,)), 'uri': case[1], 'finding': None}
		u.normalize()
		once = (type(u), u.tuple)
		u.normalize()
		twice = (type(u), u.tuple)
		bad = []
		if once != twice:
			bad.append('not idempotent')
		if u.scheme != u.scheme.lower() or u.host != u.host.lower():
			bad.append('scheme/host not lower case')
		default = {u'http': 80, u'https': 443, u'ftp': 21, u'svn+ssh': 22}.get(u.scheme)
		if default and not u.port:
			bad.append('default port not explicit')
		if bad:
			return {'what': '; '.join(bad), 'uri': case[1], 'finding': None}
		return None
	if k == 'asg':
		try:
			u = built(case[1])
			u.normalize()
			once = (type(u), u.tuple)
			u.normalize()
			twice = (type(u), u.tuple)
		except Exception as e:
			return {'what': 'building / normalising raised %s' % exc_name(e), 'assignments': list(case[1]), 'finding': None}
		bad = []
		if once != twice:
			bad.append('not idempotent')
		if u.scheme != u.scheme.lower() or u.host != u.host.lower():
			bad.append('scheme %r / host %r not lower case' % (u.scheme, u.host))
		last = dict(case[1])
		default = REGISTERED_PORTS.get(last.get(u'scheme', u'').lower())
		if default:
			# the last port assigned decides when it named one; otherwise the default port of the scheme must be there
			stored = [v for n, v in case[1] if n == u'port']
			if stored and stored[-1]:
				if u.port != int(stored[-1]):
					bad.append('port %r, assigned %s' % (u.port, stored[-1]))
			elif not u.port:
				bad.append('default port not explicit: port is %r' % (u.port,))
			if u.tuple[4] != u.port:
				bad.append('the port component of the tuple is %r, the port is %r' % (u.tuple[4], u.port))
		# equality with such an object on the left: reflexive, and in agreement with the normalised components
		try:
			fresh = built(case[1])
			if not (fresh == fresh):
				bad.append('not equal to itself')
			n = built(case[1])
			n.normalize()
			v = URI(n.tuple)
			if (fresh == v) != (v == fresh):
				bad.append('== is not symmetric between the assembled URI and URI(its normalised tuple): %r / %r' % (fresh == v, v == fresh))
			if last.get(u'scheme') and not (fresh == v):
				bad.append('differs from URI(its own normalised tuple) %r' % (n.tuple,))
		except Exception as e:
			bad.append('comparison raised %s' % exc_name(e))
		if bad:
			return {'what': '; '.join(bad), 'assignments': list(case[1]), 'finding': None}
		return None
	if k == 'eq':
		try:
			a, b, c = (URI(x.encode()) for x in case[1:])
		except Exception:
			return None
		def nt(x):
			y = URI(x)
			y.normalize()
			return y.tuple
		bad = []
		if not (a == a and a == case[1].encode()):
			bad.append('not reflexive')
		if (a == b) != (b == a) or (a == case[2].encode()) != (b == case[1].encode()):
			bad.append('not symmetric')
		if a == b and b == c and not a == c:
			bad.append('not transitive')
		if (a == b) != (nt(a) == nt(b)):
			bad.append('== disagrees with equality of normalised components')
		if bad:
			return {'what': '; '.join(bad), 'uris': case[1:], 'finding': None}
		return None


def nontrivial(case, outs):
	k = case[0]
	if k == 'path':
		out = outs[0] if outs else None
		return ('p', out) if out != hx(case[1].encode('utf-8')) else None
	if k == 'norm':
		return ('n', outs[0]) if outs and outs[0].startswith('ok') else None
	if k == 'asg':
		return ('a', outs[0]) if outs and outs[0].startswith('ok') else None
	if k == 'eq':
		return ('e',) + tuple(case[1:]) if outs and 'true' in outs[0] else None


def tally(case, res):
	res.count('kind:' + case[0])


def describe(case):
	return list(case)


def undescribe(d):
	return tuple(d)


def finding_still_fails(k):
	return oracle(undescribe(k['witness'])) is not None


LEVEL_TEXT = ('Theorems over ALL path texts and ALL URI values (no bound on length or segment count): abspath leaves no dot segment and no slash run, abspath and normalize are idempotent, '
	'scheme/host are lower-cased, the default port of the scheme is the effective port after normalisation whatever order the components were assigned in, and it is the port component of the normalised URI, i.e. what == compares (normalize_port_explicit, normalize_port_component; the latter since the F64 repair), '
	'== is an equivalence on URIs with a scheme and equals equality of normalised tuples, and for every path that begins with a slash abspath() is remove_dot_segments of RFC 3986 5.2.4 applied to the path with its slash runs collapsed (abspath_eq_rfc, normalize_path_rfc). '
	'Tied by correspondence on the exhaustive path enumeration, on URI texts and on URIs built from components.')
LEVEL_NOTE = ('Trusted: Lean kernel; extract.py/correspondence; UTF-8 text-as-octets convention; re.sub modelled by collapse; Spec/Rfc3986.lean is a hand transcription of the RFC pseudo-code, compared with a second one in Python.')
