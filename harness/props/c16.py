# -*- coding: utf-8 -*-
"""C16 — Basic credentials round-trip for every user name and password."""
from __future__ import annotations

import base64
import binascii

from core import hx, exc_name

ID = 'C16'
MODULES = ['Httoop.Props.C16']
THEOREMS = [
	'Httoop.Base64.a2b_b64',
	'Httoop.Base64.a2bLoop_b64',
	'Httoop.Base64.b64_chars',
	'Httoop.Base64.b64_append3',
	'Httoop.Base64.encodebytes_filter',
	'Httoop.BasicAuth.compose_single_line',
	'Httoop.BasicAuth.basic_roundtrip',
	'Httoop.BasicAuth.c16_colon_witness',
	'Httoop.BasicAuth.c16_wrap_witness',
]
TRUSTED = [
	'binascii.b2a_base64 / a2b_base64 (non-strict) and base64.encodebytes are re-implemented in Model/Base64.lean from the CPython source and validated by T2 against the stdlib on every run',
	'HeaderElement.parse: the RFC 2047 branch is not taken for base64 text ("?" is not in the alphabet) - covered by the correspondence and the oracle through Headers.element()',
]
ASSUMPTIONS = []
RULE = ('user names over octets other than ":" and passwords over arbitrary octets, lengths 0..300 dense around the 57-octet encodebytes threshold (total 50..64) and its multiples, '
	'every single octet value in each position; mutated/garbage field values for the parser; credentials handed over as text (non-ASCII, encoded as UTF-8); a second element built from the parameters of the first and then changed; one element whose credentials are changed (params, username / password properties) and that is composed after every change; non-trivial = round trip through Authorization and Proxy-Authorization via Headers; distinct by composed value')


def cases(rng, tier):
	for u, p in ((b'Aladdin', b'open sesame'), (b'u', b'pa:ss'), (b'', b''), (b'u', b''), (b'', b'p'), (b'a' * 30, b'b' * 30), (b'\xff\x00', b':::')):
		yield ('rt', u, p)
	for b in range(256):
		if b != 0x3a:
			yield ('rt', bytes([b]), b'x')
			yield ('rt', b'ab' + bytes([b]), b'')
		yield ('rt', b'x', bytes([b]))
		yield ('rt', b'user', b'pw' + bytes([b]) + b'z')
	for total in range(0, 130):
		for ul in {0, 1, total // 2, max(total - 1, 0)}:
			if ul <= total:
				yield ('rt', bytes(rng.choice(b'abcXYZ09\xe9') for _ in range(ul)), bytes(rng.randrange(256) for _ in range(total - ul)))
	n = 60000 if tier == 'thorough' else 8000
	for _ in range(n):
		ul = rng.choice((0, 1, 5, 20, 28, 29, 56, 57, 58, 100, 300))
		pl = rng.choice((0, 1, 5, 27, 28, 29, 57, 113, 114, 115, 300))
		u = bytes(rng.choice([x for x in range(256) if x != 0x3a]) for _ in range(ul))
		p = bytes(rng.randrange(256) for _ in range(pl))
		yield ('rt', u, p)
	for _ in range(n):
		k = rng.choice((0, 1, 2, 3, 4, 5, 8, 13, 40))
		body = bytes(rng.choice(b'ABCDabcd0189+/=== \n-_:') for _ in range(k))
		scheme = rng.choice((b'Basic', b'basic', b'BASIC', b'Basi', b'Basic ', b'bAsIc'))
		yield ('parse', scheme + rng.choice((b' ', b' ', b'', b'  ')) + body)
		data = bytes(rng.randrange(256) for _ in range(rng.choice((0, 1, 2, 3, 56, 57, 58, 115))))
		yield ('b64', data)


	# credentials handed over as text (encoded as UTF-8 by the element)
	for _ in range(n // 8):
		# (with text that is not in a Unicode normalisation form: combining marks, compatibility characters, conjoining jamo - data)
		alpha = u'abcXYZ09 _\u00e4\u00f6\u00fc\u00df\u20ac\u4e2d\U0001f600e\u0301\u212b\u2126\ufb01\u1100\u1161'
		yield ('text', u''.join(rng.choice(alpha) for _ in range(rng.choice((0, 1, 4, 12)))).replace(u':', u''), u''.join(rng.choice(alpha + u':') for _ in range(rng.choice((0, 1, 6, 30)))))
	# ONE element whose credentials are changed and that is composed again (a client retrying after a 401): every composed
	# field stands for the credentials of that moment
	for _ in range(n // 4):
		steps = []
		for _ in range(rng.randrange(2, 5)):
			route = rng.choice(('params', 'props', 'user-only', 'pass-only', 'same'))
			u = bytes(rng.choice(b'abcXYZ09_"\\ ,=') for _ in range(rng.choice((0, 1, 5, 20))))
			p = bytes(rng.choice(b'abc:XYZ09 _"\\,=') for _ in range(rng.choice((0, 1, 5, 40, 80))))
			steps.append((route, u, p))
		yield ('seq', tuple(steps))


def search(rng, res):
	return cases(rng, 'thorough')


def seq_states(steps):
	"""the credentials in force after each step"""
	u = p = b''
	out = []
	for i, (route, nu, np_) in enumerate(steps):
		if i == 0 or route in ('params', 'props'):
			u, p = nu, np_
		elif route == 'user-only':
			u = nu
		elif route == 'pass-only':
			p = np_
		out.append((u, p))
	return out


def seq_impl(steps):
	e = None
	out = []
	for i, (route, nu, np_) in enumerate(steps):
		if i == 0:
			e = element_cls('Authorization')(('Basic', 'basic', 'BASIC', 'bAsIc')[(len(nu) + len(np_)) % 4], {'username': nu, 'password': np_})      # the scheme name in any letter case
		elif route == 'params':
			e.params['username'] = nu
			e.params['password'] = np_
		elif route == 'props':
			e.username = nu.decode('ascii')
			e.password = np_.decode('ascii')
		elif route == 'user-only':
			e.username = nu.decode('ascii')
		elif route == 'pass-only':
			e.password = np_.decode('ascii')
		out.append(bytes(e))
	return out


def model_lines(case):
	k = case[0]
	if k == 'rt':
		comp = impl_compose('Authorization', case[1], case[2])
		return ['basic.compose %s %s' % (hx(case[1]), hx(case[2])), 'basic.parse %s' % hx(comp)]
	if k == 'text':
		return ['basic.compose %s %s' % (hx(case[1].encode('utf-8')), hx(case[2].encode('utf-8')))]
	if k == 'seq':
		return ['basic.compose %s %s' % (hx(u), hx(p)) for u, p in seq_states(case[1])]
	if k == 'parse':
		return ['basic.parse %s' % hx(case[1])]
	if k == 'b64':
		return ['b64.encodebytes %s' % hx(case[1]), 'b64.a2b %s' % hx(base64.encodebytes(case[1]))]


def element_cls(name):
	from httoop.header.auth import Authorization, ProxyAuthorization
	return Authorization if name == 'Authorization' else ProxyAuthorization


def impl_compose(name, u, p):
	return bytes(element_cls(name)('Basic', {'username': u, 'password': p}))


def impl_parse(name, value):
	e = element_cls(name).parse(value)
	return e.params['username'], e.params['password']


def impl_lines(case):
	k = case[0]
	if k == 'rt':
		comp = impl_compose('Authorization', case[1], case[2])
		return [hx(comp), parse_line(comp)]
	if k == 'text':
		try:
			return [hx(bytes(element_cls('Authorization')('Basic', {'username': case[1], 'password': case[2]})))]
		except Exception as e:
			return ['err ' + exc_name(e)]
	if k == 'seq':
		return [hx(v) for v in seq_impl(case[1])]
	if k == 'parse':
		return [parse_line(case[1])]
	if k == 'b64':
		enc = base64.encodebytes(case[1])
		try:
			dec = 'ok ' + hx(binascii.a2b_base64(enc))
		except binascii.Error:
			dec = 'err binascii.Error'
		return [hx(enc), dec]


def parse_line(value):
	try:
		u, p = impl_parse('Authorization', value)
		return 'ok %s %s' % (hx(u), hx(p))
	except Exception as e:
		return 'err ' + exc_name(e)


def oracle(case):
	if case[0] == 'text':
		u, p = case[1].encode('utf-8'), case[2].encode('utf-8')
		for name in ('Authorization', 'Proxy-Authorization'):
			try:
				v = bytes(element_cls(name)('Basic', {'username': case[1], 'password': case[2]}))
				back = impl_parse(name, v)
			except Exception as ex:
				return {'what': '%s: text credentials: compose/parse raised %s: %s' % (name, exc_name(ex), ex), 'user': u.hex(), 'password': p.hex(), 'finding': None}
			if v != b'Basic ' + base64.b64encode(u + b':' + p) or back != (u, p):
				return {'what': '%s: text credentials composed as %r, parsed back %r' % (name, v[:80], back), 'user': u.hex(), 'password': p.hex(), 'finding': None}
		return None
	if case[0] == 'seq':
		try:
			got = seq_impl(case[1])
		except Exception as ex:
			return {'what': 'changing the credentials of an element and composing it raised %s: %s' % (exc_name(ex), ex), 'steps': describe(case)[1], 'finding': None}
		for i, ((u, p), v) in enumerate(zip(seq_states(case[1]), got)):
			if v != b'Basic ' + base64.b64encode(u + b':' + p):
				return {'what': 'after step %d the element composes %r, its credentials are %r / %r' % (i, v[:80], u, p), 'steps': describe(case)[1], 'finding': None}
		return None
	if case[0] != 'rt':
		return None
	u, p = case[1], case[2]
	from httoop import Headers
	for name in ('Authorization', 'Proxy-Authorization'):
		try:
			value = impl_compose(name, u, p)
			h = Headers()
			h[name] = value
			raw = h[name] if isinstance(h[name], bytes) else h[name].encode('latin-1')
			e = h.element(name)
			back = (e.params['username'], e.params['password'])
			wire = bytes(h)
			h2 = Headers()
			h2.parse(wire[:-4] if wire.endswith(b'\r\n\r\n') else wire)
			e2 = h2.element(name)
			back2 = (e2.params['username'], e2.params['password'])
		except Exception as ex:
			return {'what': '%s: compose/parse raised %s: %s' % (name, exc_name(ex), ex), 'user': u.hex(), 'password': p.hex(), 'finding': None}
		bad = []
		# parsing the same field value again gives the composed credentials, whatever was done to the element of the first parsing
		try:
			first = element_cls(name).parse(value)
			first.params['password'] = b'edited'
			first.params['username'] = b'someone-else'
			if impl_parse(name, value) != (u, p):
				bad.append('a second parse() of the same field value returns %r after the first result was edited' % (impl_parse(name, value),))
		except Exception as ex:
			bad.append('parsing twice raised %s' % exc_name(ex))
		# a second element built from the parameters of the first is a value of its own: changing it does not change the first
		try:
			e1 = element_cls(name)('Basic', {'username': u, 'password': p})
			e3 = element_cls('Proxy-Authorization' if name == 'Authorization' else 'Authorization')('Basic', e1.params)
			e3.params['password'] = p + b'-other'
			if bytes(e1) != value:
				bad.append('changing an element built from its parameters changed the element: %r' % bytes(e1)[:80])
		except Exception as ex:
			bad.append('copying the parameters raised %s' % exc_name(ex))
		# the credentials as the application reads them: the username / password attributes of the parsed element (text)
		try:
			enc = getattr(e, 'encoding', None) or 'utf-8'
			ut, pt = u.decode(enc), p.decode(enc)
		except (UnicodeDecodeError, LookupError):
			ut = pt = None      # octets that are not text in the element's encoding: the attributes are not asked
		if ut is not None:
			try:
				attrs = (e.username, e.password)
				if attrs != (ut, pt):
					bad.append('the attributes username / password of the parsed element are %r, composed from %r' % (attrs, (ut, pt)))
			except Exception as ex:
				bad.append('reading username / password of the parsed element raised %s: %s' % (exc_name(ex), ex))
		# one credential handed over as octets, the other as text (either order in the mapping): the same field
		if ut is not None and u.isascii() and p.isascii():
			for how, mp in (('octets then text', {'username': u, 'password': pt}), ('text then octets', {'username': ut, 'password': p}), ('password first', {'password': p, 'username': ut})):
				try:
					mixed = bytes(element_cls(name)('Basic', mp))
					if mixed != value:
						bad.append('credentials handed over as %s compose %r, as octets %r' % (how, mixed[:80], value[:80]))
				except Exception as ex:
					bad.append('credentials handed over as %s raised %s' % (how, exc_name(ex)))
		# looking at an element (repr(), %r in a log line, str()) does not change it
		try:
			el0 = element_cls(name)('Basic', {'username': u, 'password': p})
			repr(el0), '%r %s' % (el0, el0.params), str(el0.params)
			if bytes(el0) != value or impl_parse(name, bytes(el0)) != (u, p):
				bad.append('after repr() the element composes %r, before %r' % (bytes(el0)[:80], value[:80]))
			pe = element_cls(name).parse(value)
			repr(pe)
			if (pe.params['username'], pe.params['password']) != (u, p):
				bad.append('after repr() the parsed element holds %r / %r' % (pe.params['username'], pe.params['password']))
		except Exception as ex:
			bad.append('repr() of an element raised %s' % exc_name(ex))
		# the credentials handed over as the other octet-string types (bytearray, memoryview): the same field
		for how, conv in (('bytearray', bytearray), ('memoryview', memoryview)):
			try:
				cu, cp = conv(u), conv(p)
				ealt = element_cls(name)('Basic', {'username': cu, 'password': cp})
				alt = bytes(ealt)
				if alt != value:
					bad.append('credentials handed over as %s compose %r, as bytes %r' % (how, alt[:80], value[:80]))
				elif bytes(ealt) != value or bytes(cu) != u or bytes(cp) != p or bytes(element_cls(name)('Basic', {'username': cu, 'password': cp})) != value:
					bad.append('credentials handed over as %s: composing changed them (second composition %r, the caller\'s objects now %r / %r)' % (how, bytes(ealt)[:80], bytes(cu)[:40], bytes(cp)[:40]))
			except Exception as ex:
				if exc_name(ex) not in ('TypeError',):      # refusing the type is fine; composing something else is not
					bad.append('credentials handed over as %s raised %s' % (how, exc_name(ex)))
		if back != (u, p) or back2 != (u, p):
			bad.append('parsed back %r / %r' % (back, back2))
		expect = b'Basic ' + base64.b64encode(u + b':' + p)
		if value != expect or b'\n' in value or b'\r' in value or value.count(b' ') != 1:
			bad.append('field value is not "Basic" SP unbroken-base64: %r' % value[:80])
		if bad:
			return {'what': name + ': ' + '; '.join(bad), 'user': u.hex(), 'password': p.hex(), 'finding': None}
	return None


def nontrivial(case, outs):
	if case[0] == 'rt':
		return ('rt', case[1], case[2]) if (outs is None or outs[-1].startswith('ok')) else None
	if case[0] == 'text':
		return ('text', case[1], case[2])
	if case[0] == 'seq':
		return ('seq', tuple(outs or ()))
	if case[0] == 'parse':
		return ('parse', outs[0]) if outs and outs[0].startswith('ok') else None
	return ('b64', case[1]) if len(case[1]) > 2 else None


def tally(case, res):
	res.count('kind:' + case[0])
	if case[0] == 'rt':
		n = len(case[1]) + 1 + len(case[2])
		res.count('len:%s' % ('<57' if n < 57 else '57' if n == 57 else '58-114' if n <= 114 else '>114'))


def describe(case):
	if case[0] == 'text':
		return ['text', case[1].encode('utf-8').hex(), case[2].encode('utf-8').hex()]
	if case[0] == 'seq':
		return ['seq', [[r, u.hex(), p.hex()] for r, u, p in case[1]]]
	return [case[0]] + [x.hex() for x in case[1:]]


def undescribe(d):
	if d[0] == 'text':
		return ('text', bytes.fromhex(d[1]).decode('utf-8'), bytes.fromhex(d[2]).decode('utf-8'))
	if d[0] == 'seq':
		return ('seq', tuple((r, bytes.fromhex(u), bytes.fromhex(p)) for r, u, p in d[1]))
	return tuple([d[0]] + [bytes.fromhex(x) for x in d[1:]])


def finding_still_fails(k):
	return oracle(undescribe(k['witness'])) is not None


LEVEL_TEXT = ('Theorems over ALL octet strings: base64 decode(encode x) = x for the CPython algorithms as modelled, the composed field is "Basic" SP and base64 without CR/LF/SP, '
	'and parse(compose(u, p)) = (u, p) for every colon-free user name and every password (unbounded length, colons/empty/8-bit included). Model = the code after the two fix: commits; '
	'tied by correspondence on compose, parse (also of garbage), encodebytes and a2b_base64.')
LEVEL_NOTE = 'Trusted: Lean kernel; the transcription of binascii/base64 (validated against the stdlib each run); correspondence harness. Through-Headers path (Headers.element, wire round trip) is covered by the oracle, not by a theorem.'
