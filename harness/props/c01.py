# -*- coding: utf-8 -*-
"""C01 — parser results do not depend on how the byte stream is fragmented."""
from __future__ import annotations

import itertools

import parserutil
import wire
from core import hx, exc_name
from gen import cut

ID = 'C01'
MODULES = ['Httoop.Props.C01', 'Httoop.Props.C01Headers', 'Httoop.Props.C01Pipeline', 'Httoop.Props.C01Mixed', 'Httoop.Props.C01Trailers']
THEOREMS = [
	'Httoop.Parser.no_size_limits',
	'Httoop.splitOnce_append',
	'Httoop.contains_append',
	'Httoop.Parser.body_length_fragmentation',
	'Httoop.Parser.chunked_stable_done',
	'Httoop.Parser.chunked_stable_error',
	'Httoop.Parser.chunked_stable_wait',
	'Httoop.Parser.chunked_fuel',
	'Httoop.Parser.trailers_stable_done',
	'Httoop.Parser.trailers_stable_error',
	'Httoop.Parser.chunked_fragmentation',
	'Httoop.Parser.c01_lf_witness',
	'Httoop.Parser.c01_411_witness',
	'Httoop.Parser.prefix_shape',
	'Httoop.Parser.parseHeaders_prefix',
	'Httoop.Parser.parseHeaders_full',
	'Httoop.Parser.headers_fragmentation',
	'Httoop.Parser.run_partial',
	'Httoop.Parser.run_finish',
	'Httoop.Parser.run_prefix',
	'Httoop.Parser.feedAll_prefix',
	'Httoop.Parser.fragmentation_independent',
	'Httoop.Parser.c01_good_witness',
	'Httoop.Parser.c01_fragmentation_witness',
	'Httoop.Parser.Mixed.body_step',
	'Httoop.Parser.Mixed.run_partial',
	'Httoop.Parser.Mixed.run_finish',
	'Httoop.Parser.Mixed.feedAll_prefix',
	'Httoop.Parser.Mixed.fragmentation_independent',
	'Httoop.Parser.Mixed.goodX_of_length',
	'Httoop.Parser.Mixed.goodX_of_chunked',
	'Httoop.Parser.Mixed.ofChunked_out',
	'Httoop.Parser.Mixed.c01_chunked_good_witness',
	'Httoop.Parser.Mixed.c01_mixed_fragmentation_witness',
	'Httoop.Parser.Mixed.dechunk_trailers',
	'Httoop.Parser.Mixed.goodX_of_chunkedT',
	'Httoop.Parser.Mixed.c01_trailer_fragmentation_witness',
]
TRUSTED = [
	'the whole state machine (start line, header block with eager consumption, hooks) is modelled in Model/Parser.lean and compared with the code call by call under every generated fragmentation; the Lean theorems cover the body framing layer for all inputs (Content-Length and chunked with trailers), the header section for well-formed sections, and the whole loop for well-formed pipelines of Content-Length and chunked messages; fragmentation independence on malformed and hostile streams is correspondence + the differential oracle',
	'zlib, RFC 2047 encoded words and internationalised host names are outside the model (skipped, counted)',
]
ASSUMPTIONS = ['known findings F17 (bare LF selects LF line ends depending on what is in the buffer), F18 (411 depends on pipelined octets in the buffer), F19 (an invalid header line is reported early or late) delimit the domain', 'a status raised by parse() ends the history: the state machine is not fed again after an error (DESIGN.md 6.2)']
RULE = ('streams: long start lines and header lines that cross 1024 ... 65536 octets (and any finite MAX_* limit the state machines carry) cut inside the line; pipelines from an independent RFC 7230 writer (requests and responses; CL and chunked bodies with extensions and trailers), truncated at random points, and grammar-aware mutations; '
	'each under one-call, per-octet, and k random fragmentations (quick 6, thorough 14) plus all 2^(n-1) cuts for streams of <= 12 octets; both state machines; '
	'non-trivial = at least one message delivered or an HTTP error raised and all fragmentations agree; distinct by (side, one-call outcome)')
BATCH = 3000


BOUNDARY = [b'\r\n', b'\r\n', b'\r\n\r\n', b'\n', b'\r', b' ', b'\t', b'\r\n ', b'\x00', b'\r\n\r\n\r\n']


LINE_SIZES = (1024, 2048, 4096, 8000, 8192, 16384, 32768, 65536)


def live_limits():
	"""finite size limits the state machines carry on this tree (only to aim the generator; none on the pinned tree)"""
	out = set()
	for side in ('server', 'client'):
		sm = parserutil.new_sm(side)
		for name in dir(sm):
			if name.startswith('MAX_'):
				v = getattr(sm, name)
				if isinstance(v, int) and 16 < v < 200000:
					out.add(v)
	return out


def fragmentations(rng, n, k):
	out = [[], list(range(1, n))]
	for _ in range(k):
		p = rng.choice((0.02, 0.1, 0.3, 0.6))
		out.append([i for i in range(1, n) if rng.random() < p])
	# cuts around line ends are the interesting ones
	return out


def cases(rng, tier):
	k = 14 if tier == 'thorough' else 6
	corpus = [
		('server', b'GET / HTTP/1.1\nHost: h\n\n'),
		('server', b'GET / HTTP/1.1\r\nHost: h\r\n\r\nGET / HTTP/1.1\r\nHost: h\r\n\r\n'),
		('server', b'GET / HTTP/1.1\r\nHost: h\r\nbad line\r\nX: y'),
		('server', b'POST / HTTP/1.1\r\nHost: h\r\nTransfer-Encoding: chunked\r\n\r\n1\r\na\r\n0\r\n\r\n'),
		('client', b'HTTP/1.1 200 OK\r\nContent-Length: 2\r\n\r\nhiHTTP/1.1 204 No Content\r\n\r\n'),
		# stray octets where a start line is expected (before the first message, between two, at the end)
		('server', b'\r\nGET / HTTP/1.1\r\nHost: h\r\n\r\n'),
		('server', b'POST / HTTP/1.1\r\nHost: h\r\nContent-Length: 1\r\n\r\nx\r\nGET / HTTP/1.1\r\nHost: h\r\n\r\n'),
		('server', b'GET / HTTP/1.1\r\nHost: h\r\nContent-Length: 0\r\n\r\n\r\n'),
		# a body whose last octet is CR followed by a bare LF where the next start line is expected (F17 seen through a CR LF pair)
		('server', b'POST / HTTP/1.1\r\nHost: h\r\nContent-Length: 1\r\n\r\n\r\nGET / HTTP/1.1\r\nHost: h\r\n\r\n'),
		('client', b'\r\nHTTP/1.1 200 OK\r\nContent-Length: 0\r\n\r\n'),
		('client', b'HTTP/1.1 200 OK\r\nContent-Length: 2\r\n\r\nhi\r\n\r\nHTTP/1.1 200 OK\r\nContent-Length: 0\r\n\r\n'),
	]
	# bodies under a content coding (framed by Content-Length and in several chunks): cut anywhere, also inside the coded octets
	import gzip as _gz, zlib as _zl
	for data in (b'hello world ' * 30, bytes(range(256))):
		for name, coded in ((b'gzip', _gz.compress(data, mtime=0)), (b'deflate', _zl.compress(data))):
			corpus.append(('server', b'POST / HTTP/1.1\r\nHost: h\r\nContent-Encoding: ' + name + b'\r\nContent-Length: %d\r\n\r\n' % len(coded) + coded + b'GET / HTTP/1.1\r\nHost: h\r\nContent-Length: 0\r\n\r\n'))
			corpus.append(('client', b'HTTP/1.1 200 OK\r\nContent-Encoding: ' + name + b'\r\nContent-Length: %d\r\n\r\n' % len(coded) + coded))
			# the same octets under a transfer coding other than chunked (answered 501 wherever the stream is cut)
			corpus.append(('server', b'POST / HTTP/1.1\r\nHost: h\r\nTransfer-Encoding: ' + name + b'\r\n\r\n' + coded))
			corpus.append(('client', b'HTTP/1.1 200 OK\r\nTransfer-Encoding: ' + name + b'\r\n\r\n' + coded))
			corpus.append(('server', b'POST / HTTP/1.1\r\nHost: h\r\nTransfer-Encoding: ' + name + b'\r\nContent-Length: %d\r\n\r\n' % len(coded) + coded))
			h = len(coded) // 2
			corpus.append(('server', b'POST / HTTP/1.1\r\nHost: h\r\nContent-Encoding: ' + name + b'\r\nTransfer-Encoding: chunked\r\n\r\n%x\r\n' % h + coded[:h] + b'\r\n%x\r\n' % (len(coded) - h) + coded[h:] + b'\r\n0\r\n\r\n'))
	# a long Content-Length body cut far inside (beyond the block sizes 4096 / 8192), both sides
	big = (bytes(range(256)) * 40)[:10000]
	for side, head in (('server', b'POST / HTTP/1.1\r\nHost: h\r\nContent-Length: 10000\r\n\r\n'), ('client', b'HTTP/1.1 200 OK\r\nContent-Length: 10000\r\n\r\n')):
		s = head + big + (b'GET / HTTP/1.1\r\nHost: h\r\nContent-Length: 0\r\n\r\n' if side == 'server' else b'')
		n0 = len(head)
		yield ('s', side, s, ((), (n0 + 6000,), (n0 + 4097,), (n0 + 4096,), (n0 + 5000, n0 + 9000), (n0, n0 + 8193), (n0 + 1, n0 + 4098, n0 + 8195)))
	for side, s in corpus:
		yield ('s', side, s, tuple(tuple(c) for c in fragmentations(rng, len(s), k)))
	# exhaustive cuts for short streams
	for side, s in (('server', b'GET / HTTP/1.1\r\n\r\n'), ('client', b'HTTP/1.0 200 k\r\n\r\n'), ('server', b'G / HTTP/1.0\n\nX')):
		n = len(s)
		allcuts = []
		for mask in range(0, 2 ** (n - 1), 1 if tier == 'thorough' else 37):
			allcuts.append(tuple(i + 1 for i in range(n - 1) if mask >> i & 1))
		yield ('s', side, s, tuple(allcuts[:4096]))
	# long lines: a start line / header line that crosses a round size while the target or value alone does not; cut once
	# inside the line beyond that size, a few sparse cuts, and (for the smaller sizes) octet by octet
	for size in sorted(set(LINE_SIZES) | live_limits()):
		if tier == 'quick' and size > 20000 and rng.random() < 0.5:
			continue
		t = (b'/' + bytes(rng.choice(b'abcdefgh/') for _ in range(size - 11))).replace(b'//', b'/a')
		for side, s, at in (
			('server', b'GET ' + t + b' HTTP/1.1\r\nHost: h\r\n\r\n', len(t) + 6),
			('server', b'GET / HTTP/1.1\r\nHost: h\r\nX-Long: ' + t + b'\r\n\r\n', 25 + len(t) + 6),
			('client', b'HTTP/1.1 200 ' + t + b'\r\nContent-Length: 0\r\n\r\n', len(t) + 15),
		):
			frs = [(), (at,), (at - 3, at + 2), tuple(sorted({rng.randrange(1, len(s)) for _ in range(6)}))]
			if size <= 8192:
				frs.append(tuple(range(1, len(s))))
			yield ('s', side, s, tuple(frs))
	n = 12000 if tier == 'thorough' else 1800
	for _ in range(n):
		side = rng.choice(('server', 'server', 'client'))
		recs = wire.gen_pipeline(rng, side)
		s = b''.join(r.wire for r in recs)
		mode = rng.randrange(5)
		if mode == 4:
			# boundary mutation: stray octets between the messages of the pipeline
			parts = []
			for r in recs:
				if rng.random() < 0.6:
					parts.append(rng.choice(BOUNDARY))
				parts.append(r.wire)
			if rng.random() < 0.5:
				parts.append(rng.choice(BOUNDARY))
			s = b''.join(parts)
		elif mode == 1:
			s = s[:rng.randrange(0, len(s) + 1)]
		elif mode >= 2:
			s = wire.mutate(rng, s)
		if not s:
			continue
		yield ('s', side, s, tuple(tuple(c) for c in fragmentations(rng, len(s), k)))


def search(rng, res):
	return cases(rng, 'thorough')


def model_lines(case):
	_, side, s, frs = case
	return ['sm.%s %s' % (side, ' '.join(hx(f) for f in cut(s, c))) for c in frs[:8]]


def impl_lines(case):
	_, side, s, frs = case
	return [parserutil.run(side, list(cut(s, c))) for c in frs[:8]]


def observe(side, s, cuts):
	"""(delivered messages, error, idle?, leftover, saw LF mode, in header phase)"""
	sm = parserutil.new_sm(side)
	delivered = []
	err = None
	lf = False
	for f in cut(s, cuts):
		try:
			out = sm.parse(bytes(f))
		except Exception as e:
			err = exc_name(e)
			break
		for o in out:
			delivered.append(parserutil.render_request(*o) if side == 'server' else parserutil.render_response(o))
		if sm.message is not None and sm.line_end == b'\n':
			lf = True
	# LF line ends once selected stay for the connection (also when the call that selected them raised: the bare LF may be the
	# LF of a CR LF whose CR was the last body octet of the message before, so it cannot be seen in the stream alone)
	if sm.line_end == b'\n':
		lf = True
	idle = sm.message is None
	inheaders = (not idle) and sm.state['startline'] and not sm.state['headers']
	return delivered, err, idle, bytes(sm.buffer) if idle else None, lf, inheaders


def oracle(case):
	_, side, s, frs = case
	base = observe(side, s, frs[0])
	for c in frs[1:]:
		o = observe(side, s, c)
		same = True
		if base[1] is None and o[1] is None:
			same = base[0] == o[0] and base[2] == o[2] and base[3] == o[3]
		elif base[1] is not None and o[1] is not None:
			a, b = base[0], o[0]
			same = base[1] == o[1] and (a[:len(b)] == b or b[:len(a)] == a)
		else:
			same = False
		if not same:
			fid = None
			if base[4] or o[4] or b'\n' in s.replace(b'\r\n', b''):
				fid = 'F17'
			elif 'status:411' in (base[1], o[1]):
				fid = 'F18'
			elif (base[5] and o[1] == 'status:400') or (o[5] and base[1] == 'status:400'):
				fid = 'F19'
			return {'what': 'outcome depends on the fragmentation', 'side': side, 'stream': s.hex(), 'cuts_a': list(frs[0]), 'cuts_b': list(c),
				'a': [base[0][-2:], base[1], base[2], base[3].hex() if base[3] is not None else None], 'b': [o[0][-2:], o[1], o[2], o[3].hex() if o[3] is not None else None], 'finding': fid}
	return None


def nontrivial(case, outs):
	if outs and ('M(' in outs[0] or 'E' in outs[0]):
		return (case[1], outs[0][:300])
	return None


def tally(case, res):
	res.count('side:' + case[1])
	res.count('fragmentations', len(case[3]))


def describe(case):
	return ['s', case[1], case[2].hex(), [list(c) for c in case[3][:16]]]


def undescribe(d):
	return ('s', d[1], bytes.fromhex(d[2]), tuple(tuple(c) for c in d[3]))


def finding_still_fails(k):
	return oracle(undescribe(k['witness'])) is not None


LEVEL_TEXT = ('Theorems for the body framing layer, for ALL states, buffers and continuations: a first occurrence found in a buffer is still the first after more octets arrive (splitOnce_append); '
	'feeding a Content-Length body in two pieces equals feeding it at once; the chunked reader (sizes, extensions, data, terminators, last chunk, trailer section) is stable under extension of the buffer in each of its three outcomes, '
	'hence its result does not depend on where the stream is cut (chunked_fragmentation) - no bound on chunk count or sizes. The start line / header block / hook layers are in the executable model and compared with the code under every generated fragmentation; '
	'The HEADER LAYER: a header section as a writer puts it on the wire (pairwise different canonical names, values without CR and outer white space), followed by anything and cut at ANY point - inside a name, a value, between CR and LF, inside the empty line - gives the same result in two calls as in one (headers_fragmentation): the eager consumption of complete lines is characterised in closed form (parseHeaders_prefix: the fields parsed so far + the unconsumed rest, and what is still to come is exactly the section of the other fields). '
	'THE WHOLE LOOP for well-formed streams (fragmentation_independent, feedAll_prefix): any number of messages, Content-Length framed and chunked (any chunk sizes and extensions, with or without a trailer section whose fields merge: Props/C01Trailers.lean) mixed, the stream cut into calls in any way, on either side (Props/C01Mixed.lean: the body phase enters the proof only through two facts, that read in one call it completes and that its states form a class closed under waiting on which reading does not depend on the cut - body_length_fragmentation and chunked_fragmentation supply them) - exactly those messages are handed out, in order, and after any prefix exactly the messages wholly contained in it; the states in between are characterised (At: inside the start line / header section / body) and every call is shown to lead from one to the next (run_partial, run_finish). '
	'For arbitrary (malformed, hostile) streams the property is FALSE of the code (F17, F18, F19: kernel-evaluated witnesses); there the model is compared with the code under every generated fragmentation.')
LEVEL_NOTE = 'Trusted: Lean kernel; the parser model (tested against the code, not verified); extract.py/correspondence. The full-stream theorem holds for well-formed pipelines of Content-Length and chunked messages (trailer sections included); for arbitrary streams the property is false of the code (F17-F19).'
