# -*- coding: utf-8 -*-
"""C02 — pipelined well-formed messages are delivered exactly, in order and isolated."""
from __future__ import annotations

import parserutil
import wire
from core import hx, exc_name
from gen import cut

ID = 'C02'
MODULES = ['Httoop.Props.C02', 'Httoop.Props.C02Pipeline', 'Httoop.Props.C01Pipeline', 'Httoop.Props.C01Mixed', 'Httoop.Props.C01Trailers']
THEOREMS = [
	'Httoop.Parser.splitOnce_crlf',
	'Httoop.Parser.dechunk_chunk',
	'Httoop.Parser.chunk_wire_clean',
	'Httoop.Parser.body_length_exact',
	'Httoop.Parser.run_out_prefix',
	'Httoop.Parser.fresh_state_after_delivery',
	'Httoop.Parser.c02_411_witness',
	'Httoop.Parser.splitOnce_first',
	'Httoop.Parser.run_one',
	'Httoop.Parser.run_one_chunked',
	'Httoop.Parser.pipeline_exact',
	'Httoop.Parser.feed_pipeline',
	'Httoop.Parser.pipeline_mixed',
	'Httoop.Parser.goodB_sound',
	'Httoop.Parser.goodCB_sound',
	'Httoop.Parser.c02_pipeline_witness_server',
	'Httoop.Parser.c02_pipeline_witness_client',
	'Httoop.Parser.c02_pipeline_witness_mixed',
	'Httoop.Parser.feedAll_prefix',
	'Httoop.Parser.fragmentation_independent',
	'Httoop.Parser.Mixed.feedAll_prefix',
	'Httoop.Parser.Mixed.fragmentation_independent',
	'Httoop.Parser.Mixed.dechunk_trailers',
	'Httoop.Parser.Mixed.goodX_of_chunkedT',
]
TRUSTED = [
	'harness/wire.py is an independent RFC 7230 writer (it does not use httoop); the oracle compares deliveries with the writer\'s own records',
	'the header/start-line layers of the model are tied by correspondence (same as C01); the Lean theorems cover the body: chunk framing written per RFC 7230 4.1 is decoded to exactly the payload, Content-Length bodies are taken octet for octet, and nothing of a delivered message survives in the state',
]
ASSUMPTIONS = ['F18: a request with neither Content-Length nor chunked coding must be the last one in its parse() call (411 otherwise); the oracle feeds such pipelines cut at message boundaries', 'a status raised by parse() ends the history: the state machine is not fed again after an error (DESIGN.md 6.2)']
RULE = ('pipelines of 1-4 requests or responses from the writer (methods, origin/absolute/authority/asterisk targets, 1.0/1.1, header case and OWS, repeated fields, binary bodies, random chunk partitions, extensions, announced trailers) '
	'x truncation points (every point for streams <= 400 octets in thorough, sampled otherwise) x fragmentations; non-trivial = >= 2 messages delivered and all fields equal the writer\'s record; distinct by wire text')
BATCH = 2000


def cases(rng, tier):
	n = 8000 if tier == 'thorough' else 2500
	for _ in range(n):
		side = rng.choice(('server', 'server', 'client'))
		recs = wire.gen_pipeline(rng, side)
		total = sum(len(r.wire) for r in recs)
		if tier == 'thorough' and total <= 400:
			points = list(range(0, total + 1, 1 if rng.random() < 0.15 else 7))
		else:
			points = sorted({rng.randrange(0, total + 1) for _ in range(4)} | {total})
		seed = rng.randrange(2 ** 30)
		yield ('p', side, tuple(recs), tuple(points), seed)

	# long pipelines (message counts around the numbers a limit or a table size would have) and large bodies / chunks
	for count in (33, 65, 129, 300) + ((1025,) if tier == 'thorough' else ()):
		for side in ('server', 'client'):
			recs = []
			while len(recs) < count:
				recs.extend(wire.gen_pipeline(rng, side))
			recs = recs[:count]
			total = sum(len(r.wire) for r in recs)
			yield ('p', side, tuple(recs), tuple(sorted({rng.randrange(0, total + 1) for _ in range(2)} | {total})), rng.randrange(2 ** 30))
	wire.BIG[0] = True
	try:
		big = []
		for _ in range(12 if tier == 'thorough' else 4):
			side = rng.choice(('server', 'client'))
			recs = wire.gen_pipeline(rng, side, maxn=3)
			total = sum(len(r.wire) for r in recs)
			big.append(('p', side, tuple(recs), tuple(sorted({rng.randrange(0, total + 1) for _ in range(2)} | {total})), rng.randrange(2 ** 30)))
	finally:
		wire.BIG[0] = False
	for c in big:
		yield c


def search(rng, res):
	return cases(rng, 'thorough')


def boundaries(recs):
	out, pos = [], 0
	for r in recs:
		pos += len(r.wire)
		out.append(pos)
	return out


def frags_for(recs, k, seed):
	"""fragments of the first k octets: cut after every message without framing headers (F18 guard), at the other message boundaries half the time, and at a few seeded inner points"""
	import random
	rng = random.Random(seed * 7919 + k)
	s = b''.join(r.wire for r in recs)[:k]
	# F18 guard: a message without Content-Length / chunked must end its read; the other boundaries are cut only half the time
	allb = rng.random() < 0.5
	cuts = {b for r, b in zip(recs, boundaries(recs)) if b < k and (allb or r.framing == 'none')}
	for _ in range(rng.choice((0, 1, 3, 8))):
		if k > 1:
			cuts.add(rng.randrange(1, k))
	return list(cut(s, sorted(cuts))), s


def model_lines(case):
	_, side, recs, points, seed = case
	lines = []
	for k in points[:3]:
		fr, _s = frags_for(recs, k, seed)
		lines.append('sm.%s %s' % (side, ' '.join(hx(f) for f in fr if f) or '-'))
	return lines


def impl_lines(case):
	_, side, recs, points, seed = case
	out = []
	for k in points[:3]:
		fr, _s = frags_for(recs, k, seed)
		out.append(parserutil.run(side, [f for f in fr if f] or [b'']))
	return out


def unq(b):
	import re
	return re.sub(rb'%([0-9A-Fa-f]{2})', lambda m: bytes([int(m.group(1), 16)]), b)


def expected_headers(r):
	"""name(lower) -> combined value, as RFC 7230 3.2.2 prescribes; framing headers handled separately"""
	exp = {}
	for n, v in r.fields:
		k = n.lower()
		sep = b'; ' if k == b'cookie' else b', '
		exp[k] = exp[k] + sep + v if k in exp else v
	for n, v in r.trailers:
		k = n.lower()
		exp[k] = exp[k] + b', ' + v if k in exp else v
	if r.framing == 'chunked':
		exp.pop(b'transfer-encoding', None)
	exp[b'content-length'] = b'%d' % len(r.body)
	return exp


def check_message(side, r, got):
	if side == 'server':
		req, resp = got
		bad = []
		if bytes(req.method) != r.method:
			bad.append('method %r' % bytes(req.method))
		if tuple(req.protocol) != r.version:
			bad.append('version %r' % (tuple(req.protocol),))
		if r.form == 'origin':
			path, _, q = r.target.partition(b'?')
			if req.uri.path.encode('utf-8') != unq(path):
				bad.append('path %r' % req.uri.path)
			if bool(q) != bool(req.uri.query_string):
				bad.append('query %r' % req.uri.query_string)
			else:
				# the pairs, read by the standard library's form reader (plus = space, then percent-decoding), in order
				from urllib.parse import parse_qsl
				want = tuple(parse_qsl(q.decode('ascii'), keep_blank_values=True, encoding='utf-8', errors='strict'))
				if tuple(req.uri.query) != want:
					bad.append('query pairs %r != %r' % (tuple(req.uri.query), want))
		elif r.form == 'asterisk' and req.uri.path != u'*':
			bad.append('asterisk-form target delivered with the path %r' % req.uri.path)
		elif r.form == 'authority' and req.uri.path not in (u'',):
			bad.append('authority-form target delivered with the path %r' % req.uri.path)
		msg = req
	else:
		bad = []
		if int(got.status) != r.status or got.status.reason.encode() != r.reason:
			bad.append('status %r %r' % (int(got.status), got.status.reason))
		if tuple(got.protocol) != r.version:
			bad.append('version %r' % (tuple(got.protocol),))
		msg = got
	if bytes(msg.body) != r.body:
		bad.append('body %r != %r' % (bytes(msg.body)[:40], r.body[:40]))
	else:
		# the delivered body as an application reads it: through the file interface, from the start, and piece by piece
		try:
			first = msg.body.read()
			msg.body.seek(0)
			again = b''.join(msg.body)
			if first != r.body or again != r.body:
				bad.append('the delivered body reads as %r through read() and %r when iterated, sent %r' % (first[:40], again[:40], r.body[:40]))
		except Exception as e:
			bad.append('reading the delivered body raised %s: %s' % (exc_name(e), e))
	gh = {k.lower().encode(): v for k, v in dict.items(msg.headers)}
	eh = expected_headers(r)
	if gh != eh:
		bad.append('headers %r != %r' % (sorted(gh.items())[:6], sorted(eh.items())[:6]))
	return bad


def oracle(case):
	_, side, recs, points, seed = case
	ends = boundaries(recs)
	for k in points:
		fr, s = frags_for(recs, k, seed)
		sm = parserutil.new_sm(side)
		got = []
		try:
			for f in fr:
				if f:
					got.extend(sm.parse(f))
		except Exception as e:
			return {'what': 'well-formed pipeline rejected: %s' % exc_name(e), 'side': side, 'wire': s.hex(), 'finding': None}
		want = [r for r, e in zip(recs, ends) if e <= k]
		if len(got) != len(want):
			return {'what': 'after %d octets %d messages delivered, %d wholly contained' % (k, len(got), len(want)), 'side': side, 'wire': s.hex(), 'finding': None}
		for r, g in zip(want, got):
			bad = check_message(side, r, g)
			if bad:
				return {'what': 'delivered message differs from what was sent: ' + '; '.join(bad)[:400], 'side': side, 'wire': r.wire.hex(), 'finding': None}
		# nothing lost: the rest of the stream completes the pipeline
		rest = b''.join(r.wire for r in recs)[k:]
		more = []
		try:
			pos = k
			for e in [x for x in ends if x > k]:
				more.extend(sm.parse(rest[pos - k:e - k]))
				pos = e
		except Exception as e:
			return {'what': 'resuming after a cut at %d raised %s' % (k, exc_name(e)), 'side': side, 'wire': b''.join(r.wire for r in recs).hex(), 'finding': None}
		if len(got) + len(more) != len(recs):
			return {'what': 'after resuming, %d of %d messages delivered' % (len(got) + len(more), len(recs)), 'side': side, 'wire': b''.join(r.wire for r in recs).hex(), 'finding': None}
		for r, g in zip(recs[len(got):], more):
			bad = check_message(side, r, g)
			if bad:
				return {'what': 'message delivered after the cut differs: ' + '; '.join(bad)[:400], 'side': side, 'wire': r.wire.hex(), 'finding': None}
	# isolation: each message alone gives the same delivery
	for r in recs:
		sm = parserutil.new_sm(side)
		try:
			alone = sm.parse(r.wire)
		except Exception as e:
			return {'what': 'message alone rejected: %s' % exc_name(e), 'side': side, 'wire': r.wire.hex(), 'finding': None}
		if len(alone) != 1 or check_message(side, r, alone[0]):
			return {'what': 'message alone not delivered as sent', 'side': side, 'wire': r.wire.hex(), 'finding': None}
	return None


def nontrivial(case, outs):
	if len(case[2]) >= 2:
		return b''.join(r.wire for r in case[2])[:200]
	return None


def tally(case, res):
	res.count('side:' + case[1])
	for r in case[2]:
		res.count('framing:%s' % r.framing)
		if r.form:
			res.count('form:' + r.form)


def describe(case):
	return ['p', case[1], [r.wire.hex() for r in case[2]], list(case[3]), case[4]]


def undescribe(d):
	raise NotImplementedError('C02 replays carry the wire text; re-run with the recorded seed')


def finding_still_fails(k):
	return True


LEVEL_TEXT = ('Theorems for ALL payloads, chunk partitions, extensions and trailers (unbounded): a chunked body written per RFC 7230 4.1 is decoded by the model\'s reader to exactly the concatenated payload with the rest of the stream left over (dechunk_chunk); '
	'a Content-Length body is taken octet for octet and the following octets are retained (body_length_exact); after a delivery the per-message state is fresh (fresh_state_after_delivery), which is isolation. '
	'Together with C01\'s fragmentation theorems this gives prefix-exact delivery for the body layer. WHOLE PIPELINES are a theorem as well (pipeline_mixed, feed_pipeline): any number of messages, each a start line, a header block and a body framed by Content-Length or in chunks, '
	'written one after the other, go through the outer loop of the state machine (start-line phase, header phase with the first CRLFCRLF found by splitOnce_first, body, delivery hooks) and come out as exactly those messages, in order, nothing retained, on both sides; '
	'what a writer must get right for one message is the predicate Good / GoodC (the start line yields a record, the block parses, the hooks at the end of the header section accept, the length field reads back as the body length or the transfer coding is chunked), '
	'computable (goodB, goodCB) and evaluated by the kernel for concrete request and response pipelines (c02_pipeline_witness_*). THE PREFIX CLAUSE is feedAll_prefix (Props/C01Pipeline.lean; with chunked messages mixed in: Props/C01Mixed.lean): for pipelines cut into calls in any way, after any prefix of the stream exactly the messages wholly contained in it have been delivered and the state machine holds the rest (it is inside the start line, the header section or the body of the next message, with precisely the octets still to come). The independent writer\'s records are the oracle.')
LEVEL_NOTE = 'Trusted: Lean kernel; the RFC 7230 writer transcription (Lean: Spec in Props/C02, Python: harness/wire.py); parser model tested against the code.'
