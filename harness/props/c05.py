# -*- coding: utf-8 -*-
"""C05 — composed output is a well-framed message whose framing headers tell the truth."""
from __future__ import annotations

import composeutil as cu
from core import hx, exc_name

ID = 'C05'
MODULES = ['Httoop.Props.C05']
THEOREMS = [
	'Httoop.Compose.framing_exclusive',
	'Httoop.Compose.length_truthful',
	'Httoop.Compose.chunked_wellformed',
	'Httoop.Compose.chunked_reads_back',
	'Httoop.Compose.bodiless_no_octets',
	'Httoop.Compose.prepareRequest_idem',
	'Httoop.Compose.prepareResponse_idem',
	'Httoop.Compose.prepareRequest_spec',
	'Httoop.Compose.prepareResponse_spec',
	'Httoop.Compose.setChunked_spec',
	'Httoop.chunkSize_hexLower',
]
TRUSTED = [
	'the framing core of ComposedRequest/ComposedResponse.prepare (chunked setter, Content-Length, bodiless statuses, HEAD, content coding forcing chunked) and of Body.__iter__ is modelled in Model/Compose.lean and compared with the code on every generated message (framing header values and body octets); the other header bookkeeping of prepare() (Date, Host, User-Agent, Accept, Content-Type, Connection, Allow, Accept-Ranges) is covered by the independent RFC 7230 reader of the oracle, not by the model',
	'zlib is a parameter (C14); Range preparation is C20',
]
ASSUMPTIONS = ['F23: chunked framing on an HTTP/1.0 message (asked for by the caller, left in the header fields, or switched on by the composer for a content coding) - recorded finding', 'F46: prepare() of a response to HEAD clears the body, a second prepare() then computes Content-Length: 0 - recorded finding']
RULE = ('prepared requests and responses over body sources {bytes, bytearray, text, list, tuple, generator, BytesIO, real file (positioned at the start or, filled by write(), at the end), none} x lengths {0, 1, 5, 4095, 4096, 4097, 10000} x chunked {unset, on, off; in 40% switched again before a prepare() through Body.chunked, the Transfer-Encoding field, ComposedMessage.transfer_encoding / .chunked} x content coding {none, gzip, deflate} x statuses with and without bodies x request methods incl. HEAD/GET/TRACE '
	'x pre-populated framing fields (stale Content-Length, Transfer-Encoding) x HTTP/1.0 and 1.1 x operation orders (prepare/compose repeated and interleaved); each output read by an independent RFC 7230 reader; non-trivial = well-framed output with a body; distinct by (framing, status/method, source, length class)')

METHODS = ['GET', 'HEAD', 'POST', 'PUT', 'DELETE', 'OPTIONS', 'TRACE', 'PATCH', 'SEARCH', 'get', 'Head', 'search', 'Post']
STATUSES = [100, 101, 102, 103, 150, 199, 200, 200, 200, 201, 202, 204, 205, 301, 304, 400, 404, 405, 413, 500, 503]
SOURCES = ['bytes', 'bytearray', 'text', 'list', 'tuple', 'gen', 'iter', 'textlist', 'textgen', 'bytesio', 'file', 'bytesio-end', 'file-end', 'none']
LENGTHS = [0, 1, 5, 300, 4095, 4096, 4097, 10000] * 5 + [65535, 65536, 65537]
OPS = [('prepare', 'compose'), ('prepare', 'compose', 'compose'), ('prepare', 'prepare', 'compose'), ('prepare', 'compose', 'prepare', 'compose'), ('prepare', 'compose', 'compose', 'prepare', 'compose')]


def gen_spec(rng):
	kind = rng.choice(('request', 'response', 'response'))
	source = rng.choice(SOURCES)
	n = rng.choice(LENGTHS)
	if source in ('textlist', 'textgen'):
		k = rng.choice((1, 2, 3))
		pieces = tuple(''.join(rng.choice(u'ab é€\n') for _ in range(rng.choice((0, 1, n // k)))).encode('utf-8') for _ in range(k))
		data = b''
	elif source == 'text':
		data = ''.join(rng.choice(u'ab é€\n') for _ in range(n)).encode('utf-8')
	else:
		data = bytes(rng.randrange(256) for _ in range(n)) if rng.random() < 0.5 else b'x' * n
	if source in ('textlist', 'textgen'):
		pass
	elif source in ('list', 'tuple', 'gen', 'iter') and data:
		cuts = sorted({rng.randrange(len(data) + 1) for _ in range(rng.choice((0, 1, 3)))})
		pieces, prev = [], 0
		for c in cuts + [len(data)]:
			pieces.append(data[prev:c])
			prev = c
		if source == 'list' and rng.random() < 0.3:
			# a text piece among octet pieces (a list may mix both)
			pieces = tuple(pieces)
		pieces = tuple(pieces)
	else:
		pieces = (data,) if source != 'none' else ()
	fields = []
	if rng.random() < 0.6:
		fields.append(('Host', 'example.com'))
	if rng.random() < 0.3:
		fields.append(('X-Foo', 'bar'))
	if rng.random() < 0.2:
		fields.append(('Connection', rng.choice(('close', 'keep-alive'))))
	if rng.random() < 0.2:
		fields.append(('Content-Type', 'application/octet-stream'))
	if rng.random() < 0.12:
		fields.append(('Content-Length', rng.choice(('5', '0', '99999'))))
	if rng.random() < 0.12:
		fields.append(('Transfer-Encoding', 'chunked'))
	elif rng.random() < 0.03:
		# the coding name in another letter case: refused (InvalidHeader, no octets produced) or framed as chunked, never half of each
		fields.append(('Transfer-Encoding', rng.choice(('Chunked', 'CHUNKED', 'chunkeD'))))
	chunked = rng.choice((None, None, True, False))
	coding = rng.choice((None, None, None, 'gzip', 'deflate')) if kind == 'response' else None      # the composer applies a content coding to responses only
	version = rng.choice(((1, 1), (1, 1), (1, 1), (1, 0)))
	return (kind, rng.choice(METHODS), rng.choice(('/', '/p?q=1', 'http://example.com/x')), rng.choice(STATUSES), version, tuple(fields), source, pieces, chunked, coding,
		rng.choice(('GET', 'GET', 'HEAD', 'POST', 'TRACE')), rng.choice(((1, 1), (1, 1), (1, 0))))


SWITCHES = {'body-on': 'B', 'body-off': 'b', 'te-set': 'H', 'te-del': 'h', 'te-none': 'h', 'chunk-on': 'T', 'chunk-off': 't'}


def gen_ops(rng):
	"""prepare/compose sequences; in 40% the caller switches the framing some other way before a prepare(): the flag of the Body
	object, the Transfer-Encoding field through the header API, ComposedMessage.transfer_encoding, ComposedMessage.chunked"""
	ops = rng.choice(OPS)
	if rng.random() < 0.6:
		return ops
	out = []
	for i, op in enumerate(ops):
		if op == 'prepare' and (i == 0 or ops[i - 1] != 'prepare') and rng.random() < 0.8:
			out.extend(rng.choice(sorted(SWITCHES)) for _ in range(rng.choice((1, 1, 2))))
		out.append(op)
	return tuple(out)


def apply_switch(b, op):
	if op == 'body-on':
		b.message.body.chunked = True
	elif op == 'body-off':
		b.message.body.chunked = False
	elif op == 'te-set':
		b.message.headers['Transfer-Encoding'] = 'chunked'
	elif op == 'te-del':
		b.message.headers.pop('Transfer-Encoding', None)
	elif op == 'te-none':
		b.composer.transfer_encoding = None
	elif op == 'chunk-on':
		b.composer.chunked = True
	elif op == 'chunk-off':
		b.composer.chunked = False
	else:
		raise ValueError(op)


def cases(rng, tier):
	n = 60000 if tier == 'thorough' else 6000
	for _ in range(n):
		yield ('c', gen_spec(rng), gen_ops(rng))
	# range responses: the framing of a 206 (single range, also reaching beyond the end; several ranges) and of what is sent instead
	for _ in range(n // 6):
		size = rng.choice((2, 9, 64, 300, 4096))
		a, b = rng.randrange(0, size + 3), rng.randrange(0, size + 120)
		v = rng.choice(('bytes=%d-%d' % (a, b), 'bytes=%d-%d' % (min(a, b), max(a, b)), 'bytes=%d-' % a, 'bytes=-%d' % b, 'bytes=0-%d' % (size - 1), 'bytes=0-0,%d-%d' % (size // 2, size + 5), 'bytes=1-2,4-6'))
		# what the application did before prepare(): nothing; offered ranges itself; switched chunked on; set a content coding; only a Last-Modified; a stale Content-Length
		opt = rng.choice((0, 0, 0, 1, 2, 3, 4, 5, 6))
		yield ('rng', size, v, rng.choice(('bytes', 'text', 'bytesio', 'file')), rng.choice((('prepare', 'compose'), ('prepare', 'prepare', 'compose'), ('prepare', 'compose', 'prepare', 'compose'))), opt)


def search(rng, res):
	return cases(rng, 'thorough')


def run_ops(spec, ops):
	"""-> (list of composed outputs, error or None, headers after the last prepare)"""
	b = cu.build(spec)
	outs = []
	try:
		for op in ops:
			if op == 'prepare':
				b.composer.prepare()
			elif op in SWITCHES:
				apply_switch(b, op)
			else:
				outs.append(b''.join(b.composer))
		return outs, None, b
	except Exception as e:
		return outs, e, b
	finally:
		cu.close(b)


def expected_content(spec):
	kind, method, target, status, version, fields, source, pieces, chunked, coding, req_method, req_version = spec
	data = b''.join(pieces)
	if kind == 'request':
		return b'' if method in ('GET', 'HEAD', 'SEARCH') else data
	if status < 200 or status in (204, 205, 304) or req_method == 'HEAD':
		return b''
	return data


def _fix_gzip_time():
	import gzip

	class T(object):
		@staticmethod
		def time():
			return 0
	gzip.time = T


def canon(name):
	from httoop import Headers
	return Headers.formatkey(name)


def opstr(ops):
	return ''.join('p' if o == 'prepare' else SWITCHES[o] if o in SWITCHES else 'c' for o in ops)


def build_range(case):
	from httoop import Request, Response
	from httoop.semantic.response import ComposedResponse
	_, size, v, source, ops = case[:5]
	opt = case[5] if len(case) > 5 else 0
	data = bytes((i * 5 + 1) % 251 for i in range(size)) if source != 'text' else (b'0123456789' * (size // 10 + 1))[:size]
	b = cu.Built()
	b.keep = []
	req = Request('GET', '/x', protocol=(1, 1))
	req.headers['Range'] = v
	resp = Response(200, protocol=(1, 1))
	resp.body = cu.make_source(source, (data,), b.keep)
	resp.headers['ETag'] = '"v1"'
	b.message, b.request, b.composer = resp, req, ComposedResponse(resp, req)
	if opt in (1, 2, 3):
		resp.headers['Accept-Ranges'] = 'bytes'
	if opt == 2:
		b.composer.chunked = True
	elif opt == 3:
		resp.headers['Content-Encoding'] = 'gzip'
	elif opt == 4:
		del resp.headers['ETag']
		resp.headers['Last-Modified'] = 'Sun, 06 Nov 1994 08:49:37 GMT'
	elif opt == 5:
		resp.headers['Content-Length'] = str(size + 8)
	elif opt == 6:
		resp.headers['Transfer-Encoding'] = 'chunked'
	return b


def oracle_range(case):
	ops = case[4]
	b = build_range(case)
	outs = []
	try:
		for op in ops:
			if op == 'prepare':
				b.composer.prepare()
			else:
				outs.append(b''.join(b.composer))
	except Exception as e:
		return {'what': 'prepare()/compose of a range response raised %s: %s' % (exc_name(e), e), 'case': describe(case), 'finding': None}
	finally:
		cu.close(b)
	for i, w in enumerate(outs):
		try:
			msg = cu.read_message(w, 'response', 'GET')
		except cu.Malformed as e:
			return {'what': 'range response, output %d is not one well-formed message: %s' % (i, e), 'wire': w[:400].hex(), 'case': describe(case), 'finding': None}
		if msg['rest']:
			return {'what': 'range response, output %d: %d octets follow the message (%s framing)' % (i, len(msg['rest']), msg['framing']), 'wire': w[:400].hex(), 'case': describe(case), 'finding': None}
		if msg['framing'] == 'close':
			return {'what': 'range response, output %d has neither Content-Length nor chunked framing' % i, 'wire': w[:400].hex(), 'case': describe(case), 'finding': None}
	for i, w in enumerate(outs[1:], 1):
		if cu.undate(w) != cu.undate(outs[0]):
			return {'what': 'range response, output %d differs from output 0 (apart from Date): not repeatable' % i, 'a': outs[0][:300].hex(), 'b': w[:300].hex(), 'case': describe(case), 'finding': None}
	return None


def model_lines(case):
	if case[0] == 'rng':
		return None
	_, spec, ops = case
	kind, method, target, status, version, fields, source, pieces, chunked, coding, req_method, req_version = spec
	_fix_gzip_time()
	content = b''.join(pieces)
	enc = b''
	if coding and content:
		from httoop.codecs.application.gzip import GZip
		from httoop.codecs.application.zlib import Deflate
		enc = (GZip if coding == 'gzip' else Deflate).encode(content)
	hs = list(fields)
	if coding:
		hs.append(('Content-Encoding', coding))
	args = []
	seen = {}
	for k, v in hs:
		seen[canon(k)] = v          # a dict: later assignments replace
	for k, v in seen.items():
		args += [hx(k.encode()), hx(v.encode('latin-1'))]
	fl = 'f' if source in ('bytes', 'bytearray', 'text', 'bytesio', 'file', 'bytesio-end', 'file-end') else 'l'
	return ['cp.run %s %d %d %d %s %s %s %d %s %s %s' % ('s' if kind == 'response' else 'r', 1 if method in ('GET', 'HEAD', 'SEARCH') else 0, 1 if req_method == 'HEAD' else 0, status,
		'~' if chunked is None else int(chunked), opstr(ops), fl, len(seen), hx(enc), ' '.join(args), ' '.join(hx(p) for p in pieces))]


def impl_lines(case):
	_, spec, ops = case
	_fix_gzip_time()
	try:
		b = cu.build(spec)
	except Exception as e:
		return ['err ' + exc_name(e)]
	outs = []
	try:
		for op in ops:
			if op == 'prepare':
				b.composer.prepare()
			elif op in SWITCHES:
				apply_switch(b, op)
			else:
				w = b''.join(b.composer)
				head, _sep, body = w.partition(b'\r\n\r\n')
				h = b.message.headers
				f = lambda n: '~' if h.getbytes(n) is None else hx(h.getbytes(n))
				outs.append('CL=%s TE=%s body=%s' % (f('Content-Length'), f('Transfer-Encoding'), hx(body)))
	except Exception as e:
		outs.append('err ' + exc_name(e))
	finally:
		cu.close(b)
	return [' | '.join(outs)]


def oracle(case):
	if case[0] == 'rng':
		return oracle_range(case)
	_, spec, ops = case
	kind, method, target, status, version, fields, source, pieces, chunked, coding, req_method, req_version = spec
	try:
		outs, err, b = run_ops(spec, ops)
	except Exception as e:
		if exc_name(e) == 'InvalidHeader' and any(k == 'Transfer-Encoding' and v != 'chunked' for k, v in fields):
			return None      # a transfer coding name the library does not know in that spelling: refused, nothing was produced
		return {'what': 'building the message raised %s: %s' % (exc_name(e), e), 'case': describe(case), 'finding': None}
	if err is not None:
		if exc_name(err) == 'InvalidHeader' and any(k == 'Transfer-Encoding' and v != 'chunked' for k, v in fields):
			return None
		return {'what': 'prepare()/compose raised %s: %s' % (exc_name(err), err), 'case': describe(case), 'finding': None}
	want = expected_content(spec)
	for i, w in enumerate(outs):
		try:
			msg = cu.read_message(w, kind, req_method)
		except cu.Malformed as e:
			fid = 'F23' if 'HTTP/1.0' in str(e) else None
			return {'what': 'output %d is not one well-formed message: %s' % (i, e), 'wire': w[:400].hex(), 'case': describe(case), 'finding': fid}
		if msg['rest']:
			return {'what': 'output %d: %d octets follow the message (%s framing)' % (i, len(msg['rest']), msg['framing']), 'wire': w[:400].hex(), 'case': describe(case), 'finding': None}
		if msg['framing'] == 'close' and kind == 'response' and not (status < 200 or status in (204, 304)):
			# neither Content-Length nor chunked: the property asks for one of them
			return {'what': 'output %d has neither Content-Length nor chunked framing' % i, 'wire': w[:400].hex(), 'case': describe(case), 'finding': None}
		try:
			got = cu.decode_content(msg['body'], coding if (b'content-encoding' in dict(msg['fields'])) else None)
		except Exception as e:
			return {'what': 'output %d: the body is not a %s stream: %s' % (i, coding, e), 'wire': w[:400].hex(), 'case': describe(case), 'finding': None}
		if got != want:
			return {'what': 'output %d (%s framing): body decodes to %d octets, content has %d' % (i, msg['framing'], len(got), len(want)), 'wire': w[:400].hex(), 'case': describe(case), 'finding': None}
	# one Body object (the application's representation) handed to the constructors of two messages: what is done with the second
	# message (a 304, an answer to HEAD, a chunked answer) does not change what the first one composes
	if kind == 'response' and want and source in ('bytes', 'list', 'bytesio') and 200 <= status < 300 and status not in (204, 205) and req_method != 'HEAD' and not coding and not fields:
		try:
			from httoop import Request, Response
			from httoop.messages.body import Body
			from httoop.semantic.response import ComposedResponse
			rep = Body(list(pieces) if source == 'list' else want)
			get = Request('GET', '/r')
			r1 = Response(status, body=rep)
			c1 = ComposedResponse(r1, get)
			c1.prepare()
			first = b''.join(c1)
			for st2, m2, ch2 in ((304, 'GET', None), (200, 'HEAD', None), (200, 'GET', True)):
				r2 = Response(st2, body=rep)
				c2 = ComposedResponse(r2, Request(m2, '/r'))
				if ch2:
					c2.chunked = True
				c2.prepare()
				b''.join(c2)
				again = b''.join(c1)
				if cu.undate(again) != cu.undate(first):
					return {'what': 'a Body object was handed to two responses; after the second one (%d, answer to %s%s) was prepared the first composes differently' % (st2, m2, ', chunked' if ch2 else ''), 'a': first[:300].hex(), 'b': again[:300].hex(), 'case': describe(case), 'finding': None}
			msg1 = cu.read_message(first, 'response', 'GET')
			if cu.decode_content(msg1['body'], None) != want:
				return {'what': 'a response built with Response(status, body=Body(...)) does not carry the content', 'wire': first[:300].hex(), 'case': describe(case), 'finding': None}
			# the message object used for a second exchange, the new representation handed over as a Body object made of pieces
			for newrep in ([b'the second representation, ', b'which is considerably longer than the first one ' * 3], [b'x'], (b'ab', b'', b'c')):
				r3 = Response(status, body=Body(list(pieces) if source == 'list' else [want]))
				c3 = ComposedResponse(r3, get)
				c3.prepare()
				b''.join(c3)
				r3.body = Body(newrep)
				c3.prepare()
				third = b''.join(c3)
				msg3 = cu.read_message(third, 'response', 'GET')
				if msg3['rest'] or cu.decode_content(msg3['body'], None) != b''.join(newrep):
					return {'what': 'a response used for a second exchange with a new Body object of pieces: %d octets of content, the message carries %d (%s framing, %d octets after it)' % (len(b''.join(newrep)), len(msg3['body']), msg3['framing'], len(msg3['rest'])), 'wire': third[:300].hex(), 'case': describe(case), 'finding': None}
		except cu.Malformed as e:
			return {'what': 'Body object shared by two responses: the first is not one well-formed message: %s' % e, 'case': describe(case), 'finding': None}
		except Exception as e:
			return {'what': 'Body object shared by two responses raised %s: %s' % (exc_name(e), e), 'case': describe(case), 'finding': None}
	base = cu.undate(outs[0])
	if any(op in SWITCHES for op in ops):
		return None          # the caller changed the framing in between: the outputs are judged one by one only
	for i, w in enumerate(outs[1:], 1):
		if cu.undate(w) != base:
			fid = 'F46' if kind == 'response' and req_method == 'HEAD' and ops.count('prepare') > 1 else None
			return {'what': 'output %d differs from output 0 (apart from Date): not repeatable' % i, 'a': outs[0][:300].hex(), 'b': w[:300].hex(), 'case': describe(case), 'finding': fid}
	return None


def nontrivial(case, outs):
	if case[0] == 'rng':
		return ('rng', case[1], case[3], case[2].count(','), len(case[4]), case[5:])
	spec = case[1]
	n = len(b''.join(spec[7]))
	return (spec[0], spec[1] if spec[0] == 'request' else spec[3], spec[6], 0 if n == 0 else 1 if n < 4096 else 2, spec[8], spec[9], spec[4], case[2])


def tally(case, res):
	if case[0] == 'rng':
		res.count('kind:range-response')
		return
	spec = case[1]
	res.count('kind:' + spec[0])
	res.count('source:' + spec[6])
	res.count('chunked:%s' % spec[8])
	res.count('coding:%s' % spec[9])
	res.count('switches:%d' % sum(1 for op in case[2] if op in SWITCHES))


def describe(case):
	if case[0] == 'rng':
		return ['rng', case[1], case[2], case[3], list(case[4])] + list(case[5:])
	spec = case[1]
	return ['c', [spec[0], spec[1], spec[2], spec[3], list(spec[4]), [list(f) for f in spec[5]], spec[6], [p.hex() for p in spec[7]], spec[8], spec[9], spec[10], list(spec[11])], list(case[2])]


def undescribe(d):
	if d[0] == 'rng':
		return ('rng', d[1], d[2], d[3], tuple(d[4])) + tuple(d[5:])
	s = d[1]
	return ('c', (s[0], s[1], s[2], s[3], tuple(s[4]), tuple(tuple(f) for f in s[5]), s[6], tuple(bytes.fromhex(p) for p in s[7]), s[8], s[9], s[10], tuple(s[11])), tuple(d[2]))


def finding_still_fails(k):
	return oracle(undescribe(k['witness'])) is not None


LEVEL_TEXT = ('Theorems over EVERY message state (any header collection, any list of content pieces, any flags left by earlier calls) for the model of the framing core of prepare(): after prepare(), chunked in the header fields excludes Content-Length; '
	'a Content-Length (other than on a response to HEAD) is the decimal count of the octets that follow the header section, which are then not chunk-framed; with chunked framing the octets are the RFC 7230 chunk writer applied to the content (int("%x" % n, 16) = n for all n), '
	'which the library\'s reader turns back into the content for any number and size of pieces; 1xx/204/205/304 and responses to HEAD are followed by no octets; a second prepare() changes nothing - for requests, and for responses other than to HEAD (finding F46 is exactly the exception). '
	'Model tied to the code by correspondence on framing header values and body octets for every generated message and operation order; the complete output is read by an independent RFC 7230 reader (oracle).')
LEVEL_NOTE = 'Trusted: Lean kernel; correspondence harness; the header bookkeeping outside the framing core and the non-destructiveness of body sources (file positions, generators) are decided by the oracle on the real code. Defects found by this check were repaired (F47, F48); F23 and F46 are recorded findings.'
