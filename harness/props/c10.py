# -*- coding: utf-8 -*-
"""C10 — a URI built from components composes and parses back to the same components."""
from __future__ import annotations

from core import hx, exc_name
from gen import unicode_text
from uriutil import render_uri

ID = 'C10'
MODULES = ['Httoop.Props.C10', 'Httoop.Props.C10Whole', 'Httoop.Props.C10Host']
THEOREMS = [
	'Httoop.Uri.uri_cuts',
	'Httoop.Uri.compose_assemble',
	'Httoop.Uri.delimiters_encoded',
	'Httoop.Uri.quote_clean',
	'Httoop.Uri.userinfo_roundtrip',
	'Httoop.Uri.hostport_roundtrip',
	'Httoop.Uri.host_no_leak',
	'Httoop.Uri.unquoteHost_quote',
	'Httoop.Uri.host_delimiters_encoded',
	'Httoop.Uri.c10_host_witness',
	'Httoop.Uri.path_roundtrip',
	'Httoop.Uri.integer_natToDec',
	'Httoop.Uri.quote_clean_of_clean',
	'Httoop.Uri.authority_cuts',
	'Httoop.Uri.parse_compose',
	'Httoop.Uri.compose_parse_compose',
	'Httoop.Uri.sets_good',
	'Httoop.Uri.c10_whole_witness',
]
TRUSTED = [
	'socket.inet_pton/inet_ntop (IPv6 literals) and the idna codec (internationalised names, ACE labels) are not modelled: such hosts are skipped by the model (counted) and judged by the oracle on the real code',
	'text = UTF-8 octets; CPython UTF-8 codec inverse on valid text',
]
ASSUMPTIONS = ['guards of uri_roundtrip_partial: F1 (no code point < U+0010 in escaped positions), password only with a user name, host in canonical lower case, port None or 1..65535, path empty or starting with "/", query in QueryString normal form']
RULE = ('component tuples: known/unknown schemes and relative references without scheme and authority, user/password over Unicode incl. ":@/?#%", hosts of every syntactic kind (reg-name, also holding delimiters, blanks and percent signs; IPv4, bracketed IPv6, IDN), ports None/default/other, 0-5 path segments (also dot and empty segments) and 0-4 query pairs over Unicode, fragment; the composed text also parsed into an object that held another URI, and the operands checked after ==; '
	'non-trivial = all eight components come back and the second serialisation is byte-identical; distinct by composed text')

SCHEMES = [u'http', u'https', u'ftp', u'foo', u'x-y.z+1', u'svn+ssh']
HOSTS = [u'ex\u00e4:mple.com', u'\u00e4/b.example', u'\u00fc@b', u'\u00e4?b#c', u'3com.example', u'163.com', u'0mq.q', u'1a', u'9z', u'example.com', u'a', u'h-1.x', u'sub.dom.example', u'127.0.0.1', u'10.0.0.255', u'[::1]', u'[2001:db8::1]', u'[fe80::1:2:3:4]', u'[v1.fe80::a+En1]', u'[v7.X-y~Z]', u'bücher.example', u'www.bücher.example', u'mail.example.рф', u'ταΐζω.gr', u'ǰ.example', u'ẖa.example', u'ᏸᏹ.example', u'ΰx.gr', u'10.255.0.255', u'255.255.255.255', u'0.0.0.0', u'a_b', u"x!$&'()*+,;=y",
	# registered names that hold what is a delimiter elsewhere (a parser decodes a%2Fb to this): they must be written escaped
	u'a/b', u'a?b', u'a#b', u'a@b', u'a:b', u'a b', u'a%b', u'a%2fb', u'a[b]', u'a\\b', u'u:p@h', u'h/x/y', u'a|b', u'a^b`{}']
SPECIAL = u':@/?#%[]&=+ ;'


def text(rng, n):
	return unicode_text(rng, n, special=SPECIAL)


def cases(rng, tier):
	yield ('c', u'http', u'user', u'pa:ss', u'example.com', None, (u'a:', u'', u'b'), (), u'')
	yield ('c', u'http', u'u:v', u'p', u'h', None, (), (), u'')
	yield ('c', u'http', u'u@x', u'p@/?#%', u'h', 8080, (u'a b', u'ü', u'%41', u'x/y'), ((u'k', u'v&='),), u'fr#ag')
	n = 80000 if tier == 'thorough' else 12000
	for _ in range(n):
		scheme = rng.choice(SCHEMES)
		user = text(rng, rng.choice((0, 0, 1, 3, 6)))
		pw = text(rng, rng.choice((0, 0, 1, 4))) if user or rng.random() < 0.05 else u''
		host = rng.choice(HOSTS)
		port = rng.choice((None, None, 80, 443, 21, 22, 1, 8080, 65535, 0, 65536))
		segs = tuple(text(rng, rng.choice((0, 1, 1, 2, 5))) if rng.random() < 0.9 else rng.choice((u'.', u'..', u'', u'...')) for _ in range(rng.randrange(0, 6)))
		pairs = tuple((text(rng, rng.choice((1, 1, 3))), text(rng, rng.choice((0, 1, 4)))) for _ in range(rng.randrange(0, 5)))
		frag = text(rng, rng.choice((0, 0, 1, 5)))
		if rng.random() < 0.15:
			# a relative reference (origin form): no scheme, no authority
			rel = tuple(segs) or (u'x',)
			if not rel[0]:
				rel = (u'r',) + rel[1:]      # RFC 3986 3.3: without an authority the path cannot begin with '//'
			yield ('c', u'', u'', u'', u'', None, rel, pairs, frag)
			continue
		yield ('c', scheme, user, pw, host, port, segs, pairs, frag)
	# query names and values made of letters / digits outside ASCII only, percent signs followed by hex digits
	for pairs in (((u'caf\u00e9', u'\u0432'),), ((u'\u65e5\u672c', u'\u0663'),), ((u'name', u'%41'), (u'%e9', u'100%25')), ((u'\u00df', u'\u00b5'),)):
		yield ('c', u'http', u'', u'', u'h', None, (u'p',), pairs, u'')
		yield ('c', u'https', u'a:b', u'c:d', u'h', None, (u'\u65e5\u672c', u'caf\u00e9'), pairs, u'\u00e9')
	# many segments / query pairs, long components (counts and lengths around the numbers a limit or a cache would have)
	for cnt in (17, 33, 65, 129, 300) + ((1025,) if tier == 'thorough' else ()):
		segs = tuple(text(rng, rng.choice((1, 2))) or u's' for _ in range(cnt))
		pairs = tuple((u'k%d' % i, text(rng, rng.choice((0, 1, 2)))) for i in range(cnt))
		yield ('c', u'http', u'', u'', u'example.com', None, segs, (), u'')
		yield ('c', u'https', u'u', u'p', u'h', 8443, (u'p',), pairs, u'f')
	for ln in (255, 256, 1024, 4096, 8192):
		yield ('c', u'http', u'', u'', u'h', None, (text(rng, ln),), ((u'q', text(rng, ln)),), text(rng, ln))
		yield ('c', u'http', text(rng, ln), text(rng, ln), u'h', None, (), (), u'')


def search(rng, res):
	return cases(rng, 'thorough')


def build(case):
	from httoop.uri import URI
	_, scheme, user, pw, host, port, segs, pairs, frag = case
	u = URI(scheme=scheme, username=user, password=pw, host=host, port=port or u'', fragment=frag)
	if segs:
		u.path_segments = [u''] + list(segs)
	u.query = pairs
	return u


def model_lines(case):
	try:
		u = build(case)
	except Exception:
		return None
	def t(x):
		return hx((x or u'').encode('utf-8'))
	port = u._port
	# the model sets the port from its own PORT table when the argument is empty
	own = case[5]
	return ['uri.build %s %s %s %s %s %s %s %s' % (t(u.scheme), t(u.username), t(u.password), t(u.host), hx(str(own).encode()) if own else '-', t(u.path), t(u.query_string), t(u.fragment))]


def impl_lines(case):
	from httoop.uri import URI
	try:
		u = build(case)
		b = bytes(u)
	except Exception as e:
		return ['err ' + exc_name(e)]
	try:
		back = render_uri(URI(b))
	except Exception as e:
		back = 'err ' + exc_name(e)
	return ['%s %s' % (hx(b), back)]


def valid(case):
	_, scheme, user, pw, host, port, segs, pairs, frag = case
	if pw and not user:
		return False
	if port is not None and not (1 <= port <= 65535):
		return False
	if any(not k for k, v in pairs):
		return False
	return True


def oracle(case):
	from httoop.uri import URI
	if not valid(case):
		return None
	_, scheme, user, pw, host, port, segs, pairs, frag = case
	alltext = user + pw + u''.join(segs) + u''.join(k + v for k, v in pairs) + frag
	fid = None
	if any(ord(c) < 0x10 for c in alltext):
		fid = 'F1b'
	elif any(0x10 <= ord(c) < 0x20 or ord(c) == 0x7f for k, v in pairs for c in k + v):
		fid = 'F26b'
	try:
		u = build(case)
		b = bytes(u)
		v = URI(b)
		b2 = bytes(v)
		got = (v.scheme, v.username, v.password, v.host, v.port, v.path_segments if segs else None, v.query, v.fragment)
	except Exception as e:
		return {'what': 'compose/parse raised %s: %s' % (exc_name(e), e), 'components': repr(case[1:])[:300], 'finding': fid}
	exp = (scheme, user, pw, host if host.startswith(u'[v') else host.lower(), port or u.PORT, ([u''] + list(segs)) if segs else None, tuple(pairs), frag)
	bad = []
	if got != exp:
		names = ('scheme', 'username', 'password', 'host', 'port', 'path segments', 'query pairs', 'fragment')
		bad.append('components differ: ' + ', '.join('%s %r != %r' % (n, g, e) for n, g, e in zip(names, got, exp) if g != e))
	if b2 != b:
		bad.append('second serialisation differs: %r vs %r' % (b2, b))
	if v.tuple != u.tuple and not bad:
		bad.append('tuple differs: %r vs %r' % (v.tuple, u.tuple))
	if not bad:
		# the same text parsed into an object that held another URI before: nothing of the earlier one shows
		try:
			w = URI(b'https://old.example:8443/old/path?old=1#old')
			if not scheme:
				w = URI()        # a reference without scheme is read relative to the class of the object: only a plain URI object here
				w.parse(b'/old/path?old=1#old')
			w.parse(b)
			if (type(w), w.tuple, w.port) != (type(v), v.tuple, v.port):
				bad.append('parsed into an object that held another URI: %r (%s, port %r), a fresh object gives %r (%s, port %r)' % (w.tuple, type(w).__name__, w.port, v.tuple, type(v).__name__, v.port))
		except Exception as e:
			bad.append('re-parsing into a used object raised %s' % exc_name(e))
		# comparing does not change either operand
		try:
			before = (u.tuple, v.tuple, bytes(u))
			u == v, v == u, u == b, v != u
			if (u.tuple, v.tuple, bytes(u)) != before:
				bad.append('a comparison changed an operand: %r -> %r' % (before[0], u.tuple))
		except Exception as e:
			bad.append('comparison raised %s' % exc_name(e))
	if not bad:
		# the other ways to hand the same text / the same components over: text (str), a bytearray-free copy URI(u), the tuple; a copy is a
		# value of its own (changing it does not change the original)
		try:
			for how, mk in (('URI(str)', lambda: URI(b.decode('ascii'))), ('URI(URI)', lambda: URI(v)), ('URI(tuple)', lambda: URI(v.tuple))):
				w2 = mk()
				if w2.tuple != v.tuple or bytes(w2) != b:
					bad.append('%s gives %r / %r, URI(bytes) gives %r / %r' % (how, w2.tuple, bytes(w2), v.tuple, b))
					break
			clone = URI(v)
			before = (v.tuple, bytes(v))
			clone.path = u'/changed/in/the/copy'
			clone.query = ((u'changed', u'1'),)
			clone.fragment = u'changed'
			if (v.tuple, bytes(v)) != before:
				bad.append('changing a copy URI(v) changed v: %r, before %r' % (v.tuple, before[0]))
		except Exception as e:
			bad.append('copying the URI raised %s: %s' % (exc_name(e), e))
	if bad:
		return {'what': '; '.join(bad)[:600], 'composed': b.decode('latin-1'), 'components': repr(case[1:])[:300], 'finding': fid}
	return None


def nontrivial(case, outs):
	if valid(case) and outs and ' ok ' in outs[0]:
		return outs[0].split(' ')[0]
	return None


def tally(case, res):
	h = case[4]
	res.count('host:' + ('ipv6' if h.startswith('[') else 'ipv4' if h.replace('.', '').isdigit() else 'idn' if any(ord(c) > 127 for c in h) else 'regname'))
	res.count('valid:%s' % valid(case))


def describe(case):
	return [case[0], case[1], case[2], case[3], case[4], case[5], list(case[6]), [list(p) for p in case[7]], case[8]]


def undescribe(d):
	return (d[0], d[1], d[2], d[3], d[4], d[5], tuple(d[6]), tuple(tuple(p) for p in d[7]), d[8])


def finding_still_fails(k):
	return oracle(undescribe(k['witness'])) is not None


LEVEL_TEXT = ('Theorems for ALL component values in the guarded domain (any length): every octet that is a delimiter in its position is outside that position\'s safe set (regenerated tables), the output of quote() contains no such delimiter, '
	'and the three structured pieces are cut back exactly: userinfo (user[:password], colons in the user name escaped), host[:port] (decimal port read back by int()), and the path (segment-wise quoting, arbitrary UTF-8 text). The outer cuts of parse (fragment, query, scheme, authority, path) find exactly the pieces compose assembled whenever each piece is free of the delimiters that end it (uri_cuts; compose_assemble ties the assembly to compose) - the clause that no component leaks into its neighbour. What remains correspondence/oracle-level is the last step: filling the record (class by scheme, port setter defaults). '
	'THE WHOLE URI is one theorem (parse_compose, Props/C10Whole.lean): for an absolute URI with a registered-name host, compose writes a text whose parse is the URI again - class, scheme, user name, password, host, port, path, query, fragment - and composing that again gives the same octets (compose_parse_compose); the hypotheses (UriGood: every component escapable and valid UTF-8, the port the default of the class or in 1..65535, the query a fixed point of the re-encoding; SetsGood: the safe sets keep the delimiters out, proved for the sets of the source) are discharged for a concrete URI with every component by kernel evaluation (c10_whole_witness). '
	'IPv6 literals and internationalised names go through socket/idna and are covered by the oracle on the real code only.')
LEVEL_NOTE = 'Trusted: Lean kernel; UTF-8 codec; extract.py/correspondence. inet_pton/ntop and the idna codec are parameters the model does not contain.'
