# -*- coding: utf-8 -*-
"""C06 — every delivered request has a sanitised effective URI."""
from __future__ import annotations

import itertools

import parserutil
from core import hx, exc_name

ID = 'C06'
MODULES = ['Httoop.Props.C06', 'Httoop.Props.C06Invariant', 'Httoop.Props.C06Host', 'Httoop.Props.C06Trailers', 'Httoop.Props.C06HostInvariant']
THEOREMS = [
	'Httoop.Parser.fixed_path_clean',
	'Httoop.Parser.delivered_path_clean',
	'Httoop.Parser.validate_shape',
	'Httoop.Parser.delivered_uri_shape',
	'Httoop.Parser.host_from_header',
	'Httoop.Parser.host_absent',
	'Httoop.Parser.defaults_applied',
	'Httoop.Parser.encoded_dot_is_dot',
	'Httoop.Parser.encoded_slash_not_separator',
	'Httoop.Parser.run_sanitised',
	'Httoop.Parser.feed_sanitised',
	'Httoop.Parser.delivered_requests_sanitised',
	'Httoop.Parser.c06_invariant_witness',
	'Httoop.Host.host_alphabet',
	'Httoop.Host.host_no_delimiter',
	'Httoop.Host.hostname_class_table',
	'Httoop.Host.c06_host_witness',
	'Httoop.Parser.host_forbidden_in_trailers',
	'Httoop.Parser.mergeTrailers_host_untouched',
	'Httoop.Parser.parseTrailers_host_untouched',
	'Httoop.Parser.tree_env_host_forbidden',
	'Httoop.Parser.host_trailer_witness',
	'Httoop.Parser.delivered_requests_hosted',
	'Httoop.Parser.delivered_requests_hosted_tree',
	'Httoop.Parser.setRequestHost_rel',
	'Httoop.Parser.parseBody_sameH',
	'Httoop.Parser.c06_host_invariant_witness',
]
TRUSTED = [
	'the URI model (parse, normalize) of C10-C12 and the Host model (Model/Host.lean incl. the glibc inet_pton transcription) are tied by their own correspondences; hosts needing the idna codec are outside the model (skipped)',
]
ASSUMPTIONS = ['host comparison: a bracketed IPv6 literal in the Host field is delivered without its brackets (uri.host = "::1"); the oracle compares hosts up to the brackets and letter case', 'the Host field value is taken as the header parser trims it (Python bytes.strip: SP, HTAB and also VT, FF)', 'a status raised by parse() ends the history: the state machine is not fed again after an error (DESIGN.md 6.2)']
RULE = ('request targets: all sequences of <= 4 (thorough: 6 sampled) tokens over {"/", ".", "..", "%2e", "%2E", "%2f", "%5c", "\\\\", "%25", "%c0%ae", "%252e", ";", "a", "b", "*"} as origin-form, plus absolute-form, authority-form and asterisk-form targets, '
	'x Host forms (reg-name, IPv4, bracketed IPv6, with/without port, upper case, absent, sent twice; invalid: bad brackets / ports, short and non-decimal address forms, text after an address, URI delimiters, white space, control and 8-bit characters) x HTTP/1.0, 1.1; non-trivial = delivered; distinct by (target, host)')

TOKENS = [b'/', b'.', b'..', b'%2e', b'%2E', b'%2f', b'%5c', b'\\', b'%25', b'%c0%ae', b'%252e', b';', b'a', b'b', b'*', b'%3F', b'%23', b'b%3Fc', b'%3fq=1']
HOSTS = [b'example.com', b'EXAMPLE.com:8080', b'127.0.0.1', b'127.0.0.1:81', b'[::1]', b'[2001:db8::1]:8443', b'h:0', b'h:65536', b'h:99999999999', b'', b'a b', b'h:', b'[::1', b'1.2.3', b'under_score', b'h,i', None, b'x:y', b'-', b'h.:80', b'example.com]', b'[[::1]]', b'[example.com:81', b']example.com[', b'[::1]]:80', b'[h', b'h]:80', b'[1.2.3.4]',
	# what lenient address parsers accept: short and non-decimal forms, text after the address
	b'1.2.3.4 evil.example', b'1.2.3.4\tx', b'1.2.3.4 /../..', b'1.2.3.4 :80', b'127.1', b'0x7f.1', b'0x7f.0.0.1', b'017700000001', b'2130706433', b'1.2.3.4.', b'1.2.3.04', b'1.2.3.256', b'1.2.3.4:80 x', b'::1', b'[::1] x', b'[::1%25eth0]', b'[::ffff:1.2.3.4]', b'[::ffff:1.2.3.4 x]', b'h\x0b', b'h\x7f', b'h\xa0', b'h%20x', b'h%', b'h?x', b'h#x', b'h?', b'#', b'h/x', b'u@h', b'h\\x', b'a?b/../c', b'h#@evil', b'h|x', b'h`x', b'h\x00', b'h\x1f',
	# a percent sign in the field is data (the Host field has no escapes): written down, the effective URI must still name this host
	b'example.com%3a8080', b'user%40example.com', b'exa%6dple.com', b'100%25', b'example.com%2fadmin', b'h%23f:81', b'h%3fq']


import re as _re0
# RFC 7230 5.4 / RFC 3986 3.2.2: Host = uri-host [ ":" port ].  Whatever else a recipient tolerates in a host, these can never be
# part of one: they end the authority ("/", "?", "#"), make the text before them user information ("@"), or cannot appear in
# a URI at all (backslash, white space, control characters, DEL)
HOST_BREAKERS = _re0.compile(rb'[\x00-\x20\x7f/?#@\\]')


def cases(rng, tier):
	# every target form x Host present / absent x protocol x method, deterministically (the random part below reaches a given
	# combination of absent Host, authority form and protocol only now and then)
	for t in (b'other.example:99', b'[2001:db8::1]:443', b'192.0.2.7:3128', b'other.example', b'/', b'/p?q', b'*', b'http://example.com/x', b'https://example.com:8443/', b'http://u@example.com/'):
		for hst in (None, b'h', b'h:81', b'other.example:99'):
			for ver in (b'1.0', b'1.1', b'1.10', b'1.010', b'1.100', b'1.9', b'0.9'):
				for mth in (b'CONNECT', b'GET', b'OPTIONS', b'POST'):
					yield ('t', t, hst, ver, mth)
	yield ('t', b'/a/../b', b'h', b'1.1')
	yield ('t', b'/%2e%2e/x', b'h', b'1.1')
	yield ('t', b'/a/%c0%ae%c0%ae/b', b'h', b'1.1')
	for t in (b'*', b'**', b'*a', b'*/a', b'*.', b'http://:pw@h/a', b'http://u@h/a', b'http://u:p@h/a', b'http://h/a#f', b'//h/a'):
		yield ('t', t, b'h', b'1.1')
	for n in (1, 2, 3, 4):
		for t in itertools.product(TOKENS, repeat=n):
			if tier == 'quick' and n == 4 and rng.random() > 0.08:
				continue
			if tier == 'quick' and n == 3 and rng.random() > 0.6:
				continue
			target = b'/' + b''.join(t) if t[0] != b'/' else b''.join(t)
			yield ('t', target, rng.choice([b'h', b'example.com', b'[::1]:81']), b'1.1')
	k = 60000 if tier == 'thorough' else 4000
	for _ in range(k):
		n = rng.randrange(1, 8)
		parts = [rng.choice(TOKENS + [b'/', b'/', b'c', b'%41', b'%zz', b'%', b'?q=1', b'#f']) for _ in range(n)]
		target = b''.join(parts)
		form = rng.randrange(8)
		if form == 6:
			target = b'*' + rng.choice([b'', b'*', b'/', b'.', b'a', b'/a', b'%2a']) + (target if rng.random() < 0.5 else b'')
		elif form == 7:
			target = rng.choice([b':0@', b'u@', b':@', b'@', b'', b'', b'http://', b'//']) + rng.choice([b'h:443', b'example.com:80', b'[::1]:443', b':443', b'h']) + rng.choice([b'', b'', b'/p', b'?q', b'#f', b'/'])
		elif form == 0:
			target = b'/' + target
		elif form == 1:
			target = rng.choice([b'http://', b'https://', b'HTTP://', b'ftp://', b'//', b'http:/', b'http://u@', b'http://u:p@', b'http://:p@', b'http://:@', b'http://@', b'http://u:@', b'https://%3a:x@']) + rng.choice([b'example.com', b'[::1]', b'h:81', b'H']) + b'/' + target
		elif form == 2:
			target = rng.choice([b'*', b'h:443', b'example.com:80', b'[::1]:443', b'h', b'/'])
		elif form == 3:
			target = b'/' + b'/'.join(rng.choice([b'a', b'b', b'%7Eu', b'x%20y', b'caf%C3%A9', b'%E2%82%AC']) for _ in range(rng.randrange(0, 4)))
		method = b'CONNECT' if form in (2, 7) and rng.random() < 0.6 else rng.choice([b'GET', b'POST', b'OPTIONS'])
		if rng.random() < 0.08:
			# the Host field sent twice (RFC 7230 5.4: such a request is to be refused): equal, different, one of them empty
			h1 = rng.choice([b'h', b'example.com', b'evil.example:81', b'', b'[::1]'])
			h2 = rng.choice([h1, b'', b'h', b'evil.example:81', b' '])
			yield ('t', target, h1, rng.choice([b'1.1', b'1.1', b'1.0']), method, h2)
			continue
		yield ('t', target, rng.choice(HOSTS), rng.choice([b'1.1', b'1.1', b'1.0']), method)
		if rng.random() < 0.05:
			# a chunked request whose trailer section carries a Host field (announced in Trailer or not): whatever is delivered,
			# its Host field is still the one its host and port were taken from
			yield ('tt', target if target.startswith(b'/') else b'/x', rng.choice([b'good.example', b'h:81', b'[::1]']), b'1.1', b'POST',
				rng.choice([b'Host', b'host', b'X-A, Host', b'HOST, X-A', b'X-A']), rng.choice([b'evil.example', b'h:82', b'good.example', b'']))


def search(rng, res):
	return cases(rng, 'thorough')


def stream(case):
	target, host, version = case[1], case[2], case[3]
	method = case[4] if len(case) > 4 else b'GET'
	lines = [method + b' ' + target + b' HTTP/' + version]
	if host is not None:
		lines.append(b'Host: ' + host)
	if case[0] == 'tt':
		lines += [b'Transfer-Encoding: chunked', b'Trailer: ' + case[5]]
		return b'\r\n'.join(lines) + b'\r\n\r\n1\r\nx\r\n0\r\nHost: ' + case[6] + b'\r\n\r\n'
	if len(case) > 5:
		lines.append(b'X-Between: 1')
		lines.append(b'host: ' + case[5])
	if method == b'POST':
		lines.append(b'Content-Length: 0')
	return b'\r\n'.join(lines) + b'\r\n\r\n'


def model_lines(case):
	return ['sm.server %s' % hx(stream(case))]


def impl_lines(case):
	return [parserutil.run('server', [stream(case)])]


def expected_canonical(target):
	"""the canonical path of an origin-form target by an independent reading of RFC 3986 (decode the path once, collapse slash
	runs, remove dot segments); None when the target is not a plain origin-form path in UTF-8"""
	import re
	import rfc3986
	if not target.startswith(b'/') or target.startswith(b'//'):
		return None
	raw = target.split(b'?')[0].split(b'#')[0]
	if re.search(rb'%(?![0-9A-Fa-f]{2})', raw) or re.search(rb'%2[fF5]', raw):
		return None      # an encoded slash or percent sign: the path text keeps an escape there (C10), no plain reading
	try:
		text = re.sub(rb'%([0-9A-Fa-f]{2})', lambda m: bytes([int(m.group(1), 16)]), raw).decode('utf-8')
	except UnicodeDecodeError:
		return None
	text = re.sub(u'/{2,}', u'/', text)
	return rfc3986.remove_dot_segments(text)


def canonical(p):
	return p.startswith(u'/') and u'.' not in p.split(u'/') and u'..' not in p.split(u'/') and u'' not in p.split(u'/')[1:-1] and u'//' not in p


def oracle(case):
	r = oracle1(case)
	if r is None and case[0] == 't' and len(case) > 5:
		# the Host field sent twice, the header section arriving line by line (the first Host line is consumed before the second arrives)
		s = stream(case)
		sm = parserutil.new_sm('server')
		delivered = []
		try:
			pos = 0
			while pos < len(s):
				i = s.find(b'\r\n', pos)
				j = len(s) if i < 0 else i + 2
				delivered.extend(sm.parse(s[pos:j]))
				pos = j
		except Exception as e:
			if not exc_name(e).startswith('status:'):
				return {'what': 'parse raised %s' % exc_name(e), 'stream': s.decode('latin-1'), 'finding': None}
		if delivered:
			u = delivered[0][0].uri
			return {'what': 'delivered (host %r, port %r) although the Host field was sent twice (%r and %r), the header section fed line by line' % (u.host, u.port, case[2], case[5]), 'stream': s.decode('latin-1'), 'finding': None}
	return r


def oracle1(case):
	s = stream(case)
	sm = parserutil.new_sm('server')
	try:
		out = sm.parse(s)
	except Exception as e:
		name = exc_name(e)
		if name == 'status:301':
			# "a 301 to the canonical path": the Location is a path in the sanitised form, and asking for it is not
			# answered by another redirect
			loc = e.headers.get('Location')
			lp = loc.split(u'?')[0].split(u'#')[0] if loc is not None else None
			if lp is None or not canonical(lp):
				return {'what': '301 to %r, which is not a canonical path' % (loc,), 'stream': s.decode('latin-1'), 'finding': None}
			exp = expected_canonical(case[1])
			if exp is not None:
				from httoop.uri import URI
				got = URI(loc.encode('utf-8')).path
				if got != exp:
					return {'what': '301 to %r (path %r), the canonical path of the request is %r' % (loc, got, exp), 'stream': s.decode('latin-1'), 'finding': None}
			again = parserutil.new_sm('server')
			try:
				again.parse(b'GET ' + loc.encode('utf-8') + b' HTTP/1.1\r\nHost: h\r\n\r\n')
			except Exception as e2:
				if exc_name(e2) == 'status:301':
					return {'what': 'the Location %r of the 301 is itself answered with a 301 to %r' % (loc, e2.headers.get('Location')), 'stream': s.decode('latin-1'), 'finding': None}
			return None
		if name in ('status:400', 'status:505', 'status:411', 'status:501'):
			return None
		return {'what': 'parse raised %s' % name, 'stream': s.decode('latin-1'), 'finding': None}
	for req, _resp in out:
		u = req.uri
		bad = []
		p = u.path
		if not (p == u'*' or p == u'' or (p.startswith(u'/') and u'.' not in p.split(u'/') and u'..' not in p.split(u'/') and u'' not in p.split(u'/')[1:-1] and u'//' not in p)):
			bad.append('path %r is not sanitised' % p)
		if u.scheme not in (u'http', u'https'):
			bad.append('scheme %r' % u.scheme)
		if u.username or u.password or u.fragment:
			bad.append('user information or fragment present')
		if case[0] == 'tt':
			dh = req.headers.get('Host')
			if dh is None or dh.strip() != case[2].decode('latin-1'):
				bad.append('the Host field of the delivered request is %r: the trailer section changed it after host and port were taken from %r' % (dh, case[2]))
		if len(case) > 5 and case[0] == 't':
			bad.append('delivered although the Host field was sent twice (%r and %r)' % (case[2], case[5]))
		host = case[2]
		if host is not None:
			host = host.strip()      # the field value as the header parser trims it (bytes.strip)
		if host is not None and HOST_BREAKERS.search(host):
			bad.append('delivered although the Host field %r contains a delimiter of the URI syntax, white space or a control character: written down, the effective URI has other components than the request' % (host,))
		if host is not None:
			import re
			m = re.match(rb'^(.*?)(?::(\d+))?$', host)
			hh, pp = m.group(1).decode('latin-1').lower(), m.group(2)
			if hh.startswith(u'[') and hh.endswith(u']'):
				hh = hh[1:-1]
			if u.host.lower().strip(u'[]') != hh:
				bad.append('host %r is not the Host field\'s %r' % (u.host, hh))
			# written down and read again (independent RFC 3986 appendix B split + percent-decoding), the effective URI names the same host
			if not bad and not hh.startswith(u'[') and u.path != u'*' and all(ord(c) < 0x80 for c in hh):      # (the asterisk form has no written form of its own; non-ASCII hosts are written through the idna codec, which maps characters)
				try:
					import rfc3986 as _r
					from urllib.parse import unquote_to_bytes as _unq
					_ts, _ta, _tp, _tq, _tf = _r.split(bytes(u).decode('latin-1'))
					if _ta is not None:
						_h = _ta.rpartition(u'@')[2]
						_h = _re0.sub(u':[0-9]*$', u'', _h)
						if (u'@' in _ta) or _unq(_h).decode('latin-1').lower().strip(u'[]') != hh:
							bad.append('the effective URI is written %r: read again its authority %r does not name the Host field\'s host %r' % (bytes(u), _ta, hh))
				except Exception as e:
					bad.append('composing the effective URI raised %s' % exc_name(e))
			exp_port = int(pp) if pp and int(pp) else {u'http': 80, u'https': 443}[u.scheme]
			if u.port != exp_port:
				bad.append('port %r, Host field says %r' % (u.port, exp_port))
		else:
			if (u.host, u.port) != (u'localhost', 80) and not case[1].lower().startswith((b'http://', b'https://')):
				bad.append('host/port %r:%r are not the configured defaults' % (u.host, u.port))
			if tuple(int(x_) for x_ in case[3].split(b'.')) >= (1, 1):
				bad.append('an HTTP/1.1 request without a Host field was delivered (the protocol does not allow the field to be absent)')
		if bad:
			import re as _re
			fid = 'F36' if case[2] is None and _re.match(rb'^[A-Za-z][A-Za-z0-9+.-]*:(?!//)', case[1]) else None
			return {'what': '; '.join(bad), 'stream': s.decode('latin-1'), 'finding': fid}
	return None


def nontrivial(case, outs):
	if outs and 'M(' in outs[0]:
		return (case[1], case[2])
	return None


def tally(case, res):
	res.count('host:%s' % ('absent' if case[2] is None else 'v6' if case[2].startswith(b'[') else 'other'))


def describe(case):
	return [case[0]] + [x.hex() if isinstance(x, bytes) else x for x in case[1:]]


def undescribe(d):
	return tuple([d[0]] + [bytes.fromhex(x) if isinstance(x, str) else x for x in d[1:]])


def finding_still_fails(k):
	return oracle(undescribe(k['witness'])) is not None


LEVEL_TEXT = ('Theorems for ALL request lines (every octet string as target): a request that gets past the start-line hooks has a path that normalisation leaves unchanged, hence - by C11\'s abspath theorems - is "*", empty, or starts with "/" '
	'and has no "." / ".." / empty segment and no slash run, whatever percent-encoding spelled the dots (they are decoded before the comparison; an encoded slash stays inside its segment); its scheme class is http/https, it has no user information or fragment; '
	'anything else is a 301/400/505. As an INVARIANT OF THE STATE MACHINE (delivered_requests_sanitised): for every sequence of parse() calls with any octets, every request handed out has such a URI - the start-line phase establishes it, every later phase (header blocks, Host hook, body, trailers, delivery) leaves path, user information and fragment untouched, across calls. Host and port are set from the parsed Host field, and the trailer section of a chunked request cannot change that field afterwards (Props/C06Trailers.lean: Host is among the names a Trailer field must not announce - table of the tree, T1, since the F68 repair - hence mergeTrailers_host_untouched / parseTrailers_host_untouched for every state and section). THE HOST CLAUSE AS AN INVARIANT (Props/C06HostInvariant.lean, delivered_requests_hosted / _tree): for every sequence of parse() calls with any octets, every request handed out that has a Host field has one that parses and names exactly the host and the port of its effective URI (no port = the default of the scheme class) - the field of the record as delivered: the header hook establishes the relation (setRequestHost_rel), the body phase (length determination, chunk reader, trailer merge, the rewriting of Content-Length / Transfer-Encoding on delivery) touches neither the request URI nor the Host field (parseBody_sameH, bodyComplete_host). Tied by correspondence over the token alphabet x Host forms.')
LEVEL_NOTE = 'Trusted: Lean kernel; URI/Host models tested against the code (inet_pton transcription validated on 180k addresses); idna hosts skipped.'
