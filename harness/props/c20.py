# -*- coding: utf-8 -*-
"""C20 — a satisfiable byte-range request returns exactly the requested slice."""
from __future__ import annotations

import os

import re

from core import hx, exc_name

ID = 'C20'
MODULES = ['Httoop.Props.C20']
THEOREMS = [
	'Httoop.Range.parseOne_spec',
	'Httoop.Range.parse_single',
	'Httoop.Range.single_range',
	'Httoop.Range.invalid_range_not_partial',
	'Httoop.Range.multi_range',
	'Httoop.Range.ranges_ascending',
	'Httoop.Range.slice_getElem',
]
TRUSTED = [
	'BytesIO.seek/read are modelled as drop/take (seek(-n, SEEK_END) clamps at 0; validated by T2)',
	'the float computation sqrt(average((x-avg)**2)) > 2.0 is modelled by the exact integer test n*sum(s^2) - sum(s)^2 > 4 n^2 (differs only if rounding flips an exact tie; validated by T2)',
	'make_boundary() is random: multipart bodies are compared part by part after splitting at the announced boundary; the multipart framing itself belongs to C14',
]
ASSUMPTIONS = ['the representation is a non-empty in-memory body (BytesIO); chunked/content-coded responses and non-GET requests are "unchanged" by construction']
RULE = ('all 0 <= first < last < n for n <= 24 (thorough: 64) + sampled up to 4096; 2-4 disjoint ranges of similar size in several request orders; open/suffix/out-of-range ranges; '
	'malformed values (non-digits, signs, underscores, missing unit, reversed, empty elements); condition flags (method, protocol, validator, status); a Response object that served another range request before, a stale Content-Length left on it; the validator a strong, weak or unquoted entity tag and/or a Last-Modified date in the three HTTP-date forms; '
	'non-trivial = 206 with a proper sub-slice; distinct by canonical outcome')

FLAGS = ('respProto11', 'reqProto11', 'status200', 'methodGET', 'etag', 'lastmod', 'notChunked')
DEFAULT = (1, 1, 1, 1, 1, 0, 1)
MALFORMED = [b'bytes=5_0-60', b'bytes=+1-5', b'bytes=1-+5', b'=1-2', b'bytes=1-5,', b'bytes=,1-5', b'bytes=a-b', b'bytes=5-3', b'bytes', b'bytes=', b'bytes=-', b'bytes=1', b'bytes=1-2-3',
	b'bytes=0x1-5', b'bytes=1.0-5', b'bytes=1-5;q=1', b'bytes=--5', b'bytes=5-0', b'bytes=2-5,9-0', b'bytes=1-5 6-7', b'bytes=\xb2-5', b'bytes=1-5_', b'bytes=1e1-20']


def body(n, rng=None):
	if n % 4 == 0:
		# text in CRLF-terminated lines of 7 octets: slices that end exactly at a line end, or between CR and LF
		return b''.join(b'l%03d:\r\n' % (i % 1000) for i in range(n // 7 + 1))[:n]
	return bytes((i * 7 + 3) % 251 for i in range(n))


def cases(rng, tier):
	yield ('r', DEFAULT, 20, b'bytes=2-5')
	for v in MALFORMED:
		yield ('r', DEFAULT, 64, v)
	nmax = 64 if tier == 'thorough' else 24
	for n in range(2, nmax + 1):
		for f in range(0, n):
			for l in range(f + 1, n):
				yield ('r', DEFAULT, n, b'bytes=%d-%d' % (f, l))
	k = 40000 if tier == 'thorough' else 3000
	for _ in range(k):
		n = rng.choice((2, 3, 64, 100, 255, 256, 1000, 4095, 4096))
		f = rng.randrange(0, n - 1)
		l = rng.randrange(f + 1, n)
		if rng.random() < 0.3:
			l = rng.choice((n - 1, min(n - 1, f + 1)))
		vflags = rng.choice((DEFAULT, DEFAULT, (1, 1, 1, 1, 1, 1, 1), (1, 1, 1, 1, 0, 1, 1)))
		yield ('r', vflags, n, b'bytes=%d-%d' % (f, l), rng.randrange(len(ETAGS) * len(LASTMODS)))
		if rng.random() < 0.2:
			# the same positions written with leading zeros (1*DIGIT)
			yield ('r', DEFAULT, n, b'bytes=%s-%s' % (b'%03d' % f if rng.random() < 0.7 else b'%d' % f, b'%04d' % l), 0)
	for _ in range(k):
		n = rng.choice((40, 100, 1000, 4096))
		cnt = rng.choice((2, 2, 3, 4))
		size = rng.randrange(1, max(2, n // (cnt * 2)))
		starts = sorted(rng.sample(range(0, n - size - 1, size + 1), cnt)) if (n - size - 1) // (size + 1) >= cnt else None
		if not starts:
			continue
		specs = [b'%d-%d' % (s, s + size + rng.choice((0, 0, 0, 1))) for s in starts]
		specs = [x for x in specs]
		rng.shuffle(specs)
		yield ('r', DEFAULT, n, b'bytes=' + rng.choice((b',', b', ', b' ,')).join(specs), rng.randrange(len(ETAGS)))
	# large representations and many ranges (sizes and counts around the numbers a buffer or a limit would have)
	for n in (8191, 8192, 8193, 65535, 65536, 65537, 200000):
		for f, l in ((0, 1), (0, n - 1), (n - 2, n - 1), (n // 2 - 1, n // 2 + 1), (4095, 4097), (1, n - 2)):
			if f < l < n:
				yield ('r', DEFAULT, n, b'bytes=%d-%d' % (f, l), rng.randrange(len(ETAGS)))
	for cnt in (5, 9, 17, 33, 65) + ((129,) if tier == 'thorough' else ()):
		n = 20000
		size = 20
		starts = sorted(rng.sample(range(0, n - size - 1, size + 3), cnt))
		specs = [b'%d-%d' % (s0, s0 + size) for s0 in starts]
		rng.shuffle(specs)
		yield ('r', DEFAULT, n, b'bytes=' + b','.join(specs), 0)
	for _ in range(k // 2):
		n = rng.choice((10, 64, 300))
		v = rng.choice([b'bytes=%d-' % rng.randrange(0, n + 5), b'bytes=-%d' % rng.randrange(0, n + 5), b'bytes=%d-%d' % (rng.randrange(0, n + 5), rng.randrange(0, n + 9)),
			b'bytes=0-1,%d-' % rng.randrange(2, n), b'bytes=-3,0-2', b'bytes=0-4,2-8', b'bytes=0-0,5-9', b'bytes=0-9,20-25,40-49', b'bytes=0-99,200-209', b'bytes= 1 - 5 ', b'Bytes=1-5', b'foo=1-5',
			rng.choice(MALFORMED)])
		flags = DEFAULT if rng.random() < 0.6 else tuple(rng.choice((0, 1)) for _ in FLAGS)
		yield ('r', flags, n, v)
	for _ in range(k // 2):
		v = bytes(rng.choice(b'bytes=0123456789-,, -_+') for _ in range(rng.randrange(1, 14)))
		yield ('r', DEFAULT, 30, v)
		yield ('p', v)


def search(rng, res):
	return cases(rng, 'thorough')


def model_lines(case):
	if case[0] == 'p':
		return ['rng.parse %s' % hx(case[1])]
	flags, n, v = case[1:4]
	var = case[4] if len(case) > 4 else 0
	return ['rng.prepare %s %s %s' % (' '.join(str(x) for x in flags), hx(body(n)), hx(v))]


ETAGS = ('"v1"', 'W/"v1"', 'foo', '""', 'W/""', '"a b"', '"W/x"')
LASTMODS = ('Sun, 06 Nov 1994 08:49:37 GMT', 'Sunday, 06-Nov-94 08:49:37 GMT', 'Sun Nov  6 08:49:37 1994', 'Thu, 01 Jan 1970 00:00:00 GMT')


def run(flags, n, v, var=0):
	from httoop import Request, Response
	from httoop.semantic.response import ComposedResponse
	respP, reqP, st200, get, etag, lastmod, notchunked = flags
	req = Request('GET' if get else 'POST', '/x', protocol=(1, 1) if reqP else (1, 0))
	req.headers['Range'] = v
	resp = Response(200 if st200 else 404, protocol=(1, 1) if respP else (1, 0))
	if (n + len(v) + var) % 4 == 3:
		# the Response object served another range request before (a server that keeps one per connection and fills it again)
		req0 = Request('GET', '/x', protocol=(1, 1))
		req0.headers['Range'] = 'bytes=1-3'
		resp.status = 200
		resp.body = body(17)
		resp.headers['ETag'] = '"v0"'
		ComposedResponse(resp, req0).prepare()
		bytes(resp.body)
		resp.status = 200 if st200 else 404
		resp.headers.clear()
		if var % 2 or (n + len(v)) % 5 == 1:
			resp.body = b''      # (otherwise the body of the earlier answer is still there when the new representation is assigned; before write() always)
	elif (n + len(v) + var) % 4 == 2:
		# the Response object answered an earlier exchange with a chunked stream; status, header fields and body are set anew
		req0 = Request('GET', '/x', protocol=(1, 1))
		resp.status = 200
		resp.body = (piece for piece in [b'event 1\n', b'event 2\n'])
		c0 = ComposedResponse(resp, req0)
		c0.chunked = True
		c0.prepare()
		b''.join(c0)
		resp.status = 200 if st200 else 404
		resp.headers.clear()
		resp.body = b''
	if var % 5 == 4:
		resp.headers['Content-Length'] = str(n + 7)      # a stale length left on the message: prepare() computes its own
	# the representation is supplied in one of three ways: assigned, written (file position at the end), assigned and partly read
	mode = (n + len(v)) % 5
	if mode == 4:
		from httoop.messages.body import Body
		resp.body = Body(body(n))      # the representation handed over as a Body object
	elif mode == 3:
		import tempfile
		f = tempfile.NamedTemporaryFile(dir=os.environ.get('VERIF_SCRATCH') or None)      # a real, named file (closed and removed when collected)
		f.write(body(n))
		f.flush()
		f.seek(0)
		resp.body = f
	elif mode == 1:
		resp.body.write(body(n))
	else:
		resp.body = body(n)
		if mode == 2:
			resp.body.read(max(1, n // 2))
	if etag:
		resp.headers['ETag'] = ETAGS[var % len(ETAGS)]          # strong, weak, unquoted: any validator will do for a plain Range request
	if lastmod:
		resp.headers['Last-Modified'] = LASTMODS[(var // len(ETAGS)) % len(LASTMODS)]
	if not notchunked:
		resp.headers['Transfer-Encoding'] = 'chunked'
	c = ComposedResponse(resp, req)
	c.prepare()
	return resp


def split_multipart(resp):
	ct = resp.headers.element('Content-Type')
	boundary = ct.boundary.encode('latin-1')
	raw = bytes(resp.body)
	parts = raw.split(b'--' + boundary)
	assert parts[0] == b'' and parts[-1] in (b'--', b'--\r\n'), (parts[0], parts[-1])
	out = []
	for p in parts[1:-1]:
		assert p.startswith(b'\r\n') and p.endswith(b'\r\n')
		head, _, content = p[2:-2].partition(b'\r\n\r\n')
		cr = [l.split(b':', 1)[1].strip() for l in head.split(b'\r\n') if l.lower().startswith(b'content-range:')]
		out.append((cr[0] if cr else b'', content))
	return out


def impl_lines(case):
	if case[0] == 'p':
		from httoop.header.range import Range
		try:
			r = Range.parse(case[1])
			return ['ok %s %s' % (hx(r.value.encode('latin-1')), ' '.join('%s-%s' % x for x in r.ranges))]
		except Exception as e:
			return ['err ' + exc_name(e)]
	flags, n, v = case[1:4]
	var = case[4] if len(case) > 4 else 0
	try:
		resp = run(flags, n, v, var)
		st = int(resp.status)
		if st == 206:
			ct = resp.headers.get('Content-Type') or ''
			if ct.startswith('multipart/byteranges'):
				return ['multi ' + ' '.join('%s:%s' % (hx(cr), hx(b)) for cr, b in split_multipart(resp))]
			return ['206 %s %s %s' % (hx(bytes(resp.body)), hx(resp.headers['Content-Range'].encode('latin-1')), resp.headers['Content-Length'])]
		if st == 416:
			return ['416 %s' % hx(resp.headers['Content-Range'].encode('latin-1'))]
		return ['unchanged']
	except Exception as e:
		return ['err ' + exc_name(e)]


VALID = re.compile(br'^[^=]+=(?:\d+-\d*|-\d+)(?:,(?:\d+-\d*|-\d+))*$')


def shared_body_oracle(n, v, f, l):
	"""the application's representation as ONE Body object handed to two exchanges (each with its own Request / Response): the second
	answer is as right as the first, and the application's object still holds the whole representation"""
	from httoop import Request, Response
	from httoop.messages.body import Body
	from httoop.semantic.response import ComposedResponse
	data = body(n).getvalue() if hasattr(body(n), 'getvalue') else bytes(body(n))
	rep = Body(data)
	for turn in (1, 2):
		req = Request('GET', '/x', protocol=(1, 1))
		req.headers['Range'] = v
		resp = Response(200, protocol=(1, 1))
		resp.body = rep
		resp.headers['ETag'] = '"v1"'
		ComposedResponse(resp, req).prepare()
		got = (int(resp.status), bytes(resp.body), resp.headers.get('Content-Length'), resp.headers.get('Content-Range'))
		exp = (206, data[f:l + 1], str(l - f + 1), 'bytes %d-%d/%d' % (f, l, n))
		if got != exp:
			return {'what': 'one Body object handed to two exchanges: answer %d is (%r, %d octets, %r, %r), expected (%r, %d octets, %r, %r)' % (turn, got[0], len(got[1]), got[2], got[3], exp[0], len(exp[1]), exp[2], exp[3]), 'range': v.decode(), 'n': n, 'finding': None}
		if bytes(rep) != data:
			return {'what': 'one Body object handed to two exchanges: after answer %d the application\'s object holds %d octets, the representation has %d' % (turn, len(bytes(rep)), n), 'range': v.decode(), 'n': n, 'finding': None}
	return None


def oracle(case):
	if case[0] != 'r':
		return None
	flags, n, v = case[1:4]
	var = case[4] if len(case) > 4 else 0
	data = body(n)
	try:
		resp = run(flags, n, v, var)
	except Exception as e:
		return {'what': 'prepare() raised %s: %s' % (exc_name(e), e), 'range': v.decode('latin-1'), 'n': n, 'finding': None}
	st = int(resp.status)
	compact = re.sub(br'[ \t]', b'', v)
	invalid = not VALID.match(compact) or any(m.group(2) and int(m.group(1)) > int(m.group(2)) for m in re.finditer(br'(\d+)-(\d*)', compact.split(b'=', 1)[1] if b'=' in compact else b''))
	if invalid and st == 206:
		return {'what': 'a syntactically invalid Range value yielded a partial (206) response', 'range': v.decode('latin-1'), 'n': n, 'content_range': resp.headers.get('Content-Range'), 'finding': None}
	if flags != DEFAULT:
		return None
	m = re.match(br'^bytes=(\d+)-(\d+)$', v)
	if m:
		f, l = int(m.group(1)), int(m.group(2))
		if f < l < n:
			if (n + f + l) % 7 == 0:
				try:
					r2 = shared_body_oracle(n, v, f, l)
				except Exception as e:
					r2 = {'what': 'one Body object handed to two exchanges raised %s: %s' % (exc_name(e), e), 'range': v.decode(), 'n': n, 'finding': None}
				if r2 is not None:
					return r2
			got = (st, bytes(resp.body) if st == 206 else None, resp.headers.get('Content-Length'), resp.headers.get('Content-Range'))
			exp = (206, data[f:l + 1], str(l - f + 1), 'bytes %d-%d/%d' % (f, l, n))
			if got == exp and 'Transfer-Encoding' not in resp.headers:
				sent = b''.join(resp.body)      # what follows the header section when the message is sent
				if sent != exp[1]:
					return {'what': 'the 206 announces Content-Length %s and no transfer coding, but the body is sent as %d octets that are not the slice' % (got[2], len(sent)), 'range': v.decode(), 'n': n, 'sent': sent[:200].hex(), 'finding': None}
			if got != exp:
				return {'what': 'single range response is not exactly the requested slice', 'range': v.decode(), 'n': n, 'got': [got[0], got[1].hex() if got[1] is not None else None, got[2], got[3]],
					'expected': [exp[0], exp[1].hex(), exp[2], exp[3]], 'finding': None}
		return None
	specs = re.findall(br'(\d+)-(\d+)', compact)
	if compact.startswith(b'bytes=') and VALID.match(compact) and len(specs) >= 2 and len(specs) == compact.count(b',') + 1:
		rs = sorted((int(a), int(b)) for a, b in specs)
		disjoint = all(a[1] < b[0] for a, b in zip(rs, rs[1:])) and all(f < l < n for f, l in rs)
		sizes = [l - f for f, l in rs]
		similar = max(sizes) - min(sizes) <= 1
		if disjoint and similar and len(set(rs)) == len(rs):
			if st != 206 or not (resp.headers.get('Content-Type') or '').startswith('multipart/byteranges'):
				return {'what': 'disjoint similar-size ranges did not give a multipart/byteranges 206', 'range': v.decode(), 'n': n, 'status': st, 'finding': None}
			try:
				parts = split_multipart(resp)
			except AssertionError as e:
				return {'what': 'multipart/byteranges body is not well framed: %s' % (e,), 'range': v.decode(), 'n': n, 'finding': None}
			exp = [(b'bytes %d-%d/%d' % (f, l, n), data[f:l + 1]) for f, l in rs]
			if parts == exp and 'Transfer-Encoding' not in resp.headers and b''.join(resp.body) != bytes(resp.body):
				return {'what': 'the multipart/byteranges 206 announces a Content-Length and no transfer coding, but the body is not sent as it is', 'range': v.decode(), 'n': n, 'finding': None}
			if parts != exp or resp.headers.get('Content-Length') != str(len(bytes(resp.body))):
				return {'what': 'multipart parts are not exactly the slices in ascending order', 'range': v.decode(), 'n': n, 'got': [(a.decode(), b.hex()) for a, b in parts], 'expected': [(a.decode(), b.hex()) for a, b in exp], 'finding': None}
	return None


def nontrivial(case, outs):
	if outs and (outs[0].startswith('206') or outs[0].startswith('multi')):
		return outs[0][:400]
	return None


def tally(case, res):
	res.count('kind:' + case[0])


def describe(case):
	if case[0] == 'p':
		return ['p', case[1].hex()]
	return ['r', list(case[1]), case[2], case[3].hex()] + list(case[4:])


def undescribe(d):
	if d[0] == 'p':
		return ('p', bytes.fromhex(d[1]))
	return ('r', tuple(d[1]), d[2], bytes.fromhex(d[3])) + tuple(d[4:])


def finding_still_fails(k):
	return oracle(undescribe(k['witness'])) is not None


LEVEL_TEXT = ('Theorems for ALL representations and ALL first < last < n (any size): "bytes=first-last" parses to that one range, the prepared response is 206 with body = drop first / take last-first+1, '
	'Content-Length = last-first+1 and Content-Range "bytes first-last/n"; a Range value the parser rejects never gives 206; several ranges give one part per parsed range, in ascending order of first position, '
	'each with its own Content-Range. Model = the code after the two fix: commits (digits only, non-empty unit); tied by exhaustive small-n and sampled correspondence of the whole prepare() outcome.')
LEVEL_NOTE = 'Trusted: Lean kernel; BytesIO drop/take reading; exact-integer deviation test; extract.py/correspondence. The multipart framing of the 206 body is compared part-wise (C14 owns the codec).'
