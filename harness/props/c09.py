# -*- coding: utf-8 -*-
"""C09 — header element parameters survive compose and parse."""
from __future__ import annotations

from core import hx, exc_name
from gen import unicode_char

ID = 'C09'
MODULES = ['Httoop.Props.C09', 'Httoop.Props.C09Roundtrip']
THEOREMS = [
	'Httoop.Element.dropLone_escape',
	'Httoop.Element.param_roundtrip_partial',
	'Httoop.Element.formatParam_quotes_even',
	'Httoop.Element.c09_double_backslash_witness',
	'Httoop.Element.c09_quote_witness',
	'Httoop.Element.element_tables',
	'Httoop.Element.element_roundtrip',
	'Httoop.Element.c09_element_witness',
	'Httoop.Element.list_roundtrip',
	'Httoop.Element.c09_list_witness',
]
TRUSTED = [
	'the two splitting regexes are modelled as "split at the separator when an even number of double quotes follows" (pattern texts pinned by C08.header_tables); re.sub(b"\\\\\\\\(?!\\\\\\\\)", b"", s) by dropLoneBackslashes',
	'text = UTF-8 octets; values outside ASCII travel as RFC 5987 extended parameters through Percent.quote (F1 applies); charsets other than utf-8 / iso-8859-1 in received extended parameters are out of the model (skipped)',
	'email.header.decode_header (element values outside ISO-8859-1) is not modelled: skipped by the model, judged by the oracle',
]
ASSUMPTIONS = ['whole-element and list round trips (several parameters, quote parity across parameters) are correspondence/oracle-level; the Lean theorem is the single-parameter round trip and the even-quote invariant']
RULE = ('elements with token values and 0-4 parameters whose values range over token text, every RFC 7230 separator, whitespace inside, backslash, double quote, Latin-1, BMP, astral; '
	'generic (X-Test), Content-Type, Content-Disposition and Cookie/Set-Cookie elements; alone and as 1-3 element lists; plus received (wire) element strings with quoting/continuations/extended params; '
	'non-trivial = at least one quoted or extended parameter round-tripped; distinct by composed text')

TOKENCH = u"abcxyzABC019-_.!#$%&'*+^`|~"
SEPS = u'()<>@,;:\\"/[]?={} \t'


ENCODED_WORD_LOOKALIKES = [u'=?utf-8?q?a?=', u'=?utf-8?q?a?= =?utf-8?q?b?=', u'see =?utf-8?q?y?=', u'=?iso-8859-1?q?bar?=', u'=?utf-8?b?4oaS?=;=?utf-8?b?4oaS?=',
	u'=?utf-8?q?foo?= (=?iso-8859-1?q?bar?=).txt', u'=?', u'a=?b?=', u'=?x?=, =?utf-8?q?y?=']


def value_text(rng):
	n = rng.choice((0, 1, 1, 2, 3, 5, 9))
	mode = rng.randrange(6)
	if rng.random() < 0.04:
		# text that looks like an RFC 2047 encoded word: literal text inside a parameter value
		return rng.choice(ENCODED_WORD_LOOKALIKES)
	if rng.random() < 0.03:
		# a literal percent sign followed by hex digits: data, in a plain value and in a value that travels as an extended parameter
		return rng.choice([u'\u20ac 5%25 off', u'Rabatt 20%ab M\u00e4rz.pdf', u'100%41', u'%e9t\u00e9', u'50%2525', u'a%2Fb', u'%C3%A9 \u00e9'])
	out = []
	for _ in range(n):
		if mode == 0:
			out.append(rng.choice(TOKENCH))
		elif mode == 1:
			out.append(rng.choice(TOKENCH + SEPS))
		elif mode == 2:
			out.append(rng.choice(u'a;,= \\"'))
		elif mode == 3:
			out.append(rng.choice(u'ab ;,=') if rng.random() < 0.7 else chr(rng.randrange(0xa0, 0x100)))
		else:
			out.append(unicode_char(rng, special=SEPS))
	return u''.join(out).strip()


def params(rng):
	ps = {}
	for _ in range(rng.choice((0, 1, 1, 2, 3, 4))):
		k = u''.join(rng.choice(u'abcdefxyz-_1') for _ in range(rng.randrange(1, 6)))
		if rng.random() < 0.25:
			# parameter names are case-insensitive tokens: any spelling, also the usual ones of cookie attributes
			k = rng.choice([k.upper(), k.title(), k.swapcase(), u'SameSite', u'Priority', u'Partitioned', u'Max-Age', u'HttpOnly', u'Path', u'FileName', u'Charset', u'Q'])
		if k.lower() in {x.lower() for x in ps}:
			continue
		ps[k] = value_text(rng)
	return ps


COOKIE_DATES = [u'Thu, 31 Dec 2015 16:02:17 GMT', u'Mon, 21-Mar-2016 11:58:57 GMT', u'Sunday, 06-Nov-94 08:49:37 GMT', u'Wed, 09 Jun 2021 10:18:14 GMT']
KINDS = ['generic', 'ctype', 'cdisp', 'cookie', 'setcookie']


def gen_element(rng, kind):
	ps = params(rng)
	if kind == 'generic':
		v = u''.join(rng.choice(TOKENCH) for _ in range(rng.randrange(1, 8)))
	elif kind == 'ctype':
		v = rng.choice([u'text/plain', u'application/json', u'multipart/form-data', u'application/vnd.x+json'])
		ps.pop('boundary', None)
	elif kind == 'cdisp':
		v = rng.choice([u'attachment', u'inline', u'form-data'])
		for k in ('attachment', 'inline', 'form-data'):
			ps.pop(k, None)
	else:
		v = (u''.join(rng.choice(u'abcSID_') for _ in range(rng.randrange(1, 5))), u''.join(rng.choice(u'abc123-_.') for _ in range(rng.randrange(0, 6))))
		if rng.random() < 0.1:
			# cookie names are case-sensitive tokens, also when they begin like an attribute name
			v = (rng.choice([u'PathToken', u'SecureContext', u'Expires-At', u'DomainX', u'Max-Age2', u'HttpOnlyX', u'PATH', u'Secure', u'SID', u'sid', u'ExpiresIn']), v[1])
		if kind == 'cookie':
			ps = {}     # a Cookie field is a "; "-separated list of pairs: no parameters
		else:
			for k in ('expires',):
				ps.pop(k, None)
			if rng.random() < 0.6:
				# the one comma a Set-Cookie list must not split at: the date of the expires attribute
				ps[u'expires'] = rng.choice(COOKIE_DATES)
	return (kind, v, tuple(sorted(ps.items())))


def cases(rng, tier):
	yield ('el', ('generic', u'v', ((u'a', u'x\\\\y'),)))
	yield ('el', ('generic', u'v', ((u'a', u'say "hi"'),)))
	yield ('el', ('generic', u'v', ((u'a', u'x;y,z=w'), (u'b', u'été'), (u'c', u"l'été.txt"))))
	yield ('list', (('generic', u'v', ((u'a', u'1,2'),)), ('generic', u'w', ((u'b', u'x\\'),))))
	# white space of every kind INSIDE an all-ASCII value (line feed, carriage return, tab, vertical tab, form feed), alone and next to separators
	for ws in (u'\n', u'\r', u'\t', u'\x0b', u'\x0c', u'\r\n'):
		for val in (u'a' + ws + u'b', u'a;' + ws + u'b', u'a' + ws + u'=b,c', u'/a' + ws + u'b'):
			yield ('el', ('generic', u'v', ((u'x', val),)))
			yield ('el', ('ctype', u'text/plain', ((u'x', val),)))
			yield ('list', (('generic', u'v', ((u'x', val),)), ('generic', u'w', ((u'y', u'z'),))))
	n = 120000 if tier == 'thorough' else 12000
	for _ in range(n):
		kind = rng.choice(KINDS)
		yield ('el', gen_element(rng, kind))
		if rng.random() < 0.4:
			els = [gen_element(rng, kind if kind in ('cookie', 'setcookie') else 'generic') for _ in range(rng.randrange(1, 5))]
			if len(els) > 1 and rng.random() < 0.2:
				# two elements of one list with the same value that differ in their parameters only (item;level=1, item;level=2)
				els[-1] = (els[-1][0], els[0][1], els[-1][2])
			yield ('list', tuple(els))
	# cookie attributes whose values carry letter case; boundaries of every permitted length
	for dom in (u'Example.COM', u'.Sub.Example.org', u'EXAMPLE', u'B\u00dcCHER.example'):
		yield ('el', ('setcookie', (u'sid', u'abc'), ((u'domain', dom),)))
		yield ('el', ('setcookie', (u'sid', u'abc'), ((u'Domain', dom), (u'path', u'/A/b'))))
		yield ('list', (('setcookie', (u'a', u'1'), ((u'domain', dom),)), ('setcookie', (u'b', u'2'), ((u'Path', u'/X'),))))
	for ln in (1, 69, 70, 71, 100, 200, 201):
		yield ('el', ('ctype', u'multipart/form-data', ((u'boundary', u'b' * ln),)))
		yield ('el', ('ctype', u'multipart/mixed', ((u'boundary', u"x'()+_,-./:=? " * (ln // 14) + u'y'),)))
	# many parameters on one element, long lists, long values (counts around the numbers a limit or a cache would have)
	for cnt in (9, 17, 33, 65, 129):
		ps = tuple(sorted((u'p%d' % i, value_text(rng)) for i in range(cnt)))
		yield ('el', ('generic', u'v', ps))
		yield ('list', tuple(('generic', u'e%d' % i, ((u'a', value_text(rng)),) if i % 3 else ()) for i in range(cnt)))
	for ln in (78, 255, 256, 1000, 5000):
		yield ('el', ('generic', u'v', ((u'a', u'x' * ln), (u'b', u'y;' * (ln // 2)), (u'c', u'\u00e9' * ln))))
	for _ in range(n):
		k = rng.choice((1, 3, 6, 10, 18))
		yield ('wire', bytes(rng.choice(b'ab;;==""\\\\ ,*\'012%C3%A9utf-8\xe9') for _ in range(k)))


def search(rng, res):
	return cases(rng, 'thorough')


def make(el):
	from httoop.header.element import HeaderElement
	from httoop.header.messaging import ContentType, ContentDisposition, Cookie, SetCookie
	kind, v, ps = el
	ps = dict(ps)
	if kind == 'setcookie':
		return SetCookie(v[0], v[1], ps)
	if kind == 'generic':
		return HeaderElement(v, ps)
	if kind == 'ctype':
		return ContentType(v, ps)
	if kind == 'cdisp':
		return ContentDisposition(v, ps)
	return Cookie(v[0], v[1], ps)


def cls_of(kind):
	from httoop.header.element import HeaderElement
	from httoop.header.messaging import ContentType, ContentDisposition, Cookie, SetCookie
	return {'generic': HeaderElement, 'ctype': ContentType, 'cdisp': ContentDisposition, 'cookie': Cookie, 'setcookie': SetCookie}[kind]


def model_lines(case):
	if case[0] == 'el' and case[1][0] not in ('cookie', 'setcookie'):
		kind, v, ps = case[1]
		args = [hx(v.encode('utf-8'))] + [hx(x.encode('utf-8')) for kv in ps for x in kv]
		try:
			comp = bytes(make(case[1]))
		except Exception:
			return None
		return ['el.compose ' + ' '.join(args)] + (['el.parse ' + hx(comp)] if kind == 'generic' else [])
	if case[0] == 'wire':
		return ['el.parse ' + hx(case[1]), 'el.split ' + hx(case[1])]
	if case[0] == 'list' and case[1][0][0] == 'generic':
		try:
			texts = [bytes(make(e)) for e in case[1]]
		except Exception:
			return None
		return ['el.list ' + ' '.join(hx(t) for t in texts)]
	return None


def render_el(e):
	ps = ' '.join('%s=%s' % (hx(k if isinstance(k, bytes) else k.encode()), hx(v.encode('utf-8') if not isinstance(v, bytes) else v)) for k, v in e.params.items())
	return 'ok %s %s %s' % (hx(e.value.encode('utf-8')), ps or '()', hx(bytes(e)))


def impl_lines(case):
	from httoop.header.element import HeaderElement
	if case[0] == 'el':
		kind, v, ps = case[1]
		comp = bytes(make(case[1]))
		out = [hx(comp)]
		if kind == 'generic':
			try:
				out.append(render_el(HeaderElement.parse(comp)))
			except Exception as e:
				out.append('err ' + exc_name(e))
		return out
	if case[0] == 'wire':
		try:
			a = render_el(HeaderElement.parse(case[1]))
		except Exception as e:
			a = 'err ' + exc_name(e)
		parts = HeaderElement.split(case[1])
		return [a, ' '.join(hx(p) for p in parts) if parts else '()']
	if case[0] == 'list' and case[1][0][0] == 'generic':
		texts = [bytes(make(e)) for e in case[1]]
		parts = HeaderElement.split(HeaderElement.join(texts))
		return [' '.join(hx(p) for p in parts) if parts else '()']


def guard2047(text):
	"""HeaderElement.decode_rfc2047_charset's own test for "this element carries encoded words" """
	return b'=?' in text and b'"=?' not in text and b'==?' not in text


COOKIE_ATTRS = (u'httponly', u'secure', u'path', u'domain', u'max-age', u'expires')


def classify(els):
	"""known-finding class of an element list, or None"""
	fid = None
	try:
		if any(guard2047(bytes(make(e))) for e in els):
			return 'F56'
	except Exception:
		pass
	for kind, v, ps in els:
		if kind in ('cookie', 'setcookie') and v[0].lower() in COOKIE_ATTRS and v[0] != v[0].lower():
			fid = fid or 'F67'
		vt = v if isinstance(v, str) else v[0] + v[1]
		try:
			vt.encode('latin-1')
		except UnicodeEncodeError:
			import base64
			if base64.b64encode(vt.encode('utf-8')).endswith(b'=='):
				fid = fid or 'F16'
		for k, val in ps:
			try:
				val.encode('ascii')
				is_ascii = True
			except UnicodeEncodeError:
				is_ascii = False       # travels as an RFC 5987 extended parameter: every delimiter is percent-encoded
			if not is_ascii:
				if any(ord(c) < 0x10 for c in val):
					fid = fid or 'F1c'
				continue
			if kind in ('cookie', 'setcookie'):
				# cookie attributes are never quoted: ';', ',' (the list separator) and '"' cannot be carried;
				# backslashes and everything else travel verbatim
				if k == u'expires' and val in COOKIE_DATES:
					continue         # SetCookie.split protects the comma of an expires date
				if u';' in val or u'"' in val or u',' in val:
					return 'F33'
			elif u'"' in val or u'\\\\' in val:
				return 'F20'
			try:
				val.encode('ascii')
			except UnicodeEncodeError:
				if any(ord(c) < 0x10 for c in val):
					fid = fid or 'F1c'
	return fid


def oracle(case):
	if case[0] == 'wire':
		return None
	els = [case[1]] if case[0] == 'el' else list(case[1])
	fid = classify(els)
	try:
		objs = [make(e) for e in els]
	except Exception as e:
		# the constructor itself refuses (sanitize): not a round-trip question - unless what it refuses is a plain multipart boundary of a length
		# the library has always taken (1 to 200 boundary characters, the last one not a blank)
		import re as _re
		for (k_, v_, ps_) in els:
			if k_ == 'ctype' and len(ps_) == 1 and ps_[0][0].lower() == u'boundary' and _re.match(u"^[0-9A-Za-z'()+_,./:=? -]{0,199}[0-9A-Za-z'()+_,./:=?-]$", ps_[0][1]):
				return {'what': 'a Content-Type element with a boundary of %d boundary characters is refused: %s' % (len(ps_[0][1]), exc_name(e)), 'elements': repr(els)[:200], 'finding': None}
		return None
	kind = els[0][0]
	cls = cls_of(kind)
	try:
		wire = cls.join([bytes(o) for o in objs])
		back = [cls.parse(x) for x in cls.split(wire)]
	except Exception as e:
		return {'what': 'compose/parse raised %s: %s' % (exc_name(e), e), 'elements': repr(els)[:300], 'finding': fid}
	def canon(o):
		return (o.value, sorted((k if isinstance(k, bytes) else k.encode(), v if not isinstance(v, bytes) else v.decode('utf-8', 'replace')) for k, v in o.params.items()))
	exp = [(o.value, sorted((k if isinstance(k, bytes) else k.encode(), v) for k, v in o.params.items())) for o in objs]
	got = [canon(o) for o in back]
	# elements built without parameters are values of their own: a parameter given to one does not show on the next
	if kind == 'generic':
		from httoop.header.element import HeaderElement
		try:
			e1 = HeaderElement(u'first')
			e1.params['zz-first'] = 'x'
			e2 = HeaderElement(u'second')
			w2 = bytes(e2)
			if w2 != b'second' or dict(HeaderElement.parse(w2).params):
				return {'what': 'an element built without parameters composes as %r after another such element was given a parameter' % w2, 'finding': None}
			e3 = HeaderElement(u'third', e1.params)
			e3.params['zz-third'] = 'y'
			if b'zz-third' in bytes(e1):
				return {'what': 'a parameter given to an element built from the parameters of another shows on that other: %r' % bytes(e1), 'finding': None}
		except Exception as e:
			return {'what': 'building elements without parameters raised %s: %s' % (exc_name(e), e), 'finding': None}
	# the other public ways to write the same parameters: Headers.append(name, value, **params) and formatparam(..., quote=True)
	if not fid and kind == 'generic':
		from httoop import Headers
		from httoop.header.element import HeaderElement
		for (kind_, v_, ps_) in els[:1]:
			if not ps_ or not v_.isascii():
				continue
			try:
				h0 = Headers()
				h0.append('X-Foo', v_, **dict(ps_))
				e0 = h0.elements('X-Foo')[0]
				have = sorted((k.lower() if isinstance(k, bytes) else k.lower().encode(), x if not isinstance(x, bytes) else x.decode('utf-8', 'replace')) for k, x in e0.params.items())
				want = sorted((k.lower().encode(), x) for k, x in ps_)
				if have != want:
					return {'what': 'Headers.append(name, value, **params) wrote %r, read back as %r, given %r' % (dict.__getitem__(h0, 'X-Foo'), have, want), 'finding': None}
				for k, x in ps_:
					if not x or u'=?' in x or u'"' in x or u'\\' in x or any(ord(c) < 0x20 for c in x):
						continue          # the classes of F56, F20, F1c, judged on the whole element above
					w = HeaderElement.formatparam(k.encode(), x, quote=True)
					e1 = HeaderElement.parse(b'v; ' + w)
					got1 = [(kk if isinstance(kk, bytes) else kk.encode(), xx) for kk, xx in e1.params.items()]
					if got1 != [(k.lower().encode(), x)]:
						return {'what': 'formatparam(%r, %r, quote=True) wrote %r, read back as %r' % (k, x, w, got1), 'finding': None}
			except Exception as e:
				return {'what': 'append(**params) / formatparam(quote=True) raised %s: %s' % (exc_name(e), e), 'elements': repr(els)[:300], 'finding': None}
	# the list built element by element through a header collection (Headers.append_element), as an application adds items to a field
	if not fid and kind == 'generic' and len(els) > 1:
		from httoop import Headers
		try:
			h3 = Headers()
			for (_k, v_, ps_) in els:
				h3.append_element('X-Foo', v_, dict(ps_))
			got3 = [canon(o) for o in h3.elements('X-Foo')]
		except Exception as e:
			return {'what': 'append_element()/elements() raised %s: %s' % (exc_name(e), e), 'elements': repr(els)[:300], 'finding': None}
		fold3 = lambda l: [(v, sorted((k.lower(), x) for k, x in ps)) for v, ps in l]
		if fold3(got3) != fold3(exp):
			return {'what': 'the list built with append_element() reads back as %r, built from %r' % (got3[:4], exp[:4]), 'wire': repr(dict.__getitem__(h3, 'X-Foo'))[:300], 'finding': None}
	# an element composed once, then changed through its parameter mapping, composes the new parameters
	if not fid and kind == 'generic' and objs:
		try:
			o0 = make(els[0])
			first0 = bytes(o0)
			o0.params['zz-late'] = 'added-later'
			second0 = bytes(o0)
			if b'zz-late' not in second0.lower() or second0 == first0:
				return {'what': 'an element composed once and then given a parameter composes %r (before: %r)' % (second0[:200], first0[:200]), 'finding': None}
		except Exception as e:
			return {'what': 'composing an element twice raised %s: %s' % (exc_name(e), e), 'finding': None}
	# the same through a header collection, twice: what a caller does to the elements it was handed does not show in a later reading
	if not fid:
		from httoop import Headers
		name = {'generic': 'X-Foo', 'ctype': 'Content-Type', 'cdisp': 'Content-Disposition', 'cookie': 'Cookie', 'setcookie': 'Set-Cookie'}[kind]
		try:
			h1 = Headers()
			dict.__setitem__(h1, name, wire)
			first = [canon(o) for o in h1.elements(name)]
			for o in h1.elements(name):
				o.params['zz-touched'] = 'x'
				for k in list(o.params.keys()):
					o.params[k] = 'overwritten'
			h2 = Headers()
			dict.__setitem__(h2, name, wire)
			second = [canon(o) for o in h2.elements(name)]
		except Exception as e:
			first = second = None
		if first is not None and sorted(map(repr, first)) == sorted(map(repr, got)) and second != first:
			return {'what': 'reading the same field again after the elements of the first reading were changed gives %r, first %r' % (second[:3], first[:3]), 'wire': wire.decode('latin-1'), 'finding': None}
	# names are compared as the case-insensitive tokens they are (the parser lower-cases them, except the free attributes of cookies)
	fold = lambda l: [(v, sorted((k.lower(), x) for k, x in ps)) for v, ps in l]
	if fold(got) != fold(exp):
		return {'what': 'parse(compose(elements)) differs', 'wire': wire.decode('latin-1'), 'got': repr(got)[:300], 'expected': repr(exp)[:300], 'finding': fid}
	# ... and against what the caller handed in, not only against what the constructor kept
	for (kind_, v_, ps_), o in zip(els, back):
		if kind_ in ('cookie', 'setcookie') and fid in (None, 'F67') and getattr(o, 'cookie_name', v_[0]) != v_[0]:
			return {'what': 'the cookie name %r came back as %r (cookie names are case-sensitive)' % (v_[0], o.cookie_name), 'wire': wire.decode('latin-1'), 'finding': fid}
		want = sorted(k.lower().encode() for k, _v in ps_)
		have = sorted((k if isinstance(k, bytes) else k.encode()).lower() for k in o.params.keys())
		if want != have and not fid:
			return {'what': 'parameter names %r came back as %r' % (want, have), 'wire': wire.decode('latin-1'), 'finding': fid}
	return None


def nontrivial(case, outs):
	if case[0] in ('el', 'list'):
		els = [case[1]] if case[0] == 'el' else list(case[1])
		if any(any(c in val for c in SEPS) or any(ord(c) > 127 for c in val) for _, _, ps in els for _, val in ps):
			return repr(case[1])[:200]
	return None


def tally(case, res):
	res.count('kind:' + (case[0] if case[0] != 'el' else 'el-' + case[1][0]))


def describe(case):
	return [case[0], case[1].hex() if isinstance(case[1], bytes) else case[1]]


def undescribe(d):
	def el(e):
		return (e[0], tuple(e[1]) if isinstance(e[1], list) else e[1], tuple(tuple(p) for p in e[2]))
	if d[0] == 'wire':
		return ('wire', bytes.fromhex(d[1]))
	if d[0] == 'el':
		return ('el', el(d[1]))
	return ('list', tuple(el(e) for e in d[1]))


def finding_still_fails(k):
	return oracle(undescribe(k['witness'])) is not None


LEVEL_TEXT = ('Theorems for ALL ASCII parameter values without double quote and without two adjacent backslashes (any length, every other separator, inner whitespace): the escaping written by formatparam is undone by the parser\'s re.sub '
	'(dropLone_escape), a single formatted parameter parses back to its name and value (param_roundtrip_partial), and every formatted parameter carries an even number of double quotes, which is the invariant that keeps ";" and "," '
	'inside quoted values from splitting (formatParam_quotes_even). The excluded shapes are exhibited on the model by kernel-evaluated witnesses (F20). The whole element is a theorem as well (element_roundtrip): a value with ANY number of such parameters under pairwise '
	'different canonical keys composes to a text that parses back to the same value and the same parameters in the same order (c09_element_witness: three parameters, one quoted with ";" and "," inside), and so is the list clause (list_roundtrip): such elements, free of "," outside quoted values, joined by HeaderElement.join come back from HeaderElement.split one by one and each parses to its element. Extended (RFC 5987) parameters, '
	'RFC 2231 continuations and the four element classes are tied by correspondence and judged by the compose-parse oracle.')
LEVEL_NOTE = 'Trusted: Lean kernel; regex readings pinned by pattern text; extract.py/correspondence. Known findings F20 (quotes / double backslashes), F16 (RFC 2047 padding), F1c (escapes below 0x10) delimit the domain.'
