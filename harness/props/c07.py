# -*- coding: utf-8 -*-
"""C07 — delivered framing headers match the body; trailers cannot smuggle fields."""
from __future__ import annotations

import itertools

import parserutil
from core import hx, exc_name

ID = 'C07'
MODULES = ['Httoop.Props.C07', 'Httoop.Props.C07Invariant', 'Httoop.Props.C07Trailers']
THEOREMS = [
	'Httoop.Parser.bodyWithLength_invariant',
	'Httoop.Parser.delivered_cl_matches',
	'Httoop.Parser.delivered_not_chunked',
	'Httoop.Parser.delivered_cl_body',
	'Httoop.Parser.bodyComplete_headers',
	'Httoop.Parser.mergeGo_keeps_unannounced',
	'Httoop.Parser.te_over_cl',
	'Httoop.Parser.trailer_names_not_forbidden',
	'Httoop.Parser.unannounced_trailer_400',
	'Httoop.Parser.forbidden_table',
	'Httoop.Parser.run_framed',
	'Httoop.Parser.bodyComplete_framed',
	'Httoop.Parser.delivered_messages_framed',
	'Httoop.Parser.c07_invariant_witness',
	'Httoop.Parser.mergeTrailers_only_announced',
	'Httoop.Parser.trailer_fields_all_announced',
	'Httoop.Parser.framing_fields_untouched',
	'Httoop.Parser.parseTrailers_framing_untouched',
	'Httoop.Parser.faithful_table',
	'Httoop.Parser.c07_trailer_witness',
]
TRUSTED = [
	'Headers.append / pop and the element parsing of the Trailer field are the models of C08/C09 (tied there); zlib content codings are excluded (the property speaks of messages without a content coding)',
]
ASSUMPTIONS = ['F6: an HTTP/1.0 message carrying Transfer-Encoding: chunked is framed by Content-Length and delivered still advertising chunked (recorded finding)', 'a status raised by parse() ends the history: the state machine is not fed again after an error (DESIGN.md 6.2)']
RULE = ('fed in one call, in halves, octet by octet and line by line (cut after each CRLF, and one octet into the next line); the full matrix Content-Length in {absent, correct, too small, too large, repeated, signed, non-numeric, spaced, with parameters, quoted, as a list} x Transfer-Encoding in {absent, chunked in any letter case, unknown, list} x HTTP/1.0, 1.1 '
	'x trailer sections with announced, unannounced, forbidden and repeated fields, for requests and responses, small bodies exhaustively, alone or after another (Content-Length or chunked) message on the same state machine; non-trivial = delivered; distinct by canonical outcome')


def build(side, version, cl, te, body, trailer_hdr, trailers):
	lines = []
	if side == 'server':
		lines.append(b'POST /x HTTP/' + version)
		lines.append(b'Host: h')
	else:
		lines.append(b'HTTP/' + version + b' 200 OK')
	for v in cl:
		lines.append(b'Content-Length: ' + v)
	if te is not None:
		lines.append(b'Transfer-Encoding: ' + te)
	if trailer_hdr is not None:
		lines.append(b'Trailer: ' + trailer_hdr)
	head = b'\r\n'.join(lines) + b'\r\n\r\n'
	chunked = b''.join(b'%x\r\n%s\r\n' % (len(p), p) for p in body if p) + b'0\r\n' + b''.join((n + b': ' + v if n else v) + b'\r\n' for n, v in trailers) + b'\r\n'      # a pair without name is a raw (continuation) line
	return head, b''.join(body), chunked


def cases(rng, tier):
	bodies = [(b'',), (b'hello',), (b'ab', b'cde'), (b'x' * 17,)]
	for side in ('server', 'client'):
		for version in (b'1.1', b'1.0'):
			for body in bodies:
				n = len(b''.join(body))
				cls = [(), (b'%d' % n,), (b'%d' % max(n - 1, 0),), (b'%d' % (n + 3),), (b'%d' % n, b'%d' % n), (b'%d' % n, b'%d' % (n + 1)), (b'+%d' % n,), (b'-1',), (b'abc',), (b' %d ' % n,), (b'0%d' % n,), (b'%d\xa0' % n,), (b'1_0',), (b'',), (b'%d;x=1' % n,), (b'%d;' % n,), (b'%d ; q=1' % n,), (b'%d, %d' % (n, n),), (b'"%d"' % n,), (b'%d.0' % n,), (b'0x%x' % n,)]
				tes = [None, b'chunked', b'Chunked', b'CHUNKED', b'gzip', b'gzip, chunked', b'identity', b'chunked ', b'x-unknown', b'=?utf-8?q?chunked?=', b'=?iso-8859-1?b?Y2h1bmtlZA==?=']
				trs = [(None, ()), (b'X-T', ((b'X-T', b'v'),)), (b'X-T', ()), (None, ((b'X-T', b'v'),)), (b'X-T', ((b'X-T', b'v'), (b'X-U', b'w'))),
					(b'Content-Length', ((b'Content-Length', b'99'),)), (b'X-T', ((b'Content-Length', b'99'),)), (b'transfer-encoding', ((b'Transfer-Encoding', b'chunked'),)),
					(b'Trailer', ((b'Trailer', b'X'),)), (b'X-T, X-U', ((b'x-u', b'1'), (b'X-T', b'2'), (b'x-t', b'3'))), (b'X-T', ((b'X-T', b'v'), (b'Host', b'evil'))), (b'Host', ((b'Host', b'evil'),)),
					# names with a percent sign (a token character; messages are formatted with %), names of fields the message already has
					(b'X-T', ((b'X-T', b'a'), (b'Evil', b'x'), (b'', b' y'))), (b'X-T, X-U', ((b'X-T', b'a'), (b'X-U', b'x'), (b'', b'\ty'))), (b'X-T', ((b'X-T', b'a'), (b'', b' b'), (b'Evil', b'x'))),
					(None, ((b'X-%s', b'v'),)), (b'X-T', ((b'X-T', b'v'), (b'X-Load-%', b'1'))), (b'%x', ((b'%x', b'1'),)), (None, ((b'Host', b'evil'),)), (b'X-T', ((b'host', b'evil'),)), (None, ((b'Transfer-Encoding', b'chunked'),)),
					# announced names that only LOOK like the field sent once case mapping / compatibility mapping / an encoded word is applied
					(b'=?utf-8?q?=EF=AC=81eld?=', ((b'Field', b'x'),)), (b'\xdfl-Id', ((b'Ssl-Id', b'x'),)), (b'X-\xb5', ((b'X-\xce\x9c', b'v'),))]
				for cl in cls:
					for te in tes:
						for th, tr in (trs if te else trs[:1]):
							if tier == 'quick' and rng.random() > 0.35:
								continue
							# mode: how the stream is cut (0-5), plus 10 / 20 when another message precedes this one on the same state machine
							# + 100 / 200 / 300: a Connection field that nominates a framing field as hop-by-hop (a proxy-style parser must not let that decide the framing)
							yield ('m', side, version, cl, te, body, th, tr, rng.choice((0, 1, 2, 3, 4, 5)) + rng.choice((0, 0, 10, 20)) + rng.choice((0, 0, 0, 100, 200, 300)))


def search(rng, res):
	return cases(rng, 'thorough')


def stream(case):
	_, side, version, cl, te, body, th, tr, mode = case
	head, plain, chunked = build(side, version, cl, te, body, th, tr)
	payload = chunked if te is not None and b'chunked' in te.lower() else plain
	if mode % 10 == 2 and te is None:
		payload = chunked      # a chunked-looking body sent without announcing it
	conn = {0: None, 1: b'Transfer-Encoding', 2: b'Content-Length, close', 3: b'Trailer, keep-alive'}[mode // 100]
	if conn is not None:
		line, sep, rest = head.partition(b'\r\n')
		head = line + sep + b'Connection: ' + conn + b'\r\n' + rest
	mode = mode % 100
	pre = b''
	if mode // 10 == 1:
		pre = (b'POST /first HTTP/1.1\r\nHost: h\r\nContent-Length: 3\r\n\r\nabc' if side == 'server' else b'HTTP/1.1 200 OK\r\nContent-Length: 3\r\n\r\nabc')
	elif mode // 10 == 2:
		pre = (b'POST /first HTTP/1.1\r\nHost: h\r\nTransfer-Encoding: chunked\r\n\r\n3\r\nabc\r\n0\r\n\r\n' if side == 'server' else b'HTTP/1.1 200 OK\r\nTransfer-Encoding: chunked\r\n\r\n3\r\nabc\r\n0\r\n\r\n')
	return pre + head + payload, plain


def frags(case, s):
	mode = case[-1] % 10
	if mode == 0:
		return [s]
	if mode in (1, 2):
		k = len(s) // 2
		return [s[:k], s[k:]]
	if mode == 3:
		return [s[i:i + 1] for i in range(len(s))]
	# line by line: after every CRLF (mode 5), or one octet into the following line (mode 4)
	out, pos = [], 0
	while True:
		i = s.find(b'\r\n', pos)
		if i < 0:
			break
		j = min(len(s), i + 2 + (1 if mode == 4 else 0))
		out.append(s[pos:j])
		pos = j
	out.append(s[pos:])
	return out


def model_lines(case):
	s, _ = stream(case)
	return ['sm.%s %s' % (case[1], ' '.join(hx(f) for f in frags(case, s) if f))]


def impl_lines(case):
	s, _ = stream(case)
	return [parserutil.run(case[1], [f for f in frags(case, s) if f])]


FORBIDDEN = (b'content-length', b'transfer-encoding', b'trailer')


def oracle(case):
	_, side, version, cl, te, body, th, tr, mode = case
	mode = mode % 100
	r = judge(case, parserutil.new_sm(side))
	if r is None and side == 'server':
		# the proxy state machine is a request parser as well
		try:
			from httoop.proxy import ProxyStateMachine
		except ImportError:
			return None
		r = judge(case, ProxyStateMachine('http', 'localhost', 80))
		if r is not None:
			r['what'] = 'ProxyStateMachine: ' + r['what']
	return r


def judge(case, sm):
	_, side, version, cl, te, body, th, tr, mode = case
	mode = mode % 100
	s, plain = stream(case)
	delivered = []
	err = None
	try:
		for f in frags(case, s):
			if f:
				delivered.extend(sm.parse(f))
	except Exception as e:
		err = exc_name(e)
		if not err.startswith('status:'):
			return {'what': 'parse raised %s' % err, 'stream': s.hex(), 'finding': None}
	announced = set()
	if th is not None:
		announced = {x.strip().lower() for x in th.split(b',')}
	for d in delivered:
		msg = d[0] if side == 'server' else d
		h = {k.lower().encode(): v for k, v in dict.items(msg.headers)}
		b = bytes(msg.body)
		bad = []
		fid = None
		if b'content-encoding' not in h:
			try:
				if int(h.get(b'content-length', b'x').decode('latin-1')) != len(b):
					bad.append('Content-Length %r but %d body octets' % (h.get(b'content-length'), len(b)))
			except ValueError:
				bad.append('Content-Length %r is not a number' % h.get(b'content-length'))
			tev = h.get(b'transfer-encoding', b'').lower()
			if b'chunked' in tev:
				bad.append('still advertises Transfer-Encoding: %r' % tev)
				if version == b'1.0':
					fid = 'F6'
		# chunked framing decides the body (also next to a Content-Length, whatever else the header section says about these fields)
		if te is not None and te.strip().lower() == b'chunked' and version == b'1.1' and d is delivered[-1] and len(delivered) == 1 + (1 if mode // 10 else 0) and b != plain:
			bad.append('the message was sent chunked (payload %r), delivered body %r' % (plain[:40], b[:40]))
		# fields that can only have come from the trailer section
		sent_header_names = {b'host', b'content-length', b'transfer-encoding', b'trailer'}
		for n, v in tr:
			k = n.lower()
			came = k in h and (k not in sent_header_names or v in h[k])
			if te is not None and b'chunked' in te.lower() and version == b'1.1' and came:
				if k in FORBIDDEN and k != b'trailer' and v in h.get(k, b''):
					bad.append('forbidden trailer field %r reached the message' % n)
				elif k not in announced:
					bad.append('unannounced trailer field %r reached the message' % n)
		if bad:
			return {'what': '; '.join(bad), 'stream': s.hex(), 'headers': repr(sorted(h.items()))[:300], 'finding': fid}
	# an unannounced or forbidden trailer field must make the message fail with 400
	if te is not None and te.strip().lower() == b'chunked' and version == b'1.1' and tr and not err:
		names = [n.lower() for n, v in tr if n]      # (a pair without name is a continuation line of the field before it)
		if any(n not in announced or n in FORBIDDEN for n in names) and len(delivered) >= 1 + (1 if mode // 10 else 0) and cl_ok(cl):
			return {'what': 'message with an unannounced / forbidden trailer field was delivered', 'stream': s.hex(), 'finding': None}
	return None


def cl_ok(cl):
	return True


def nontrivial(case, outs):
	if outs and 'M(' in outs[0]:
		return outs[0][:300]
	return None


def tally(case, res):
	res.count('side:%s/%s' % (case[1], case[2].decode()))
	res.count('te:%s' % (case[4].decode() if case[4] else None))


def describe(case):
	_, side, version, cl, te, body, th, tr, mode = case
	return ['m', side, version.decode(), [c.hex() for c in cl], te.hex() if te is not None else None, [b.hex() for b in body], th.hex() if th is not None else None, [[n.hex(), v.hex()] for n, v in tr], mode]


def undescribe(d):
	return ('m', d[1], d[2].encode(), tuple(bytes.fromhex(c) for c in d[3]), bytes.fromhex(d[4]) if d[4] is not None else None, tuple(bytes.fromhex(b) for b in d[5]),
		bytes.fromhex(d[6]) if d[6] is not None else None, tuple((bytes.fromhex(n), bytes.fromhex(v)) for n, v in d[7]), d[8])


def finding_still_fails(k):
	return oracle(undescribe(k['witness'])) is not None


LEVEL_TEXT = ('Theorems over ALL states and buffers: while a Content-Length body is read, octets received + octets outstanding stay equal to the announced length, so a delivered body has exactly that many octets (bodyWithLength_invariant, delivered_cl_matches); '
	'a chunked message is delivered with Content-Length = decoded length and without Transfer-Encoding (delivered_not_chunked, from the map law of C08); with both fields on HTTP/1.1 chunked framing decides (te_over_cl); '
	'and as an INVARIANT OF THE STATE MACHINE (delivered_messages_framed): for every sequence of parse() calls with any octets, on either side, every message handed out carries a Content-Length that the library\'s own integer() reads as the number of body octets delivered (the field the peer framed the body with, or the counted length for chunked and length-less bodies) and no Transfer-Encoding unless it is older than HTTP/1.1 (F6) - proved by an invariant J of the per-message state that every phase of the loop preserves across calls; '
	'the trailer clause, for EVERY message state, trailer section and Trailer field: merging a trailer section changes a header field only if its canonical name was announced (mergeTrailers_only_announced), succeeds only if every field of the section was announced (trailer_fields_all_announced; anything left over is a 400), and leaves Content-Length, Transfer-Encoding and Trailer exactly as they were (framing_fields_untouched: a Trailer field naming one of them is refused as a whole, and no other spelling reaches their canonical names - checked on the registry of the tree, faithful_table). The whole matrix is compared with the code and judged by the oracle.')
LEVEL_NOTE = 'Trusted: Lean kernel; parser model tested against the code; extract.py/correspondence. F6 (HTTP/1.0 + chunked) is a recorded finding.'
