# -*- coding: utf-8 -*-
"""RFC 3986 section 5.2 written from the RFC text (independent of httoop): remove_dot_segments,
merge, transform references; the appendix-B regular expression for splitting a reference."""
import re

SPLIT = re.compile(r'^(([^:/?#]+):)?(//([^/?#]*))?([^?#]*)(\?([^#]*))?(#(.*))?')


def split(ref):
	m = SPLIT.match(ref)
	return (m.group(2), m.group(4), m.group(5), m.group(7), m.group(9))


def remove_dot_segments(path):
	inp, out = path, ''
	while inp:
		if inp.startswith('../'):
			inp = inp[3:]
		elif inp.startswith('./'):
			inp = inp[2:]
		elif inp.startswith('/./'):
			inp = '/' + inp[3:]
		elif inp == '/.':
			inp = '/'
		elif inp.startswith('/../'):
			inp = '/' + inp[4:]
			out = out[:out.rfind('/')] if '/' in out else ''
		elif inp == '/..':
			inp = '/'
			out = out[:out.rfind('/')] if '/' in out else ''
		elif inp in ('.', '..'):
			inp = ''
		else:
			i = inp.find('/', 1)
			if i < 0:
				i = len(inp)
			out += inp[:i]
			inp = inp[i:]
	return out


def merge(bauth, bpath, rpath):
	if bauth is not None and not bpath:
		return '/' + rpath
	return bpath[:bpath.rfind('/') + 1] + rpath


def resolve(base, ref, remove_dot_segments=remove_dot_segments):
	bs, ba, bp, bq, bf = split(base)
	rs, ra, rp, rq, rf = split(ref)
	if rs is not None:
		ts, ta, tp, tq = rs, ra, remove_dot_segments(rp), rq
	else:
		if ra is not None:
			ta, tp, tq = ra, remove_dot_segments(rp), rq
		else:
			if rp == '':
				tp = bp
				tq = rq if rq is not None else bq
			else:
				if rp.startswith('/'):
					tp = remove_dot_segments(rp)
				else:
					tp = remove_dot_segments(merge(ba, bp, rp))
				tq = rq
			ta = ba
		ts = bs
	return (ts, ta, tp, tq, rf)


def collapse(path):
	return re.sub('/{2,}', '/', path)
