# -*- coding: utf-8 -*-
"""Building messages through httoop's public API from a plain description, and an independent RFC 7230 reader.

A *spec* is a tuple
  (kind, method, target, status, version, fields, source, pieces, chunked, coding, req_method, req_version)
kind      'request' | 'response'
method    request method (str)               target   request target (str)
status    response status (int)              version  (major, minor)
fields    tuple of (name, value) str pairs the caller sets on message.headers
source    'bytes' | 'bytearray' | 'text' | 'list' | 'tuple' | 'gen' | 'iter' | 'textlist' | 'textgen' | 'bytesio' | 'file' | 'none'
pieces    tuple of bytes (text source: the UTF-8 octets of the text)
chunked   None (leave alone) | True | False  — assigned to composer.chunked before prepare()
coding    None | 'gzip' | 'deflate'          — Content-Encoding set by the caller
req_method / req_version: the request a response answers
"""
from __future__ import annotations

import io
import os
import re
import tempfile
import zlib


def make_source(source, pieces, keep):
	data = b''.join(pieces)
	if source == 'none':
		return None
	if source == 'bytes':
		return data
	if source == 'bytearray':
		return bytearray(data)
	if source == 'text':
		return data.decode('utf-8')
	if source == 'textlist':
		# a list mixing text and octet pieces (every other piece is text)
		return [p.decode('utf-8') if i % 2 == 0 else p for i, p in enumerate(pieces)]
	if source == 'textgen':
		return (p.decode('utf-8') for p in pieces)
	if source == 'list':
		return list(pieces)
	if source == 'tuple':
		return tuple(pieces)
	if source == 'gen':
		return (p for p in pieces)
	if source == 'iter':
		return iter(list(pieces))      # an iterator over a list (what a WSGI gateway hands over)
	if source == 'bytesio':
		return io.BytesIO(data)
	if source == 'bytesio-end':
		f = io.BytesIO()
		f.write(data)             # filled by write(): the position is at the end
		return f
	if source == 'file-end':
		f = tempfile.TemporaryFile(dir=os.environ.get('VERIF_SCRATCH') or None)
		f.write(data)
		f.flush()
		keep.append(f)
		return f
	if source == 'file':
		f = tempfile.TemporaryFile(dir=os.environ.get('VERIF_SCRATCH') or None)
		f.write(data)
		f.seek(0)
		keep.append(f)
		return f
	raise ValueError(source)


class Built(object):
	pass


def build(spec):
	"""-> Built with .message, .composer, .request (for responses), .keep (open files)"""
	from httoop import Request, Response
	from httoop.semantic.request import ComposedRequest
	from httoop.semantic.response import ComposedResponse
	kind, method, target, status, version, fields, source, pieces, chunked, coding, req_method, req_version = spec
	b = Built()
	b.keep = []
	if kind == 'request':
		m = Request()
		m.method = method
		m.uri = target
		m.protocol = version
		b.request = m
		b.composer = ComposedRequest(m)
	else:
		req = Request()
		req.method = req_method
		req.protocol = req_version
		m = Response()
		m.status = status
		m.protocol = version
		b.request = req
		b.composer = ComposedResponse(m, req)
	for k, v in fields:
		m.headers[k] = v
	src = make_source(source, pieces, b.keep)
	if src is not None:
		m.body = src
	if coding:
		m.headers['Content-Encoding'] = coding
		if kind == 'request':
			m.body.content_encoding = coding
	if chunked is not None:
		b.composer.chunked = chunked
	b.message = m
	return b


def close(b):
	for f in b.keep:
		try:
			f.close()
		except Exception:
			pass


# ---------------------------------------------------------------- independent reader

TOKEN = re.compile(rb"^[!#$%&'*+\-.^_`|~0-9A-Za-z]+$")
FIELD_VALUE = re.compile(rb'^[\t\x20-\x7e\x80-\xff]*$')


class Malformed(Exception):
	pass


def read_message(data, kind, req_method=None):
	"""One message under RFC 7230 read from `data`.  -> dict(start, fields, body, framing, rest)
	framing in 'none' (no body by rule), 'chunked', 'length', 'close'.  Raises Malformed."""
	head, sep, rest = data.partition(b'\r\n\r\n')
	if not sep:
		raise Malformed('no end of header section')
	lines = head.split(b'\r\n')
	start = lines[0]
	if b'\r' in head.replace(b'\r\n', b'') or b'\n' in head.replace(b'\r\n', b''):
		raise Malformed('bare CR or LF in the header section')
	if kind == 'request':
		m = re.match(rb'^([!#$%&\'*+\-.^_`|~0-9A-Za-z]+) (\S+) HTTP/(\d)\.(\d)$', start)
		if not m:
			raise Malformed('request line %r' % start)
		info = {'method': m.group(1), 'target': m.group(2), 'version': (int(m.group(3)), int(m.group(4)))}
	else:
		m = re.match(rb'^HTTP/(\d)\.(\d) (\d{3}) ([\t\x20-\x7e\x80-\xff]*)$', start)
		if not m:
			raise Malformed('status line %r' % start)
		info = {'version': (int(m.group(1)), int(m.group(2))), 'status': int(m.group(3)), 'reason': m.group(4)}
	fields = []
	for ln in lines[1:]:
		name, colon, value = ln.partition(b':')
		if not colon or not TOKEN.match(name):
			raise Malformed('field line %r' % ln)
		if not FIELD_VALUE.match(value):
			raise Malformed('field value %r' % value)
		fields.append((name.lower(), value.strip(b' \t')))
	get = lambda n: [v for k, v in fields if k == n]
	te = [x.strip().lower() for v in get(b'transfer-encoding') for x in v.split(b',') if x.strip()]
	cl = get(b'content-length')
	out = dict(info, fields=fields)
	bodiless = kind == 'response' and (req_method == 'HEAD' or info['status'] // 100 == 1 or info['status'] in (204, 304))
	if te and cl:
		raise Malformed('both Transfer-Encoding and Content-Length')
	if bodiless:
		out.update(framing='none', body=b'', rest=rest)
		return out
	if te:
		if te[-1] != b'chunked':
			if kind == 'request':
				raise Malformed('request with a final transfer coding other than chunked')
			out.update(framing='close', body=rest, rest=b'')
			return out
		if info['version'] < (1, 1):
			raise Malformed('chunked transfer coding in an HTTP/1.0 message')
		body, rest = dechunk(rest)
		out.update(framing='chunked', body=body, rest=rest, codings=te[:-1])
		return out
	if cl:
		if len(set(cl)) != 1 or not re.match(rb'^\d+$', cl[0]):
			raise Malformed('Content-Length %r' % cl)
		n = int(cl[0])
		if len(rest) < n:
			raise Malformed('Content-Length %d but only %d octets follow' % (n, len(rest)))
		out.update(framing='length', body=rest[:n], rest=rest[n:])
		return out
	if kind == 'request':
		out.update(framing='none', body=b'', rest=rest)
		return out
	out.update(framing='close', body=rest, rest=b'')
	return out


def dechunk(data):
	body = b''
	while True:
		line, sep, data = data.partition(b'\r\n')
		if not sep:
			raise Malformed('chunk size line not terminated')
		size = line.split(b';', 1)[0]
		if not re.match(rb'^[0-9A-Fa-f]+$', size):
			raise Malformed('chunk size %r' % size)
		n = int(size, 16)
		if n == 0:
			break
		if len(data) < n + 2 or data[n:n + 2] != b'\r\n':
			raise Malformed('chunk data not followed by CRLF')
		body += data[:n]
		data = data[n + 2:]
	# trailer part
	while True:
		line, sep, data = data.partition(b'\r\n')
		if not sep:
			raise Malformed('trailer part not terminated')
		if not line:
			return body, data
		name, colon, _v = line.partition(b':')
		if not colon or not TOKEN.match(name):
			raise Malformed('trailer line %r' % line)


def decode_content(body, coding):
	if not coding or not body:
		return body
	return zlib.decompress(body, 31 if coding == 'gzip' else 15)


DATE = re.compile(rb'\r\nDate: [^\r]*')


def undate(wire):
	return DATE.sub(b'\r\nDate: *', wire)
