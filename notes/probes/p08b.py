import random, collections
from httoop import Headers
rnd=random.Random(5)
def val():
    n=rnd.randint(1,8); out=[]
    for _ in range(n):
        r=rnd.random()
        if r<0.4: out.append(chr(rnd.randint(0x21,0x7e)))
        elif r<0.5: out.append(' ')
        elif r<0.75: out.append(chr(rnd.randint(0xa1,0xff)))
        else: out.append(chr(rnd.choice([0x100,0x20ac,0x2192,0x1F600,0x4e2d,0x3b1])))
    s=''.join(out).strip()
    return s or 'x'
bad=collections.Counter(); ex={}
N=20000
for i in range(N):
    v=val()
    try:
        h=Headers(); h['X-Test']=v
        b=bytes(h)
        h2=Headers(); h2.parse(b[:-4])
        got=h2.get('X-Test')
        if got!=v:
            cls='latin1' if all(ord(c)<256 for c in v) else 'unicode'
            k=('DIFF',cls); bad[k]+=1; ex.setdefault(k,(v,b,got))
    except Exception as e:
        k=('EXC',type(e).__name__, str(e)[:50]); bad[k]+=1; ex.setdefault(k,(v,))
print(N,sum(bad.values()))
for k,c in bad.most_common(): print(k,c,ex[k])
