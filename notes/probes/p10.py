import random, collections
from httoop import URI
rnd=random.Random(3)
special=":@/?#%[]!$&'()*+,;= \t\n\x00\x7f\\\"<>^`{|}~.-_"
def text(maxlen=6, allow_empty=True):
    n=rnd.randint(0 if allow_empty else 1,maxlen)
    out=[]
    for _ in range(n):
        r=rnd.random()
        if r<0.5: out.append(rnd.choice(special))
        elif r<0.8: out.append(rnd.choice('abcXYZ019'))
        elif r<0.9: out.append(chr(rnd.randint(0x80,0x2ff)))
        else: out.append(chr(rnd.choice([0x20ac,0x1F600,0xFFFF,0x10FFFF,0x800,0xD7FF])))
    return ''.join(out)
def host():
    r=rnd.random()
    if r<0.4: return rnd.choice(['example.com','a','x-y.z','localhost','a.b.c'])
    if r<0.55: return '%d.%d.%d.%d'%tuple(rnd.randint(0,255) for _ in range(4))
    if r<0.7: return rnd.choice(['[::1]','[2001:db8::1]','[fe80::1:2]'])
    if r<0.85: return rnd.choice(['bücher.de','例え.jp','a_b','A.B'])
    return text(5,False)
bad=collections.Counter(); ex={}
N=20000
for i in range(N):
    scheme=rnd.choice(['http','https','ftp','foo','git+ssh','','x.y-z+1'])
    user=text() if rnd.random()<0.4 else ''
    pw=text() if user and rnd.random()<0.5 else ''
    h=host() if rnd.random()<0.85 else ''
    port=rnd.choice([None,80,443,8080,1,65535]) if h else None
    segs=[text(4) for _ in range(rnd.randint(0,4))]
    pairs=tuple((text(3,False),text(3)) for _ in range(rnd.randint(0,3)))
    frag=text() if rnd.random()<0.4 else ''
    try:
        u=URI()
        u.scheme=scheme; u.username=user; u.password=pw; u.host=h; u.port=port
        u.path_segments=([''] if h else [])+segs if segs or h else []
        u.query=pairs; u.fragment=frag
        comp=(u.scheme,u.username,u.password,u.host,u.port,u.path,u.query_string,u.fragment)
    except Exception as e:
        k=('BUILD',type(e).__name__); bad[k]+=1; ex.setdefault(k,(scheme,user,pw,h,port,segs,pairs,frag,repr(e))); continue
    try:
        b=bytes(u)
    except Exception as e:
        k=('COMPOSE',type(e).__name__); bad[k]+=1; ex.setdefault(k,(comp,repr(e))); continue
    try:
        v=URI(b)
    except Exception as e:
        k=('PARSE',type(e).__name__,str(e)[:40]); bad[k]+=1; ex.setdefault(k,(comp,b,repr(e))); continue
    t=(v.scheme,v.username,v.password,v.host,v.port,v.path,v.query_string,v.fragment)
    if t!=comp:
        diff=tuple(i for i in range(8) if t[i]!=comp[i])
        k=('DIFF',diff); bad[k]+=1; ex.setdefault(k,(comp,b,t)); continue
    if bytes(v)!=b:
        k=('RECOMPOSE',); bad[k]+=1; ex.setdefault(k,(comp,b,bytes(v)))
print(N,sum(bad.values()))
for k,v in bad.most_common(): print(k,v,'\n    ',ex[k])
