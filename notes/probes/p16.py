from httoop import Headers
def rt(u,p,name='Authorization'):
    h=Headers()
    try:
        h.set_element(name,'Basic',{'username':u,'password':p})
        raw=h.getbytes(name)
        h2=Headers(); h2.parse(b'%s: %s'%(name.encode(),raw))
        e=h2.element(name)
        return raw, dict(e.params)
    except Exception as ex:
        import traceback; return 'EXC',repr(ex)
print(rt(b'user',b'pass'))
print(rt(b'user',b'pa:ss'))
print(rt(b'user',b''))
print(rt(b'',b'x'))
print(rt(b'u'*30,b'p'*30))
print(rt(b'u\xff',b'\x00\n'))
print(rt('usér','pä'))
