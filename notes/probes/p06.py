from httoop import ServerStateMachine, ClientStateMachine, Request
from httoop.status.types import StatusException
def srv(target, host=b'example.com', proto=b'1.1', extra=b'', method=b'GET'):
    sm=ServerStateMachine('http','default.host',8080)
    hdr=(b'Host: %s\r\n'%host) if host is not None else b''
    try:
        out=sm.parse(b'%s %s HTTP/%s\r\n%s%s\r\n'%(method,target,proto,hdr,extra))
    except StatusException as e: return ('HTTP',int(e),str(e.description)[:70], dict(e.headers))
    except Exception as e: return ('PY',type(e).__name__,str(e)[:80])
    return [(m.uri.tuple, bytes(m.uri)) for m,_ in out]
for tgt in [b'/',b'/a/b',b'/a/../b',b'/a/./b',b'/a//b',b'/%2e%2e/x',b'/a/%2e%2e/b',b'/a/%2E/b',b'/a/..%2fb',b'/a/%2e%2e%2fb',b'/a%2f..%2fb',b'/%252e%252e/x',b'/a\\..\\b',b'/..;/x',b'/a/%c0%ae%c0%ae/b',b'/a/.%2e/b',b'/a/%2e./b',b'*',b'http://other.com/x',b'http://other.com:81/x/../y',b'https://h/x',b'http://u:p@h/x',b'/x#f',b'/x?q=../..',b'/a/b/..',b'/a/b/.',b'/a/%2e',b'/.',b'/..',b'/%2e',b'//x',b'/a/b//', b'/a/%00/b', b'/%ff', b'/a/./', b'/a/%2e/', b'http://h', b'http://h?x']:
    print(tgt, srv(tgt))
print('--- Host forms')
for h in [b'example.com',b'example.com:8080',b'1.2.3.4',b'1.2.3.4:80',b'[::1]',b'[::1]:8080',b'EXAMPLE.com',b'a b',b'',b'a:b',b'a:99999',b'a:0',b'[::1',b'::1',b'a/b',b'a@b',b'xn--bcher-kva.de', b'b\xfccher.de', b'a,b', None]:
    print(h, srv(b'/x',host=h))
print(srv(b'/x',host=None,proto=b'1.0'))
print(srv(b'http://abs.com/x',host=b'hdr.com'))
print(srv(b'example.com:443',method=b'CONNECT'))
print(srv(b'example.com:443',method=b'CONNECT',host=b'other:1'))
print('--- C07')
def cli(raw):
    sm=ClientStateMachine(); sm.request=Request()
    try: out=sm.parse(raw)
    except StatusException as e: return ('HTTP',int(e),str(e.description)[:70])
    except Exception as e: return ('PY',type(e).__name__,str(e)[:80])
    return [(dict(m.headers), bytes(m.body)) for m in out], bytes(sm.buffer)
print(cli(b'HTTP/1.1 200 OK\r\nContent-Length: 3\r\nTransfer-Encoding: chunked\r\n\r\n5\r\nhello\r\n0\r\n\r\n'))
print(cli(b'HTTP/1.1 200 OK\r\nContent-Length: 30\r\nTransfer-Encoding: CHUNKED\r\n\r\n5\r\nhello\r\n0\r\n\r\n'))
print(cli(b'HTTP/1.0 200 OK\r\nContent-Length: 3\r\nTransfer-Encoding: chunked\r\n\r\nabc'))
print(cli(b'HTTP/1.1 200 OK\r\nContent-Length: 3\r\nContent-Length: 3\r\n\r\nabcdef'))
print(cli(b'HTTP/1.1 200 OK\r\nContent-Length: +3\r\n\r\nabc'))
print(cli(b'HTTP/1.1 200 OK\r\nContent-Length:  3 \r\n\r\nabc'))
print(cli(b'HTTP/1.1 200 OK\r\nContent-Length: 0x3\r\n\r\nabc'))
print(cli(b'HTTP/1.1 200 OK\r\nContent-Length: 03\r\n\r\nabc'))
print(cli(b'HTTP/1.1 200 OK\r\nContent-Length: \xd9\xa3\r\n\r\nabc'))
print(cli(b'HTTP/1.1 200 OK\r\nTransfer-Encoding: chunked\r\nTrailer: Foo\r\n\r\n1\r\na\r\n0\r\nFoo: x\r\n\r\n'))
print(cli(b'HTTP/1.1 200 OK\r\nTransfer-Encoding: chunked\r\nTrailer: Foo\r\n\r\n1\r\na\r\n0\r\nBar: x\r\n\r\n'))
print(cli(b'HTTP/1.1 200 OK\r\nTransfer-Encoding: chunked\r\nTrailer: Content-Length\r\n\r\n1\r\na\r\n0\r\nContent-Length: 5\r\n\r\n'))
print(cli(b'HTTP/1.1 200 OK\r\nTransfer-Encoding: chunked\r\n\r\n1\r\na\r\n0\r\nContent-Length: 5\r\n\r\n'))
print(cli(b'HTTP/1.1 200 OK\r\nTransfer-Encoding: chunked\r\nTrailer: Foo\r\n\r\n1\r\na\r\n0\r\nFoo: x\r\nFoo: y\r\n\r\n'))
print(cli(b'HTTP/1.1 200 OK\r\nTransfer-Encoding: chunked\r\nTrailer: Foo\r\nFoo: pre\r\n\r\n1\r\na\r\n0\r\nFoo: x\r\n\r\n'))
print(cli(b'HTTP/1.1 200 OK\r\nTransfer-Encoding: chunked\r\nTrailer: foo, Transfer-encoding\r\n\r\n1\r\na\r\n0\r\nTransfer-Encoding: x\r\n\r\n'))
print(cli(b'HTTP/1.1 200 OK\r\nTransfer-Encoding: gzip, chunked\r\n\r\n1\r\na\r\n0\r\n\r\n'))
print(cli(b'HTTP/1.1 200 OK\r\nTransfer-Encoding: chunked\r\n\r\n0x1\r\na\r\n0\r\n\r\n'))
print(cli(b'HTTP/1.1 200 OK\r\nTransfer-Encoding: chunked\r\n\r\n+1\r\na\r\n0\r\n\r\n'))
print(cli(b'HTTP/1.1 200 OK\r\nTransfer-Encoding: chunked\r\n\r\n 1 \r\na\r\n0\r\n\r\n'))
print(cli(b'HTTP/1.1 200 OK\r\nTransfer-Encoding: chunked\r\n\r\n1_0\r\n'+b'a'*16+b'\r\n0\r\n\r\n'))
