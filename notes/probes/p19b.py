import itertools, random, io, re
from httoop import Headers, Request, Response, Body
from httoop.semantic.response import ComposedResponse
rnd=random.Random(4)
print('--- C19 permutation invariance')
names=['text/html','text/*','*/*','application/json','a/b;level=1','x/y']
qs=[None,'0','1','0.5','0.001','0.999','0.50','1.000','0.5']
bad=0;n=0
for _ in range(3000):
    k=rnd.randint(1,5)
    els=[]
    for nm in rnd.sample(names,k):
        q=rnd.choice(qs)
        els.append(nm+(';q='+q if q is not None else ''))
    res=set()
    for perm in itertools.permutations(els):
        h=Headers(); h.parse(('Accept: '+', '.join(perm)).encode())
        out=[(e.value, tuple(sorted(e.params.items())), e.quality) for e in h.elements('Accept')]
        qsq=[o[2] for o in out]
        assert qsq==sorted(qsq,reverse=True), (perm,out)
        assert len(out)==k
        res.add(tuple(out))
    n+=1
    if len(res)!=1: bad+=1; print('ORDER-DEP',els,res)
print(n,bad)
print('--- C20 multi range')
def rng(data, r):
    resp=Response(status=200); resp.body=io.BytesIO(data); resp.headers['ETag']='"x"'
    req=Request(method='GET'); req.headers['Range']=r
    c=ComposedResponse(resp,req); c.prepare()
    return resp
bad=0;n=0
for _ in range(2000):
    L=rnd.randint(20,4096); data=bytes(rnd.randrange(256) for _ in range(L))
    k=rnd.randint(2,4); size=rnd.randint(2,max(2,min(40,L//(2*k))))
    starts=sorted(rnd.sample(range(0,L-size-1,size+1),k)) if (L-size-1)//(size+1)>=k else None
    if not starts: continue
    ranges=[(s,s+size-1+rnd.choice([0,1])) for s in starts]
    ranges=[(a,min(b,L-1)) for a,b in ranges]
    if any(ranges[i][1]>=ranges[i+1][0] for i in range(k-1)): continue
    order=ranges[:]; rnd.shuffle(order)
    r='bytes='+','.join('%d-%d'%x for x in order)
    resp=rng(data,r); n+=1
    if int(resp.status)!=206: bad+=1; print('STATUS',int(resp.status),r,L); continue
    ct=resp.headers.element('Content-Type'); b=bytes(resp.body)
    parts=Body(b, mimetype=resp.headers['Content-Type']).decode()
    got=[(bytes(p), p.headers.get('Content-Range')) for p in parts]
    exp=[(data[a:b+1], 'bytes %d-%d/%d'%(a,b,L)) for a,b in ranges]
    if got!=exp or int(resp.headers['Content-Length'])!=len(b): bad+=1; print('BAD',r,L,got[:1],exp[:1])
print(n,bad)
