import random, sys, collections
from httoop import Request, Response, ServerStateMachine, ClientStateMachine
from httoop.status.types import StatusException
def run(data, cuts, side):
    sm = ServerStateMachine('http','localhost',80) if side=='s' else ClientStateMachine()
    if side=='c': sm.request=Request()
    msgs=[]; err=None
    pos=0
    pieces=[]
    for c in list(cuts)+[len(data)]:
        pieces.append(data[pos:c]); pos=c
    for p in pieces:
        try:
            out=sm.parse(p)
        except StatusException as e:
            err=('HTTP',int(e), str(e.description)); break
        except RecursionError as e:
            err=('PY','RecursionError'); break
        except Exception as e:
            err=('PY',type(e).__name__, str(e)[:80]); break
        for m in out:
            if side=='s': m=m[0]
            if side=='s':
                msgs.append((bytes(m.method), m.uri.tuple, tuple(m.protocol), tuple(sorted(dict(m.headers).items())), bytes(m.body)))
            else:
                msgs.append((int(m.status), m.status.reason, tuple(m.protocol), tuple(sorted(dict(m.headers).items())), bytes(m.body)))
    idle = sm.message is None
    return msgs, err, (bytes(sm.buffer) if idle and err is None else None)
def compat(a,b):
    # a: one-shot, b: other. messages delivered must be prefix-compatible when error
    (m1,e1,b1),(m2,e2,b2)=a,b
    if e1!=e2: return False
    if e1 is None: return m1==m2 and b1==b2
    # with error: messages completed in the raising call may be lost
    n=min(len(m1),len(m2))
    return m1[:n]==m2[:n]
seeds=[
 b'GET / HTTP/1.1\r\nHost: a\r\n\r\n',
 b'POST /x HTTP/1.1\r\nHost: a\r\nContent-Length: 5\r\n\r\nhelloGET /y HTTP/1.1\r\nHost: b\r\n\r\n',
 b'POST /x HTTP/1.1\r\nHost: a\r\nTransfer-Encoding: chunked\r\nTrailer: Foo\r\n\r\n5;x=y\r\nhello\r\n3\r\nabc\r\n0\r\nFoo: bar\r\n\r\nGET /z HTTP/1.0\r\n\r\n',
 b'GET / HTTP/1.1\r\nHost: a\r\nX: 1\r\n 2\r\n\t3\r\nY: 4\r\nX: 5\r\n\r\n',
 b'GET / HTTP/1.0\nA: 1\nB: 2\n\n',
 b'GET / HTTP/1.1\nHost: x\r\n\r\n',
 b'GET / HTTP/1.0\n\nGET / HTTP/1.1\r\nHost: x\r\n\r\n',
 b'\r\nGET / HTTP/1.1\r\nHost: a\r\n\r\n',
 b'GET / HTTP/1.1\r\nHost: a\r\nContent-Length: 3\r\n\r\nab',
 b'GET / HTTP/1.1\r\nHost: a\r\n\r\nabc',
 b'PUT / HTTP/1.1\r\nHost: a\r\nContent-Length: 3\r\nTransfer-Encoding: chunked\r\n\r\n2\r\nab\r\n0\r\n\r\n',
]
cseeds=[
 b'HTTP/1.1 200 OK\r\nContent-Length: 3\r\n\r\nabcHTTP/1.1 404 Not Found\r\n\r\n',
 b'HTTP/1.1 200 OK\r\nTransfer-Encoding: chunked\r\n\r\n3\r\nabc\r\n0\r\n\r\nHTTP/1.0 204 No Content\r\n\r\n',
 b'HTTP/1.1 200 OK\nContent-Length: 3\n\nabc',
]
rnd=random.Random(1)
def mutate(d):
    d=bytearray(d)
    for _ in range(rnd.randint(1,3)):
        op=rnd.randint(0,3)
        if not d: break
        i=rnd.randrange(len(d))
        if op==0: d[i]=rnd.choice(b'\r\n :;,=\x00\xff%/.0a-"\\\t')
        elif op==1: del d[i]
        elif op==2: d.insert(i,rnd.choice(b'\r\n :;,=\x00\xff%/.0a"\\\t'))
        else:
            j=rnd.randrange(len(d)); d[i:i]=d[j:j+rnd.randint(1,8)]
    return bytes(d)
bad=collections.Counter(); examples={}
def check(d,side):
    one=run(d,[],side)
    perbyte=run(d,range(1,len(d)),side)
    alts=[perbyte]+[run(d,sorted(rnd.sample(range(1,len(d)),min(len(d)-1,rnd.randint(1,4)))),side) for _ in range(4)] if len(d)>1 else []
    for alt in alts:
        if not compat(one,alt):
            key=(one[1] and one[1][:2], alt[1] and alt[1][:2], len(one[0]), len(alt[0]))
            bad[key]+=1
            examples.setdefault(key,(d,one,alt))
            return False
    return True
n=0
for s in seeds:
    check(s,'s')
    for _ in range(300): check(mutate(s),'s'); n+=1
for s in cseeds:
    check(s,'c')
    for _ in range(300): check(mutate(s),'c'); n+=1
print(n, sum(bad.values()))
for k,v in bad.most_common(): 
    print(k,v); d,one,alt=examples[k]; print('   ',d); print('   one:',one[1],len(one[0]),one[2]); print('   alt:',alt[1],len(alt[0]),alt[2])
