import itertools, re
from httoop import URI
def rfc_remove_dots(path):
    out=[]; inp=path
    while inp:
        if inp.startswith('../'): inp=inp[3:]
        elif inp.startswith('./'): inp=inp[2:]
        elif inp.startswith('/./'): inp='/'+inp[3:]
        elif inp=='/.': inp='/'
        elif inp.startswith('/../'):
            inp='/'+inp[4:]
            if out: out.pop()
        elif inp=='/..':
            inp='/'
            if out: out.pop()
        elif inp in ('.','..'): inp=''
        else:
            m=re.match(r'/?[^/]*',inp); out.append(m.group(0)); inp=inp[m.end():]
    return ''.join(out)
alpha=['','.','..','a','b','...','.a','a.']
bad=[];n=0; nonidem=[]
for k in range(0,6):
    for segs in itertools.product(alpha,repeat=k):
        path='/'+'/'.join(segs)
        u=URI(('http','','','h',None,path,'',''))
        u.normalize(); p1=u.path
        u.normalize(); p2=u.path
        exp=rfc_remove_dots(re.sub('/{2,}','/',path)) or '/'
        n+=1
        if p1!=p2: nonidem.append((path,p1,p2))
        if p1!=exp: bad.append((path,p1,exp))
        if any(s in ('.','..','') for s in p1.split('/')[1:-1]) or p1.split('/')[-1] in ('.','..') or '//' in p1: bad.append(('DOTS',path,p1))
print(n,len(bad),len(nonidem)); print(bad[:10]); print(nonidem[:5])
# scheme/host/port
for s in ('HTTP://ExAmple.COM/a','http://example.com:80/a','http://example.com:/a','https://h/','https://h:443','http://h', 'http://h?x', 'foo://H/a/../b', 'foo://H', 'HTTP://[::1]:80/'):
    u=URI(s.encode()); u.normalize(); print(s, u.tuple, bytes(u))
# equality
print(URI(b'http://a/b')==URI(b'http://A:80/b'), URI(b'http://a/b')==b'http://a/c/../b', URI(b'http://a')==URI(b'http://a/'))
