import hashlib, random
from httoop import Headers
from httoop.authentication.digest import DigestAuthRequestScheme as D
from httoop.messages import Protocol, Method, Request, Response
from httoop.status import Status
def t(f):
    try: return f()
    except Exception as e: return 'EXC '+type(e).__name__+': '+str(e)[:100]
def H(x): return hashlib.md5(x).hexdigest().encode()
def ref(p):
    alg=p.get('algorithm')
    a1=b'%s:%s:%s'%(p['username'],p['realm'],p['password'])
    if alg==b'MD5-sess': a1=b'%s:%s:%s'%(H(a1),p['nonce'],p['cnonce'])
    qop=p.get('qop')
    if qop==b'auth-int': a2=b'%s:%s:%s'%(p['method'],p['uri'],H(p['entity_body']))
    else: a2=b'%s:%s'%(p['method'],p['uri'])
    if qop: return H(b'%s:%s:%s:%s:%s:%s'%(H(a1),p['nonce'],p['nc'],p['cnonce'],qop,H(a2)))
    return H(b'%s:%s:%s'%(H(a1),p['nonce'],H(a2)))
base=dict(username=b'Mufasa',realm=b'testrealm@host.com',password=b'Circle Of Life',nonce=b'dcd98b7102dd2f0e8b11d0f600bfb0c093',cnonce=b'0a4f113b',nc=b'00000001',method=b'GET',uri=b'/dir/index.html',entity_body=b'body')
for qop in (None,b'auth',b'auth-int'):
    for alg in (None,b'MD5',b'MD5-sess'):
        p=dict(base)
        if qop: p['qop']=qop
        if alg: p['algorithm']=alg
        def f():
            h=Headers(); h.set_element('Authorization','Digest',p)
            raw=h.getbytes('Authorization')
            h2=Headers(); h2.parse(b'Authorization: '+raw)
            e=h2.element('Authorization')
            got=dict(e.params)
            exp=ref(p)
            chk=D.check(dict(p), got)
            p2=dict(p); p2['password']=b'wrong'
            return got.get('response')==exp, chk, D.check(p2,got), raw[:60]
        print(qop,alg,t(f))
# values with special chars
p=dict(base, username=b'a b=c/d:e@f', uri=b'/x?a=b,c', realm=b'r,1="x"')
def g():
    h=Headers(); h.set_element('Authorization','Digest',p); raw=h.getbytes('Authorization')
    h2=Headers(); h2.parse(b'Authorization: '+raw); return raw, dict(h2.element('Authorization').params)
print(t(g))
print('--- C18')
for m in [b'GET',b'a',b'A-b_c.$9',b'get put',b'G\x00',b'G\xe9',b'', b'x'*21, b'a:b', b'a/b', b'a,b', b'a@b', b'a^b', b'a[b', b'a=b',b'a\\b']:
    print(m, t(lambda: bytes(Method(m))))
for s in [b'200 OK',b'099 x',b'600 x',b'200',b'200 ',b'200  two  words',b'404 Not Found',b'200 caf\xe9',b'200 a-b', b'2000 x', b'20 x', b'200 OK\n', b'200 \xc3\xa9']:
    def f():
        st=Status(); st.parse(s); return bytes(st), st.code, st.reason
    print(s, t(f))
for v in [b'HTTP/1.1',b'HTTP/1.0',b'HTTP/2.0',b'HTTP/11.12',b'http/1.1',b'HTTP/1',b'HTTP/1.1 ',b'HTTP/1.1\n',b'HTTP/01.1',b'HTTP/1.\xd9\xa1', b'XHTTP/1.1']:
    print(v, t(lambda: bytes(Protocol(v))))
P=Protocol
print(P((1,1))>P((1,0)), P((1,1))>(1,0), P((1,1))>b'HTTP/1.0', P((1,1))>=(1,1), P((1,10))>P((1,9)), P((2,0))>P((1,11)), P((1,1))=='HTTP/1.1', P((1,1))<2, P((1,1))==1, min(P((1,0)),P((1,1))))
