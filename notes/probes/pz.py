from httoop import URI
b=URI(b'http://a/b/c#frag'); b.normalize()
print(b.join(b'').tuple, b.join(b'?q').tuple, b.join(b'x').tuple)
u=URI(b'/../x'); u.normalize(); print(repr(u.path))
u=URI(b'http://h/../x'); u.normalize(); print(repr(u.path))
u=URI(); u.scheme='http'; u.host='h'; u.username='a:b'; u.password='c'; print(bytes(u), URI(bytes(u)).tuple)
