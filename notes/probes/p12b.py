import itertools, re
from httoop import URI
exec(open('p11.py').read().split("alpha=")[0])
def rfc_resolve(base, ref):
    # base, ref: URI objects parsed by httoop (components) -> use tuples
    bs,bu,bp,bh,bport,bpath,bq,bf = base.tuple
    R=URI(ref)
    rs,ru,rp,rh,rport,rpath,rq,rf = R.tuple
    def merge(bpath,rpath):
        if bh and not bpath: return '/'+rpath
        return bpath[:bpath.rfind('/')+1]+rpath
    if rs:
        T=(rs,ru,rp,rh,rport,rfc_remove_dots(re.sub('/{2,}','/',rpath)),rq,rf)
    else:
        if rh:
            T=(bs,ru,rp,rh,rport,rfc_remove_dots(re.sub('/{2,}','/',rpath)),rq,rf)
        else:
            if rpath=='':
                path=bpath; q=rq if rq else bq
            else:
                if rpath.startswith('/'): path=rfc_remove_dots(re.sub('/{2,}','/',rpath))
                else: path=rfc_remove_dots(re.sub('/{2,}','/',merge(bpath,rpath)))
                q=rq
            T=(bs,bu,bp,bh,bport,path,q,rf)
    return T
bases=[b'http://a/b/c/d;p?q', b'http://a', b'http://a/', b'http://a/b', b'http://a/b/', b'https://h:8443/x/y/?k=v', b'http://a/b/c/d']
segs=['','.','..','g','h.','..g']
refs=set()
for k in range(1,4):
    for s in itertools.product(segs,repeat=k):
        for lead in ('','/'):
            for q in ('','?y'):
                for f in ('','#s'):
                    refs.add(lead+'/'.join(s)+q+f)
refs |= {'g:h','//g','//g/x/../y','?y','#s','','http://x/a/../b','HTTP://X','//g?y#s'}
bad=[];n=0
for b in bases:
    B=URI(b); B.normalize()
    for r in refs:
        n+=1
        try:
            got=B.join(r.encode())
        except Exception as e:
            bad.append((b,r,'EXC',repr(e))); continue
        exp=URI(rfc_resolve(B,r.encode())); 
        try: exp.normalize()
        except Exception as e: bad.append((b,r,'EXPEXC',repr(e))); continue
        if got.tuple!=exp.tuple: bad.append((b,r,got.tuple,exp.tuple))
print(n,len(bad))
import collections
for x in bad[:25]: print(x)
