import random, collections
from httoop import Request, ServerStateMachine, ClientStateMachine
from httoop.status.types import StatusException
rnd=random.Random(31)
TOK='abcdefghijklmnopqrstuvwxyzABCDEFGHIJKLMNOPQRSTUVWXYZ0123456789-_'
def token(n=6): return ''.join(rnd.choice(TOK) for _ in range(rnd.randint(1,n)))
def ows(): return rnd.choice(['',' ','  ','\t',' \t'])
def value():
    n=rnd.randint(0,10)
    s=''.join(chr(rnd.choice(list(range(0x21,0x7f))+[0x20,0x09]+list(range(0xa1,0x100)))) for _ in range(n)).strip(' \t')
    return s
def randcase(s): return ''.join(c.upper() if rnd.random()<0.5 else c.lower() for c in s)
def body(): 
    n=rnd.choice([0,0,1,2,5,17,300])
    return bytes(rnd.randrange(256) for _ in range(n))
def chunked(b, trailers):
    out=b''; i=0
    while i<len(b):
        k=rnd.randint(1,max(1,len(b)-i)); piece=b[i:i+k]; i+=k
        ext=rnd.choice([b'',b';a',b';a=b',b';a="b c"',b' ;x'])
        size=(b'%x'%k) if rnd.random()<0.7 else (b'%X'%k) if rnd.random()<0.5 else b'0'*rnd.randint(1,3)+b'%x'%k
        out+=size+ext+b'\r\n'+piece+b'\r\n'
    out+=b'0\r\n'
    for n,v in trailers: out+=n.encode()+b': '+v.encode('latin1')+b'\r\n'
    return out+b'\r\n'
def gen_req():
    method=rnd.choice(['GET','POST','PUT','DELETE','OPTIONS','PATCH','M-SEARCH','HEAD'])
    form=rnd.choice(['origin','origin','absolute','asterisk'])
    host='h%d.example'%rnd.randint(0,9)
    segs=[token(4) for _ in range(rnd.randint(0,3))]
    path='/'+'/'.join(segs)
    q=('?'+token(3)+'='+token(3)) if rnd.random()<0.3 else ''
    if form=='origin': target=path+q
    elif form=='absolute': target='http://'+host+path+q
    else: target='*'; method='OPTIONS'; path='*'; q=''
    ver=rnd.choice(['1.1','1.1','1.0'])
    b=body() if method in('POST','PUT','PATCH','DELETE','OPTIONS','M-SEARCH') else b''
    fields=[('Host',host)]
    for _ in range(rnd.randint(0,4)):
        fields.append((rnd.choice(['X-A','X-B','Accept-Foo','X-'+token(4)]), value()))
    use_chunked = ver=='1.1' and rnd.random()<0.4
    trailers=[]
    if use_chunked:
        fields.append(('Transfer-Encoding', rnd.choice(['chunked','Chunked','CHUNKED'])))
        if rnd.random()<0.4:
            tn='X-T'+token(3); trailers=[(tn,value() or 'v')]; fields.append(('Trailer',tn))
    else:
        if b or rnd.random()<0.5: fields.append(('Content-Length',str(len(b))))
    rnd.shuffle(fields)
    wire=('%s %s HTTP/%s\r\n'%(method,target,ver)).encode()
    for n,v in fields: wire+=randcase(n).encode()+b':'+ows().encode()+v.encode('latin1')+ows().encode()+b'\r\n'
    wire+=b'\r\n'
    wire+= chunked(b,trailers) if use_chunked else b
    hasfr = use_chunked or any(n=='Content-Length' for n,_ in fields)
    return dict(method=method,path=path,query=q[1:],ver=ver,host=host,fields=fields,body=b,trailers=trailers,wire=wire,framed=hasfr)
def expect_headers(m):
    d=collections.OrderedDict()
    for n,v in m['fields']+m['trailers']:
        k=n.title()
        if k=='Transfer-Encoding': continue
        d[k]=(d[k]+', '+v) if k in d else v
    d['Content-Length']=d.get('Content-Length',str(len(m['body'])))
    return {k:v.encode('latin1') for k,v in d.items()}
bad=collections.Counter(); ex={}
N=8000
for it in range(N):
    ms=[gen_req() for _ in range(rnd.randint(1,4))]
    # F18 guard: unframed messages must be last in their call -> feed message by message unless all framed
    wire=b''.join(m['wire'] for m in ms)
    allframed=all(m['framed'] for m in ms[:-1])
    cut=rnd.randint(0,len(wire))
    sm=ServerStateMachine('http','default',80)
    pieces=[wire[:cut]] if rnd.random()<0.3 else [wire[:cut][i:i+7] for i in range(0,cut,7)]
    got=[]
    try:
        for p in pieces:
            got+= [r for r,_ in sm.parse(p)]
    except StatusException as e:
        k=('ERR',int(e),str(e.description)[:40], 'allframed' if allframed else 'unframed-in-middle'); bad[k]+=1; ex.setdefault(k,wire[:300]); continue
    except Exception as e:
        k=('PY',type(e).__name__); bad[k]+=1; ex.setdefault(k,wire[:300]); continue
    ends=[]; o=0
    for m in ms: o+=len(m['wire']); ends.append(o)
    exp=[m for m,e in zip(ms,ends) if e<=cut]
    # a bodiless unframed message is complete as soon as its header section is in; still 'wholly contained'
    if len(got)!=len(exp):
        k=('COUNT',len(got)-len(exp)); bad[k]+=1; ex.setdefault(k,(wire[:200],cut)); continue
    for g,m in zip(got,exp):
        gh={k:v for k,v in dict(g.headers).items()}
        eh=expect_headers(m)
        ok = bytes(g.method)==m['method'].encode() and g.uri.path==m['path'] and g.uri.query_string==m['query'] and tuple(g.protocol)==tuple(int(x) for x in m['ver'].split('.')) and bytes(g.body)==m['body'] and g.uri.host==m['host']
        if not ok: k=('FIELD',); bad[k]+=1; ex.setdefault(k,(m['wire'][:200], bytes(g.method), g.uri.tuple, bytes(g.body)[:20])); break
        if gh!=eh:
            k=('HDR',); bad[k]+=1; ex.setdefault(k,(m['wire'][:300], gh, eh)); break
print(N,sum(bad.values()))
for k,v in bad.most_common(): print(k,v,'\n   ',ex[k])
print('---- debug COUNT')
for k in ex:
    if k[0]=='COUNT':
        wire,cut=ex[k]
