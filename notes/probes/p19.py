import itertools, io, hashlib, random
from httoop import Headers, Request, Response
from httoop.semantic.response import ComposedResponse
from httoop.header.element import HeaderElement
def t(f):
    try: return f()
    except Exception as e: return 'EXC '+type(e).__name__+': '+str(e)[:100]
print('--- C19')
def acc(name,val):
    h=Headers(); h.parse(b'%s: %s'%(name.encode(),val))
    return [(e.value, e.quality, dict(e.params)) for e in h.elements(name)]
print(t(lambda: acc('Accept', b'text/html;q=0.5, */*;q=0.1, text/plain, application/json;q=1;ext=1, text/x;level=1;q=0.5')))
print(t(lambda: acc('Accept', b'a/b;q=abc')))
print(t(lambda: acc('Accept', b'a/b;q=')))
print(t(lambda: acc('Accept', b'a/b;q=0.5;q=0.7')))
print(t(lambda: acc('Accept', b'a/b;q=1e3, c/d;q=nan, e/f;q=inf, g/h;q=-1')))
print(t(lambda: acc('Accept-Encoding', b'gzip;q=0.5, identity;q=0.5, br')))
print(t(lambda: acc('Accept-Language', b'de;q=0.5, en;q=0.5, fr;q=0.5')))
print(t(lambda: acc('Accept-Language', b'fr;q=0.5, en;q=0.5, de;q=0.5')))
print(t(lambda: acc('TE', b'trailers, deflate;q=0.5')))
print(t(lambda: acc('Accept', b'a/b;q="0.5"')))
print(t(lambda: acc('Accept', b'a/b; Q=0.5')))
print(t(lambda: acc('Accept', b'a/b;q=0.5, a/b;q=0.5')))
print('--- C20')
def rng(data, r, etag=True, method='GET'):
    resp=Response(status=200); resp.body=io.BytesIO(data)
    if etag: resp.headers['ETag']='"x"'
    req=Request(method=method); req.headers['Range']=r
    c=ComposedResponse(resp,req); c.prepare()
    return int(resp.status), {k:v for k,v in dict(resp.headers).items() if k in('Content-Length','Content-Range','Content-Type','Accept-Ranges')}, bytes(resp.body)[:200]
data=bytes(range(48,48+40))
for r in ['bytes=3-5','bytes=0-0','bytes=0-39','bytes=5-100','bytes=38-39','bytes=0-1,10-11','bytes=0-2, 6-','bytes=-5','bytes=5-','bytes=a-b','bytes=5-3','bits=0-1','bytes=0-1,1-2','bytes=0-1,20-39','bytes=1-2']:
    print(r, t(lambda: rng(data,r)))
print(t(lambda: rng(data,'bytes=3-5',etag=False)))
bad=0
for n in (2,3,17,40):
    d=bytes((i*7)%256 for i in range(n))
    for f in range(n):
        for l in range(f+1,n):
            st,h,b=rng(d,'bytes=%d-%d'%(f,l))
            if not(st==206 and b==d[f:l+1] and h['Content-Length']==str(l-f+1).encode() and h['Content-Range']==b'bytes %d-%d/%d'%(f,l,n)): bad+=1; print('BAD',n,f,l,st,h,b)
print('single-range bad',bad)
