from httoop.uri.percent_encoding import Percent
from httoop.codecs.application.x_www_form_urlencoded import FormURLEncoded
from httoop.uri.query_string import QueryString
from httoop import URI
sets = {k:getattr(Percent,k) for k in ('UNRESERVED','SCHEME','PCHAR','USERINFO','PATH','QUERY','FRAGMENT')}
for name,s in sets.items():
    bad=[b for b in range(256) if Percent.unquote(Percent.quote(bytes([b]),s))!=bytes([b])]
    print(name,len(bad),bad[:20])
print(Percent.quote(b'\n'), Percent.unquote(b'%A'), Percent.unquote(b'%0A'))
# 2-octet
bad=0
for a in range(256):
    for b in range(256):
        x=bytes([a,b])
        if Percent.unquote(Percent.quote(x))!=x: bad+=1
print('2-octet bad',bad)
# does % in charset get removed: yes. 
print(Percent.quote(b'%41',Percent.QUERY))
# form
for pairs in [[('a','b')],[('a','')],[('a b','c&d=e+f%')],[('é','ü')],[('a','\n')],[('\U0001F600','x')],[('a','b'),('a','c')], [('=','x')], [('a','=')]]:
    for cs in ('UTF-8','ISO8859-1'):
        try:
            e=FormURLEncoded.encode(pairs,cs); d=FormURLEncoded.decode(e,cs)
            print(cs,pairs,e,d, 'OK' if tuple(pairs)==d else 'DIFF')
        except Exception as ex: print(cs,pairs,'EXC',repr(ex))
u=URI(b'http://x/')
for pairs in [(('a','b'),),(('a',''),),(('a b','c&d=e+f%'),),(('a','\n'),),(('a','/?:@'),), (('a','\x10'),)]:
    try:
        u.query=pairs; print(pairs,u.query_string,u.query, 'OK' if u.query==pairs else 'DIFF')
    except Exception as ex: print(pairs,'EXC',repr(ex))
