from httoop import Body, Request, Response, ServerStateMachine, ClientStateMachine
from httoop.semantic.request import ComposedRequest
import io
def t(f):
    try: return f()
    except Exception as e:
        return 'EXC '+type(e).__name__+': '+repr(e)[:160]
def req(method='POST', uri='/', body=b'', headers=None, chunked=False, proto=(1,1)):
    r=Request(method=method, uri=uri, protocol=proto)
    r.body=body
    for k,v in (headers or {}).items(): r.headers[k]=v
    c=ComposedRequest(r)
    if chunked: c.chunked=True
    c.prepare()
    w=b''.join(c); w2=b''.join(c)
    sm=ServerStateMachine('http','localhost',80)
    out=sm.parse(w)
    return w, w==w2, [(bytes(m.method), m.uri.tuple, dict(m.headers), bytes(m.body)) for m,_ in out], bytes(sm.buffer)
print(t(lambda: req(body=b'hello', headers={'Host':'example.com'})))
print(t(lambda: req(body=b'hello')))
print(t(lambda: req(body=b'hello', uri='http://example.com:8080/a/b?x=1&y=2')))
print(t(lambda: req(body=b'\xffhello', uri='http://example.com/a b/é?k=v w', chunked=True)))
print(t(lambda: req(method='GET', body=b'hello', uri='http://example.com/')))
print(t(lambda: req(method='DELETE', body=b'', uri='http://example.com/')))
print(t(lambda: req(method='OPTIONS', body=b'', uri='*', headers={'Host':'x'})))
print(t(lambda: req(method='CONNECT', body=b'', uri='//example.com:443')))
print(t(lambda: req(method='POST', body=b'x', uri='http://example.com/a/../b')))
print(t(lambda: req(method='POST', body=b'x', uri='http://example.com/a%2fb/c')))
print(t(lambda: req(method='POST', body=b'x', uri='http://example.com/', headers={'X-Foo':'bär', 'X-Bar':'a, b', 'X-U':'→'})))
print(t(lambda: req(method='POST', body=b'x', uri='http://example.com/', proto=(1,0))))
print(t(lambda: req(method='TRACE', body=b'x', uri='http://example.com/')))
