from httoop import Body, Request, Response, ServerStateMachine, ClientStateMachine
from httoop.semantic.response import ComposedResponse
from httoop.semantic.request import ComposedRequest
import traceback
def t(f):
    try: return f()
    except Exception as e: return 'EXC '+type(e).__name__+': '+str(e)[:100]
def gz(data, enc='gzip'):
    b=Body(data); b.content_encoding=enc
    b.compress()
    c=bytes(b)
    b2=Body(c); b2.content_encoding=enc; b2.decompress()
    return bytes(b2)==data
for d in (b'hello', b'\xff\x00\x80', 'é'.encode(), b'', bytes(range(256))):
    print(d[:10], t(lambda: gz(d)), t(lambda: gz(d,'deflate')))
# via wire
import gzip, zlib
def wire(data, enc):
    comp = gzip.compress(data) if enc=='gzip' else zlib.compress(data)
    c=ClientStateMachine(); c.request=Request()
    msg=b'HTTP/1.1 200 OK\r\nContent-Encoding: %s\r\nContent-Length: %d\r\n\r\n%s'%(enc.encode(),len(comp),comp)
    r=c.parse(msg)
    return bytes(r[0].body)==data, dict(r[0].headers)
for d in (b'hello', b'\xff\x00\x80', 'é'.encode()):
    print(d, t(lambda: wire(d,'gzip')), t(lambda: wire(d,'deflate')))
# JSON codec
b=Body(mimetype='application/json'); 
for v in ({'a':1},[1,2,'é'],'\U0001F600',None,1.5):
    def f():
        b=Body(mimetype='application/json'); b.encode(v); raw=bytes(b); b2=Body(raw,mimetype='application/json'); return raw, b2.decode()==v
    print(v,t(f))
