import random, collections
from httoop import Headers
from httoop.exceptions import InvalidHeader
rnd=random.Random(5)
def t(f):
    try: return f()
    except Exception as e: return 'EXC '+type(e).__name__+': '+str(e)[:80]
# case-insensitivity
h=Headers(); h['x-foo-bar']='1'
print(h.get('X-FOO-BAR'), 'x-FoO-bar' in h, list(h.keys()))
h=Headers(); h['content-md5']='1'; print(list(h.keys()), 'CONTENT-MD5' in h, 'Content-Md5' in h)
h=Headers(); h["x-a'b"]='1'; print(list(h.keys()), "X-A'B" in h, "x-a'b" in h)   # title() quirk
h=Headers(); h["x1a"]='1'; print(list(h.keys()), "X1A" in h, "x1a" in h)
h=Headers(); h['etag']='1'; print(list(h.keys()))
h=Headers(); h['www-authenticate']='Basic realm="x"'; print(list(h.keys()), 'WWW-AUTHENTICATE' in h)
h=Headers(); h['te']='a'; print(list(h.keys()), 'TE' in h, 'Te' in h)
# invalid names
for n in ['a b','a:b','a\x00','é','a(b','', 'a\tb']:
    print(repr(n), t(lambda: Headers().__setitem__(n,'v')), t(lambda: Headers().parse(n.encode('latin1')+b': v')))
# round trip values
def rt(name,val):
    h=Headers(); h[name]=val
    b=bytes(h)
    h2=Headers(); h2.parse(b[:-4])
    return b, h2==h, (h.get(name), h2.get(name)) 
for v in ['abc','a, b','bär','→','=?utf-8?b?4oaS?=','a  b',' lead','trail ','x=?y', 'a"=?b', '"=?utf-8?q?x?="', 'ÿ', 'a\tb','a;b="c,d"','€uro']:
    print(repr(v), t(lambda: rt('X-Test',v)))
print(t(lambda: rt('Set-Cookie','a=b, c=d')))
print(t(lambda: rt('Set-Cookie','a=b; expires=Wed, 09 Jun 2021 10:18:14 GMT')))
print(t(lambda: rt('Cookie','a=b; c=d')))
print(t(lambda: rt('WWW-Authenticate','Basic realm="x"')))
# repeated fields arrival order
h=Headers(); h.parse(b'X: 1\r\nY: a\r\nx: 2\r\nCookie: a=1\r\nX: 3\r\ncookie: b=2\r\nSet-Cookie: a=1\r\nSet-Cookie: b=2')
print(dict(h), bytes(h))
