from httoop import Body, Request, Response, ServerStateMachine, ClientStateMachine
from httoop.semantic.response import ComposedResponse
from httoop.semantic.request import ComposedRequest
import io
def t(f):
    try: return f()
    except Exception as e:
        import traceback
        return 'EXC '+type(e).__name__+': '+str(e)[:120]
def resp(body, chunked=False, enc=None, status=200, method='GET', proto=(1,1)):
    r=Response(status=status, protocol=proto); r.body=body
    if enc: r.headers['Content-Encoding']=enc
    req=Request(method=method)
    c=ComposedResponse(r,req)
    if chunked: c.chunked=True
    c.prepare()
    w=b''.join(c)
    w2=b''.join(c)
    sm=ClientStateMachine(); sm.request=req
    out=sm.parse(w)
    return w[:200], w==w2, [(int(m.status), dict(m.headers), bytes(m.body)) for m in out], bytes(sm.buffer)
print(t(lambda: resp(b'hello')))
print(t(lambda: resp(b'\xff\x00binary')))
print(t(lambda: resp(b'hello',chunked=True)))
print(t(lambda: resp(b'\xffhello',chunked=True)))
print(t(lambda: resp(b'hello',enc='gzip')))
print(t(lambda: resp(b'h\xffello',enc='gzip')))
print(t(lambda: resp([b'ab',b'cd'])))
print(t(lambda: resp((x for x in [b'ab',b'cd']))))
print(t(lambda: resp(io.BytesIO(b'abcdef'))))
print(t(lambda: resp(b'hello',status=204)))
print(t(lambda: resp(b'hello',status=304)))
print(t(lambda: resp(b'hello',method='HEAD')))
print(t(lambda: resp(b'hello',chunked=True,status=204)))
print(t(lambda: resp('héllo')))
print(t(lambda: resp(b'hello',proto=(1,0))))
print(t(lambda: resp(b'hello',proto=(1,0),chunked=True)))
