import random, collections
from httoop import Headers
from httoop.header.element import HeaderElement
from httoop.header.messaging import ContentType, ContentDisposition
rnd=random.Random(9)
seps='()<>@,;:\\"/[]?={} \t'
def pval():
    n=rnd.randint(1,6); out=[]
    for _ in range(n):
        r=rnd.random()
        if r<0.35: out.append(rnd.choice(seps))
        elif r<0.7: out.append(rnd.choice('abcXYZ019-_.*\'%'))
        elif r<0.85: out.append(chr(rnd.randint(0xa1,0xff)))
        else: out.append(chr(rnd.choice([0x100,0x20ac,0x2192,0x1F600])))
    return ''.join(out).strip() or 'v'
bad=collections.Counter(); ex={}
N=20000
for i in range(N):
    params={rnd.choice(['a','b','name','filename','x-y']): pval() for _ in range(rnd.randint(1,3))}
    kind=rnd.choice(['generic','ct','cd'])
    try:
        if kind=='generic': e=HeaderElement('token',params); cls=HeaderElement
        elif kind=='ct': e=ContentType('text/plain',params); cls=ContentType
        else: e=ContentDisposition('attachment',params); cls=ContentDisposition
        b=bytes(e)
    except Exception as ex_:
        k=('COMPOSE',type(ex_).__name__); bad[k]+=1; ex.setdefault(k,(kind,params,str(ex_)[:80])); continue
    try:
        e2=cls.parse(b)
        got={k.decode() if isinstance(k,bytes) else k:v for k,v in e2.params.items()}
        if got!=params or e2.value!=e.value:
            # classify
            dk=[k for k in params if got.get(k)!=params[k]]
            why=set()
            for k in dk:
                v=params[k]
                if '\\' in v: why.add('backslash')
                elif '"' in v: why.add('quote')
                elif any(ord(c)>127 for c in v): why.add('nonascii')
                elif "'" in v : why.add("apos")
                elif '%' in v : why.add("pct")
                else: why.add('other')
            kk=('DIFF',kind,tuple(sorted(why))); bad[kk]+=1; ex.setdefault(kk,(params,b,got))
    except Exception as ex_:
        kk=('PARSE',type(ex_).__name__,str(ex_)[:40]); bad[kk]+=1; ex.setdefault(kk,(params,b))
print(N,sum(bad.values()))
for k,c in bad.most_common(25): print(k,c,'\n   ',ex[k])
