from httoop import Body, Request, Response
from httoop.semantic.response import ComposedResponse
from httoop.semantic.request import ComposedRequest
import io, tempfile
def t(f):
    try: return f()
    except Exception as e: return 'EXC '+type(e).__name__+': '+str(e)[:120]
print('--- multipart')
def mp(parts, boundary='xx'):
    b=Body(mimetype='multipart/form-data; boundary=%s'%boundary)
    bodies=[]
    for hdrs,content in parts:
        p=Body(content); p.headers.clear()
        for k,v in hdrs.items(): p.headers[k]=v
        bodies.append(p)
    b.encode(bodies)
    raw=bytes(b)
    b2=Body(raw,mimetype='multipart/form-data; boundary=%s'%boundary)
    out=b2.decode()
    return raw[:120], [(dict(p.headers), bytes(p)) for p in out]
print(t(lambda: mp([({'Content-Type':'text/plain'},b'hello'),({'Content-Disposition':'form-data; name="a"'},b'\x00\xff\r\n--x')])))
print(t(lambda: mp([({},b'hello')])))
print(t(lambda: mp([({'Content-Type':'text/plain'},b'')])))
print(t(lambda: mp([])))
print(t(lambda: mp([({'Content-Type':'text/plain'},b'a\r\n--xx\r\nb')])))
print('--- message/http')
def mh(msg):
    b=Body(mimetype='message/http'); b.encode(msg); raw=bytes(b)
    b2=Body(raw,mimetype='message/http'); m=b2.decode()
    return raw, type(m).__name__, bytes(m), dict(m.headers), bytes(m.body)
r=Request(method='POST',uri='/x'); r.headers['Host']='a'; r.body=b'abc'
print(t(lambda: mh(r)))
s=Response(status=404); s.headers['X']='y'; s.body=b'\xff'
print(t(lambda: mh(s)))
print('--- text/plain')
for cs in ('UTF-8','ISO8859-1','ascii'):
    def f():
        b=Body(mimetype='text/plain; charset=%s'%cs); b.encode('héllo'); raw=bytes(b); b2=Body(raw,mimetype='text/plain; charset=%s'%cs); return raw,b2.decode()
    print(cs,t(f))
print('--- C05 repeat compose')
def rep(body, chunked=False):
    r=Response(); r.body=body
    c=ComposedResponse(r,Request())
    if chunked: c.chunked=True
    c.prepare(); a=b''.join(c); c.prepare(); b=b''.join(c); d=b''.join(c)
    import re
    strip=lambda x: re.sub(rb'Date: [^\r]*\r\n',b'',x)
    return strip(a)==strip(b)==strip(d), strip(a)[-60:], strip(b)[-60:]
print(t(lambda: rep(b'abc')))
print(t(lambda: rep((x for x in [b'ab',b'cd']))))
print(t(lambda: rep((x for x in [b'ab',b'cd']),True)))
print(t(lambda: rep(iter([b'ab',b'cd']))))
print(t(lambda: rep([b'ab','cd'],True)))
f=tempfile.TemporaryFile(); f.write(b'x'*5000); f.seek(0)
print(t(lambda: rep(f)))
f=tempfile.TemporaryFile(); f.write(b'x'*5000); f.seek(100)
print(t(lambda: rep(f,True)))
bio=io.BytesIO(b'0123456789'); bio.seek(4)
print(t(lambda: rep(bio)))
print(t(lambda: rep(bytearray(b'abc'))))
print(t(lambda: rep('')))
print(t(lambda: rep([b'',b''],True)))
