import random, collections, sys, gzip, zlib, traceback
from httoop import Request, ServerStateMachine, ClientStateMachine
from httoop.status.types import StatusException
rnd=random.Random(11)
seeds_s=[
 b'GET /a/b?x=1&y=2 HTTP/1.1\r\nHost: example.com\r\nAccept: text/html;q=0.5, */*\r\nContent-Type: text/plain; charset=utf-8\r\nCookie: a=b; c=d\r\n\r\n',
 b'POST /x HTTP/1.1\r\nHost: a:80\r\nContent-Length: 5\r\nContent-Type: multipart/form-data; boundary=xx\r\nContent-Encoding: gzip\r\n\r\nhello',
 b'POST /x HTTP/1.1\r\nHost: a\r\nTransfer-Encoding: chunked\r\nTrailer: Foo\r\nContent-Disposition: attachment; filename*=utf-8\'\'%e2%82%ac.txt\r\n\r\n5;x=y\r\nhello\r\n0\r\nFoo: bar\r\n\r\n',
 b'GET http://u\xc3\xbc.example.com:8080/p%20q/%e2%82%ac?k=v%26 HTTP/1.0\r\nX-A: =?utf-8?b?4oaS?=\r\nUpgrade: h2c\r\nConnection: Upgrade, HTTP2-Settings\r\nHTTP2-Settings: AAA\r\n\r\n',
 b'PUT /x HTTP/1.1\r\nHost: [::1]:8080\r\nContent-Encoding: deflate\r\nContent-Length: %d\r\n\r\n%s' % (len(zlib.compress(b'abc')), zlib.compress(b'abc')),
 b'CONNECT example.com:443 HTTP/1.1\r\nHost: example.com:443\r\nAuthorization: Basic dTpw\r\nRange: bytes=0-1\r\n\r\n',
]
seeds_c=[
 b'HTTP/1.1 200 OK\r\nContent-Type: application/json\r\nContent-Length: 2\r\nSet-Cookie: a=b; expires=Wed, 09 Jun 2021 10:18:14 GMT\r\n\r\n{}',
 b'HTTP/1.1 200 OK\r\nContent-Encoding: gzip\r\nTransfer-Encoding: chunked\r\n\r\n%x\r\n%s\r\n0\r\n\r\n' % (len(gzip.compress(b'abc')), gzip.compress(b'abc')),
 b'HTTP/1.1 401 Unauthorized\r\nWWW-Authenticate: Digest realm="x", nonce="y", qop="auth"\r\nContent-Length: 0\r\n\r\n',
]
tokens=[b'%',b'%zz',b'%c0%ae',b'%ff',b'=?',b'=?x?b?!!?=',b'=?utf-8?q?=ff?=',b'\x00',b'\xff',b'\x80',b'"',b'\\',b';',b',',b'=',b':',b' ',b'\t',b'\r\n ',b'99999999999999999999',b'-1',b'0x',b'*',b'@',b'[',b']',b'//',b'..',b'xn--',b'.'*70,b'a'*70+b'.',b'q=',b'q=x',b"'",b"utf-8''%ff",b'*0*=',b'*1=',b'charset=x',b'boundary=',b'\n',b'\r']
def mutate(d):
    d=bytearray(d)
    for _ in range(rnd.randint(1,3)):
        i=rnd.randrange(len(d)+1)
        op=rnd.random()
        if op<0.5: d[i:i]=rnd.choice(tokens)
        elif op<0.7 and i<len(d): d[i]=rnd.randrange(256)
        elif op<0.85 and i<len(d): del d[i:i+rnd.randint(1,4)]
        else:
            j=rnd.randrange(len(d)+1); d[i:i]=d[j:j+rnd.randint(1,10)]
    return bytes(d)
esc=collections.Counter(); ex={}
def run(d,side):
    sm = ServerStateMachine('http','localhost',80) if side=='s' else ClientStateMachine()
    if side=='c': sm.request=Request()
    try: sm.parse(d)
    except StatusException: pass
    except BaseException as e:
        tb=traceback.extract_tb(e.__traceback__)
        site=[f for f in tb if '/repo/httoop' in f.filename][-1]
        k=(type(e).__name__, site.filename.replace('/repo/',''), site.lineno)
        esc[k]+=1; ex.setdefault(k,d)
N=0
for s in seeds_s:
    for _ in range(6000): run(mutate(s),'s'); N+=1
for s in seeds_c:
    for _ in range(6000): run(mutate(s),'c'); N+=1
# many chunks
run(b'POST / HTTP/1.1\r\nHost: a\r\nTransfer-Encoding: chunked\r\n\r\n'+b'1\r\na\r\n'*3000+b'0\r\n\r\n','s')
print(N,sum(esc.values()))
for k,c in esc.most_common(): print(k,c,'\n    ',ex[k][:160])
