import itertools, collections
from httoop.header.element import HeaderElement
alpha=['a','"','\\',';',',','=',' ',"'",'%','*','?','\t']
fails=collections.Counter(); total=0; ex=collections.defaultdict(list)
def cls(v):
    c=[]
    if '"' in v: c.append('dq')
    if '\\\\' in v: c.append('bsbs')
    elif '\\' in v: c.append('bs')
    if '=?' in v: c.append('=?')
    if v!=v.strip(): c.append('ws-edge')
    return tuple(c) or ('plain',)
for n in range(1,5):
    for t in itertools.product(alpha,repeat=n):
        v=''.join(t); total+=1
        try:
            b=bytes(HeaderElement('tok',{'p':v}))
            e=HeaderElement.parse(b)
            got=e.params.get('p')
            ok = (got==v and e.value=='tok' and len(e.params)==1)
        except Exception as ex_:
            ok=False; got='EXC '+type(ex_).__name__
        k=cls(v)
        fails[(k,ok)]+=1
        if len(ex[(k,ok)])<3: ex[(k,ok)].append((v,b if 'b' in dir() else None,got))
print(total)
for k in sorted(fails): print(k,fails[k],ex[k][:3])
