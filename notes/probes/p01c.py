import random, collections, re
from httoop import Request, ServerStateMachine, ClientStateMachine
from httoop.status.types import StatusException
def run(data, cuts, side):
    sm = ServerStateMachine('http','localhost',80) if side=='s' else ClientStateMachine()
    if side=='c': sm.request=Request()
    msgs=[]; err=None; lf=False; pos=0; pieces=[]
    for c in list(cuts)+[len(data)]:
        pieces.append(data[pos:c]); pos=c
    for p in pieces:
        try: out=sm.parse(p)
        except StatusException as e:
            err=('HTTP',int(e), str(e.description)); 
            lf = lf or getattr(sm,'line_end',b'\r\n')==b'\n'
            break
        except RecursionError: err=('PY','RecursionError'); break
        except Exception as e: err=('PY',type(e).__name__); break
        lf = lf or (sm.message is not None and sm.line_end==b'\n')
        for m in out:
            if side=='s': m=m[0]; msgs.append((bytes(m.method), m.uri.tuple, tuple(m.protocol), tuple(dict(m.headers).items()), bytes(m.body)))
            else: msgs.append((int(m.status), m.status.reason, tuple(m.protocol), tuple(dict(m.headers).items()), bytes(m.body)))
    idle = sm.message is None
    phase=None
    if not idle and err is None:
        st=sm.state; phase='startline' if not st['startline'] else 'headers' if not st['headers'] else 'body'
    return dict(msgs=msgs, err=err, left=(bytes(sm.buffer) if idle and err is None else None), lf=lf, phase=phase)
# LF-mode detection must also see messages completed within a call: wrap _reset_state? cheaper: detect via stream: emulate
import httoop.parser as P
orig=P.StateMachine.parse_startline
LFSEEN=[False]
def patched(self):
    try:
        return orig(self)
    finally:
        if self.line_end==b'\n': LFSEEN[0]=True
P.StateMachine.parse_startline=patched
import httoop.server as S
# server overrides parse_startline and calls super -> patched is used via super()
def classify(one, alt):
    if one['err']==alt['err']:
        if one['err'] is None: return 'ok' if (one['msgs']==alt['msgs'] and one['left']==alt['left']) else 'DIFF-noerr'
        n=min(len(one['msgs']),len(alt['msgs']))
        return 'ok' if one['msgs'][:n]==alt['msgs'][:n] else 'DIFF-msgs-before-error'
    return 'DIFF-err'
seeds=[
 b'GET / HTTP/1.1\r\nHost: a\r\n\r\n',
 b'POST /x HTTP/1.1\r\nHost: a\r\nContent-Length: 5\r\n\r\nhelloGET /y HTTP/1.1\r\nHost: b\r\nContent-Length: 0\r\n\r\nPUT /z HTTP/1.1\r\nHost: c\r\nContent-Length: 2\r\n\r\nab',
 b'POST /x HTTP/1.1\r\nHost: a\r\nTransfer-Encoding: chunked\r\nTrailer: Foo\r\n\r\n5;x=y\r\nhello\r\n3\r\nabc\r\n0\r\nFoo: bar\r\n\r\nGET /z HTTP/1.0\r\n\r\n',
 b'GET / HTTP/1.1\r\nHost: a\r\nX: 1\r\n 2\r\n\t3\r\nY: 4\r\nX: 5\r\nContent-Length: 0\r\n\r\nGET / HTTP/1.1\r\nHost: a\r\n\r\n',
 b'PUT / HTTP/1.1\r\nHost: a\r\nContent-Length: 3\r\nTransfer-Encoding: chunked\r\n\r\n2\r\nab\r\n0\r\n\r\n',
 b'POST / HTTP/1.1\r\nHost: a\r\nContent-Encoding: gzip\r\nContent-Length: 4\r\n\r\nabcd',
]
cseeds=[
 b'HTTP/1.1 200 OK\r\nContent-Length: 3\r\n\r\nabcHTTP/1.1 404 Not Found\r\n\r\nHTTP/1.1 200 OK\r\nA: b\r\n c\r\n\r\n',
 b'HTTP/1.1 200 OK\r\nTransfer-Encoding: chunked\r\nTrailer: X\r\n\r\n3\r\nabc\r\n1;e\r\nd\r\n0\r\nX: y\r\n\r\nHTTP/1.0 204 No Content\r\n\r\n',
]
rnd=random.Random(23)
def mutate(d):
    d=bytearray(d)
    for _ in range(rnd.randint(1,3)):
        op=rnd.randint(0,4)
        if not d: break
        i=rnd.randrange(len(d))
        if op==0: d[i]=rnd.choice(b'\r\n :;,=\x00\xff%/.0a-"\\\t')
        elif op==1: del d[i:i+rnd.randint(1,3)]
        elif op==2: d.insert(i,rnd.choice(b'\r\n :;,=\x00\xff%/.0a"\\\t'))
        elif op==3:
            j=rnd.randrange(len(d)); d[i:i]=d[j:j+rnd.randint(1,8)]
        else: del d[i:]   # truncate
    return bytes(d)
stats=collections.Counter(); ex={}
def check(d,side):
    if len(d)<2: return
    LFSEEN[0]=False
    one=run(d,[],side)
    alts=[run(d,range(1,len(d)),side)]+[run(d,sorted(rnd.sample(range(1,len(d)),min(len(d)-1,rnd.randint(1,5)))),side) for _ in range(6)]
    lf=LFSEEN[0]
    r411=any(x['err'] and x['err'][:2]==('HTTP',411) for x in [one]+alts)
    for alt in alts:
        c=classify(one,alt)
        if c=='ok': continue
        if lf: k='known-F17-LF'
        elif r411: k='known-F18-411'
        else:
            # F19: one in progress in headers, other raised a 400 header error
            a,b=(one,alt)
            pair=[a,b]
            inprog=[x for x in pair if x['err'] is None and x['phase']=='headers']
            raised=[x for x in pair if x['err'] and x['err'][1]==400 and ('header' in x['err'][2].lower())]
            if len(inprog)==1 and len(raised)==1 and inprog[0]['msgs']==raised[0]['msgs'][:len(inprog[0]['msgs'])]: k='known-F19-eager'
            else: k='NEW:'+c
        stats[k]+=1
        if k not in ex: ex[k]=(d,{kk:vv for kk,vv in one.items() if kk!='msgs'},len(one['msgs']),{kk:vv for kk,vv in alt.items() if kk!='msgs'},len(alt['msgs']))
        return
    stats['agree']+=1
for s in seeds:
    check(s,'s')
    for _ in range(4000): check(mutate(s),'s')
for s in cseeds:
    check(s,'c')
    for _ in range(4000): check(mutate(s),'c')
print(stats)
for k,v in ex.items():
    if k.startswith('NEW') : print(k, v)
for k,v in ex.items():
    if not k.startswith('NEW') : print(k, v[0][:100])
