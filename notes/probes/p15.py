import os,time,sys
from httoop.date import Date
for tz in ('UTC','Europe/Berlin','America/New_York','Australia/Lord_Howe'):
    os.environ['TZ']=tz; time.tzset()
    for ts in (0, 784111777, 1720000000, 1710000000, 253402300799, 1711846800, 951782400):
        b=bytes(Date(ts))
        try:
            back=int(Date(b))
        except Exception as e: back=repr(e)
        # rfc850 / asctime
        g=time.gmtime(ts)
        r850=time.strftime('%A, %d-%b-%y %H:%M:%S GMT',g).encode()
        asc=time.strftime('%a %b %d %H:%M:%S %Y',g).encode()
        res=[]
        for t in (r850,asc):
            try: res.append(int(Date(t)))
            except Exception as e: res.append(repr(e))
        print(tz,ts,b,back,res)
