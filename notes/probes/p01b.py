import re
exec(open('p01.py').read().split("n=0\nfor s in seeds")[0])
def bare_lf(d): return re.search(rb'(?<!\r)\n', d) is not None
bad.clear(); examples.clear()
n=0; skipped=0
rnd=random.Random(7)
def check2(d,side):
    global skipped
    if bare_lf(d): skipped+=1; return
    one=run(d,[],side)
    alts=[run(d,range(1,len(d)),side)]+[run(d,sorted(rnd.sample(range(1,len(d)),min(len(d)-1,rnd.randint(1,4)))),side) for _ in range(6)] if len(d)>1 else []
    if any(x[1] and x[1][:2]==('HTTP',411) for x in [one]+alts): skipped+=1; return
    for alt in alts:
        if not compat(one,alt):
            key=(one[1] and one[1][:2], alt[1] and alt[1][:2], len(one[0]), len(alt[0]))
            bad[key]+=1; examples.setdefault(key,(d,one,alt)); return
for s in seeds:
    for _ in range(3000): check2(mutate(s),'s'); n+=1
for s in cseeds:
    for _ in range(3000): check2(mutate(s),'c'); n+=1
print(n, skipped, sum(bad.values()))
for k,v in bad.most_common():
    print(k,v); d,one,alt=examples[k]; print('   ',d); print('   one:',one[1],len(one[0]),one[2]); print('   alt:',alt[1],len(alt[0]),alt[2])
