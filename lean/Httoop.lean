import Httoop.Basic
import Httoop.Model.Percent
import Httoop.Model.Form
import Httoop.Gen.Tables
import Httoop.Proofs.Bytes
import Httoop.Props.C13
