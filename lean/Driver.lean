import Httoop.Proto
import Httoop.Model.Utf8
import Httoop.Model.Percent
import Httoop.Model.Form
import Httoop.Ops.Uri
import Httoop.Ops.Auth
import Httoop.Ops.StartLine
import Httoop.Ops.Element
import Httoop.Ops.Range
import Httoop.Ops.Date
import Httoop.Ops.Headers
import Httoop.Ops.Inet
import Httoop.Ops.Parser
import Httoop.Ops.Digest
import Httoop.Ops.Codecs
import Httoop.Ops.Compose
/-
  Line protocol driver: one operation per input line, one canonical line out.
  `op arg …` — octet-string arguments are lower-case hex (`-` = empty), numbers decimal.
  Unknown operations and malformed arguments answer `bad-op` (never a default value).
-/
open Httoop

def opsPercent (op : String) (args : List String) : Option String :=
  match op, hexArgs args with
  | "pct.quote", some [safe, data] => some (hexOrDash (Percent.quote (safeOf safe) data))
  | "pct.unquote", some [data] => some (hexOrDash (Percent.unquote data))
  | "form.encode", some (safe :: rest) =>
    (pairUp rest).map fun ps => hexOrDash (Form.encode (safeOf safe) ps)
  | "form.decode", some [cs, data] => some (renderR renderPairs (Form.decodeCs (cs == [0x75]) data))
  | "query.decode", some [data] => some (renderR renderPairs (Form.queryDecode data))
  | "utf8.valid", some [data] => some (toString (utf8Valid data))
  | _, _ => none

def runOp (op : String) (args : List String) : String :=
  match opsPercent op args <|> Ops.opsUri op args <|> Ops.opsAuth op args <|> Ops.opsStartLine op args <|> Ops.opsElement op args <|> Ops.opsRange op args <|> Ops.opsDate op args <|> Ops.opsHeaders op args <|> Ops.opsInet op args <|> Ops.opsParser op args <|> Ops.opsDigest op args <|> Ops.opsCodecs op args <|> Ops.opsCompose op args with
  | some r => r
  | none => "bad-op"

partial def loop (h : IO.FS.Stream) (out : IO.FS.Stream) : IO Unit := do
  let line ← h.getLine
  if line.isEmpty then return ()
  let ws := (line.trimAscii.toString.splitOn " ").filter (· ≠ "")
  match ws with
  | [] => out.putStrLn "bad-op"
  | op :: args => out.putStrLn (runOp op args)
  loop h out

def main : IO Unit := do
  let out ← IO.getStdout
  loop (← IO.getStdin) out
  out.flush
