/-
  (import-free, so that it is compiled once and not again when the Date model changes)
  The year-of-era formula of `civil_from_days`, settled by complete enumeration of the 146 097 days
  of one 400-year era (kernel evaluation, binary splitting; ≈ 1–2 minutes once, cached by lake),
  and the month/day formulas by enumeration of the 366 days of a March-based year.
-/
namespace Httoop.Date

def allLtB (p : Nat → Bool) : Nat → Nat → Nat → Bool
  | 0, lo, hi => Nat.ble hi (lo + 1) && (Nat.ble hi lo || p lo)
  | f + 1, lo, hi =>
    if Nat.ble hi (lo + 1) then (Nat.ble hi lo || p lo)
    else allLtB p f lo ((lo + hi) / 2) && allLtB p f ((lo + hi) / 2) hi

theorem allLtB_sound (p : Nat → Bool) (f lo hi : Nat) (h : allLtB p f lo hi = true) :
    ∀ k, lo ≤ k → k < hi → p k = true := by
  induction f generalizing lo hi with
  | zero =>
    intro k h1 h2
    simp only [allLtB, Bool.and_eq_true, Bool.or_eq_true, Nat.ble_eq] at h
    have : k = lo := by omega
    subst this
    rcases h.2 with h3 | h3
    · omega
    · exact h3
  | succ f ih =>
    intro k h1 h2
    unfold allLtB at h
    split at h
    · rename_i hle
      simp only [Nat.ble_eq] at hle
      simp only [Bool.or_eq_true, Nat.ble_eq] at h
      have : k = lo := by omega
      subst this
      rcases h with h3 | h3
      · omega
      · exact h3
    · simp only [Bool.and_eq_true] at h
      by_cases hk : k < (lo + hi) / 2
      · exact ih _ _ h.1 k h1 hk
      · exact ih _ _ h.2 k (by omega) h2

def yoeOf (doe : Nat) : Nat := (doe - doe / 1460 + doe / 36524 - doe / 146096) / 365
def yearStart (yoe : Nat) : Nat := 365 * yoe + yoe / 4 - yoe / 100

def yearFactB (doe : Nat) : Bool :=
  Nat.blt (yoeOf doe) 400 && Nat.ble (yearStart (yoeOf doe)) doe && Nat.ble (doe - yearStart (yoeOf doe)) 365

set_option maxHeartbeats 20000000 in
theorem year_enum : allLtB yearFactB 18 0 146097 = true := by decide +kernel

/-- the year-of-era formula picks the year whose span contains the day -/
theorem year_fact (doe : Nat) (h : doe < 146097) :
    yoeOf doe < 400 ∧ yearStart (yoeOf doe) ≤ doe ∧ doe - yearStart (yoeOf doe) ≤ 365 := by
  have := allLtB_sound yearFactB 18 0 146097 year_enum doe (Nat.zero_le _) h
  simp only [yearFactB, Bool.and_eq_true, Nat.blt_eq, Nat.ble_eq] at this
  exact ⟨this.1.1, this.1.2, this.2⟩

/-- month and day of a day-of-year (March-based), and back -/
theorem month_fact (doy : Nat) (h : doy ≤ 365) :
    let mp := (5 * doy + 2) / 153
    let d := doy - (153 * mp + 2) / 5 + 1
    mp ≤ 11 ∧ 1 ≤ d ∧ d ≤ 31 ∧ (153 * mp + 2) / 5 + d - 1 = doy ∧ (mp ≥ 10 ↔ doy ≥ 306) := by
  intro mp d
  omega

end Httoop.Date
