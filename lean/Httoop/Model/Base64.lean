import Httoop.Basic
/-
  `base64.encodebytes` / `base64.decodebytes` (= `binascii.b2a_base64` per 57-octet chunk, and
  `binascii.a2b_base64` in its default non-strict mode), as used by httoop.util.encode_base64 /
  decode_base64.  Sextet arithmetic is written with `/` and `%` on `Nat` so that `omega` can reason
  about it.
-/
namespace Httoop.Base64
open Httoop

def alphabet : Bytes := "ABCDEFGHIJKLMNOPQRSTUVWXYZabcdefghijklmnopqrstuvwxyz0123456789+/".toUTF8.toList

/-- sextet (0..63) → alphabet character -/
def encChar (n : Nat) : Byte :=
  if n < 26 then UInt8.ofNat (0x41 + n)
  else if n < 52 then UInt8.ofNat (0x61 + (n - 26))
  else if n < 62 then UInt8.ofNat (0x30 + (n - 52))
  else if n == 62 then 0x2B else 0x2F

/-- alphabet character → sextet; `none` for every other octet (`table_a2b_base64[c] >= 64`) -/
def decChar (c : Byte) : Option Nat :=
  if isUpper c then some (c.toNat - 0x41)
  else if isLower c then some (c.toNat - 0x61 + 26)
  else if isDigit c then some (c.toNat - 0x30 + 52)
  else if c == 0x2B then some 62
  else if c == 0x2F then some 63
  else none

def pad : Byte := 0x3D

/-- `binascii.b2a_base64(data, newline=False)` -/
def b64 : Bytes → Bytes
  | a :: b :: c :: rest =>
    encChar (a.toNat / 4) :: encChar ((a.toNat % 4) * 16 + b.toNat / 16) ::
    encChar ((b.toNat % 16) * 4 + c.toNat / 64) :: encChar (c.toNat % 64) :: b64 rest
  | [a, b] =>
    [encChar (a.toNat / 4), encChar ((a.toNat % 4) * 16 + b.toNat / 16), encChar ((b.toNat % 16) * 4), pad]
  | [a] => [encChar (a.toNat / 4), encChar ((a.toNat % 4) * 16), pad, pad]
  | [] => []

/-- `base64.encodebytes`: 57-octet chunks, each followed by LF (`fuel` ≥ length). -/
def encodebytesF : Nat → Bytes → Bytes
  | 0, _ => []
  | fuel + 1, xs => if xs.isEmpty then [] else b64 (xs.take 57) ++ 0x0A :: encodebytesF fuel (xs.drop 57)

def encodebytes (xs : Bytes) : Bytes := encodebytesF xs.length xs

/-- decoder state of `binascii.a2b_base64`: position in the quad, carried bits, pad count -/
structure DSt where
  quad : Nat := 0
  left : Nat := 0
  pads : Nat := 0
  deriving Repr, DecidableEq

inductive B64Err where
  | oneMore      -- number of data characters cannot be 1 more than a multiple of 4
  | padding      -- Incorrect padding
  deriving Repr, DecidableEq

/-- the main loop of `a2b_base64` (non-strict): pads are counted, foreign octets skipped -/
def a2bLoop : Bytes → DSt → Bytes → Except B64Err Bytes
  | [], st, out =>
    if st.quad == 0 then .ok out.reverse
    else if st.quad == 1 then .error .oneMore
    else .error .padding
  | c :: rest, st, out =>
    if c == pad then
      if st.quad ≥ 2 && st.quad + (st.pads + 1) ≥ 4 then .ok out.reverse
      else if st.quad ≥ 2 then a2bLoop rest { st with pads := st.pads + 1 } out
      else a2bLoop rest st out
    else match decChar c with
      | none => a2bLoop rest st out
      | some v =>
        match st.quad with
        | 0 => a2bLoop rest { quad := 1, left := v, pads := 0 } out
        | 1 => a2bLoop rest { quad := 2, left := v % 16, pads := 0 } (UInt8.ofNat ((st.left * 4 + v / 16) % 256) :: out)
        | 2 => a2bLoop rest { quad := 3, left := v % 4, pads := 0 } (UInt8.ofNat ((st.left * 16 + v / 4) % 256) :: out)
        | _ => a2bLoop rest { quad := 0, left := 0, pads := 0 } (UInt8.ofNat ((st.left * 64 + v) % 256) :: out)

/-- `base64.decodebytes` / `binascii.a2b_base64` -/
def a2b (s : Bytes) : Except B64Err Bytes := a2bLoop s {} []

end Httoop.Base64
