import Httoop.Basic
/-
  Python `int(x)` / `int(x, 16)` on ASCII `bytes`/`str` input and httoop's `util.integer`.

  Grammar accepted by CPython (`PyLong_FromString`): optional surrounding whitespace, optional sign,
  for base 16 an optional `0x`/`0X` prefix (which may be followed by `_`), then digits with single
  underscores allowed *between* digits.  Returns `none` for `ValueError`.
  (CPython ≥ 3.11 also refuses decimal strings of more than 4300 digits — `sys.int_max_str_digits`;
  modelled, since it is a `ValueError` too.)
-/
namespace Httoop.PyInt

def digitVal (base : Nat) (b : Byte) : Option Nat :=
  let v := if isDigit b then some (b.toNat - 0x30)
    else if isLower b then some (b.toNat - 0x61 + 10)
    else if isUpper b then some (b.toNat - 0x41 + 10)
    else none
  match v with
  | some n => if n < base then some n else none
  | none => none

/-- digits with single inner underscores; `prevUnderscore`: the previous octet was `_`;
    `seen`: at least one digit so far. -/
def digitsLoop (base : Nat) : Bytes → (acc : Nat) → (seen prevUnderscore : Bool) → Option Nat
  | [], acc, seen, pu => if seen && !pu then some acc else none
  | b :: rest, acc, seen, pu =>
    if b == 0x5F then
      if seen && !pu then digitsLoop base rest acc seen true else none
    else match digitVal base b with
      | some d => digitsLoop base rest (acc * base + d) true false
      | none => none

/-- after whitespace and sign: base prefix handling -/
def magnitude (base : Nat) (s : Bytes) : Option Nat :=
  if base == 16 then
    match s with
    | 0x30 :: x :: rest =>
      if x == 0x78 || x == 0x58 then
        -- "0x" then optional single underscore then digits
        match rest with
        | 0x5F :: r => digitsLoop 16 r 0 false false
        | r => digitsLoop 16 r 0 false false
      else digitsLoop 16 s 0 false false
    | _ => digitsLoop 16 s 0 false false
  else digitsLoop base s 0 false false

def countDigits (s : Bytes) : Nat := (s.filter fun b => b != 0x5F).length

/-- an optional sign -/
def stripSign (t : Bytes) : Bool × Bytes :=
  match t with
  | 0x2D :: r => (true, r)
  | 0x2B :: r => (false, r)
  | r => (false, r)

/-- `int(s, base)` for base 10 or 16 -/
def pyInt (base : Nat) (s : Bytes) : Option Int :=
  let st := stripSign (strip isPySpace s)
  if base == 10 && countDigits st.2 > 4300 then none else
  match magnitude base st.2 with
  | some n => some (if st.1 then -(Int.ofNat n) else Int.ofNat n)
  | none => none

/-- `httoop.util.integer(number, base)` on `bytes`: `int()` and then a `ValueError` if a SPACE occurs. -/
def integerBytes (base : Nat) (s : Bytes) : Option Int :=
  match pyInt base s with
  | some n => if s.contains 0x20 then none else some n
  | none => none

end Httoop.PyInt
