import Httoop.Model.PyInt
/-
  Start-line components: httoop/messages/method.py, protocol.py, status/status.py and the field
  splitting of Request.parse / Response.parse (request.py, response.py).

  The three regular expressions are modelled by hand-written recognisers, valid for exactly the
  pattern texts checked in `Props/C18.regex_texts` (T1) and probed over all 256 single octets:
    METHOD_RE   ^[A-Z0-9$-_.]{1,20}\Z  (IGNORECASE)  — NB the class contains the *range* `$`..`_`
    STATUS_RE   ^([1-5]\d{2})(?:\s+([\s\w]*))\Z
    PROTOCOL_RE ^(HTTP)/(\d+)\.(\d+)\Z
-/
namespace Httoop.StartLine
open Httoop

/-! ### Python `bytes.split(None, n)` -/

def splitWsF : Nat → Nat → Bytes → List Bytes
  | 0, _, _ => []
  | fuel + 1, n, s =>
    let s := s.dropWhile isPySpace
    if s.isEmpty then []
    else if n == 0 then [s]
    else (s.takeWhile fun b => !isPySpace b) :: splitWsF fuel (n - 1) (s.dropWhile fun b => !isPySpace b)

/-- `s.split(None, n)` -/
def splitWs (n : Nat) (s : Bytes) : List Bytes := splitWsF (s.length + 1) n s

/-! ### Method -/

def isMethodChar (b : Byte) : Bool := (0x24 ≤ b && b ≤ 0x5F) || isLower b

/-- `Method.parse`: `METHOD_RE.match(method)` -/
def methodOk (m : Bytes) : Bool := 1 ≤ m.length && m.length ≤ 20 && m.all isMethodChar

def parseMethod (m : Bytes) : R Bytes := if methodOk m then .ok m else .error .invalidLine

/-! ### Protocol -/

def sHTTPslash : Bytes := [0x48, 0x54, 0x54, 0x50, 0x2F]

/-- decimal digits → number (`int(match.group(n))`); CPython refuses more than 4300 digits with a
    `ValueError`, which `Protocol.parse` turns into `InvalidLine` since the F28 repair. -/
def decNat (s : Bytes) : Nat := s.foldl (fun a b => a * 10 + (b.toNat - 0x30)) 0

def parseProtocol (p : Bytes) : R (Nat × Nat) :=
  if !startsWith p sHTTPslash then .error .invalidLine
  else
    let rest := p.drop 5
    match splitOnce [0x2E] rest with
    | none => .error .invalidLine
    | some (a, b) =>
      if a.isEmpty || b.isEmpty || !a.all isDigit || !b.all isDigit then .error .invalidLine
      else if a.length > 4300 || b.length > 4300 then .error .invalidLine       -- `except ValueError: raise InvalidLine` (F28 repair)
      else .ok (decNat a, decNat b)

/-- `b'%d' % n` for a natural number (`fuel` > number of digits) -/
def natToDecF : Nat → Nat → Bytes
  | 0, _ => []
  | fuel + 1, n => if n < 10 then [UInt8.ofNat (0x30 + n)] else natToDecF fuel (n / 10) ++ [UInt8.ofNat (0x30 + n % 10)]

def natToDec (n : Nat) : Bytes := natToDecF (n + 1) n

/-- `Protocol.compose`: `b'%s/%d.%d'` -/
def composeProtocol (v : Nat × Nat) : Bytes := sHTTPslash ++ natToDec v.1 ++ 0x2E :: natToDec v.2

/-- `(a, b) < (c, d)` on tuples -/
def protoLt (x y : Nat × Nat) : Bool := x.1 < y.1 || (x.1 == y.1 && x.2 < y.2)
def protoEq (x y : Nat × Nat) : Bool := x.1 == y.1 && x.2 == y.2
def protoGt (x y : Nat × Nat) : Bool := protoLt y x
def protoLe (x y : Nat × Nat) : Bool := protoEq x y || protoLt x y     -- Semantic.__le__
def protoGe (x y : Nat × Nat) : Bool := protoEq x y || protoGt x y

/-- `min(a, b)`: `b if b < a else a` -/
def protoMin (a b : Nat × Nat) : Nat × Nat := if protoLt b a then b else a

def serverProtocol : Nat × Nat := (1, 1)

/-- `check_request_protocol` + `set_response_protocol` of the server state machine -/
def negotiate (req : Nat × Nat) : R (Nat × Nat) :=
  if protoGt req serverProtocol then .error (.status 505) else .ok (protoMin req serverProtocol)

/-! ### Status -/

def isWordChar (b : Byte) : Bool := isAlnum b || b == 0x5F

/-- the reason-phrase class of STATUS_RE since the F53 repair: `[\s\x21-\x7e]` -/
def isReasonChar (b : Byte) : Bool := isPySpace b || (0x21 ≤ b && b ≤ 0x7E)

/-- `Status.parse`: `STATUS_RE` = `^([1-5]\d{2})(?:\s+([\s\x21-\x7e]*))?\Z`; group 2 is what follows the (greedy) whitespace run -/
def parseStatus (s : Bytes) : R (Nat × Bytes) :=
  match s with
  | d1 :: d2 :: d3 :: rest =>
    if !(0x31 ≤ d1 && d1 ≤ 0x35 && isDigit d2 && isDigit d3) then .error .invalidLine
    else match rest with
      | [] => .ok (decNat [d1, d2, d3], [])       -- the reason phrase may be missing altogether (the F51 repair)
      | w :: _ =>
        if !isPySpace w then .error .invalidLine
        else if !rest.all isReasonChar then .error .invalidLine
        else .ok (decNat [d1, d2, d3], rest.dropWhile isPySpace)
  | _ => .error .invalidLine

/-- `Status.compose`: `b'%d %s'` -/
def composeStatus (code : Nat) (reason : Bytes) : Bytes := natToDec code ++ 0x20 :: reason

/-! ### the lines -/

/-- `Request.parse` up to the URI: (method, target, version) -/
def splitRequestLine (line : Bytes) : R (Bytes × Bytes × Bytes) :=
  match splitWs 2 (strip isPySpace line) with
  | [m, u, v] => .ok (m, u, v)
  | _ => .error .invalidLine

/-- the non-URI part of `Request.parse`: protocol first, then method (order of the source) -/
def parseRequestLine (line : Bytes) : R (Bytes × Bytes × (Nat × Nat)) := do
  let (m, u, v) ← splitRequestLine line
  let ver ← parseProtocol v
  let m ← parseMethod m
  pure (m, u, ver)

/-- `Response.parse` -/
def parseResponseLine (line : Bytes) : R ((Nat × Nat) × Nat × Bytes) :=
  match splitWs 1 (strip isPySpace line) with
  | [v, st] => do
    let ver ← parseProtocol v
    let (code, reason) ← parseStatus st
    pure (ver, code, reason)
  | _ => .error .invalidLine

/-- `Response.compose` -/
def composeResponseLine (ver : Nat × Nat) (code : Nat) (reason : Bytes) : Bytes :=
  composeProtocol ver ++ 0x20 :: composeStatus code reason ++ [0x0D, 0x0A]

end Httoop.StartLine
