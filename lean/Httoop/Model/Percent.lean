import Httoop.Basic
/-
  Model of httoop/uri/percent_encoding.py (class Percent).

  * `quote` mirrors `b''.join(b'%%%X' % (ord(d),) if d not in charset else d ...)` with
    `charset` minus `%`.  NOTE `%X` is *not* zero padded: octets below 0x10 are written with a
    single hexadecimal digit.  That is what the source does (finding F1) and the model keeps it;
    `quoteFixed` is the `%02X` variant used for the "after repair" theorem.
  * `unquote` mirrors `_decode_iter`: split on `%`, then for every item after the first look
    `item[:2]` up in `HEX_MAP` (the 22×22 two-hex-digit keys, both cases).  Items contain no `%`,
    so this is "`%` followed by two hex digits decodes, any other `%` is literal".
-/
namespace Httoop.Percent

/-- `%X` of an octet: one digit below 0x10, two otherwise (Python `'%X' % n`). -/
def fmtX (b : Byte) : Bytes :=
  if b < 0x10 then [hexDigitU b] else [hexDigitU (b >>> 4), hexDigitU (b &&& 0x0F)]

/-- `%02X`. -/
def fmt02X (b : Byte) : Bytes := [hexDigitU (b >>> 4), hexDigitU (b &&& 0x0F)]

/-- effective safe test: in `charset` and not `%`. -/
def isSafe (safe : Byte → Bool) (b : Byte) : Bool := safe b && b != 0x25

def quoteByte (safe : Byte → Bool) (b : Byte) : Bytes :=
  if isSafe safe b then [b] else 0x25 :: fmtX b

def quote (safe : Byte → Bool) (s : Bytes) : Bytes := s.flatMap (quoteByte safe)

def quoteByteFixed (safe : Byte → Bool) (b : Byte) : Bytes :=
  if isSafe safe b then [b] else 0x25 :: fmt02X b

def quoteFixed (safe : Byte → Bool) (s : Bytes) : Bytes := s.flatMap (quoteByteFixed safe)

def unquote : Bytes → Bytes
  | [] => []
  | [a] => [a]
  | [a, b] => [a, b]
  | a :: b :: c :: rest =>
    if a == 0x25 && isHexDigit b && isHexDigit c then
      (hexVal b * 16 + hexVal c) :: unquote rest
    else a :: unquote (b :: c :: rest)

/-- membership of an octet in a `bytes` constant used as a set -/
def memSet (set : Bytes) (b : Byte) : Bool := set.contains b

end Httoop.Percent
