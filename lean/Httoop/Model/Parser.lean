import Httoop.Model.Headers
import Httoop.Model.Host
import Httoop.Model.Uri
import Httoop.Model.StartLine
/-
  Model of httoop/parser.py (StateMachine), httoop/server/__init__.py (ServerStateMachine) and
  httoop/client/__init__.py (ClientStateMachine), as repaired by the `fix:` commits
  (F5, F8, F9, F12, F13, F15, F28, F34, F35 and the URI ones).

  `feed side st data` is one call of `parse(data)`: the new state and the messages it returned, or the
  status error it raised (a raised error loses the messages completed in the same call — exactly as
  the Python generator expression does).  Exceptions are data: `.status c` is what `parse()` raises for
  an HTTP error, `.escape k` any other Python exception (none is left after the repairs, apart from
  the parts the model does not contain: `needsOracle`).

  Not in the model: gzip/deflate decompression (zlib), RFC 2047 encoded words in consulted fields,
  internationalised host names — `needsOracle`.
-/
namespace Httoop.Parser
open Httoop

inductive Side where | server | client
  deriving Repr, DecidableEq

structure Msg where
  method : Bytes := [0x47, 0x45, 0x54]
  uri : Uri.Uri := {}
  proto : Nat × Nat := (1, 1)
  status : Nat := 200
  reason : Bytes := [0x4F, 0x4B]
  headers : Headers.Coll := []
  body : Bytes := []
  respProto : Nat × Nat := (1, 1)          -- server side: protocol of the prepared response
  deriving Repr, DecidableEq

structure Cur where
  msg : Msg := {}
  lf : Bool := false                       -- `line_end == LF`
  startline : Bool := false
  headersDone : Bool := false
  trailer : Bool := false
  msgLen : Option Nat := none
  chunked : Bool := false
  coding : Host.Coding := .none            -- content codec
  deriving Repr, DecidableEq

structure St where
  buf : Bytes := []
  cur : Option Cur := none
  deriving Repr, DecidableEq

structure Env where
  uri : Uri.Env
  sets : Uri.Sets
  reg : Headers.Registry
  forbidden : List Bytes                   -- Trailer.forbidden_headers
  defaultScheme : Bytes := [0x68, 0x74, 0x74, 0x70]
  defaultHost : Bytes := "localhost".toUTF8.toList
  defaultPort : Nat := 80
  requestIsConnect : Bool := false         -- client side: `self.request.method == 'CONNECT'`

def CRLF : Bytes := [0x0D, 0x0A]
def LF : Bytes := [0x0A]
def lineEnd (c : Cur) : Bytes := if c.lf then LF else CRLF

def bad : PyExc := .status 400

/-- `except (InvalidHeader, InvalidLine, InvalidURI, InvalidBody) as exc: raise BAD_REQUEST` -/
def to400 {α} : R α → R α
  | .error .invalidHeader => .error bad
  | .error .invalidLine => .error bad
  | .error .invalidURI => .error bad
  | .error .invalidBody => .error bad
  | r => r

/-- `except Invalid as exc: raise NOT_IMPLEMENTED` -/
def to501 {α} : R α → R α
  | .error .invalidHeader => .error (.status 501)
  | .error .invalidLine => .error (.status 501)
  | .error .invalidURI => .error (.status 501)
  | .error .invalidBody => .error (.status 501)
  | .error .invalidDate => .error (.status 501)
  | r => r

def httpCls (E : Env) : Option (Bytes × Nat) := Uri.lookupScheme E.uri.schemes [0x68, 0x74, 0x74, 0x70]

def sCONNECT : Bytes := "CONNECT".toUTF8.toList

/-- `isinstance(uri, (HTTP, HTTPS))` -/
def isHttpCls (u : Uri.Uri) : Bool :=
  match u.cls with
  | some (n, _) => n == [0x68, 0x74, 0x74, 0x70] || n == [0x68, 0x74, 0x74, 0x70, 0x73]
  | none => false

/-- `Request.validate_request_uri` -/
def validateRequestUri (method : Bytes) (uri : Uri.Uri) : R Unit :=
  if !isHttpCls uri then .error .invalidURI
  else if !uri.fragment.isEmpty || !uri.username.isEmpty || !uri.password.isEmpty then .error .invalidURI
  else if startsWith uri.path [0x2F, 0x2F] then .error .invalidURI
  else if !uri.path.isEmpty && uri.path != [0x2A] && !startsWith uri.path [0x2F] then .error .invalidURI
  else if method == sCONNECT && (!uri.scheme.isEmpty || !uri.path.isEmpty || !uri.query.isEmpty || uri.host.isEmpty) then .error .invalidURI
  else .ok ()

/-- `Request.parse(line)` -/
def parseRequestLine (E : Env) (m : Msg) (line : Bytes) : R Msg :=
  match StartLine.splitRequestLine line with
  | .error e => .error e
  | .ok (method, target, version) =>
    match StartLine.parseProtocol version with
    | .error e => .error e
    | .ok proto =>
      match StartLine.parseMethod method with
      | .error e => .error e
      | .ok method =>
        if startsWith target [0x2F, 0x2F] then .error .invalidURI
        else
          let target := if method == sCONNECT then [0x2F, 0x2F] ++ target else target
          -- `self.uri` is a fresh `HTTP(b'/')` object: class HTTP, parse keeps that class for scheme-less targets
          match Uri.parse E.uri (httpCls E) target with
          | .error e => .error e
          | .ok uri =>
            match validateRequestUri method uri with
            | .error e => .error e
            | .ok _ => .ok { m with method := method, uri := uri, proto := proto }

/-- `Response.parse(line)` -/
def parseStatusLine (m : Msg) (line : Bytes) : R Msg := do
  let (proto, code, reason) ← StartLine.parseResponseLine line
  pure { m with proto := proto, status := code, reason := reason }

/-- `validate_request_uri_scheme`: a scheme-less target gets the configured scheme, host and port -/
def applyDefaults (E : Env) (n : Uri.Uri) : Uri.Uri :=
  if !n.scheme.isEmpty then n
  else
    let u := Uri.setScheme E.uri.schemes n E.defaultScheme
    { u with host := E.defaultHost, port := some E.defaultPort }

/-- `MOVED_PERMANENTLY(URI(path=canonical))`: the Location is the canonical path, composed (F54, F55 repairs: an absolute
    request path stays absolute, and the decoded text is percent-encoded, not parsed); an `InvalidURI` from composing
    becomes the 400 of `parse()` -/
def movedPermanently (E : Env) (orig path : Bytes) : PyExc :=
  let canonical := if startsWith orig [0x2F] && !startsWith path [0x2F] then 0x2F :: path else path
  match to400 (Uri.compose E.sets { path := canonical }) with
  | .error e => e
  | .ok _ => .status 301

/-- server: `on_startline_complete` = on_uri_complete then on_protocol_complete -/
def serverStartlineComplete (E : Env) (m : Msg) : R Msg :=
  -- `_check_uri_max_length(bytes(self.request.uri))`
  match to400 (Uri.compose E.sets m.uri) with
  | .error e => .error e
  | .ok _ =>
    -- sanitize_request_uri_path
    let n := Uri.normalize E.uri m.uri
    if n.path != m.uri.path then .error (movedPermanently E m.uri.path n.path)
    else
      -- on_protocol_complete
      match StartLine.negotiate m.proto with
      | .error e => .error e
      | .ok rp => .ok { m with uri := applyDefaults E n, respProto := rp }

def sHost : Bytes := "Host".toUTF8.toList
def sConnection : Bytes := "Connection".toUTF8.toList
def sUpgrade : Bytes := "Upgrade".toUTF8.toList
def sH2S : Bytes := "HTTP2-Settings".toUTF8.toList
def sCE : Bytes := "Content-Encoding".toUTF8.toList
def sCT : Bytes := "Content-Type".toUTF8.toList
def sCL : Bytes := "Content-Length".toUTF8.toList
def sTE : Bytes := "Transfer-Encoding".toUTF8.toList
def sTrailer : Bytes := "Trailer".toUTF8.toList
def schunked : Bytes := "chunked".toUTF8.toList

/-- `uri.port = host.port` through the port setter -/
def setPortOpt (u : Uri.Uri) (p : Option Nat) : R Uri.Uri :=
  match p with
  | none => .ok { u with port := u.PORT }
  | some n => if 0 < n && n ≤ 65535 then .ok { u with port := some n } else .error .invalidURI

/-- Content-Type: only what can make `headers.element('Content-Type')` raise is modelled -/
def contentTypeOk (v : Bytes) : R Unit :=
  match Element.parse v with
  | .error e => .error e
  | .ok el =>
    match el.params.find? (·.1 == "boundary".toUTF8.toList) with
    | none => .ok ()
    | some (_, b) =>
      -- `boundary.strip('"')`, then VALID_BOUNDARY `^[ -~]{0,200}[!-~]$`
      let b := strip (· == 0x22) b
      if b.isEmpty then .error .invalidHeader
      else if b.contains 0x0A then .error Element.needsOracle
      else if b.length ≤ 201 && b.all (fun c => 0x20 ≤ c && c ≤ 0x7E) && (b.getLast?.getD 0x20) != 0x20 then .ok ()
      else .error .invalidHeader

/-- shared part of `on_headers_complete`: content coding and content type -/
def baseHeadersComplete (c : Cur) : R Cur :=
  let coding : R Host.Coding := match c.msg.headers.get? sCE with
    | some v => to501 (Host.contentCoding v)
    | none => .ok .none
  match coding with
  | .error e => .error e
  | .ok coding =>
    match (match c.msg.headers.get? sCT with | some v => contentTypeOk v | none => .ok ()) with
    | .error e => .error e
    | .ok _ => .ok { c with coding := coding }

/-- `set_request_uri_host` -/
def setRequestHost (m : Msg) : R Msg :=
  match m.headers.get? sHost with
  | none => .ok m
  | some v =>
    match Host.parse v with
    | .error e => .error e
    | .ok h =>
      match setPortOpt { m.uri with host := Element.latin1ToUtf8 h.host } h.port with
      | .error e => .error e
      | .ok u => .ok { m with uri := u }

/-- `check_http2_upgrade` with `HTTP2 is None`: only the parsing side effects remain -/
def checkUpgrade (m : Msg) : R Unit :=
  match m.headers.get? sConnection with
  | none => .ok ()
  | some v =>
    match Host.values v with
    | .error e => .error e
    | .ok conn =>
      if conn.contains sUpgrade && conn.contains sH2S && (m.headers.get? sUpgrade).isSome then
        match Element.parse ((m.headers.get? sUpgrade).getD []) with
        | .error e => .error e
        | .ok up =>
          if up.value == "h2c".toUTF8.toList && (m.headers.get? sH2S).isSome then
            match Element.parse ((m.headers.get? sH2S).getD []) with
            | .error e => .error e
            | .ok _ => .ok ()
          else .ok ()
      else .ok ()

/-- server `on_headers_complete` -/
def serverHeadersComplete (_E : Env) (c : Cur) : R Cur :=
  if StartLine.protoGe c.msg.proto (1, 1) && (c.msg.headers.get? sHost).isNone then .error bad
  else match setRequestHost c.msg with
    | .error e => .error e
    | .ok m => match checkUpgrade m with
      | .error e => .error e
      | .ok _ => baseHeadersComplete { c with msg := m }

/-- client `on_headers_complete` -/
def clientHeadersComplete (E : Env) (c : Cur) : R Cur :=
  match baseHeadersComplete c with
  | .error e => .error e
  | .ok c =>
    if E.requestIsConnect then .ok { c with msg := { c.msg with headers := (c.msg.headers.del sTE).del sCL } }
    else .ok c

/-- what `int(str)` strips, for ISO-8859-1 text: the C `isspace` set, and NEL / NBSP (non-ASCII white space is
    first turned into SP by `_PyUnicode_TransformDecimalAndSpaceToASCII`; the ASCII separators 0x1C-0x1F are not) -/
def isUniSpace (b : Byte) : Bool := isPySpace b || b == 0x85 || b == 0xA0

/-- `integer(text)` for a `str` (ISO-8859-1 decoded header value) -/
def integerStr (s : Bytes) : Option Int :=
  if s.contains 0x5F then none
  else
    let t := strip isUniSpace s
    let st := PyInt.stripSign t
    if PyInt.countDigits st.2 > 4300 then none
    else match PyInt.digitsLoop 10 st.2 0 false false with
      | some n => some (if st.1 then -(Int.ofNat n) else Int.ofNat n)
      | none => none

/-- `determine_message_length` -/
def determineLength (c : Cur) : R Cur :=
  let m := c.msg
  match m.headers.get? sTE with
  | some te =>
    if StartLine.protoGe m.proto (1, 1) then
      if Element.rfc2047Branch te then .error Element.needsOracle
      else if te.map toLower == schunked then .ok { c with chunked := true }
      else .error (.status 501)
    else lengthFromCL c
  | none => lengthFromCL c
where
  lengthFromCL (c : Cur) : R Cur :=
    match c.msg.headers.get? sCL with
    | none => .ok { c with msgLen := some 0 }
    | some v =>
      if Element.rfc2047Branch v then .error Element.needsOracle
      else match integerStr v with
        | some n => if n < 0 then .error bad else .ok { c with msgLen := some n.toNat }
        | none => .error bad

/-- `__parse_chunk_size` on the size line -/
def chunkSize (line : Bytes) : R Nat :=
  let sz := strip isPySpace (match splitOnce [0x3B] line with | some (a, _) => a | none => line)
  match PyInt.integerBytes 16 sz with
  | some n => if n < 0 then .error bad else .ok n.toNat
  | none => .error bad

/-- the loop of `merge_trailer_into_header` over the announced names -/
def mergeGo (E : Env) : List Bytes → Headers.Coll → Headers.Coll → R (Headers.Coll × Headers.Coll)
  | [], hs, ts => .ok (hs, ts)
  | n :: ns, hs, ts =>
    match Element.utf8ToLatin1 n with
    | none => .error bad               -- a non-Latin-1 name cannot be a field name
    | some nl =>
      match to400 (Headers.pop E.reg ts nl) with
      | .error e => .error e
      | .ok (v, ts') =>
        match v with
        | none => mergeGo E ns hs ts'
        | some val => match to400 (Headers.append E.reg hs nl val) with
          | .error e => .error e
          | .ok hs' => mergeGo E ns hs' ts'

/-- the names the Trailer field of a message announces (none without the field) -/
def announced (E : Env) (m : Msg) : R (List Bytes) :=
  match m.headers.get? sTrailer with
  | some v => to400 (Host.trailerNames Headers.title E.forbidden v)
  | none => .ok []

/-- `merge_trailer_into_header` -/
def mergeTrailers (E : Env) (m : Msg) (trailers : Headers.Coll) : R Msg :=
  match announced E m with
  | .error e => .error e
  | .ok names =>
    match mergeGo E names m.headers trailers with
    | .error e => .error e
    | .ok (hs, rest) => if !rest.isEmpty then .error bad else .ok { m with headers := hs }

inductive Step where
  | wait (c : Cur) (buf : Bytes)          -- NOT_RECEIVED_YET
  | done (c : Cur) (buf : Bytes)
  deriving Repr

/-- `parse_startline` -/
def parseStartline (E : Env) (side : Side) (c : Cur) (buf : Bytes) : R Step :=
  let c := if !contains buf CRLF then (if contains buf LF then { c with lf := true } else c) else c
  if !contains buf CRLF && !contains buf LF then .ok (.wait c buf)
  else
    match splitOnce (lineEnd c) buf with
    | none => .ok (.wait c buf)           -- unreachable
    | some (line, rest) =>
      let r := match side with
        | .server => to400 (parseRequestLine E c.msg line)
        | .client => to400 (parseStatusLine c.msg line)
      match r with
      | .error e => .error e
      | .ok m => .ok (.done { c with msg := m } rest)

def rsplitOnce (sep a : Bytes) : Option (Bytes × Bytes) :=
  match splitOnce sep.reverse a.reverse with
  | some (l, r) => some (r.reverse, l.reverse)
  | none => none

def parseHeaderBlock (E : Env) (c : Cur) (block : Bytes) : R Cur :=
  if block.isEmpty then .ok c
  else match to400 (Headers.parse E.reg c.msg.headers block) with
    | .error e => .error e
    | .ok hs => .ok { c with msg := { c.msg with headers := hs } }

/-- `_parse_single_headers`: eager consumption of complete header lines -/
def parseSingleHeaders (E : Env) (c : Cur) (buf : Bytes) : R (Cur × Bytes) :=
  let le := lineEnd c
  let (headers, sep, rest) :=
    if Element.endsWith buf le then
      let inner := buf.take (buf.length - le.length)
      match rsplitOnce le inner with
      | some (h, r) => (h, true, r ++ le)
      | none => ([], false, inner ++ le)
    else match rsplitOnce le buf with
      | some (h, r) => (h, true, r)
      | none => ([], false, buf)
  let first := rest.head?
  if !headers.isEmpty && sep && !(first.isNone || first == some 0x09 || first == some 0x20) then
    match parseHeaderBlock E c headers with
    | .error e => .error e
    | .ok c' => .ok (c', rest)
  else .ok (c, buf)

/-- `parse_headers` -/
def parseHeaders (E : Env) (c : Cur) (buf : Bytes) : R Step :=
  let le := lineEnd c
  if startsWith buf le then .ok (.done c (buf.drop le.length))
  else match splitOnce (le ++ le) buf with
    | none => match parseSingleHeaders E c buf with
      | .error e => .error e
      | .ok (c', b') => .ok (.wait c' b')
    | some (block, rest) => match parseHeaderBlock E c block with
      | .error e => .error e
      | .ok c' => .ok (.done c' rest)

/-- `parse_trailers` -/
def parseTrailers (E : Env) (c : Cur) (buf : Bytes) : R Step :=
  let le := lineEnd c
  if startsWith buf le then .ok (.done c (buf.drop le.length))
  else match splitOnce (le ++ le) buf with
    | none => .ok (.wait c buf)
    | some (block, rest) =>
      match to400 (Headers.parse E.reg [] block) with
      | .error e => .error e
      | .ok ts => match mergeTrailers E c.msg ts with
        | .error e => .error e
        | .ok m => .ok (.done { c with msg := m } rest)

/-- `parse_chunked_body` (the loop of the F9 repair); `fuel` ≥ buffer length + 1 -/
def parseChunked (E : Env) : Nat → Cur → Bytes → R Step
  | 0, c, buf => .ok (.wait c buf)
  | fuel + 1, c, buf =>
    if c.trailer then parseTrailers E c buf
    else
      let le := lineEnd c
      match splitOnce le buf with
      | none => .ok (.wait c buf)
      | some (line, rest) =>
        match chunkSize line with
        | .error e => .error e
        | .ok size =>
          if rest.length < le.length + size then .ok (.wait c buf)
          else
            let part := rest.take size
            let rest := rest.drop size
            let c := { c with msg := { c.msg with body := c.msg.body ++ part } }
            if size == 0 then parseTrailers E { c with trailer := true } rest
            else if !startsWith rest le then .error bad      -- InvalidBody → 400
            else parseChunked E fuel c (rest.drop le.length)

/-- the Content-Length branch of `parse_body` -/
def bodyWithLength (c : Cur) (n : Nat) (buf : Bytes) : Step :=
  if n == 0 then .done c buf
  else
    let part := buf.take n
    let c' := { c with msg := { c.msg with body := c.msg.body ++ part }, msgLen := some (n - part.length) }
    if part.length < n then .wait c' (buf.drop n) else .done c' (buf.drop n)

/-- `parse_body` -/
def parseBody (E : Env) (c : Cur) (buf : Bytes) : R Step :=
  match (if c.msgLen.isNone && !c.chunked then determineLength c else .ok c) with
  | .error e => .error e
  | .ok c =>
    if c.chunked then parseChunked E (buf.length + 2) c buf
    else match c.msgLen with
      | some n => .ok (bodyWithLength c n buf)
      | none => .ok (.done c buf)

def natToDec := StartLine.natToDec

/-- `on_body_complete` -/
def bodyComplete (side : Side) (c : Cur) (buf : Bytes) : R Msg :=
  let m := c.msg
  if side == .server && !buf.isEmpty && (m.headers.get? sCL).isNone && !c.chunked then .error (.status 411)
  else if c.coding != .none then .error Element.needsOracle                -- body.decompress(): zlib
  else
    -- set_content_length
    let hs := if c.chunked || (m.headers.get? sCL).isNone then m.headers.put sCL (natToDec m.body.length) else m.headers
    let hs := if c.chunked then hs.del sTE else hs
    let m := { m with headers := hs }
    if side == .server && (m.method == "HEAD".toUTF8.toList || m.method == [0x47, 0x45, 0x54] || m.method == "TRACE".toUTF8.toList)
        && !m.body.isEmpty then .error bad
    else .ok m

/-- start-line phase of one loop iteration: `(state, buffer, proceed?)` -/
def startPhase (E : Env) (side : Side) (c : Cur) (buf : Bytes) : R (Cur × Bytes × Bool) :=
  if c.startline then .ok (c, buf, true)
  else match parseStartline E side c buf with
    | .error e => .error e
    | .ok (.wait c b) => .ok (c, b, false)
    | .ok (.done c b) =>
      match (match side with | .server => to400 (serverStartlineComplete E c.msg) | .client => .ok c.msg) with
      | .error e => .error e
      | .ok m => .ok ({ c with msg := m, startline := true }, b, true)

/-- header phase -/
def headerPhase (E : Env) (side : Side) (c : Cur) (buf : Bytes) : R (Cur × Bytes × Bool) :=
  if c.headersDone then .ok (c, buf, true)
  else match parseHeaders E c buf with
    | .error e => .error e
    | .ok (.wait c b) => .ok (c, b, false)
    | .ok (.done c b) =>
      match (match side with | .server => to400 (serverHeadersComplete E c) | .client => to400 (clientHeadersComplete E c)) with
      | .error e => .error e
      | .ok c => .ok ({ c with headersDone := true }, b, true)

/-- `_parse`: the outer loop; `fuel` ≥ buffer length + 1 -/
def run (E : Env) (side : Side) : Nat → St → List Msg → R (List Msg × St)
  | 0, st, out => .ok (out, st)
  | fuel + 1, st, out =>
    if st.buf.isEmpty then .ok (out, st)
    else
      match startPhase E side (st.cur.getD {}) st.buf with
      | .error e => .error e
      | .ok (c, buf, false) => .ok (out, { buf := buf, cur := some c })
      | .ok (c, buf, true) =>
        match headerPhase E side c buf with
        | .error e => .error e
        | .ok (c, buf, false) => .ok (out, { buf := buf, cur := some c })
        | .ok (c, buf, true) =>
          match to400 (parseBody E c buf) with
          | .error e => .error e
          | .ok (.wait c b) => .ok (out, { buf := b, cur := some c })
          | .ok (.done c b) =>
            match to400 (bodyComplete side c b) with
            | .error e => .error e
            | .ok m => run E side fuel { buf := b, cur := none } (out ++ [m])

/-- one call of `parse(data)` -/
def feed (E : Env) (side : Side) (st : St) (data : Bytes) : R (List Msg × St) :=
  let buf := st.buf ++ data
  run E side (buf.length + 1) { st with buf := buf } []

end Httoop.Parser
