import Httoop.Basic
/-
  glibc `inet_pton` / `inet_ntop` for AF_INET and AF_INET6, as reached through Python's `socket`
  module (written from the glibc sources `inet_pton.c` / `inet_ntop.c`; validated by T2 against the
  real functions on every run).
-/
namespace Httoop.Inet
open Httoop

def decNat (s : Bytes) : Nat := s.foldl (fun a b => a * 10 + (b.toNat - 0x30)) 0

/-- `inet_pton(AF_INET, s)`: four decimal parts 0..255, no leading zero -/
def pton4 (s : Bytes) : Option (List Nat) :=
  let parts := splitOn1 0x2E s
  if parts.length == 4 && parts.all (fun p => !p.isEmpty && p.all isDigit && p.length ≤ 3 &&
      (p.length == 1 || p.head? != some 0x30) && decNat p ≤ 255) then some (parts.map decNat) else none

def hexNat (s : Bytes) : Nat := s.foldl (fun a b => a * 16 + (hexVal b).toNat) 0

/-- split at the first `::` -/
def splitDouble (s : Bytes) : Option (Bytes × Bytes) := splitOnce [0x3A, 0x3A] s

/-- the 16-bit words of one side (groups separated by single colons); the last group of the whole
    address may be a dotted quad (`allowV4`) -/
def sideWords (allowV4 : Bool) (side : Bytes) : Option (List Nat) :=
  if side.isEmpty then some []
  else
    let groups := splitOn1 0x3A side
    let rec go : List Bytes → Option (List Nat)
      | [] => some []
      | [g] =>
        if g.contains 0x2E then
          if allowV4 then (pton4 g).map fun q => [q[0]! * 256 + q[1]!, q[2]! * 256 + q[3]!] else none
        else if 1 ≤ g.length && g.length ≤ 4 && g.all isHexDigit then some [hexNat g] else none
      | g :: rest =>
        if 1 ≤ g.length && g.length ≤ 4 && g.all isHexDigit then (go rest).map (hexNat g :: ·) else none
    go groups

/-- `inet_pton(AF_INET6, s)`: the eight words, or `none` -/
def pton6 (s : Bytes) : Option (List Nat) :=
  match splitDouble s with
  | some (l, r) =>
    match sideWords false l, sideWords true r with
    | some lw, some rw =>
      -- a dotted quad must be the last thing in the text
      if lw.length + rw.length ≤ 7 then some (lw ++ List.replicate (8 - lw.length - rw.length) 0 ++ rw) else none
    | _, _ => none
  | none =>
    match sideWords true s with
    | some w => if w.length == 8 then some w else none
    | none => none

def natToDec (n : Nat) : Bytes := (toString n).toUTF8.toList

def hexLower (n : Nat) : Bytes :=
  let rec go : Nat → Nat → Bytes
    | 0, _ => []
    | f + 1, n => if n < 16 then [hexDigitL (UInt8.ofNat n)] else go f (n / 16) ++ [hexDigitL (UInt8.ofNat (n % 16))]
  go 5 n

/-- the first longest run of zero words of length ≥ 2: (base, len) -/
def bestRun (w : List Nat) : Option (Nat × Nat) :=
  let rec scan : Nat → List Nat → Option (Nat × Nat) → Option (Nat × Nat) → Option (Nat × Nat)
    | _, [], cur, best => pick cur best
    | i, x :: xs, cur, best =>
      if x == 0 then
        match cur with
        | some (b, l) => scan (i + 1) xs (some (b, l + 1)) best
        | none => scan (i + 1) xs (some (i, 1)) best
      else scan (i + 1) xs none (pick cur best)
  scan 0 w none none
where
  pick (cur best : Option (Nat × Nat)) : Option (Nat × Nat) :=
    match cur, best with
    | some (b, l), some (bb, bl) => if l > bl then some (b, l) else some (bb, bl)
    | some c, none => some c
    | none, b => b

/-- `inet_ntop(AF_INET6, words)` -/
def ntop6 (w : List Nat) : Bytes :=
  let best := match bestRun w with | some (b, l) => if l < 2 then none else some (b, l) | none => none
  let rec go : Nat → Nat → Bytes
    | 0, _ => []
    | fuel + 1, i =>
      if i ≥ 8 then []
      else
        let inBest := match best with | some (b, l) => b ≤ i && i < b + l | none => false
        if inBest then
          (if (best.map (·.1)) == some i then [0x3A] else []) ++ go fuel (i + 1)
        else
          let sep : Bytes := if i != 0 then [0x3A] else []
          let v4 := i == 6 && (match best with
            | some (0, l) => l == 6 || (l == 7 && w[7]! != 1) || (l == 5 && w[5]! == 0xFFFF)
            | _ => false)
          if v4 then
            let dot : Bytes := [0x2E]
            sep ++ natToDec (w[6]! / 256) ++ dot ++ natToDec (w[6]! % 256) ++ dot ++ natToDec (w[7]! / 256) ++ dot ++ natToDec (w[7]! % 256)
          else sep ++ hexLower (w[i]!) ++ go fuel (i + 1)
  let body := go 9 0
  body ++ (match best with | some (b, l) => if b + l == 8 then [0x3A] else [] | none => [])

def ntop4 (q : List Nat) : Bytes := joinWith [0x2E] (q.map natToDec)

end Httoop.Inet
