import Httoop.Model.Element
/-
  Model of the content-coding glue in httoop/messages/body.py and of the multipart and text/plain codecs.

  * gzip / deflate themselves are zlib (C): a content codec is a parameter `Zip` (`enc`, `dec`); what is
    modelled is what the library does around it — joining the pieces, one coded stream for the whole
    content (after the `fix:` commit), chunk framing, `decompress()`'s ISO-8859-1 detour (the identity on
    octets), the empty body.
  * multipart (`codecs/multipart/multipart.py`): delimiter framing on octets.  A part is (header block, content);
    parsing and composing the block is the Headers model (C08).
  * text/plain: `str.encode(charset)` / `bytes.decode(charset)` for UTF-8, ISO-8859-1, ASCII; text is kept
    as its UTF-8 octets (as everywhere in the model).
-/
namespace Httoop.Codecs
open Httoop Httoop.Element

structure Zip where
  enc : Bytes → Bytes
  dec : Bytes → Option Bytes

/-- `b''.join(self.__content_iter())`: empty pieces are skipped -/
def content (pieces : List Bytes) : Bytes := (pieces.filter (fun p => !p.isEmpty)).flatten

/-- `__iter_fileable`: a file-like source (BytesIO, file — also what `bytes`/`str` content becomes) is read in
    blocks of `MAX_CHUNK_SIZE` = 4096 octets -/
def fileBlocks : Nat → Bytes → List Bytes
  | 0, _ => []
  | fuel + 1, d => if d.isEmpty then [] else d.take 4096 :: fileBlocks fuel (d.drop 4096)

def blocksOf (d : Bytes) : List Bytes := fileBlocks (d.length + 1) d

/-- `Body.compress()`: the new content (one piece) -/
def compress (z : Zip) (pieces : List Bytes) : Bytes := z.enc (content pieces)

/-- `Body.decompress()`: `codec.decode(content, 'ISO8859-1').encode('ISO8859-1')` -/
def decompress (z : Zip) (pieces : List Bytes) : R Bytes :=
  let c := content pieces
  if c.isEmpty then .ok []          -- no content: nothing to decode (the F43 repair)
  else match z.dec c with
    | some x => .ok x
    | none => .error .decodeError

/-- hexadecimal digits of `n`, least significant first (`fuel` > number of digits) -/
def hexRevF : Nat → Nat → Bytes
  | 0, _ => []
  | fuel + 1, n => hexDigitL (UInt8.ofNat (n % 16)) :: (if n < 16 then [] else hexRevF fuel (n / 16))

/-- `b'%x' % n` -/
def hexLower (n : Nat) : Bytes := (hexRevF (n + 1) n).reverse

def CRLF : Bytes := [0x0D, 0x0A]

/-- `__compose_chunked_iter` joined: every non-empty piece as a chunk, then the last chunk with the trailer
    (`trailer` = `bytes(self.trailer)`, which ends in CRLF CRLF, or empty for none) -/
def chunkFrame (pieces : List Bytes) (trailer : Bytes) : Bytes :=
  ((pieces.filter (fun p => !p.isEmpty)).flatMap fun p => hexLower p.length ++ CRLF ++ p ++ CRLF) ++
    (0x30 :: CRLF) ++ (if trailer.isEmpty then CRLF else trailer)

/-- `b''.join(iter(body))`: content codec over the whole content, then chunk framing -/
def wire (z : Option Zip) (chunked : Bool) (trailer : Bytes) (pieces : List Bytes) : Bytes :=
  let data : List Bytes := match z with
    | some z => let c := content pieces; if c.isEmpty then [] else [z.enc c]
    | none => pieces.filter (fun p => !p.isEmpty)
  if chunked then chunkFrame data trailer else data.flatten

/-! ### multipart -/

/-- Python `data.split(sep)` for a non-empty separator -/
def pySplit (sep : Bytes) : Nat → Bytes → List Bytes
  | 0, s => [s]
  | fuel + 1, s =>
    match splitOnce sep s with
    | none => [s]
    | some (a, b) => a :: pySplit sep fuel b

def delim (boundary : Bytes) : Bytes := 0x2D :: 0x2D :: boundary

/-- `Multipart.encode`: parts are (composed header section — it ends with the empty line —, content octets) -/
def mpEncode (boundary : Bytes) (parts : List (Bytes × Bytes)) : Bytes :=
  (parts.flatMap fun (h, c) => delim boundary ++ CRLF ++ h ++ c ++ CRLF) ++ delim boundary ++ [0x2D, 0x2D] ++ CRLF

def indexError : PyExc := .escape "IndexError"

def mpPart (part : Bytes) : R (Bytes × Bytes) :=
  if !startsWith part CRLF then .error .decodeError
  else
    let part := part.drop 2
    -- a part without header fields continues with the empty line at once (the F24 repair)
    let hc : Option (Bytes × Bytes) := if startsWith part CRLF then some ([], part.drop 2) else splitOnce (CRLF ++ CRLF) part
    match hc with
    | none => .error .decodeError
    | some (headers, content) =>
      if !endsWith content CRLF then .error .decodeError
      else .ok (headers, content.take (content.length - 2))

/-- the loop over the parts: each part is cut, then its header block is handed to `chk` (the code parses it into
    a `Headers` object before it looks at the next part, so that error comes first) -/
def mpParts (chk : Bytes → R Unit) : List Bytes → R (List (Bytes × Bytes))
  | [] => .ok []
  | p :: ps => match mpPart p with
    | .error e => .error e
    | .ok x => match chk x.1 with
      | .error e => .error e
      | .ok _ => match mpParts chk ps with
        | .error e => .error e
        | .ok xs => .ok (x :: xs)

/-- `Multipart.decode` down to (header block, content) pairs; `chk` stands for `Headers.parse` of a block -/
def mpDecodeWith (chk : Bytes → R Unit) (boundary : Bytes) (data : Bytes) : R (List (Bytes × Bytes)) :=
  match pySplit (delim boundary) (data.length + 1) data with
  | [] => .error indexError                  -- unreachable: split never returns []
  | first :: rest =>
    if !first.isEmpty then .error .decodeError
    else match rest.getLast? with
      | none => .error indexError              -- no delimiter at all: `parts.pop()` on an empty list
      | some last =>
        if last != [0x2D, 0x2D] && last != [0x2D, 0x2D] ++ CRLF then .error .decodeError
        else mpParts chk rest.dropLast

/-- the octet-level framing alone (every header block accepted) -/
def mpDecode (boundary : Bytes) (data : Bytes) : R (List (Bytes × Bytes)) := mpDecodeWith (fun _ => .ok ()) boundary data

/-! ### text/plain -/

inductive Charset where | utf8 | latin1 | ascii
  deriving DecidableEq, Repr

/-- `text.encode(charset)`; text is given by its UTF-8 octets -/
def plainEncode (cs : Charset) (text : Bytes) : R Bytes :=
  match cs with
  | .utf8 => .ok text
  | .latin1 => match utf8ToLatin1 text with | some b => .ok b | none => .error .encodeError
  | .ascii => if isAscii text then .ok text else .error .encodeError

/-- `data.decode(charset)` -/
def plainDecode (cs : Charset) (data : Bytes) : R Bytes :=
  match cs with
  | .utf8 => if utf8Valid data then .ok data else .error .decodeError
  | .latin1 => .ok (latin1ToUtf8 data)
  | .ascii => if isAscii data then .ok data else .error .decodeError

end Httoop.Codecs
