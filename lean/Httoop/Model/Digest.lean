import Httoop.Model.Element
/-
  Model of httoop/authentication/digest.py, class DigestAuthRequestScheme (the `Authorization: Digest`
  side), and of the path through `AuthElement.compose` / `AuthElement.parseparams`.

  The credential dictionary (`ByteUnicodeDict`) is a structure of optional octet strings: `none` is
  "key absent".  A missing key is Python's `KeyError` (`.escape "KeyError"`); `AuthElement` turns it
  into `InvalidHeader` on the compose / parse paths.  The hash is a parameter `H` (the theorems hold for
  every `H`); the driver instantiates it with `Md5.hexdigest`.  SHA-256 is registered in the source but
  `A1` raises NotImplementedError for it; the model answers `needsOracle` for the SHA names.
-/
namespace Httoop.Digest
open Httoop Httoop.Element

structure Info where
  username : Option Bytes := none
  realm : Option Bytes := none
  password : Option Bytes := none
  nonce : Option Bytes := none
  cnonce : Option Bytes := none
  nc : Option Bytes := none
  method : Option Bytes := none
  uri : Option Bytes := none
  entityBody : Option Bytes := none
  qop : Option Bytes := none
  algorithm : Option Bytes := none
  a1 : Option Bytes := none
  response : Option Bytes := none
  opaq : Option Bytes := none
  deriving Repr, DecidableEq

def keyError : PyExc := .escape "KeyError"
def notImplemented : PyExc := .escape "NotImplementedError"

/-- `d[key]` -/
def req (v : Option Bytes) : R Bytes := match v with | some x => .ok x | none => .error keyError

def sMD5 : Bytes := [0x4D, 0x44, 0x35]
def sMD5sess : Bytes := [0x4D, 0x44, 0x35, 0x2D, 0x73, 0x65, 0x73, 0x73]
def sSHA256 : Bytes := "SHA-256".toUTF8.toList
def sSHA256sess : Bytes := "SHA-256-sess".toUTF8.toList
def sAuth : Bytes := [0x61, 0x75, 0x74, 0x68]
def sAuthInt : Bytes := [0x61, 0x75, 0x74, 0x68, 0x2D, 0x69, 0x6E, 0x74]

/-- `get_algorithm(name)`: the name is decoded as ASCII ('ignore' for octets: 8-bit octets are dropped;
    'replace' in `calculate_request_digest`, which cannot then match a table key either) -/
def getAlgorithm (H : Bytes → Bytes) (ignore8 : Bool) (name : Bytes) : R (Bytes → Bytes) :=
  let n := if ignore8 then name.filter (· < 0x80) else name
  if n == sMD5 || n == sMD5sess then .ok H
  else if n == sSHA256 || n == sSHA256sess then .error needsOracle
  else .error .invalidHeader

def colon (parts : List Bytes) : Bytes := joinWith [0x3A] parts

/-- `A1(params)` -/
def A1 (H : Bytes → Bytes) (p : Info) : R Bytes :=
  let alg := p.algorithm.getD []
  if alg.isEmpty || alg == sMD5 then do
    let u ← req p.username; let r ← req p.realm; let pw ← req p.password
    pure (colon [u, r, pw])
  else if alg == sMD5sess then do
    let H' ← getAlgorithm H true alg
    let u ← req p.username; let r ← req p.realm; let pw ← req p.password
    let n ← req p.nonce; let cn ← req p.cnonce
    pure (colon [H' (colon [u, r, pw]), n, cn])
  else .error notImplemented

/-- `A2(params)`; since the `fix:` commit the algorithm defaults to MD5 here as it does everywhere else -/
def A2 (H : Bytes → Bytes) (p : Info) : R Bytes :=
  let qop := p.qop.getD []
  if qop.isEmpty || qop == sAuth then do
    let m ← req p.method; let u ← req p.uri
    pure (colon [m, u])
  else if qop == sAuthInt then do
    let H' ← getAlgorithm H true (p.algorithm.getD sMD5)
    let m ← req p.method; let u ← req p.uri; let b ← req p.entityBody
    pure (colon [m, u, H' b])
  else .error notImplemented

/-- `calculate_request_digest(authinfo)` -/
def calculate (H : Bytes → Bytes) (p : Info) : R Bytes := do
  let alg := p.algorithm.getD sMD5
  -- `.decode('ASCII', 'replace')`: an 8-bit octet becomes U+FFFD and the name is unknown
  let H' ← if alg.all (· < 0x80) then getAlgorithm H false alg else .error .invalidHeader
  let secret ← (if alg == sMD5sess && !(p.a1.getD []).isEmpty then pure (H' (p.a1.getD []))
    else do let a1 ← A1 H p; pure (H' a1))
  let a2 ← A2 H p
  let ha2 := H' a2
  let data ← (match p.qop with
    | none => do let n ← req p.nonce; pure (colon [n, ha2])
    | some q =>
      if q == sAuth || q == sAuthInt then do
        let n ← req p.nonce; let nc ← req p.nc; let cn ← req p.cnonce
        pure (colon [n, nc, cn, q, ha2])
      else .error notImplemented)
  pure (H' (colon [secret, data]))

/-- `check(authinfo, request_params)` -/
def check (H : Bytes → Bytes) (p q : Info) : R Bool := do
  let r1 ← req p.realm; let r2 ← req q.realm
  if r1 != r2 then pure false
  else do
    let resp ← calculate H p
    let given ← req q.response
    pure (resp == given)

/-! ### the field on the wire -/

/-- `formatparam(k, v)` for an octet value -/
def formatParam (k v : Bytes) : Bytes :=
  if v.isEmpty then k ++ [0x3D, 0x22, 0x22]          -- `name=""` (the F66 repair: a bare name is no auth-param)
  else if v.any isTSpecial then k ++ [0x3D, 0x22] ++ escapeQuoted v ++ [0x22]
  else k ++ 0x3D :: v

def key (s : String) : Bytes := s.toUTF8.toList

/-- `DigestAuthRequestScheme._compose`: the (key, value) list in the source's order -/
def composeParams (H : Bytes → Bytes) (p : Info) : R (List (Bytes × Bytes)) := do
  let username ← req p.username
  let realm ← req p.realm
  let uri ← req p.uri
  let nonce := (p.nonce.getD []).filter (· != 0x22)
  let qopOn := !(p.qop.getD []).isEmpty
  let cnonce ← if qopOn then (req p.cnonce).map some else pure none
  let nc ← if qopOn then (req p.nc).map some else pure none
  -- `nonce or generate_nonce(...)`: time and uuid4, not modelled
  if nonce.isEmpty then .error needsOracle
  else do
    let response ← (match p.response with
      | some r => if r.isEmpty then calculate H p else pure r
      | none => calculate H p)
    let opt (k : String) (v : Option Bytes) : List (Bytes × Bytes) := match v with | some x => [(key k, x)] | none => []
    pure ([(key "username", username), (key "realm", realm), (key "nonce", nonce), (key "uri", uri), (key "response", response)]
      ++ opt "algorithm" p.algorithm ++ opt "cnonce" cnonce ++ opt "opaque" p.opaq ++ opt "qop" p.qop ++ opt "nc" nc)

/-- `AuthElement.compose` for the scheme `Digest`: KeyError → InvalidHeader -/
def compose (H : Bytes → Bytes) (p : Info) : R Bytes :=
  match composeParams H p with
  | .error (.escape "KeyError") => .error .invalidHeader
  | .error e => .error e
  | .ok ps => .ok ("Digest ".toUTF8.toList ++ joinWith [0x2C, 0x20] (ps.map fun (k, v) => formatParam k v))

/-- `bytes.strip(b'"')` -/
def stripQuotes (v : Bytes) : Bytes := strip (· == 0x22) v

/-- one atom of `DigestAuthScheme.parse` -/
def parseAtom (atom : Bytes) : Bytes × Bytes :=
  match splitOnce [0x3D] atom with
  | some (k, v) => (pyStrip k, stripQuotes (pyStrip v))
  | none => (pyStrip atom, [])

/-- `dict(...)` lookup with later duplicates winning; `ByteUnicodeDict` keys are compared exactly -/
def lookup (ps : List (Bytes × Bytes)) (k : String) : Option Bytes :=
  match (ps.reverse.find? fun e => e.1 == key k) with
  | some e => some e.2
  | none => none

/-- `DigestAuthRequestScheme.parse(authinfo)` -/
def parseInfo (authinfo : Bytes) : R Info :=
  let atoms := ((splitOn1 0x2C authinfo).map pyStrip).filter (fun x => !x.isEmpty)
  let atoms := if atoms.isEmpty then [[]] else atoms
  let ps := atoms.map parseAtom
  let qop := lookup ps "qop"
  let qopOn := !(qop.getD []).isEmpty
  match (do
    let cnonce ← if qopOn then (req (lookup ps "cnonce")).map some else pure none
    let nc ← if qopOn then (req (lookup ps "nc")).map some else pure none
    let username ← req (lookup ps "username")
    let realm ← req (lookup ps "realm")
    let nonce ← req (lookup ps "nonce")
    let uri ← req (lookup ps "uri")
    let response ← req (lookup ps "response")
    pure ({ username := some username, realm := some realm, nonce := some nonce, uri := some uri, response := some response,
            algorithm := lookup ps "algorithm", cnonce := cnonce, opaq := lookup ps "opaque", qop := qop, nc := nc } : Info) : R Info) with
  | .ok i => .ok i
  | .error _ => .error .invalidHeader       -- `except KeyError: raise InvalidHeader`

/-- `Authorization.parse(value)` for a Digest field: RFC 2047 look-alikes are not modelled -/
def parseField (value : Bytes) : R Info :=
  if rfc2047Branch value then .error needsOracle
  else match splitOnce [0x20] value with
    | none => .error .invalidHeader
    | some (scheme, rest) =>
      if lower scheme == "digest".toUTF8.toList then parseInfo rest
      else .error needsOracle          -- another scheme: not this model

/-- what of the credentials is on the wire (what a parsed field can be compared with) -/
def Info.wire (p : Info) (response : Bytes) : Info :=
  let qopOn := !(p.qop.getD []).isEmpty
  { username := p.username, realm := p.realm, nonce := p.nonce, uri := p.uri, response := some response,
    algorithm := p.algorithm, cnonce := if qopOn then p.cnonce else none, opaq := p.opaq, qop := p.qop,
    nc := if qopOn then p.nc else none }

end Httoop.Digest
