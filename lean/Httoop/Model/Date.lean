import Httoop.Basic
import Httoop.Calendar
/-
  Model of httoop/date.py after the `fix:` commit that replaces `time.mktime(t) - time.timezone` by
  `calendar.timegm(t)` (finding F2): instants are whole seconds since the epoch, there is no time zone,
  daylight-saving rule or locale anywhere in the model — that absence is the claim, and the
  correspondence check runs the real code under several TZ/LC_TIME settings against this one answer.

  `time.gmtime` / `calendar.timegm` are the proleptic Gregorian calendar (civil-from-days and
  days-from-civil, March-based 400-year eras).  `email.utils.parsedate_tz` is modelled on exactly the
  three textual forms of RFC 7231 (IMF-fixdate, RFC 850, asctime); any other text is `needsOracle`.
-/
namespace Httoop.Date
open Httoop

structure Civil where
  y : Nat
  m : Nat      -- 1..12
  d : Nat      -- 1..31
  deriving Repr, DecidableEq

/-- day-of-era → (year-of-era, month, day); March-based -/
def civilOfDoe (doe : Nat) : Nat × Nat × Nat :=
  let yoe := yoeOf doe                                  -- (doe - doe/1460 + doe/36524 - doe/146096) / 365
  let doy := doe - yearStart yoe                        -- 365*yoe + yoe/4 - yoe/100
  let mp := (5 * doy + 2) / 153
  let d := doy - (153 * mp + 2) / 5 + 1
  let m := if mp < 10 then mp + 3 else mp - 9
  (yoe, m, d)

/-- `time.gmtime`: days since 1970-01-01 → civil date -/
def civilFromDays (z : Nat) : Civil :=
  let c := civilOfDoe ((z + 719468) % 146097)
  { y := c.1 + (z + 719468) / 146097 * 400 + (if c.2.1 ≤ 2 then 1 else 0), m := c.2.1, d := c.2.2 }

def doeOfCivil (yoe m d : Nat) : Nat :=
  let mp := if m > 2 then m - 3 else m + 9
  let doy := (153 * mp + 2) / 5 + d - 1
  yearStart yoe + doy

/-- `calendar.timegm` (date part): civil date → days since 1970-01-01, for dates from 1970-01-01 on -/
def daysFromCivil (c : Civil) : Nat :=
  let y := if c.m ≤ 2 then c.y - 1 else c.y
  let era := y / 400
  let yoe := y % 400
  era * 146097 + doeOfCivil yoe c.m c.d - 719468

/-- `tm_wday` (Monday = 0) -/
def weekday (days : Nat) : Nat := (days + 3) % 7

def dayNames : List Bytes := [[0x4D,0x6F,0x6E],[0x54,0x75,0x65],[0x57,0x65,0x64],[0x54,0x68,0x75],[0x46,0x72,0x69],[0x53,0x61,0x74],[0x53,0x75,0x6E]]
def monthNames : List Bytes := [[0x4A,0x61,0x6E],[0x46,0x65,0x62],[0x4D,0x61,0x72],[0x41,0x70,0x72],[0x4D,0x61,0x79],[0x4A,0x75,0x6E],
  [0x4A,0x75,0x6C],[0x41,0x75,0x67],[0x53,0x65,0x70],[0x4F,0x63,0x74],[0x4E,0x6F,0x76],[0x44,0x65,0x63]]
def longDayNames : List Bytes := ["Monday", "Tuesday", "Wednesday", "Thursday", "Friday", "Saturday", "Sunday"].map fun s => s.toUTF8.toList

def digit (n : Nat) : Byte := UInt8.ofNat (0x30 + n % 10)
def pad2 (n : Nat) : Bytes := [digit (n / 10), digit n]
def pad4 (n : Nat) : Bytes := [digit (n / 1000), digit (n / 100), digit (n / 10), digit n]
def sGMT : Bytes := [0x20, 0x47, 0x4D, 0x54]

def hms (secs : Nat) : Bytes := pad2 (secs / 3600) ++ 0x3A :: pad2 (secs / 60 % 60) ++ 0x3A :: pad2 (secs % 60)

/-- `Date.compose`: IMF-fixdate -/
def compose (t : Nat) : Bytes :=
  let days := t / 86400
  let c := civilFromDays days
  (dayNames.getD (weekday days) []) ++ [0x2C, 0x20] ++ pad2 c.d ++ 0x20 :: (monthNames.getD (c.m - 1) []) ++ 0x20 :: pad4 c.y ++
    0x20 :: hms (t % 86400) ++ sGMT

/-- the obsolete RFC 850 form of the same instant (as a sender would write it) -/
def composeRfc850 (t : Nat) : Bytes :=
  let days := t / 86400
  let c := civilFromDays days
  (longDayNames.getD (weekday days) []) ++ [0x2C, 0x20] ++ pad2 c.d ++ 0x2D :: (monthNames.getD (c.m - 1) []) ++ 0x2D :: pad2 (c.y % 100) ++
    0x20 :: hms (t % 86400) ++ sGMT

/-- asctime(): `%.3s %.3s%3d %.2d:%.2d:%.2d %d` -/
def composeAsctime (t : Nat) : Bytes :=
  let days := t / 86400
  let c := civilFromDays days
  (dayNames.getD (weekday days) []) ++ 0x20 :: (monthNames.getD (c.m - 1) []) ++ 0x20 ::
    (if c.d < 10 then [0x20, digit c.d] else pad2 c.d) ++ 0x20 :: hms (t % 86400) ++ 0x20 :: pad4 c.y

/-! ### parsing the three forms -/

def dval (b : Byte) : Option Nat := if isDigit b then some (b.toNat - 0x30) else none

def num2 (a b : Byte) : Option Nat := do let x ← dval a; let y ← dval b; pure (x * 10 + y)
def num4 (a b c d : Byte) : Option Nat := do
  let w ← dval a; let x ← dval b; let y ← dval c; let z ← dval d; pure (w * 1000 + x * 100 + y * 10 + z)

def monthIndex (n : Bytes) : Option Nat :=
  let i := monthNames.idxOf n
  if i < 12 then some (i + 1) else none

/-- `HH:MM:SS` -/
def parseHms : Bytes → Option (Nat × Nat × Nat)
  | [h1, h2, 0x3A, m1, m2, 0x3A, s1, s2] => do
    let h ← num2 h1 h2; let m ← num2 m1 m2; let s ← num2 s1 s2
    if h < 24 && m < 60 && s < 62 then pure (h, m, s) else none
  | _ => none

/-- `calendar.timegm((y, m, d, hh, mm, ss, …))` -/
def timegm (y m d hh mm ss : Nat) : Nat := daysFromCivil { y := y, m := m, d := d } * 86400 + hh * 3600 + mm * 60 + ss

/-- two-digit years of `parsedate_tz`: 69–99 → 19xx, 0–68 → 20xx -/
def pivot (yy : Nat) : Nat := if yy < 100 then (if yy > 68 then yy + 1900 else yy + 2000) else yy

inductive Parsed where
  | ok (t : Nat)
  | invalid            -- InvalidDate
  | unknown            -- not one of the three strict forms / out-of-range fields: left to the oracle
  deriving Repr, DecidableEq

def finish (y m d : Nat) (hms : Option (Nat × Nat × Nat)) : Parsed :=
  match hms with
  | some (hh, mm, ss) =>
    if 1 ≤ d && d ≤ 31 && 1970 ≤ pivot y then .ok (timegm (pivot y) m d hh mm ss) else .unknown
  | none => .unknown

/-- IMF-fixdate: `Www, DD Mon YYYY HH:MM:SS GMT` -/
def parseImf (s : Bytes) : Parsed :=
  match s with
  | w1 :: w2 :: w3 :: 0x2C :: 0x20 :: d1 :: d2 :: 0x20 :: n1 :: n2 :: n3 :: 0x20 :: y1 :: y2 :: y3 :: y4 :: 0x20 :: rest =>
    if !(isAlpha w1 && isAlpha w2 && isAlpha w3) then .unknown
    else if rest.length != 12 || rest.drop 8 != sGMT then .unknown
    else match num2 d1 d2, monthIndex [n1, n2, n3], num4 y1 y2 y3 y4 with
      | some d, some m, some y => finish y m d (parseHms (rest.take 8))
      | _, _, _ => .unknown
  | _ => .unknown

/-- RFC 850: `Weekday, DD-Mon-YY HH:MM:SS GMT` -/
def parseRfc850 (s : Bytes) : Parsed :=
  match splitOnce [0x2C, 0x20] s with
  | some (wd, rest) =>
    if wd.isEmpty || !wd.all isAlpha then .unknown
    else match rest with
    | d1 :: d2 :: 0x2D :: n1 :: n2 :: n3 :: 0x2D :: y1 :: y2 :: 0x20 :: r2 =>
      if r2.length != 12 || r2.drop 8 != sGMT then .unknown
      else match num2 d1 d2, monthIndex [n1, n2, n3], num2 y1 y2 with
        | some d, some m, some y => finish y m d (parseHms (r2.take 8))
        | _, _, _ => .unknown
    | _ => .unknown
  | none => .unknown

/-- asctime: `Www Mon DD HH:MM:SS YYYY` (day space-padded) -/
def parseAsctime (s : Bytes) : Parsed :=
  match s with
  | w1 :: w2 :: w3 :: 0x20 :: n1 :: n2 :: n3 :: 0x20 :: d1 :: d2 :: 0x20 :: rest =>
    if !(isAlpha w1 && isAlpha w2 && isAlpha w3) then .unknown
    else match rest.drop 8 with
    | [0x20, y1, y2, y3, y4] =>
      let d := if d1 == 0x20 then dval d2 else num2 d1 d2
      match d, monthIndex [n1, n2, n3], num4 y1 y2 y3 y4 with
      | some d, some m, some y => finish y m d (parseHms (rest.take 8))
      | _, _, _ => .unknown
    | _ => .unknown
  | _ => .unknown

/-- `Date.parse` on the three forms -/
def parse (s : Bytes) : Parsed :=
  match parseImf s with
  | .unknown => match parseRfc850 s with
    | .unknown => parseAsctime s
    | r => r
  | r => r

end Httoop.Date
