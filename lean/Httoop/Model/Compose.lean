import Httoop.Model.Headers
import Httoop.Model.Codecs
import Httoop.Model.StartLine
/-
  Model of the framing core of httoop/semantic/{message,request,response}.py and of what
  `ComposedMessage.__iter__` puts after the header section.

  Modelled: the `chunked` property (getter over the Transfer-Encoding field, setter with its early
  returns), `ComposedRequest.prepare` and `ComposedResponse.prepare` as far as they touch the message
  body, Content-Length, Transfer-Encoding and Content-Encoding, the body-less statuses, HEAD, the
  `header_to_remove` of 304, and `Body.__iter__` (content coding over the whole content, chunk framing).
  Not modelled (parameters of nothing here; judged by the oracle's independent RFC 7230 reader): Date, Host,
  User-Agent, Accept, Content-Type, Connection, Allow, Accept-Ranges bookkeeping; Range preparation (C20).
  The Transfer-Encoding field is `chunked` or absent (other transfer codings: `needsOracle`).
-/
namespace Httoop.Compose
open Httoop Httoop.Headers Httoop.Codecs

def sCL : Bytes := "Content-Length".toUTF8.toList
def sTE : Bytes := "Transfer-Encoding".toUTF8.toList
def sCE : Bytes := "Content-Encoding".toUTF8.toList
def schunked : Bytes := "chunked".toUTF8.toList

structure CMsg where
  isResponse : Bool
  safe : Bool := false          -- request: `method.safe` (GET, HEAD, SEARCH)
  reqHead : Bool := false       -- response: the request's method is HEAD
  status : Nat := 200
  headers : Coll := []
  pieces : List Bytes := []     -- what iterating the content yields
  bodyChunked : Bool := false   -- `message.body.chunked`
  coded : Bool := false         -- a content codec is set on the body
  deriving Repr

/-- `len(message.body)` -/
def bodyLen (m : CMsg) : Nat := (content m.pieces).length

/-- the `chunked` getter: `'chunked' in headers.elements('Transfer-Encoding')` -/
def isChunked (h : Coll) : R Bool :=
  match h.get? sTE with
  | none => .ok false
  | some v => if v.isEmpty then .ok false else if v == schunked then .ok true else .error Element.needsOracle

/-- the `chunked` setter -/
def setChunked (m : CMsg) (v : Bool) : R CMsg :=
  let m := { m with bodyChunked := v }
  if v then
    let m := { m with headers := m.headers.del sCL }
    match isChunked m.headers with
    | .error e => .error e
    | .ok true => .ok m
    | .ok false =>
      -- `headers.append('Transfer-Encoding', b'chunked')`: absent or empty: set
      .ok { m with headers := m.headers.put sTE schunked }
  else
    match isChunked m.headers with
    | .error e => .error e
    | .ok false => .ok m
    | .ok true => .ok { m with headers := m.headers.del sTE }      -- the only element removed: field popped

def natToDec := StartLine.natToDec

/-- the Content-Length step of `ComposedRequest.prepare()` once the chunked state `c` is settled -/
def requestLength (m : CMsg) (c : Bool) : CMsg :=
  if bodyLen m != 0 then
    if !c then { m with headers := m.headers.put sCL (natToDec (bodyLen m)) } else m
  else if !c then { m with headers := m.headers.del sCL }      -- the F48 repair
  else m

/-- `ComposedRequest.prepare()` (framing part) -/
def prepareRequest (m : CMsg) : R CMsg :=
  (if m.safe then setChunked { m with pieces := [] } false else .ok m) >>= fun m1 =>
  isChunked m1.headers >>= fun c1 =>
  setChunked m1 c1 >>= fun m2 =>
  isChunked m2.headers >>= fun c2 =>
  .ok (requestLength m2 c2)

def bodilessStatus (s : Nat) : Bool := s < 200 || s == 204 || s == 205 || s == 304

/-- the steps of `ComposedResponse.prepare()` after the chunked state `c` is settled: Content-Length,
    `header_to_remove` of 304 NOT_MODIFIED, HEAD (the body is dropped, the header fields stay; nothing follows
    the header section) -/
def responseFinish (m : CMsg) (c : Bool) : CMsg :=
  let m := if !c then { m with headers := m.headers.put sCL (natToDec (bodyLen m)) } else m
  let m := if m.status == 304 then { m with headers := (m.headers.del sCL).del sCE } else m
  if m.reqHead then { m with pieces := [], bodyChunked := false } else m

/-- first stage of `ComposedResponse.prepare()`: statuses without body drop the body and the transfer coding (the F47 repair) -/
def respStage1 (m : CMsg) : R CMsg :=
  if bodilessStatus m.status then setChunked { m with pieces := [] } false else .ok m

/-- second stage: a Content-Encoding field sets the body's codec and, unless there is no body, switches chunked on -/
def respStage2 (bodiless : Bool) (m1 : CMsg) : R CMsg :=
  match m1.headers.get? sCE with
  | some _ => if !bodiless then setChunked { m1 with coded := true } true else .ok { m1 with coded := true }
  | none => .ok m1

/-- `ComposedResponse.prepare()` (framing part; no Range request) -/
def prepareResponse (m : CMsg) : R CMsg :=
  respStage1 m >>= fun m1 =>
  respStage2 (bodilessStatus m.status) m1 >>= fun m2 =>
  isChunked m2.headers >>= fun c2 =>
  setChunked m2 c2 >>= fun m3 =>
  isChunked m3.headers >>= fun c3 =>
  .ok (responseFinish m3 c3)

def prepare (m : CMsg) : R CMsg := if m.isResponse then prepareResponse m else prepareRequest m

/-- the octets `ComposedMessage.__iter__` yields after the header section -/
def bodyWire (z : Zip) (m : CMsg) : Bytes :=
  wire (if m.coded then some z else none) m.bodyChunked [] m.pieces

end Httoop.Compose
