import Httoop.Model.Percent
import Httoop.Model.Utf8
import Httoop.Model.PyInt
import Httoop.Model.Base64
/-
  Model of httoop/header/element.py: class HeaderElement (parameters, quoting, RFC 2231/5987
  extended parameters and continuations, list splitting, composition).

  Text (`str`) is represented by its UTF-8 octets.  Octets received on the wire are decoded by the
  code as ASCII/ISO-8859-1, so wire octets ≥ 0x80 become two UTF-8 octets (`latin1ToUtf8`).
  `decode_rfc2047_charset` takes the `email.header.decode_header` branch when the value contains `=?`
  but neither `"=?` nor `==?`; that branch is not modelled (`needsOracle`).
-/
namespace Httoop.Element
open Httoop

def needsOracle : PyExc := .escape "model:needs-oracle"

/-! ### text helpers -/

def latin1ToUtf8 (s : Bytes) : Bytes :=
  s.flatMap fun (b : Byte) => if b < 0x80 then [b] else [(0xC0 : Byte) ||| (b >>> 6), (0x80 : Byte) ||| (b &&& 0x3F)]

/-- `text.encode('ISO8859-1')` for UTF-8 represented text; `none` = UnicodeEncodeError -/
def utf8ToLatin1 : Bytes → Option Bytes
  | [] => some []
  | a :: rest =>
    if a < 0x80 then (utf8ToLatin1 rest).map (a :: ·)
    else match rest with
      | b :: r =>
        if (a == 0xC2 || a == 0xC3) && isCont b then (utf8ToLatin1 r).map (((a &&& 0x03) <<< 6 ||| (b &&& 0x3F)) :: ·)
        else none
      | [] => none

def lower (s : Bytes) : Bytes := s.map toLower

def countByte (c : Byte) (s : Bytes) : Nat := (s.filter (· == c)).length

/-- the regular expressions `SEP(?=(?:[^"]*"[^"]*")*[^"]*$)`: split at every `sep` that is followed
    by an even number of double quotes (RE_SPLIT with `,`, RE_PARAMS with `;`) -/
def splitOutsideQuotes (sep : Byte) : Bytes → List Bytes
  | [] => [[]]
  | a :: rest =>
    if a == sep && countByte 0x22 rest % 2 == 0 then [] :: splitOutsideQuotes sep rest
    else match splitOutsideQuotes sep rest with
      | [] => [[a]]
      | h :: t => (a :: h) :: t

def pyStrip (s : Bytes) : Bytes := strip isPySpace s

/-- RE_TSPECIALS `[ \(\)<>@,;:\\"/\[\]\?=]` -/
def isTSpecial (b : Byte) : Bool :=
  b == 0x20 || b == 0x28 || b == 0x29 || b == 0x3C || b == 0x3E || b == 0x40 || b == 0x2C || b == 0x3B ||
  b == 0x3A || b == 0x5C || b == 0x22 || b == 0x2F || b == 0x5B || b == 0x5D || b == 0x3F || b == 0x3D

/-- `re.sub(b'\\\\(?!\\\\)', b'', s)`: drop every backslash that is not followed by a backslash -/
def dropLoneBackslashes : Bytes → Bytes
  | [] => []
  | [a] => if a == 0x5C then [] else [a]
  | a :: b :: rest =>
    if a == 0x5C && b != 0x5C then dropLoneBackslashes (b :: rest)
    else a :: dropLoneBackslashes (b :: rest)

def endsWith (a s : Bytes) : Bool := startsWith a.reverse s.reverse

/-- `unescape_param`; `tspecial` is the class's RE_TSPECIALS (`fun _ => false` for cookies) -/
def unescapeParam (tspecial : Byte → Bool) (v : Bytes) : R (Bytes × Bool) :=
  let quoted := startsWith v [0x22] && endsWith v [0x22]
  if quoted then .ok (dropLoneBackslashes ((v.drop 1).dropLast), true)
  else if v.any tspecial then .error .invalidHeader
  else .ok (v, false)

/-- `parseparam(atom)`: (key, value, quoted) -/
def parseParam (tspecial : Byte → Bool) (unescapeKey : Bytes → Bytes) (atom : Bytes) : R (Bytes × Bytes × Bool) :=
  let (k, v) := match splitOnce [0x3D] atom with | some (a, b) => (a, b) | none => (atom, [])
  match unescapeParam tspecial (pyStrip v) with
  | .ok (val, q) => .ok (unescapeKey k, val, q)
  | .error e => .error e

def defaultKey (k : Bytes) : Bytes := lower (pyStrip k)

/-! ### RFC 2231 / 5987 -/

/-- `sanitize_encoding` for the names this model knows; anything else is left to the oracle -/
def knownCharset (cs : Bytes) : Option Bool :=     -- some true = utf-8, some false = iso8859-1
  let c := lower cs
  if c == "utf-8".toUTF8.toList || c == "utf8".toUTF8.toList then some true
  else if c == "iso-8859-1".toUTF8.toList || c == "iso8859-1".toUTF8.toList || c == "latin1".toUTF8.toList ||
      c == "latin-1".toUTF8.toList then some false
  else none

/-- split `charset'lang'value` at the first two apostrophes -/
def splitExt (v : Bytes) : Option (Bytes × Bytes × Bytes) :=
  match splitOnce [0x27] v with
  | some (cs, r) => match splitOnce [0x27] r with
    | some (lang, val) => some (cs, lang, val)
    | none => none
  | none => none

def rsplitOnce1 (c : Byte) (a : Bytes) : Option (Bytes × Bytes) :=
  match splitOnce [c] a.reverse with
  | some (l, r) => some (r.reverse, l.reverse)
  | none => none

structure ParamsSt where
  seen : List Bytes := []
  out : List (Bytes × Bytes) := []                      -- yielded (key, text) in order
  conts : List (Bytes × List (Int × Bytes)) := []       -- continuations: key ↦ {num ↦ value} in insertion order
  deriving Repr

def contInsert (conts : List (Bytes × List (Int × Bytes))) (k : Bytes) (n : Int) (v : Bytes) :
    List (Bytes × List (Int × Bytes)) :=
  match conts with
  | [] => [(k, [(n, v)])]
  | (k', m) :: rest =>
    if k' == k then (k', if m.any (·.1 == n) then m.map (fun e => if e.1 == n then (n, v) else e) else m ++ [(n, v)]) :: rest
    else (k', m) :: contInsert rest k n v

/-- the first loop of `_rfc2231_and_continuation_params` for one (key, value, quoted) -/
def paramStep (st : ParamsSt) (p : Bytes × Bytes × Bool) : R ParamsSt :=
  let (key, value, quoted) := p
  if st.seen.contains key then .error .invalidHeader
  else
    let st := { st with seen := key :: st.seen }
    if key.contains 0x2A then
      -- extended value?
      let ext : R (Bytes × Bytes) :=
        if endsWith key [0x2A] && !quoted && !startsWith value [0x27] && countByte 0x27 value ≥ 2 then
          match splitExt value with
          | some (cs, _, val) =>
            if !isAscii cs then .error needsOracle          -- decode('ASCII','replace') gives U+FFFD, which codecs.lookup() normalises away ('utf\x8e8' is utf-8): not modelled
            else match knownCharset cs with
            | some true =>
              let d := Percent.unquote val
              if utf8Valid d then .ok (key.dropLast, d) else .error .invalidHeader
            | some false => .ok (key.dropLast, latin1ToUtf8 (Percent.unquote val))
            | none => .error needsOracle
          | none => .ok (key, latin1ToUtf8 value)
        else .ok (key, latin1ToUtf8 value)
      match ext with
      | .error e => .error e
      | .ok (key, text) =>
        match rsplitOnce1 0x2A key with
        | some (key_, num) =>
          if num != [0x30] && startsWith num [0x30] then .ok { st with out := st.out ++ [(key, text)] }
          else match PyInt.integerBytes 10 num with
            | some n => .ok { st with conts := contInsert st.conts key_ n text }
            | none => .ok { st with out := st.out ++ [(key, text)] }
        | none => .ok { st with out := st.out ++ [(key, text)] }
    else .ok { st with out := st.out ++ [(key, latin1ToUtf8 value)] }

/-- `for i in range(len(lines)): value += lines.pop(i)` until a number is missing -/
def contJoin (fuel : Nat) (i : Nat) (total : Nat) (lines : List (Int × Bytes)) (acc : Bytes) : Bytes × List (Int × Bytes) :=
  match fuel with
  | 0 => (acc, lines)
  | fuel + 1 =>
    if i ≥ total then (acc, lines)
    else match lines.find? (·.1 == (i : Int)) with
      | some e => contJoin fuel (i + 1) total (lines.filter (·.1 != (i : Int))) (acc ++ e.2)
      | none => (acc, lines)

def intToDec (n : Int) : Bytes := (toString n).toUTF8.toList

def finishConts : List (Bytes × List (Int × Bytes)) → R (List (Bytes × Bytes))
  | [] => .ok []
  | (key, lines) :: more =>
    let (value, rest) := contJoin (lines.length + 1) 0 lines.length lines []
    if key.isEmpty then .error .invalidHeader           -- `if not key: raise InvalidHeader`
    else match finishConts more with
      | .error e => .error e
      | .ok tail =>
        .ok ((if value.isEmpty then [] else [(key, value)]) ++ (rest.map fun (k, v) => (key ++ 0x2A :: intToDec k, v)) ++ tail)

/-- `dict(params)`: later duplicates overwrite in place -/
def dictOf (l : List (Bytes × Bytes)) : List (Bytes × Bytes) :=
  l.foldl (fun acc (k, v) => if acc.any (·.1 == k) then acc.map (fun e => if e.1 == k then (k, v) else e) else acc ++ [(k, v)]) []

/-- `HeaderElement.parseparams` -/
def parseParams (tspecial : Byte → Bool) (unescapeKey : Bytes → Bytes) (elementstr : Bytes) :
    R (Bytes × List (Bytes × Bytes)) :=
  let atoms := ((splitOutsideQuotes 0x3B elementstr).map pyStrip).filter (fun x => !x.isEmpty)
  let atoms := if atoms.isEmpty then [[]] else atoms
  match atoms with
  | [] => .ok ([], [])
  | value :: rest =>
    let rec go : List Bytes → ParamsSt → R ParamsSt
      | [], st => .ok st
      | a :: as, st => match parseParam tspecial unescapeKey a with
        | .error e => .error e
        | .ok p => match paramStep st p with
          | .error e => .error e
          | .ok st' => go as st'
    match go rest {} with
    | .error e => .error e
    | .ok st => match finishConts st.conts with
      | .error e => .error e
      | .ok tail => .ok (value, dictOf (st.out ++ tail))

/-- is the RFC 2047 branch of `decode_rfc2047_charset` taken? -/
def rfc2047Branch (v : Bytes) : Bool :=
  contains v [0x3D, 0x3F] && !contains v [0x22, 0x3D, 0x3F] && !contains v [0x3D, 0x3D, 0x3F]

structure Elem where
  value : Bytes                        -- text, UTF-8
  params : List (Bytes × Bytes)        -- key octets ↦ text (UTF-8)
  deriving Repr, DecidableEq

/-- `HeaderElement.parse` (generic class; `sanitize` is a no-op) -/
def parse (elementstr : Bytes) : R Elem :=
  if rfc2047Branch elementstr then .error needsOracle
  else match parseParams isTSpecial defaultKey elementstr with
    | .error e => .error e
    | .ok (v, ps) => .ok { value := latin1ToUtf8 v, params := ps }

/-- `HeaderElement.split` -/
def split (fieldvalue : Bytes) : List Bytes := (splitOutsideQuotes 0x2C fieldvalue).map pyStrip

/-- `HeaderElement.join` -/
def join (values : List Bytes) : Bytes := joinWith [0x2C, 0x20] values

/-! ### compose -/

def escapeQuoted (v : Bytes) : Bytes :=
  v.flatMap fun (b : Byte) => if b == 0x5C then [0x5C, 0x5C] else if b == 0x22 then [0x5C, 0x22] else [b]

def sUtf8Ext : Bytes := [0x75, 0x74, 0x66, 0x2D, 0x38, 0x27, 0x27]     -- b"utf-8''"

/-- `formatparam(param, value)` for a text value (UTF-8 represented); `unreserved` = Percent.UNRESERVED -/
def formatParam (unreserved : Byte → Bool) (tspecial : Byte → Bool) (param value : Bytes) : Bytes :=
  if value.isEmpty then param
  else if isAscii value then
    if value.any tspecial then param ++ [0x3D, 0x22] ++ escapeQuoted value ++ [0x22]
    else param ++ 0x3D :: value
  else
    let v := sUtf8Ext ++ Percent.quote unreserved value
    if v.any tspecial then param ++ [0x2A, 0x3D, 0x22] ++ escapeQuoted v ++ [0x22]
    else param ++ [0x2A, 0x3D] ++ v

def sB64Open : Bytes := [0x3D, 0x3F, 0x75, 0x74, 0x66, 0x2D, 0x38, 0x3F, 0x62, 0x3F]   -- b'=?utf-8?b?'

/-- `encode_rfc2047(value)` -/
def encodeRfc2047 (value : Bytes) : Bytes :=
  match utf8ToLatin1 value with
  | some l => l
  | none => sB64Open ++ Base64.b64 value ++ [0x3F, 0x3D]

/-- `HeaderElement.compose` -/
def compose (unreserved : Byte → Bool) (e : Elem) : Bytes :=
  encodeRfc2047 e.value ++ (e.params.flatMap fun (k, v) => [0x3B, 0x20] ++ formatParam unreserved isTSpecial k v)

end Httoop.Element
