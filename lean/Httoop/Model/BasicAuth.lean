import Httoop.Model.Base64
/-
  httoop/authentication/basic.py (BasicAuthRequestScheme) through AuthElement.parseparams/compose of
  httoop/authentication/__init__.py, as repaired by the two `fix:` commits (split at the FIRST colon;
  the base64 text is emitted without the line breaks `encodebytes` inserts every 57 octets).
-/
namespace Httoop.BasicAuth
open Httoop Httoop.Base64

def sBasic : Bytes := [0x42, 0x61, 0x73, 0x69, 0x63]        -- b'Basic'
def sbasic : Bytes := [0x62, 0x61, 0x73, 0x69, 0x63]        -- 'basic'

/-- `BasicAuthRequestScheme.compose`: `encode_base64(b'%s:%s' % (u, p)).replace(b'\n', b'')` -/
def composeInfo (u p : Bytes) : Bytes := (encodebytes (u ++ 0x3A :: p)).filter (· != 0x0A)

/-- `AuthElement.compose` for the scheme `Basic`: `b'%s %s' % (b'Basic', authinfo)` -/
def compose (u p : Bytes) : Bytes := sBasic ++ 0x20 :: composeInfo u p

/-- `BasicAuthRequestScheme.parse` -/
def parseInfo (authinfo : Bytes) : R (Bytes × Bytes) :=
  match a2b (strip isPySpace authinfo) with
  | .error _ => .error .invalidHeader          -- binascii.Error
  | .ok d =>
    match splitOnce [0x3A] d with
    | some (u, p) => .ok (u, p)                -- `split(b':', 1)`
    | none => .error .invalidHeader            -- ValueError: not enough values to unpack

/-- `AuthElement.parseparams` restricted to the scheme table {basic}: split at the first SP, look the
    scheme up case-insensitively; any other scheme is answered by the caller (`digest`) or InvalidHeader. -/
def parse (elementstr : Bytes) : R (Bytes × Bytes) :=
  match splitOnce [0x20] elementstr with
  | none => .error .invalidHeader
  | some (scheme, info) =>
    if scheme.map toLower == sbasic then parseInfo info else .error .invalidHeader

end Httoop.BasicAuth
