import Httoop.Model.Percent
import Httoop.Model.Form
import Httoop.Model.Utf8
import Httoop.Model.PyInt
import Httoop.Model.Inet
import Httoop.Model.StartLine
/-
  Model of httoop/uri/uri.py (class URI and its scheme subclasses).

  Text attributes are kept as their UTF-8 octets.  `cls` is the Python class of the object
  (`none` = plain `URI`, `some (name, port)` = the registered subclass with its `PORT`); the scheme
  registry `SCHEMES` is a parameter (regenerated from the source, T1).
  After the `fix:` commit for F10, `URI.unquote` raises `InvalidURI` for octets that are not UTF-8.

  IPv4/IPv6 literals go through the model of glibc's `inet_pton`/`inet_ntop` (`Model/Inet.lean`).
  Not modelled (the model answers `needsOracle`, the correspondence skips and counts):
  hosts containing the ACE prefix `xn--` or non-ASCII text (the `idna` codec proper).
-/
namespace Httoop.Uri
open Httoop

abbrev Schemes := List (Bytes × Nat)

@[ext] structure Uri where
  cls : Option (Bytes × Nat) := none
  scheme : Bytes := []
  username : Bytes := []
  password : Bytes := []
  host : Bytes := []
  port : Option Nat := none      -- `_port`: an int, or falsy
  path : Bytes := []
  query : Bytes := []
  fragment : Bytes := []
  deriving Repr, DecidableEq, Inhabited

def Uri.PORT (u : Uri) : Option Nat := u.cls.map (·.2)
/-- the `port` property: `self._port or self.PORT`.
    Modelling invariant: `_port` is `none` (falsy: None/''/0) or a positive int, and every registered
    `PORT` is positive (checked over the regenerated registry, `Props/C11.schemes_ports_positive`). -/
def Uri.portProp (u : Uri) : Option Nat :=
  match u.port with
  | some p => some p
  | none => u.PORT

def lookupScheme (S : Schemes) (name : Bytes) : Option (Bytes × Nat) :=
  (S.find? (·.1 == name))

/-- `__setattr__('scheme', v)`: a truthy scheme switches the class by exact (case-sensitive) lookup. -/
def setScheme (S : Schemes) (u : Uri) (v : Bytes) : Uri :=
  if v.isEmpty then { u with scheme := v } else { u with scheme := v, cls := lookupScheme S v }

def needsOracle : PyExc := .escape "model:needs-oracle"

def lowerBytes (s : Bytes) : Bytes := s.map toLower

/-- last occurrence: Python `rpartition` (`none` when absent) -/
def rsplitOnce (sep a : Bytes) : Option (Bytes × Bytes) :=
  match splitOnce sep.reverse a.reverse with
  | some (l, r) => some (r.reverse, l.reverse)
  | none => none

def endsWith (a s : Bytes) : Bool := startsWith a.reverse s.reverse

/-- `URI.unquote`: percent-decode, then `.decode('UTF-8')` (→ `InvalidURI` since the F10 repair) -/
def unquoteText (d : Bytes) : R Bytes :=
  let r := Percent.unquote d
  if utf8Valid r then .ok r else .error .invalidURI

/-- `u'%2f'` for `/` inside a decoded segment: `str.replace(u'/', u'%2f')` -/
def protectSlash (s : Bytes) : Bytes := s.flatMap fun b => if b == 0x2F then [0x25, 0x32, 0x66] else [b]

def mapM' {α β} (f : α → R β) : List α → R (List β)
  | [] => .ok []
  | a :: as => do let b ← f a; let bs ← mapM' f as; pure (b :: bs)

/-- one path segment: percent-decode, then protect a decoded slash -/
def parseSeg (s : Bytes) : R Bytes :=
  match unquoteText s with
  | .error e => .error e
  | .ok t => .ok (protectSlash t)

def parsePath (p : Bytes) : R Bytes :=
  match mapM' parseSeg (splitOn1 0x2F p) with
  | .error e => .error e
  | .ok segs => .ok (joinWith [0x2F] segs)

/-- `all(x.isdigit() for x in host.split(b'.'))` -/
def looksIPv4 (h : Bytes) : Bool := (splitOn1 0x2E h).all fun p => !p.isEmpty && p.all isDigit

def decNat (s : Bytes) : Nat := s.foldl (fun a b => a * 10 + (b.toNat - 0x30)) 0

/-- glibc `inet_pton(AF_INET)`: exactly four decimal parts ≤ 255, no leading zero; then `inet_ntop`
    prints the same text back. -/
def ipv4Canon (h : Bytes) : Option Bytes :=
  let parts := splitOn1 0x2E h
  if parts.length == 4 && parts.all (fun p => !p.isEmpty && p.all isDigit && p.length ≤ 3 &&
      (p.length == 1 || p.head? != some 0x30) && decNat p ≤ 255) then some h else none

def containsXn (h : Bytes) : Bool := contains (lowerBytes h) [0x78, 0x6E, 0x2D, 0x2D]

def isHostChar (unresSub : Byte → Bool) (b : Byte) : Bool := unresSub b || b == 0x25

/-- `URI._unquote_host` -/
def unquoteHost (hostSafe : Byte → Bool) (h : Bytes) : R Bytes :=
  if startsWith h [0x5B] && endsWith h [0x5D] then
    let inner := (h.drop 1).dropLast
    match Inet.pton6 inner with
    | some w => .ok (0x5B :: Inet.ntop6 w ++ [0x5D])
    | none =>
      -- IPvFuture: `v` digits `.` anything
      let afterV := inner.drop 1
      let ver := match splitOnce [0x2E] afterV with | some (a, _) => a | none => afterV
      if startsWith inner [0x76] && inner.contains 0x2E && !ver.isEmpty && ver.all isDigit then .ok h
      else .error .invalidURI
  else if looksIPv4 h then
    match ipv4Canon h with
    | some c => .ok c
    | none => .error .invalidURI
  else if !(strip (isHostChar hostSafe) h).isEmpty then .error .invalidURI
  else do
    let t ← unquoteText h
    if !isAscii t then .error .invalidURI       -- `.encode('ascii')` → UnicodeEncodeError ⊂ UnicodeError
    else if containsXn t then .error needsOracle
    else .ok (lowerBytes t)

/-- the `port` setter: `port = port or self.PORT; if port: integer(port), 0 < port <= 65535` -/
def setPortBytes (u : Uri) (p : Bytes) : R Uri :=
  if p.isEmpty then .ok { u with port := u.PORT }
  else match PyInt.integerBytes 10 p with
    | some n => if 0 < n && n ≤ 65535 then .ok { u with port := some n.toNat } else .error .invalidURI
    | none => .error .invalidURI

def isPrintable (b : Byte) : Bool := 0x21 ≤ b && b ≤ 0x7E
def isSchemeChar (b : Byte) : Bool := isLower b || isDigit b || b == 0x2E || b == 0x2D || b == 0x2B

/-- `QueryString.encode(QueryString.decode(q, 'UTF-8'), 'UTF-8')` -/
def requery (qsafe : Byte → Bool) (q : Bytes) : R Bytes :=
  match Form.queryDecode q with
  | .ok ps => .ok (Form.encode qsafe ps)
  | .error (.escape _) => .error .invalidURI     -- `except UnicodeDecodeError: raise InvalidURI` (F11 repair)
  | .error e => .error e

structure Env where
  schemes : Schemes
  hostSafe : Byte → Bool      -- UNRESERVED + SUB_DELIMS
  querySafe : Byte → Bool     -- QueryString.UNQUOTED

/-- `a, _, b = s.partition(sep)`: `(s, b'')` when the separator is absent -/
def partitionAt (sep s : Bytes) : Bytes × Bytes :=
  match splitOnce sep s with | some (a, b) => (a, b) | none => (s, [])

/-- `a, _, b = s.rpartition(sep)`: `(b'', s)` when the separator is absent -/
def rpartitionAt (sep s : Bytes) : Bytes × Bytes :=
  match rsplitOnce sep s with | some (a, b) => (a, b) | none => ([], s)

/-- `uri.partition(b'/')[0]`: what precedes the first slash -/
def firstSeg (uri : Bytes) : Bytes := match splitOnce [0x2F] uri with | some (a, _) => a | none => uri

/-- the class switch of `type(self) is URI and b':' in uri.partition(b'/')[0]` at the start of `parse`
    (a colon after the first slash belongs to the path: the F50 repair) -/
def earlyClass (E : Env) (cls0 : Option (Bytes × Nat)) (uri : Bytes) : Option (Bytes × Nat) :=
  if cls0.isNone && (firstSeg uri).contains 0x3A then
    match splitOnce [0x3A] uri with
    | some (pre, _) => if pre.isEmpty then cls0 else lookupScheme E.schemes (lowerBytes pre)
    | none => cls0
  else cls0

/-- scheme / authority / rest: `partition(b'://')`, the `//` prefix, the `scheme:` prefix -/
def cutScheme (uri : Bytes) : Bytes × Bool × Bytes :=
  -- no scheme in front of a slash: a `://` further on belongs to the path (the F52 repair)
  let r1 : Bytes × Bool × Bytes := if startsWith uri [0x2F] then ([], false, uri) else match splitOnce [0x3A, 0x2F, 0x2F] uri with
    | some (a, b) => (a, true, b)
    | none => ([], false, uri)
  let r2 : Bytes × Bool × Bytes :=
    if !r1.2.1 && startsWith r1.2.2 [0x2F, 0x2F] then (r1.1, true, r1.2.2.drop 2) else r1
  if !r2.2.1 && (firstSeg r2.2.2).contains 0x3A then
    match splitOnce [0x3A] r2.2.2 with | some (a, b) => (a, false, b) | none => r2
  else r2

/-- authority and path -/
def cutAuthority (authExists : Bool) (uri : Bytes) : Bytes × Bytes :=
  if authExists then
    match splitOnce [0x2F] uri with | some (a, b) => (a, 0x2F :: b) | none => (uri, [])
  else ([], uri)

/-- host and port text of `hostport` -/
def cutHostPort (hostport : Bytes) : Bytes × Bytes :=
  if hostport.contains 0x3A && !endsWith hostport [0x5D] then
    match rsplitOnce [0x3A] hostport with | some (a, b) => (a, b) | none => (hostport, [])
  else (hostport, [])

/-- `URI.parse(uri)` on an object whose class is `cls0` (`none` = plain `URI`). -/
def parse (E : Env) (cls0 : Option (Bytes × Nat)) (uri : Bytes) : R Uri := do
  let cls1 := earlyClass E cls0 uri
  if !uri.all isPrintable then throw .invalidURI
  let f := partitionAt [0x23] uri          -- (rest, fragment)
  let q := partitionAt [0x3F] f.1          -- (rest, query)
  let sc := cutScheme q.1                  -- (scheme, authority?, rest)
  let ap := cutAuthority sc.2.1 sc.2.2     -- (authority, path)
  let uh := rpartitionAt [0x40] ap.1       -- (userinfo, hostport)
  let up := partitionAt [0x3A] uh.1        -- (username, password)
  let hp := cutHostPort uh.2               -- (host, port)
  let path ← parsePath ap.2
  let scheme := lowerBytes sc.1
  if !scheme.all isSchemeChar then throw .invalidURI
  let query ← if q.2.isEmpty then pure [] else requery E.querySafe q.2
  let username ← unquoteText up.1
  let password ← unquoteText up.2
  let host ← unquoteHost E.hostSafe hp.1
  let fragment ← unquoteText f.2
  let u := setScheme E.schemes { cls := cls1 } scheme
  let u := { u with username := username, password := password, host := host }
  let u ← setPortBytes u hp.2
  pure { u with path := path, query := query, fragment := fragment }

/-! ### abspathCore / normalize -/

/-- `re.sub(u'\\/{2,}', u'/', path)` -/
def collapse : Bytes → Bytes
  | a :: b :: rest => if a == 0x2F && b == 0x2F then collapse (b :: rest) else a :: collapse (b :: rest)
  | l => l

def dot : Bytes := [0x2E]
def dotdot : Bytes := [0x2E, 0x2E]

/-- one iteration of the loop in `abspathCore`; the stack is kept reversed (top first). -/
def step (st : List Bytes × Bool) (part : Bytes) : List Bytes × Bool :=
  if part == dotdot then (st.1.tail, true)      -- `not unsplit or unsplit.pop() is not None` is always true
  else if part != dot then (part :: st.1, false)
  else (st.1, true)

def abspathSegs (parts : List Bytes) : List Bytes :=
  let (st, dir) := parts.foldl step ([], false)
  if dir then ([] :: st).reverse else st.reverse

/-- the segment loop of `URI.abspath()` on the path text (before the root is restored) -/
def abspathCore (p : Bytes) : Bytes :=
  let q := collapse p
  if q.isEmpty then p
  else
    let r := joinWith [0x2F] (abspathSegs (splitOn1 0x2F q))
    if r.isEmpty then [0x2F] else r

/-- `URI.abspath()`: the segment loop, then the root of an absolute path put back if `..` had removed it (F60 repair) -/
def abspath (p : Bytes) : Bytes :=
  let q := abspathCore p
  if startsWith p [0x2F] && !startsWith q [0x2F] then 0x2F :: q else q

/-- `URI.normalize()`.  `self.port = self.port` stores the effective port: the stored one, else the default port of the class
    the lower-cased scheme selects (the F64 repair: the default port is explicit in the components afterwards). -/
def normalize (E : Env) (u : Uri) : Uri :=
  let sc := lowerBytes u.scheme
  let host := lowerBytes u.host
  let q := abspath u.path
  let cls := if sc.isEmpty then u.cls else lookupScheme E.schemes sc
  { cls := cls,
    scheme := sc, username := u.username, password := u.password, host := host,
    port := (match u.port with | some p => some p | none => cls.map (·.2)),
    path := if !startsWith q [0x2F] && !host.isEmpty && !sc.isEmpty && !q.isEmpty then 0x2F :: q else q,
    query := u.query, fragment := u.fragment }

/-- attribute assignment `uri.<name> = text` (`URI.__setattr__`, the `port` setter): the scheme switches the class by a
    case-sensitive lookup of the text as given; an empty port means `None` and stores the class default of the class the
    object has at that moment (so the order of assignments matters before normalisation, not after). -/
def assign (S : Schemes) (u : Uri) (name value : Bytes) : Uri :=
  if name == "scheme".toUTF8.toList then setScheme S u value
  else if name == "username".toUTF8.toList then { u with username := value }
  else if name == "password".toUTF8.toList then { u with password := value }
  else if name == "host".toUTF8.toList then { u with host := value }
  else if name == "port".toUTF8.toList then
    { u with port := if value.isEmpty then u.PORT else some (StartLine.decNat value) }
  else if name == "path".toUTF8.toList then { u with path := value }
  else if name == "query_string".toUTF8.toList then { u with query := value }
  else if name == "fragment".toUTF8.toList then { u with fragment := value }
  else u

/-! ### compose -/

structure Sets where
  scheme : Byte → Bool
  userinfo : Byte → Bool
  path : Byte → Bool
  fragment : Byte → Bool
  host : Byte → Bool := fun _ => false      -- UNRESERVED + SUB_DELIMS: what a registered name may hold unescaped (F65 repair)

/-- `b'%d' % port` (the same digit loop as in the start line) -/
def natToDec (n : Nat) : Bytes := StartLine.natToDec n

/-- `host.encode('idna')` for ASCII text (the codec's fast path): label length checks only. -/
def idnaEncodeAscii (h : Bytes) : R Bytes :=
  if h.isEmpty then .ok []
  else if !isAscii h then .error needsOracle
  else
    let labels := splitOn1 0x2E h
    let init := labels.dropLast
    let last := labels.getLast?.getD []
    if init.all (fun l => 0 < l.length && l.length < 64) && last.length < 64 then .ok h
    else .error .invalidURI          -- `except UnicodeError: raise InvalidURI` (F15 repair)

def composeAuthority (P : Sets) (u : Uri) : R Bytes :=
  if u.host.isEmpty then .ok []
  else do
    let ui := if u.username.isEmpty then [] else
      Percent.quote (fun b => P.userinfo b && b != 0x3A) u.username ++      -- user name: USERINFO without ':' (F21 repair)
        (if u.password.isEmpty then [] else 0x3A :: Percent.quote P.userinfo u.password) ++ [0x40]
    let h ← idnaEncodeAscii u.host
    -- a registered name is percent-encoded like every other component; a bracketed literal is written as it is (F65 repair)
    let h := if startsWith h [0x5B] && endsWith h [0x5D] then h else Percent.quote P.host h
    let port := match u.portProp with
      | some p => if some p != u.PORT then 0x3A :: natToDec p else []
      | none => []
    pure (ui ++ h ++ port)

def composeRelative (P : Sets) (u : Uri) : Bytes :=
  let pset : Byte → Bool := if u.scheme.isEmpty && !startsWith u.path [0x2F]
    then fun b => P.path b && b != 0x3A && b != 0x40 else P.path
  joinWith [0x2F] ((splitOn1 0x2F u.path).map (Percent.quote pset)) ++
    (if u.query.isEmpty then [] else 0x3F :: u.query) ++
    (if u.fragment.isEmpty then [] else 0x23 :: Percent.quote P.fragment u.fragment)

/-- `bytes(uri)` -/
def compose (P : Sets) (u : Uri) : R Bytes := do
  let a ← composeAuthority P u
  pure ((if u.scheme.isEmpty then [] else Percent.quote P.scheme u.scheme ++ [0x3A]) ++
    (if a.isEmpty then [] else [0x2F, 0x2F]) ++ a ++ composeRelative P u)

/-! ### copy, equality, join -/

/-- `cls(uri)` for a `URI` instance: `self.tuple = uri.tuple` on a fresh object of class `cls`.
    (The `port` setter maps a falsy port to the new class's `PORT`.) -/
def copyAs (E : Env) (cls : Option (Bytes × Nat)) (u : Uri) : Uri :=
  let v := setScheme E.schemes { cls := cls } u.scheme
  let port := match u.port with
    | some p => some p
    | none => v.PORT
  { v with username := u.username, password := u.password, host := u.host, port := port,
           path := u.path, query := u.query, fragment := u.fragment }

/-- the eight-tuple compared by `__eq__` -/
def Uri.tuple (u : Uri) : Bytes × Bytes × Bytes × Bytes × Option Nat × Bytes × Bytes × Bytes :=
  (u.scheme, u.username, u.password, u.host, u.port, u.path, u.query, u.fragment)

/-- `a == b` for two `URI` objects -/
def eqUri (E : Env) (a b : Uri) : Bool :=
  (normalize E (copyAs E a.cls a)).tuple == (normalize E (copyAs E a.cls b)).tuple

/-- `a == text`: the other operand is parsed by `type(a)` first -/
def eqText (E : Env) (a : Uri) (t : Bytes) : R Bool := do
  let b ← parse E a.cls t
  pure ((normalize E (copyAs E a.cls a)).tuple == (normalize E b).tuple)

/-- `base.join(reference)` for a parsed reference -/
def join (E : Env) (self rel : Uri) : Uri :=
  let current := copyAs E none self
  if !rel.scheme.isEmpty then normalize E rel
  else
    let joined := setScheme E.schemes {} current.scheme
    let current := if !rel.host.isEmpty then rel else current
    let joined := { joined with username := current.username, password := current.password, host := current.host }
    let joined := { joined with port := (match current.portProp with
        | some p => some p
        | none => joined.PORT) }
    let current := if !rel.path.isEmpty then rel else current
    let path := if !rel.path.isEmpty && !startsWith rel.path [0x2F] then
        self.path ++ (if endsWith self.path [0x2F] then [] else [0x2F, 0x2E, 0x2E, 0x2F]) ++ rel.path
      else current.path
    let current := if !rel.query.isEmpty then rel else current
    let joined := { joined with path := path, query := current.query }
    let current := if !rel.fragment.isEmpty then rel else current
    normalize E { joined with fragment := current.fragment }

end Httoop.Uri
