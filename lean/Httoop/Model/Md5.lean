import Httoop.Basic
/-
  MD5 (RFC 1321), executable, so that the driver compares real digests with `hashlib.md5`.
  Nothing is proved about MD5 itself: every theorem of C17 treats the hash as a parameter `H`;
  this implementation is validated by the correspondence (every digest the model prints is compared
  with the one the library computed through hashlib).
-/
namespace Httoop.Md5

def sTable : Array UInt32 := #[
  7, 12, 17, 22, 7, 12, 17, 22, 7, 12, 17, 22, 7, 12, 17, 22,
  5, 9, 14, 20, 5, 9, 14, 20, 5, 9, 14, 20, 5, 9, 14, 20,
  4, 11, 16, 23, 4, 11, 16, 23, 4, 11, 16, 23, 4, 11, 16, 23,
  6, 10, 15, 21, 6, 10, 15, 21, 6, 10, 15, 21, 6, 10, 15, 21]

def kTable : Array UInt32 := #[
  0xd76aa478, 0xe8c7b756, 0x242070db, 0xc1bdceee, 0xf57c0faf, 0x4787c62a, 0xa8304613, 0xfd469501,
  0x698098d8, 0x8b44f7af, 0xffff5bb1, 0x895cd7be, 0x6b901122, 0xfd987193, 0xa679438e, 0x49b40821,
  0xf61e2562, 0xc040b340, 0x265e5a51, 0xe9b6c7aa, 0xd62f105d, 0x02441453, 0xd8a1e681, 0xe7d3fbc8,
  0x21e1cde6, 0xc33707d6, 0xf4d50d87, 0x455a14ed, 0xa9e3e905, 0xfcefa3f8, 0x676f02d9, 0x8d2a4c8a,
  0xfffa3942, 0x8771f681, 0x6d9d6122, 0xfde5380c, 0xa4beea44, 0x4bdecfa9, 0xf6bb4b60, 0xbebfbc70,
  0x289b7ec6, 0xeaa127fa, 0xd4ef3085, 0x04881d05, 0xd9d4d039, 0xe6db99e5, 0x1fa27cf8, 0xc4ac5665,
  0xf4292244, 0x432aff97, 0xab9423a7, 0xfc93a039, 0x655b59c3, 0x8f0ccc92, 0xffeff47d, 0x85845dd1,
  0x6fa87e4f, 0xfe2ce6e0, 0xa3014314, 0x4e0811a1, 0xf7537e82, 0xbd3af235, 0x2ad7d2bb, 0xeb86d391]

def rotl (x : UInt32) (c : UInt32) : UInt32 := (x <<< c) ||| (x >>> (32 - c))

/-- little-endian 32-bit word from four octets -/
def word (a b c d : Byte) : UInt32 :=
  a.toUInt32 ||| (b.toUInt32 <<< 8) ||| (c.toUInt32 <<< 16) ||| (d.toUInt32 <<< 24)

def wordsOf : Bytes → List UInt32
  | a :: b :: c :: d :: rest => word a b c d :: wordsOf rest
  | _ => []

def bytesOfWord (w : UInt32) : Bytes :=
  [w.toUInt8, (w >>> 8).toUInt8, (w >>> 16).toUInt8, (w >>> 24).toUInt8]

/-- padding: 0x80, zeros to 56 mod 64, then the bit length as 64-bit little endian -/
def pad (m : Bytes) : Bytes :=
  let n := m.length
  let zeros := (55 + 64 - n % 64) % 64
  let bits := n * 8
  m ++ [(0x80 : Byte)] ++ List.replicate zeros (0 : Byte) ++ (List.range 8).map (fun i => UInt8.ofNat ((bits >>> (8 * i)) % 256))

structure State where
  a : UInt32
  b : UInt32
  c : UInt32
  d : UInt32

def round (M : Array UInt32) (s : State) (i : Nat) : State :=
  let (f, g) :=
    if i < 16 then ((s.b &&& s.c) ||| (~~~ s.b &&& s.d), i)
    else if i < 32 then ((s.d &&& s.b) ||| (~~~ s.d &&& s.c), (5 * i + 1) % 16)
    else if i < 48 then (s.b ^^^ s.c ^^^ s.d, (3 * i + 5) % 16)
    else (s.c ^^^ (s.b ||| ~~~ s.d), (7 * i) % 16)
  let f := f + s.a + kTable[i]! + M[g]!
  { a := s.d, d := s.c, c := s.b, b := s.b + rotl f sTable[i]! }

def block (s : State) (chunk : List UInt32) : State :=
  let M := chunk.toArray
  let t := (List.range 64).foldl (round M) s
  { a := s.a + t.a, b := s.b + t.b, c := s.c + t.c, d := s.d + t.d }

def blocks : Nat → State → List UInt32 → State
  | 0, s, _ => s
  | fuel + 1, s, ws => if ws.length < 16 then s else blocks fuel (block s (ws.take 16)) (ws.drop 16)

/-- the 16-octet digest -/
def digest (m : Bytes) : Bytes :=
  let ws := wordsOf (pad m)
  let s := blocks (ws.length / 16 + 1) { a := 0x67452301, b := 0xefcdab89, c := 0x98badcfe, d := 0x10325476 } ws
  bytesOfWord s.a ++ bytesOfWord s.b ++ bytesOfWord s.c ++ bytesOfWord s.d

/-- `md5(m).hexdigest().encode('ASCII')` -/
def hexdigest (m : Bytes) : Bytes :=
  (digest m).flatMap fun (b : Byte) => [hexDigitL (b >>> 4), hexDigitL (b &&& 0x0F)]

end Httoop.Md5
