import Httoop.Model.Element
/-
  Model of httoop/header/headers.py (class Headers) over httoop/util.py (CaseInsensitiveDict).

  A collection is an insertion-ordered association list canonical-name ↦ value octets.  The registry
  `HEADER` (title-cased key ↦ canonical name, list flag, priority, join separator) is a parameter,
  regenerated from the source on every run (T1).
  Not modelled: composing collections that contain a *list-element* field (Set-Cookie,
  WWW-Authenticate, Proxy-Authenticate: their `split` is field specific) — `needsOracle`.
-/
namespace Httoop.Headers
open Httoop Httoop.Element

structure RegEntry where
  key : Bytes            -- title-cased key
  name : Bytes           -- canonical name (`Element.__name__`)
  isList : Bool
  priority : Bytes       -- `b''` = none
  join : Bytes           -- separator used by `Element.join`
  deriving Repr, DecidableEq

abbrev Registry := List RegEntry

/-- ASCII `str.title()`: a cased letter after an uncased character is upper-cased, other letters lower-cased -/
def titleAux : Bool → Bytes → Bytes
  | _, [] => []
  | prevCased, b :: rest =>
    if isAlpha b then (if prevCased then toLower b else toUpper b) :: titleAux true rest
    else b :: titleAux false rest

def title (s : Bytes) : Bytes := titleAux false s

/-- HEADER_RE `[\x00-\x1F\x7F()<>@,;:\\\\\"/\[\]?={} \t\x80-\xFF]`: octets not allowed in a field name -/
def isBadNameByte (b : Byte) : Bool :=
  b ≤ 0x1F || b == 0x7F || b ≥ 0x80 || b == 0x28 || b == 0x29 || b == 0x3C || b == 0x3E || b == 0x40 || b == 0x2C ||
  b == 0x3B || b == 0x3A || b == 0x5C || b == 0x22 || b == 0x2F || b == 0x5B || b == 0x5D || b == 0x3F || b == 0x3D ||
  b == 0x7B || b == 0x7D || b == 0x20

def lookup (G : Registry) (titled : Bytes) : Option RegEntry := G.find? (·.key == titled)

/-- `Headers.formatkey` for an ASCII (or Latin-1) key given as octets, after the `fix:` commit that
    validates the name *before* title-casing it -/
def formatKey (G : Registry) (key : Bytes) : R Bytes :=
  if key.any isBadNameByte then .error .invalidHeader
  else
    let t := title key
    match lookup G t with
    | some e => .ok e.name
    | none => .ok t

abbrev Coll := List (Bytes × Bytes)

def Coll.get? : Coll → Bytes → Option Bytes
  | [], _ => none
  | e :: h, k => if e.1 == k then some e.2 else Coll.get? h k

/-- `dict.__setitem__`: replace in place or append (keys are unique) -/
def Coll.put : Coll → Bytes → Bytes → Coll
  | [], k, v => [(k, v)]
  | e :: h, k, v => if e.1 == k then (k, v) :: h else e :: Coll.put h k v

def Coll.del : Coll → Bytes → Coll
  | [], _ => []
  | e :: h, k => if e.1 == k then Coll.del h k else e :: Coll.del h k

/-- `headers[name] = value` (value already octets) -/
def set (G : Registry) (h : Coll) (name value : Bytes) : R Coll := do
  let k ← formatKey G name
  pure (h.put k value)

/-- `name in headers` -/
def contains (G : Registry) (h : Coll) (name : Bytes) : R Bool := do
  let k ← formatKey G name
  pure (h.get? k).isSome

/-- `headers.getbytes(name)` -/
def getbytes (G : Registry) (h : Coll) (name : Bytes) : R (Option Bytes) := do
  let k ← formatKey G name
  pure (h.get? k)

/-- `del headers[name]` (KeyError when absent) -/
def delete (G : Registry) (h : Coll) (name : Bytes) : R Coll := do
  let k ← formatKey G name
  if (h.get? k).isSome then pure (h.del k) else throw (.escape "KeyError")

/-- `headers.setdefault(name, value)`: the stored value when the field is there, else the field is set -/
def setdefault (G : Registry) (h : Coll) (name value : Bytes) : R (Bytes × Coll) := do
  let k ← formatKey G name
  match h.get? k with
  | some v => pure (v, h)
  | none => pure (value, h.put k value)

/-- `headers.pop(name, None)` -/
def pop (G : Registry) (h : Coll) (name : Bytes) : R (Option Bytes × Coll) := do
  let k ← formatKey G name
  pure (h.get? k, h.del k)

def joinSep (G : Registry) (canonical : Bytes) : Bytes :=
  match G.find? (·.name == canonical) with
  | some e => e.join
  | none => [0x2C, 0x20]

/-- `headers.append(name, value)` without params: set when absent or empty, else join with the field's separator.
    (`self[_name]` decodes RFC 2047 first; that branch is `needsOracle`.) -/
def append (G : Registry) (h : Coll) (name value : Bytes) : R Coll := do
  let k ← formatKey G name
  match h.get? k with
  | none => pure (h.put k value)
  | some old =>
    if rfc2047Branch old then throw needsOracle
    else if old.isEmpty then pure (h.put k value)
    else pure (h.put k (old ++ joinSep G k ++ value))

/-- split on CRLF: Python `data.split(b'\r\n')` -/
def splitCRLF : Bytes → List Bytes
  | [] => [[]]
  | [a] => [[a]]
  | a :: b :: rest =>
    if a == 0x0D && b == 0x0A then [] :: splitCRLF rest
    else match splitCRLF (b :: rest) with
      | [] => [[a]]
      | h :: t => (a :: h) :: t

def isSpTab (b : Byte) : Bool := b == 0x20 || b == 0x09

/-- take the continuation lines (starting with SP / HT) off the front, each without its first octet -/
def takeConts : List Bytes → List Bytes × List Bytes
  | [] => ([], [])
  | l :: ls =>
    match l with
    | c :: rest => if isSpTab c then let (cs, r) := takeConts ls; (rest :: cs, r) else ([], l :: ls)
    | [] => ([], l :: ls)

def parseLines (G : Registry) : Nat → List Bytes → Coll → R Coll
  | 0, _, h => .ok h
  | _, [], h => .ok h
  | fuel + 1, curr :: lines, h =>
    match splitOnce [0x3A] curr with
    | none => .error .invalidHeader
    | some (name, value) =>
      if name.any isBadNameByte then .error .invalidHeader
      else
        let name := pyStrip name
        let (conts, rest) := takeConts lines
        let value := rstrip isPySpace ((lstrip isPySpace value) ++ conts.flatten)
        match formatKey G name with
        | .error e => .error e
        | .ok k =>
          let v := match h.get? k with
            | some old => old ++ joinSep G k ++ value
            | none => value
          parseLines G fuel rest (h.put k v)

/-- `Headers.parse(data)` (onto an existing collection) -/
def parse (G : Registry) (h : Coll) (data : Bytes) : R Coll :=
  let lines := splitCRLF data
  parseLines G (lines.length + 1) lines h

def bytesLt : Bytes → Bytes → Bool
  | [], [] => false
  | [], _ :: _ => true
  | _ :: _, [] => false
  | a :: as, b :: bs => a < b || (a == b && bytesLt as bs)

def sortKey (G : Registry) (name : Bytes) : Bytes :=
  match G.find? (·.name == name) with
  | some e => if e.priority.isEmpty then name else e.priority
  | none => name

def insertBy (G : Registry) (x : Bytes × Bytes) : List (Bytes × Bytes) → List (Bytes × Bytes)
  | [] => [x]
  | y :: ys => if bytesLt (sortKey G x.1) (sortKey G y.1) then x :: y :: ys else y :: insertBy G x ys

/-- stable sort by (priority or name) -/
def sortItems (G : Registry) (l : List (Bytes × Bytes)) : List (Bytes × Bytes) :=
  l.foldl (fun acc x => insertBy G x acc) []

/-- `Headers.compose()` -/
def compose (G : Registry) (h : Coll) : R Bytes :=
  if h.any (fun e => (G.find? (·.name == e.1)).any (·.isList)) then .error needsOracle
  else .ok ((sortItems G h).flatMap (fun (k, v) => k ++ [0x3A, 0x20] ++ v ++ [0x0D, 0x0A]) ++ [0x0D, 0x0A])

end Httoop.Headers
