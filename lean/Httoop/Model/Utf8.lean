import Httoop.Basic
/-
  CPython's strict UTF-8 decoder as a validity predicate (`bytes.decode('utf-8')` raises
  `UnicodeDecodeError` exactly when `utf8Valid` is false): well-formed sequences of Unicode 15
  table 3-7 — no over-long forms, no surrogates, nothing above U+10FFFF.
  Text that the model handles is kept as its UTF-8 octets; every operation the modelled code
  performs on `str` values (split/join/replace/startswith on ASCII delimiters) commutes with
  UTF-8 encoding because UTF-8 is self-synchronising and ASCII octets only encode ASCII.
-/
namespace Httoop

def isCont (b : Byte) : Bool := 0x80 ≤ b && b ≤ 0xBF

def utf8Valid : Bytes → Bool
  | [] => true
  | a :: rest =>
    if a < 0x80 then utf8Valid rest
    else if 0xC2 ≤ a && a ≤ 0xDF then
      match rest with
      | b :: r => isCont b && utf8Valid r
      | _ => false
    else if 0xE0 ≤ a && a ≤ 0xEF then
      match rest with
      | b :: c :: r =>
        (if a == 0xE0 then 0xA0 ≤ b && b ≤ 0xBF
         else if a == 0xED then 0x80 ≤ b && b ≤ 0x9F
         else isCont b) && isCont c && utf8Valid r
      | _ => false
    else if 0xF0 ≤ a && a ≤ 0xF4 then
      match rest with
      | b :: c :: d :: r =>
        (if a == 0xF0 then 0x90 ≤ b && b ≤ 0xBF
         else if a == 0xF4 then 0x80 ≤ b && b ≤ 0x8F
         else isCont b) && isCont c && isCont d && utf8Valid r
      | _ => false
    else false

def isAscii (s : Bytes) : Bool := s.all (· < 0x80)

end Httoop
