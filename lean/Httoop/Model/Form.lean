import Httoop.Model.Percent
import Httoop.Model.Utf8
/-
  Model of httoop/codecs/application/x_www_form_urlencoded.py (FormURLEncoded) and
  httoop/uri/query_string.py (QueryString), at the octet level: names and values are the
  charset-encoded octet strings (`str.encode(charset)` / `bytes.decode(charset)` are CPython's
  and are applied by the caller; see `Props/C13` for how the text-level statement follows).
-/
namespace Httoop.Form
open Httoop

/-- Python `data.replace(b'%20', b'+')`: leftmost non-overlapping occurrences. -/
def replacePct20 : Bytes → Bytes
  | a :: b :: c :: rest =>
    if a == 0x25 && b == 0x32 && c == 0x30 then 0x2B :: replacePct20 rest
    else a :: replacePct20 (b :: c :: rest)
  | l => l

/-- Python `data.replace(b'+', b' ')` -/
def plusToSpace (d : Bytes) : Bytes := d.map fun b => if b == 0x2B then 0x20 else b

/-- one field: `b'%s=%s' % (n, v) if (n and v) else b'%s%s' % (n, v)` -/
def field (n v : Bytes) : Bytes := if !n.isEmpty && !v.isEmpty then n ++ 0x3D :: v else n ++ v

/-- `FormURLEncoded.encode` on already charset-encoded pairs; `safe` is `cls.UNQUOTED`. -/
def encode (safe : Byte → Bool) (pairs : List (Bytes × Bytes)) : Bytes :=
  replacePct20 (joinWith [0x26] (pairs.map fun (n, v) => field (Percent.quote safe n) (Percent.quote safe v)))

/-- `field.partition(b'=')[::2]` -/
def partitionEq (f : Bytes) : Bytes × Bytes :=
  match splitOnce [0x3D] f with
  | some (a, b) => (a, b)
  | none => (f, [])

/-- `FormURLEncoded.decode` up to (not including) the final charset decoding. -/
def decode (data : Bytes) : List (Bytes × Bytes) :=
  if data.isEmpty then []
  else
    let d := strip (· == 0x26) (plusToSpace data)
    ((splitOn1 0x26 d).filter (fun f => !f.isEmpty)).map fun f =>
      let (n, v) := partitionEq f
      (Percent.unquote n, Percent.unquote v)

/-- `FormURLEncoded.decode(data, charset)`: the final `.decode(charset)` of every name and value
    raises `UnicodeDecodeError` for UTF-8 (`utf8 = true`) when one is not well formed; ISO-8859-1 is total. -/
def decodeCs (utf8 : Bool) (data : Bytes) : R (List (Bytes × Bytes)) :=
  let ps := decode data
  if utf8 && !(ps.all fun (n, v) => utf8Valid n && utf8Valid v) then .error (.escape "UnicodeDecodeError")
  else .ok ps

/-- `stringprep.in_table_c21` on an ISO-8859-1 decoded octet: ASCII control characters. -/
def isC21 (b : Byte) : Bool := b < 0x20 || b == 0x7F

/-- `QueryString.decode(data, 'UTF-8')` -/
def queryDecode (data : Bytes) : R (List (Bytes × Bytes)) :=
  if (Percent.unquote data).any isC21 then .error .invalidURI
  else decodeCs true data

end Httoop.Form
