import Httoop.Model.Element
import Httoop.Model.Inet
import Httoop.Model.PyInt
/-
  Model of httoop/header/messaging.py class Host (after the `fix:` commits for F12/F13) and of the
  small field classes the parser consults: Connection/Upgrade/HTTP2-Settings (generic elements),
  Trailer (forbidden names), Content-Encoding / Transfer-Encoding (`CodecElement`), Content-Type
  (boundary check only).
-/
namespace Httoop.Host
open Httoop Httoop.Element

/-- RE_HOSTNAME `^([^\x00-\x1F\x7F()^'"<>@,;:/?#\[\]={} \t\\"]+)$` on one (ISO-8859-1 decoded) character
    (`?` and `#` since the F63 repair) -/
def isHostnameChar (b : Byte) : Bool :=
  !(b ≤ 0x1F || b == 0x7F || b == 0x28 || b == 0x29 || b == 0x5E || b == 0x27 || b == 0x22 || b == 0x3C || b == 0x3E ||
    b == 0x40 || b == 0x2C || b == 0x3B || b == 0x3A || b == 0x2F || b == 0x5B || b == 0x5D || b == 0x3D || b == 0x7B ||
    b == 0x7D || b == 0x20 || b == 0x09 || b == 0x5C || b == 0x3F || b == 0x23)

structure HostVal where
  host : Bytes                -- `host.host` (brackets removed), Latin-1 octets of the text
  port : Option Nat           -- `host.port`: an int, or falsy
  deriving Repr, DecidableEq

def rsplitColon (v : Bytes) : Option (Bytes × Bytes) :=
  match splitOnce [0x3A] v.reverse with
  | some (l, r) => some (r.reverse, l.reverse)
  | none => none

/-- HOSTPORT `^(.*?)(?::(\d+))?$`: the text in front of the last colon and the digits after it -/
def splitHostPort (v : Bytes) : Bytes × Bytes :=
  match rsplitColon v with
  | some (h, p) => if !p.isEmpty && p.all isDigit then (h, p) else (v, [])
  | none => (v, [])

def unbracket (host : Bytes) : Bytes :=
  if startsWith host [0x5B] && Element.endsWith host [0x5D] then (host.drop 1).dropLast else host

/-- the rest of `sanitize()` once host and port text are separated -/
def classify (host port : Bytes) : R HostVal :=
  if port.length > 4300 then .error .invalidHeader       -- `integer(port)`: int() digit limit → InvalidHeader (F35 repair)
  else
    let portN : Option Nat := if port.isEmpty then none else some (Inet.decNat port)
    let isIp := (Inet.pton6 host).isSome || (Inet.pton4 host).isSome
    let isFqdn := !host.isEmpty && host.all isHostnameChar
    if isIp || isFqdn then .ok { host := host, port := match portN with | some 0 => none | p => p }
    else .error .invalidHeader

/-- `Host.sanitize()` on the lower-cased value: host and optional port, brackets removed, the host an address literal or a
    text of hostname characters -/
def sanitize (v : Bytes) : R HostVal :=
  classify (unbracket (splitHostPort v).1) (splitHostPort v).2

/-- `Host.parse(value)` = generic element parse, then `sanitize`.  Only the element *value* matters
    (parameters are parsed — and may make the field invalid — but are not used). -/
def parse (value : Bytes) : R HostVal :=
  match Element.parse value with
  | .error e => .error e
  | .ok el =>
    -- the element value is text; the model keeps the Latin-1 octets of the wire value
    match utf8ToLatin1 el.value with
    | none => .error needsOracle
    | some v0 =>
      let v := v0.map fun b => if b < 0x80 then toLower b else b       -- str.lower(): ASCII here; Latin-1 letters: see below
      if v0.any (fun b => b ≥ 0xC0 && b != 0xD7 && b ≤ 0xDE) then .error needsOracle   -- upper-case Latin-1 letters would be lowered
      else if v.contains 0x0A then .error needsOracle          -- `.` / `$` of the regexes around line feeds
      else sanitize v

/-- a generic element field whose value list the parser looks at (`headers.values(name)`) -/
def values (fieldvalue : Bytes) : R (List Bytes) :=
  if fieldvalue.isEmpty then .ok []
  else
    let rec go : List Bytes → R (List Bytes)
      | [] => .ok []
      | e :: es => match Element.parse e with
        | .error er => .error er
        | .ok el => match go es with
          | .error er => .error er
          | .ok vs => .ok (el.value :: vs)
    go (Element.split fieldvalue)

/-- `Trailer.sanitize`: `value.title() in forbidden_headers` -/
def trailerNames (titleFn : Bytes → Bytes) (forbidden : List Bytes) (fieldvalue : Bytes) : R (List Bytes) :=
  match values fieldvalue with
  | .error e => .error e
  | .ok vs => if vs.any (fun v => forbidden.contains (titleFn v)) then .error .invalidHeader else .ok vs

inductive Coding where
  | none          -- empty value: no codec, nothing raised
  | gzip | deflate
  deriving Repr, DecidableEq

/-- `headers.element('Content-Encoding')` + `.codec`: only the exact values `gzip` / `deflate` have a codec;
    every other non-empty value is `InvalidHeader` (→ 501), since the F34 repair also the registered
    but unimplemented ones -/
def contentCoding (fieldvalue : Bytes) : R Coding :=
  match Element.parse fieldvalue with
  | .error e => .error e
  | .ok el =>
    if el.value.isEmpty then .ok .none
    else if el.value == "gzip".toUTF8.toList then .ok .gzip
    else if el.value == "deflate".toUTF8.toList then .ok .deflate
    else .error .invalidHeader

end Httoop.Host
