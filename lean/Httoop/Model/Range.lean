import Httoop.Model.Element
import Httoop.Model.StartLine
/-
  Model of httoop/header/range.py (Range, ContentRange) and of the byte-range part of
  ComposedResponse.prepare (httoop/semantic/response.py), after the `fix:` commit that makes
  `Range.parse` accept only 1*DIGIT positions (finding F29).

  The representation is an octet string (a seekable `BytesIO`); `seek/read` are `drop/take`.
-/
namespace Httoop.Range
open Httoop Httoop.Element

abbrev Spec := Option Nat × Option Nat       -- (first, last); `none` = absent

abbrev decNat := StartLine.decNat
abbrev natToDec := StartLine.natToDec

def truthy (x : Option Nat) : Bool := match x with | some n => n != 0 | none => false

/-- one `byte-range-spec` of `Range.parse` -/
def parseOne (brange : Bytes) : R Spec :=
  match splitOnce [0x2D] brange with
  | none => .error .invalidHeader                                  -- `not __`
  | some (a, b) =>
    let start := pyStrip a
    let stop := pyStrip b
    if start.isEmpty && stop.isEmpty then .error .invalidHeader
    else if (!start.isEmpty && !start.all isDigit) || (!stop.isEmpty && !stop.all isDigit) then .error .invalidHeader
    else if start.length > 4300 || stop.length > 4300 then .error .invalidHeader      -- int(): ValueError
    else
      let s : Option Nat := if start.isEmpty then none else some (decNat start)
      let e : Option Nat := if stop.isEmpty then none else some (decNat stop)
      match s, e with
      | some s', some e' => if e' ≤ s' then .error .invalidHeader else .ok (s, e)
      | _, _ => if !truthy s && !truthy e then .error .invalidHeader else .ok (s, e)

def sortKey (x : Spec) : Int := match x.1 with | some n => (n : Int) | none => -1

def insertSorted (x : Spec) : List Spec → List Spec
  | [] => [x]
  | y :: ys => if sortKey x < sortKey y then x :: y :: ys else y :: insertSorted x ys

def dedup : List Spec → List Spec
  | [] => []
  | x :: xs => if xs.contains x then dedup xs else x :: dedup xs

/-- `sorted(set(ranges), key=first or -1)` (ties are resolved by `sanitize` raising) -/
def sortSpecs (l : List Spec) : List Spec := (dedup l).foldl (fun acc x => insertSorted x acc) []

def mapM' {α β} (f : α → R β) : List α → R (List β)
  | [] => .ok []
  | a :: as => match f a with
    | .error e => .error e
    | .ok b => match mapM' f as with
      | .error e => .error e
      | .ok bs => .ok (b :: bs)

/-- `prevent_denial_of_service` -/
def sanitize (rs : List Spec) : R Unit :=
  if (rs.filter (·.1.isNone)).length > 1 || (rs.filter (·.2.isNone)).length > 1 then .error .invalidHeader
  else
    let top := (rs.map fun m => m.2.getD 0 + 1).foldl max 0
    let ivs := rs.map fun (x, y) => ((if truthy x then x.getD 0 else 0), (if truthy y then y.getD 0 else top))
    let rec overlap : List (Nat × Nat) → List (Nat × Nat) → Bool
      | [], _ => false
      | (s, e) :: rest, seen =>
        seen.any (fun (s2, e2) => max s s2 < min e e2) || overlap rest ((s, e) :: seen)
    if overlap ivs [] then .error .invalidHeader
    else if rs.any (fun x => !truthy x.2) then .ok ()        -- an `inf` size makes the deviation NaN: not > 2.0
    else
      let sizes := rs.map fun (x, y) => (y.getD 0 : Int) - (if truthy x then x.getD 0 else 0)
      let n : Int := sizes.length
      let sum := sizes.foldl (· + ·) 0
      let sq := (sizes.map fun s => s * s).foldl (· + ·) 0
      if n * sq - sum * sum > 4 * n * n then .error .invalidHeader else .ok ()

/-- `Range.parse` + `sanitize`: (unit, ranges) -/
def parse (v : Bytes) : R (Bytes × List Spec) :=
  let (unit, ranges) := match splitOnce [0x3D] v with | some (a, b) => (a, b) | none => (v, [])
  if (pyStrip unit).isEmpty then .error .invalidHeader else        -- `if not bytesunit.strip(): raise InvalidHeader` (F30 repair)
  match mapM' parseOne (Element.split ranges) with
  | .error e => .error e
  | .ok rs =>
    let rs := sortSpecs rs
    match sanitize rs with
    | .error e => .error e
    | .ok _ => .ok (unit, rs)

/-- `positions` + `get_range_content` on a `BytesIO` holding `data` -/
def slice (data : Bytes) (r : Spec) : Bytes :=
  match r with
  | (none, some e) => data.drop (data.length - e)                      -- seek(-e, SEEK_END) clamps at 0
  | (some s, none) => data.drop s
  | (some s, some e) => (data.drop s).take (e + 1 - s)
  | (none, none) => data

def sBytes : Bytes := [0x62, 0x79, 0x74, 0x65, 0x73]

/-- `bytes(ContentRange('bytes', (first, last), length))` -/
def contentRange (r : Spec) (length : Nat) : Bytes :=
  let s := if truthy r.1 then r.1.getD 0 else 0
  let e := if truthy r.2 then r.2.getD 0 else length
  sBytes ++ 0x20 :: natToDec s ++ 0x2D :: natToDec e ++ 0x2F :: natToDec length

/-- `bytes(ContentRange('bytes', None, length))` (416) -/
def contentRangeUnsat (length : Nat) : Bytes := sBytes ++ [0x20, 0x2A, 0x2F] ++ natToDec length

structure Conds where
  respProto11 : Bool := true      -- response.protocol >= (1, 1)
  reqProto11 : Bool := true
  status200 : Bool := true
  methodGET : Bool := true
  acceptRangesBytes : Bool := true   -- after `setdefault('Accept-Ranges', b'bytes')`: validator present, no other value
  notChunked : Bool := true
  deriving Repr, DecidableEq

/-- the `Accept-Ranges` default of `prepare()`:
    `status == 200 and fileable and not chunked and 'Etag' in headers or 'Last-Modified' in headers` -/
def acceptRangesOf (status200 notChunked etag lastModified : Bool) : Bool :=
  (status200 && notChunked && etag) || lastModified

inductive Outcome where
  | unchanged                                   -- conditions not met: the 200 response goes out whole
  | unsatisfiable (contentRange : Bytes)        -- 416
  | single (body contentRange : Bytes) (contentLength : Nat)
  | multi (parts : List (Bytes × Bytes))        -- (Content-Range value, content) per part, in order
  deriving Repr, DecidableEq

/-- `prepare_ranges` for a request that carries `Range: v` -/
def prepareRanges (c : Conds) (data : Bytes) (v : Bytes) : Outcome :=
  if !(c.respProto11 && c.reqProto11 && c.status200 && c.methodGET && c.acceptRangesBytes && c.notChunked
      && !data.isEmpty) then .unchanged
  else match parse v with
    | .error _ => .unsatisfiable (contentRangeUnsat data.length)
    | .ok (_, rs) =>
      match rs with
      | [r] => let b := slice data r; .single b (contentRange r data.length) b.length
      | _ => .multi (rs.map fun r => (contentRange r data.length, slice data r))

end Httoop.Range
