import Httoop.Model.Element
/-
  Model of `_AcceptElement` (httoop/header/element.py) and the Accept* / TE classes of
  httoop/header/messaging.py: q-value separation, `quality`, `sanitize`, ordering, `Headers.elements`.

  q-values in the RFC 7231 grammar (`0[.ddd]`, `1[.000]`) are exact thousandths.  Texts that Python's
  `float()` accepts outside that grammar (`1e3`, `.5`, `nan`, …) are numbers to the code as well; the
  model does not order them (`needsOracle`).  Texts `float()` rejects make the element invalid.
-/
namespace Httoop.Accept
open Httoop Httoop.Element

def skipWs (s : Bytes) : Bytes := s.dropWhile isPySpace

/-- does `;\s*q\s*=\s*` match at the head of `s`?  returns the remainder after the match -/
def matchQSep (s : Bytes) : Option Bytes :=
  match s with
  | 0x3B :: r =>
    match skipWs r with
    | 0x71 :: r2 =>
      match skipWs r2 with
      | 0x3D :: r3 => some (skipWs r3)
      | _ => none
    | _ => none
  | _ => none

/-- `RE_Q_SEPARATOR.split(s, 1)` -/
def qSplit : Bytes → Bytes × Option Bytes
  | [] => ([], none)
  | a :: rest =>
    match matchQSep (a :: rest) with
    | some after => ([], some after)
    | none => let (h, t) := qSplit rest; (a :: h, t)

/-! ### `float()` -/

/-- digits with single underscores between digits; returns the remainder -/
def digitPart : Bytes → Option Bytes
  | d :: rest =>
    if !isDigit d then none
    else
      let rec go : Bytes → Bytes
        | 0x5F :: d2 :: r => if isDigit d2 then go (d2 :: r) else 0x5F :: d2 :: r
        | d2 :: r => if isDigit d2 then go r else d2 :: r
        | [] => []
      some (go rest)
  | [] => none

/-- does CPython's `float(text)` accept this ASCII text? -/
def pyFloatOk (t : Bytes) : Bool :=
  let t := pyStrip t
  let t := match t with | 0x2B :: r => r | 0x2D :: r => r | r => r
  let l := lower t
  if l == "inf".toUTF8.toList || l == "infinity".toUTF8.toList || l == "nan".toUTF8.toList then true
  else
    -- mantissa
    let (hasInt, r) := match digitPart t with | some r => (true, r) | none => (false, t)
    let (hasFrac, r, ok) := match r with
      | 0x2E :: r2 => (match digitPart r2 with | some r3 => (true, r3, true) | none => (false, r2, true))
      | _ => (false, r, true)
    if !ok || !(hasInt || hasFrac) then false
    else match r with
      | [] => true
      | e :: r2 =>
        if e == 0x65 || e == 0x45 then
          let r3 := match r2 with | 0x2B :: x => x | 0x2D :: x => x | x => x
          match digitPart r3 with | some [] => true | _ => false
        else false

/-- a q-value in the RFC grammar, as thousandths -/
def rfcQ (t : Bytes) : Option Nat :=
  let frac (ds : Bytes) : Option Nat :=
    if ds.length ≤ 3 && ds.all isDigit then
      some ((ds ++ List.replicate (3 - ds.length) 0x30).foldl (fun (a : Nat) (b : Byte) => a * 10 + (b.toNat - 0x30)) 0)
    else none
  match t with
  | [0x30] => some 0
  | [0x31] => some 1000
  | 0x30 :: 0x2E :: ds => frac ds
  | 0x31 :: 0x2E :: ds => if ds.all (· == 0x30) && ds.length ≤ 3 then some 1000 else none
  | _ => none

inductive Quality where
  | q (thousandths : Nat)
  | none                      -- empty q text: `quality` is None
  deriving Repr, DecidableEq

/-- `quality` / the check in `sanitize` on the text of the `q` parameter (absent = "1") -/
def quality (qtext : Option Bytes) : R Quality :=
  match qtext with
  | Option.none => .ok (.q 1000)
  | some t =>
    if t.isEmpty then .ok .none
    else if !isAscii t then .error needsOracle
    else if !pyFloatOk t then .error .invalidHeader        -- `float(val)` raises ValueError
    else match rfcQ t with
      | some n => .ok (.q n)
      | Option.none => .error needsOracle

structure AElem where
  value : Bytes
  params : List (Bytes × Bytes)
  q : Nat                       -- thousandths
  deriving Repr, DecidableEq

def sQ : Bytes := [0x71]

/-- `dict` then `ByteUnicodeDict(params)` with the extra str key "q" set last -/
def setQ (ps : List (Bytes × Bytes)) (v : Bytes) : List (Bytes × Bytes) :=
  if ps.any (·.1 == sQ) then ps.map fun e => if e.1 == sQ then (sQ, v) else e else ps ++ [(sQ, v)]

/-- `_AcceptElement.parse` + `sanitize`; `isAccept` adds `Accept.sanitize` (`*` → `*/*`) -/
def parse (unreserved : Byte → Bool) (isAccept : Bool) (elementstr : Bytes) : R AElem :=
  if rfc2047Branch elementstr then .error needsOracle
  else
    let (media, after) := qSplit elementstr
    let media := pyStrip media
    let qv : R (Option Bytes) := match after with
      | none => .ok none
      | some a => match Element.parse (pyStrip a) with
        | .ok e => .ok (some (Element.compose unreserved e))
        | .error er => .error er
    match qv with
    | .error e => .error e
    | .ok qv =>
      match parseParams isTSpecial defaultKey media with
      | .error e => .error e
      | .ok (v, ps) =>
        let ps := match qv with | some t => setQ ps t | none => ps
        let qtext := (ps.find? (·.1 == sQ)).map (·.2)
        match quality qtext with
        | .error e => .error e
        | .ok .none => .error needsOracle       -- `q=`: quality None, ordering raises TypeError; out of the property
        | .ok (.q n) =>
          let v := latin1ToUtf8 v
          .ok { value := if isAccept && v == [0x2A] then [0x2A, 0x2F, 0x2A] else v, params := ps, q := n }

/-- `bytes(element)` / `str(element)` -/
def composeA (unreserved : Byte → Bool) (e : AElem) : Bytes :=
  Element.compose unreserved { value := e.value, params := e.params }

def bytesLt : Bytes → Bytes → Bool
  | [], [] => false
  | [], _ :: _ => true
  | _ :: _, [] => false
  | a :: as, b :: bs => a < b || (a == b && bytesLt as bs)

/-- `a < b` (`_AcceptElement.__lt__`) on (quality, composed text) -/
def keyLt (a b : Nat × Bytes) : Bool := if a.1 == b.1 then bytesLt a.2 b.2 else a.1 < b.1
def keyLe (a b : Nat × Bytes) : Bool := !keyLt b a

/-- `sorted(elements, reverse=True)`: descending, stable -/
def sortDesc (l : List (Nat × Bytes)) : List (Nat × Bytes) := l.mergeSort fun a b => keyLe b a

/-- `Headers.elements(name)` for an Accept-like field: composed elements with their quality, in the
    order returned -/
def elements (unreserved : Byte → Bool) (isAccept : Bool) (fieldvalue : Bytes) : R (List (Nat × Bytes)) :=
  if fieldvalue.isEmpty then .ok []
  else
    let rec go : List Bytes → R (List (Nat × Bytes))
      | [] => .ok []
      | e :: es => match parse unreserved isAccept e with
        | .error er => .error er
        | .ok a => match go es with
          | .error er => .error er
          | .ok rest => .ok ((a.q, composeA unreserved a) :: rest)
    match go (Element.split fieldvalue) with
    | .error e => .error e
    | .ok l => .ok (sortDesc l)

end Httoop.Accept
