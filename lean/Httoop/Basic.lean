/-
  Httoop.Basic — shared vocabulary of the model (import-free: core Lean only).

  Bytes are `List UInt8`; text is a list of Unicode scalar values represented as `Nat`
  code points (`Text`) where the property quantifies over arbitrary Unicode, or plain ASCII
  bytes where the code only ever handles ASCII.
-/

namespace Httoop

abbrev Byte := UInt8
abbrev Bytes := List UInt8

/-- Python exceptions as data.  `status c` is a `StatusException` with code `c`;
    the `invalid*` constructors are the `httoop.exceptions.Invalid*` classes;
    `escape k` is any other Python exception class (`k` names it). -/
inductive PyExc where
  | status (code : Nat)
  | invalidLine | invalidHeader | invalidURI | invalidDate | invalidBody
  | decodeError | encodeError
  | escape (kind : String)
  deriving Repr, DecidableEq, Inhabited

abbrev R (α : Type) := Except PyExc α

instance {ε α : Type} [DecidableEq ε] [DecidableEq α] : DecidableEq (Except ε α) := fun a b =>
  match a, b with
  | .ok x, .ok y => if h : x = y then isTrue (by rw [h]) else isFalse (by intro e; cases e; exact h rfl)
  | .error x, .error y => if h : x = y then isTrue (by rw [h]) else isFalse (by intro e; cases e; exact h rfl)
  | .ok _, .error _ => isFalse (by intro e; cases e)
  | .error _, .ok _ => isFalse (by intro e; cases e)

/-! ### ASCII classes -/

def isDigit (b : Byte) : Bool := 0x30 ≤ b && b ≤ 0x39
def isUpper (b : Byte) : Bool := 0x41 ≤ b && b ≤ 0x5A
def isLower (b : Byte) : Bool := 0x61 ≤ b && b ≤ 0x7A
def isAlpha (b : Byte) : Bool := isUpper b || isLower b
def isAlnum (b : Byte) : Bool := isAlpha b || isDigit b
def toLower (b : Byte) : Byte := if isUpper b then b + 0x20 else b
def toUpper (b : Byte) : Byte := if isLower b then b - 0x20 else b

/-- Python `bytes.isspace` / the default `strip()` set: SP HT LF VT FF CR. -/
def isPySpace (b : Byte) : Bool :=
  b == 0x20 || b == 0x09 || b == 0x0A || b == 0x0B || b == 0x0C || b == 0x0D

/-! ### hexadecimal -/

def isHexDigit (b : Byte) : Bool :=
  isDigit b || (0x41 ≤ b && b ≤ 0x46) || (0x61 ≤ b && b ≤ 0x66)

/-- value of one hexadecimal digit (0 for non-digits; only used under `isHexDigit`). -/
def hexVal (b : Byte) : Byte :=
  if isDigit b then b - 0x30
  else if 0x41 ≤ b && b ≤ 0x46 then b - 0x37
  else if 0x61 ≤ b && b ≤ 0x66 then b - 0x57
  else 0

/-- upper-case hexadecimal digit of a nibble `n < 16`. -/
def hexDigitU (n : Byte) : Byte := if n < 10 then 0x30 + n else 0x37 + n

/-- lower-case hexadecimal digit of a nibble `n < 16`. -/
def hexDigitL (n : Byte) : Byte := if n < 10 then 0x30 + n else 0x57 + n

/-! ### list utilities mirroring Python `bytes` methods -/

/-- `a.startswith(p)` -/
def startsWith : Bytes → Bytes → Bool
  | _, [] => true
  | [], _ :: _ => false
  | a :: as, p :: ps => a == p && startsWith as ps

/-- First occurrence of the non-empty separator: `some (before, after)` (Python `partition`). -/
def splitOnce (sep : Bytes) : Bytes → Option (Bytes × Bytes)
  | [] => if sep.isEmpty then some ([], []) else none
  | a :: as =>
    if startsWith (a :: as) sep then some ([], (a :: as).drop sep.length)
    else match splitOnce sep as with
      | some (l, r) => some (a :: l, r)
      | none => none

/-- `sep in a` -/
def contains (a sep : Bytes) : Bool := (splitOnce sep a).isSome

/-- Python `a.split(sep)` for a one-octet separator. -/
def splitOn1 (sep : Byte) : Bytes → List Bytes
  | [] => [[]]
  | a :: as =>
    if a == sep then [] :: splitOn1 sep as
    else match splitOn1 sep as with
      | [] => [[a]]          -- unreachable: splitOn1 never returns []
      | h :: t => (a :: h) :: t

/-- Python `sep.join(parts)` -/
def joinWith (sep : Bytes) : List Bytes → Bytes
  | [] => []
  | [x] => x
  | x :: y :: rest => x ++ sep ++ joinWith sep (y :: rest)

def lstrip (p : Byte → Bool) (a : Bytes) : Bytes := a.dropWhile p
def rstrip (p : Byte → Bool) (a : Bytes) : Bytes := (a.reverse.dropWhile p).reverse
def strip (p : Byte → Bool) (a : Bytes) : Bytes := rstrip p (lstrip p a)

/-! ### hex transport for the line protocol -/

def hexOfBytes (bs : Bytes) : String :=
  String.ofList (bs.flatMap fun (b : Byte) =>
    [Char.ofNat (hexDigitL (b >>> 4)).toNat, Char.ofNat (hexDigitL (b &&& 0x0F)).toNat])

def bytesOfHex (s : String) : Option Bytes :=
  let rec go : List Char → Option Bytes
    | [] => some []
    | [_] => none
    | a :: b :: rest =>
      let x := UInt8.ofNat a.toNat; let y := UInt8.ofNat b.toNat
      if a.toNat < 128 && b.toNat < 128 && isHexDigit x && isHexDigit y then
        (go rest).map fun r => (hexVal x * 16 + hexVal y) :: r
      else none
  if s == "-" then some [] else go s.toList

def hexOrDash (bs : Bytes) : String := if bs.isEmpty then "-" else hexOfBytes bs

end Httoop
