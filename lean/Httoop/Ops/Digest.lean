import Httoop.Proto
import Httoop.Model.Digest
import Httoop.Model.Md5
namespace Httoop.Ops
open Httoop Httoop.Digest

/-- optional octet string: `~` absent, `-` empty, else hex -/
def optArg (s : String) : Option (Option Bytes) :=
  if s == "~" then some none else (bytesOfHex s).map some

def optArgs : List String → Option (List (Option Bytes))
  | [] => some []
  | a :: as => do
    let x ← optArg a
    let xs ← optArgs as
    pure (x :: xs)

/-- field order of the line protocol -/
def infoOf : List (Option Bytes) → Option Info
  | [username, realm, password, nonce, cnonce, nc, method, uri, entityBody, qop, algorithm, a1, response, opaq] =>
    some { username, realm, password, nonce, cnonce, nc, method, uri, entityBody, qop, algorithm, a1, response, opaq }
  | _ => none

def renderD {α} (f : α → String) : R α → String
  | .error (.escape "model:needs-oracle") => "skip"
  | r => renderR f r

def renderOptB (v : Option Bytes) : String := match v with | none => "~" | some b => hexOrDash b

def renderInfo (i : Info) : String :=
  " ".intercalate ([i.username, i.realm, i.password, i.nonce, i.cnonce, i.nc, i.method, i.uri, i.entityBody, i.qop, i.algorithm,
    i.a1, i.response, i.opaq].map renderOptB)

def opsDigest (op : String) (args : List String) : Option String :=
  match op with
  | "dg.calc" => do
    let p ← (optArgs args) >>= infoOf
    pure (renderD hexOrDash (calculate Md5.hexdigest p))
  | "dg.compose" => do
    let p ← (optArgs args) >>= infoOf
    pure (renderD hexOrDash (compose Md5.hexdigest p))
  | "dg.check" => do
    let a ← optArgs args
    let p ← infoOf (a.take 14)
    let q ← infoOf (a.drop 14)
    pure (renderD toString (check Md5.hexdigest p q))
  | "dg.parse" => match args with
    | [h] => (bytesOfHex h).map fun v => renderD renderInfo (parseField v)
    | _ => none
  | "md5" => match args with
    | [h] => (bytesOfHex h).map fun v => hexOrDash (Md5.hexdigest v)
    | _ => none
  | _ => none

end Httoop.Ops
