import Httoop.Proto
import Httoop.Model.BasicAuth
namespace Httoop.Ops
open Httoop

def renderB64 : Except Base64.B64Err Bytes → String
  | .ok b => "ok " ++ hexOrDash b
  | .error _ => "err binascii.Error"

def opsAuth (op : String) (args : List String) : Option String :=
  match op, hexArgs args with
  | "b64.encodebytes", some [d] => some (hexOrDash (Base64.encodebytes d))
  | "b64.a2b", some [d] => some (renderB64 (Base64.a2b d))
  | "basic.compose", some [u, p] => some (hexOrDash (BasicAuth.compose u p))
  | "basic.parse", some [e] => some (renderR (fun (u, p) => s!"{hexOrDash u} {hexOrDash p}") (BasicAuth.parse e))
  | _, _ => none

end Httoop.Ops
