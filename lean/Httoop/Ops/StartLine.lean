import Httoop.Proto
import Httoop.Model.StartLine
namespace Httoop.Ops
open Httoop Httoop.StartLine

def natArg (s : String) : Option Nat := s.toNat?

def opsStartLine (op : String) (args : List String) : Option String :=
  match op, args with
  | "sl.method", [m] => (bytesOfHex m).map fun m => renderR hexOrDash (parseMethod m)
  | "sl.protocol", [p] => (bytesOfHex p).map fun p =>
      renderR (fun v => s!"{v.1} {v.2} {hexOrDash (composeProtocol v)}") (parseProtocol p)
  | "sl.status", [s] => (bytesOfHex s).map fun s =>
      renderR (fun (c, r) => s!"{c} {hexOrDash r} {hexOrDash (composeStatus c r)}") (parseStatus s)
  | "sl.request", [l] => (bytesOfHex l).map fun l =>
      renderR (fun (m, _, v) => s!"{hexOrDash m} {v.1} {v.2}") (parseRequestLine l)
  | "sl.response", [l] => (bytesOfHex l).map fun l =>
      renderR (fun (v, c, r) => s!"{v.1} {v.2} {c} {hexOrDash r}") (parseResponseLine l)
  | "sl.cmp", [a, b, c, d] => do
      let x := ((← natArg a), (← natArg b)); let y := ((← natArg c), (← natArg d))
      pure s!"{protoLt x y} {protoEq x y} {protoGt x y} {protoLe x y} {protoGe x y}"
  | "sl.negotiate", [a, b] => do
      let x := ((← natArg a), (← natArg b))
      pure (renderR (fun v => s!"{v.1} {v.2}") (negotiate x))
  | _, _ => none

end Httoop.Ops
