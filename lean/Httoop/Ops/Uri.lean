import Httoop.Proto
import Httoop.Model.Uri
import Httoop.Model.StartLine
import Httoop.Spec.Rfc3986
import Httoop.Gen.Tables
/- driver operations for the URI model; the environment (scheme registry, safe sets) is the regenerated one -/
namespace Httoop.Ops
open Httoop Httoop.Uri

def env : Env :=
  { schemes := Gen.uriSchemes,
    hostSafe := fun b => Gen.pctUNRESERVED.contains b || Gen.pctSUB_DELIMS.contains b,
    querySafe := fun b => Gen.queryUNQUOTED.contains b }

def sets : Sets :=
  { scheme := safeOf Gen.pctSCHEME, userinfo := safeOf Gen.pctUSERINFO, path := safeOf Gen.pctPATH,
    fragment := safeOf Gen.pctFRAGMENT,
    host := fun b => Gen.pctUNRESERVED.contains b || Gen.pctSUB_DELIMS.contains b }

def renderUri (u : Uri) : String :=
  let cls := match u.cls with | some (n, _) => hexOrDash n | none => "URI"
  let port := match u.port with | some p => toString p | none => "None"
  s!"{cls} {hexOrDash u.scheme} {hexOrDash u.username} {hexOrDash u.password} {hexOrDash u.host} {port} {hexOrDash u.path} {hexOrDash u.query} {hexOrDash u.fragment}"

def renderRSkip {α} (f : α → String) : R α → String
  | .error (.escape "model:needs-oracle") => "skip"
  | r => renderR f r

def clsOf (name : Bytes) : Option (Bytes × Nat) := lookupScheme Gen.uriSchemes name

def opsUri (op : String) (args : List String) : Option String :=
  match op, hexArgs args with
  | "uri.abspath", some [p] => some (hexOrDash (abspath p))
  | "rfc.resolve", some [fl, bs, ba, bp, bq, bf, rs, ra, rp, rq, rf] =>
    -- Spec/Rfc3986.lean itself (no httoop code on either side): `fl` holds one octet per optional component, 0x31 = defined
    let o (i : Nat) (v : Bytes) : Option Bytes := if fl.getD i 0 == 0x31 then some v else none
    let t := Rfc3986.resolveWith (fun p => Rfc3986.removeDotSegments (collapse p))
      { scheme := o 0 bs, authority := o 1 ba, path := bp, query := o 2 bq, fragment := o 3 bf }
      { scheme := o 4 rs, authority := o 5 ra, path := rp, query := o 6 rq, fragment := o 7 rf }
    let r (v : Option Bytes) : String := match v with | some x => "some:" ++ hexOrDash x | none => "none"
    some s!"{r t.scheme} {r t.authority} {hexOrDash t.path} {r t.query} {r t.fragment}"
  | "uri.rds", some [p] => some (hexOrDash (Rfc3986.removeDotSegments (collapse p)))
  | "uri.parse", some [cls, t] => some (renderRSkip renderUri (parse env (clsOf cls) t))
  | "uri.norm", some [t] => some (renderRSkip renderUri ((parse env none t).map (normalize env)))
  | "uri.compose", some [t] => some (renderRSkip hexOrDash ((parse env none t).bind (compose sets)))
  | "uri.normcompose", some [t] => some (renderRSkip hexOrDash ((parse env none t).bind fun u => compose sets (normalize env u)))
  | "uri.join", some [b, r] => some (renderRSkip renderUri (do
      let bu ← parse env none b
      let ru ← parse env none r
      pure (join env bu ru)))
  | "uri.build", some [sc, us, pw, h, port, path, q, f] =>
    -- URI(scheme=…, …) via the dict setter: scheme switches the class, a falsy port becomes the class PORT
    let u0 := setScheme env.schemes {} sc
    let p : Option Nat := if port.isEmpty then u0.PORT else some (StartLine.decNat port)
    let u : Uri := { u0 with username := us, password := pw, host := h, port := p, path := path, query := q, fragment := f }
    some (match compose sets u with
      | .error (.escape "model:needs-oracle") => "skip"
      | .error e => "err " ++ e.render
      | .ok b => hexOrDash b ++ " " ++ renderRSkip renderUri (parse env none b))
  | "uri.assign", some kvs =>
    -- u = URI(); u.<name> = value for each pair, in order; u.normalize(); the record, then the `port` property
    (pairUp kvs).map fun ps =>
      let u := normalize env (ps.foldl (fun u kv => assign env.schemes u kv.1 kv.2) {})
      let eff := match u.portProp with | some p => toString p | none => "None"
      "ok " ++ renderUri u ++ " eff=" ++ eff
  | "uri.eq", some [a, b] => some (renderRSkip toString (do
      let au ← parse env none a
      eqText env au b))
  | _, _ => none

end Httoop.Ops
