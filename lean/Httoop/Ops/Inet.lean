import Httoop.Proto
import Httoop.Model.Inet
namespace Httoop.Ops
open Httoop
def opsInet (op : String) (args : List String) : Option String :=
  match op, hexArgs args with
  | "inet.6", some [s] => some (match Inet.pton6 s with | some w => "ok " ++ hexOrDash (Inet.ntop6 w) | none => "err")
  | "inet.4", some [s] => some (match Inet.pton4 s with | some q => "ok " ++ hexOrDash (Inet.ntop4 q) | none => "err")
  | _, _ => none
end Httoop.Ops
