import Httoop.Proto
import Httoop.Model.Range
namespace Httoop.Ops
open Httoop Httoop.Range

def renderSpec (r : Spec) : String :=
  let f (x : Option Nat) := match x with | some n => toString n | none => "None"
  s!"{f r.1}-{f r.2}"

def bit (s : String) : Option Bool := if s == "1" then some true else if s == "0" then some false else none

def opsRange (op : String) (args : List String) : Option String :=
  match op, args with
  | "rng.parse", [v] => (bytesOfHex v).map fun v =>
      renderR (fun (u, rs) => s!"{hexOrDash u} " ++ " ".intercalate (rs.map renderSpec)) (parse v)
  | "rng.prepare", [r1, r2, s2, g, et, lm, nc, d, v] => do
      let respP ← bit r1; let reqP ← bit r2; let st ← bit s2; let get ← bit g
      let etag ← bit et; let lastm ← bit lm; let nch ← bit nc
      let data ← bytesOfHex d; let v ← bytesOfHex v
      let c : Conds := { respProto11 := respP, reqProto11 := reqP, status200 := st, methodGET := get,
                         acceptRangesBytes := acceptRangesOf st nch etag lastm, notChunked := nch }
      pure (match prepareRanges c data v with
        | .unchanged => "unchanged"
        | .unsatisfiable cr => s!"416 {hexOrDash cr}"
        | .single b cr n => s!"206 {hexOrDash b} {hexOrDash cr} {n}"
        | .multi ps => "multi " ++ " ".intercalate (ps.map fun (cr, b) => s!"{hexOrDash cr}:{hexOrDash b}"))
  | _, _ => none

end Httoop.Ops
