import Httoop.Proto
import Httoop.Model.Codecs
import Httoop.Ops.Headers
namespace Httoop.Ops
open Httoop Httoop.Codecs

def csOf (s : String) : Option Charset :=
  if s == "utf8" then some .utf8 else if s == "latin1" then some .latin1 else if s == "ascii" then some .ascii else none

def renderHdr {α} (f : R α → String) (r : R α) : String :=
  match r with
  | .error (.escape "model:needs-oracle") => "skip"
  | r => f r

def opsCodecs (op : String) (args : List String) : Option String :=
  match op, args with
  | "bd.wire", coded :: chunked :: kind :: rest => do
    let bs ← hexArgs rest
    match bs with
    | enc :: trailer :: pieces =>
      let pieces := if kind == "f" then blocksOf pieces.flatten else pieces
      let z : Option Zip := if coded == "1" then some { enc := fun _ => enc, dec := fun _ => none } else none
      pure (hexOrDash (wire z (chunked == "1") trailer pieces))
    | _ => none
  | "mp.encode", args => do
    let bs ← hexArgs args
    match bs with
    | b :: rest => (pairUp rest).map fun ps => hexOrDash (mpEncode b ps)
    | _ => none
  | "mp.decode", [b, d] => do
    let b ← bytesOfHex b
    let d ← bytesOfHex d
    -- each part's header block goes through `Headers.parse` as soon as the part is cut (an empty block is not parsed)
    let chk : Bytes → R Unit := fun blk => if blk.isEmpty then .ok () else
      match Headers.parse Ops.registry [] blk with | .error e => .error e | .ok _ => .ok ()
    let r := mpDecodeWith chk b d
    pure (renderHdr (renderR renderPairs) r)
  | "plain.encode", [cs, d] => do
    let cs ← csOf cs
    let d ← bytesOfHex d
    pure (renderR hexOrDash (plainEncode cs d))
  | "plain.decode", [cs, d] => do
    let cs ← csOf cs
    let d ← bytesOfHex d
    pure (renderR hexOrDash (plainDecode cs d))
  | _, _ => none

end Httoop.Ops
