import Httoop.Proto
import Httoop.Model.Accept
import Httoop.Gen.Tables
namespace Httoop.Ops
open Httoop Httoop.Element

def unres : Byte → Bool := safeOf Gen.pctUNRESERVED

def renderSkip {α} (f : α → String) : R α → String
  | .error (.escape "model:needs-oracle") => "skip"
  | r => renderR f r

def renderElem (e : Elem) : String :=
  s!"{hexOrDash e.value} " ++ (if e.params.isEmpty then "()" else " ".intercalate (e.params.map fun (k, v) => s!"{hexOrDash k}={hexOrDash v}"))

def opsElement (op : String) (args : List String) : Option String :=
  match op, hexArgs args with
  | "el.parse", some [e] => some (renderSkip (fun x => renderElem x ++ " " ++ hexOrDash (compose unres x)) (parse e))
  | "el.split", some [v] => some (renderList (split v))
  | "el.list", some vs => some (renderList (split (join vs)))
  | "el.compose", some (v :: kvs) => (pairUp kvs).map fun ps => hexOrDash (compose unres { value := v, params := ps })
  | "acc.elements", some [kind, v] =>
    some (renderSkip (fun l => if l.isEmpty then "()" else " ".intercalate (l.map fun (q, t) => s!"{q}:{hexOrDash t}"))
      (Accept.elements unres (kind == [0x61]) v))
  | _, _ => none

end Httoop.Ops
