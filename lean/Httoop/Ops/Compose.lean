import Httoop.Proto
import Httoop.Model.Compose
namespace Httoop.Ops
open Httoop Httoop.Compose Httoop.Codecs

def renderFraming (z : Zip) (m : CMsg) : String :=
  let f (v : Option Bytes) : String := match v with | some x => hexOrDash x | none => "~"
  s!"CL={f (m.headers.get? sCL)} TE={f (m.headers.get? sTE)} body={hexOrDash (bodyWire z m)}"

def runComposeOps (z : Zip) : List Char → CMsg → List String → String
  | [], _, acc => " | ".intercalate acc
  | 'p' :: ops, m, acc =>
    match prepare m with
    | .ok m' => runComposeOps z ops m' acc
    | .error (.escape "model:needs-oracle") => "skip"
    | .error e => " | ".intercalate (acc ++ ["err " ++ e.render])
  -- the caller's ways of switching the framing between two prepare() calls
  | 'B' :: ops, m, acc => runComposeOps z ops { m with bodyChunked := true } acc       -- message.body.chunked = True
  | 'b' :: ops, m, acc => runComposeOps z ops { m with bodyChunked := false } acc      -- message.body.chunked = False
  | 'H' :: ops, m, acc => runComposeOps z ops { m with headers := m.headers.put sTE schunked } acc   -- headers['Transfer-Encoding'] = 'chunked'
  | 'h' :: ops, m, acc => runComposeOps z ops { m with headers := m.headers.del sTE } acc            -- headers.pop / transfer_encoding = None
  | 'T' :: ops, m, acc =>
    match setChunked m true with
    | .ok m' => runComposeOps z ops m' acc
    | .error (.escape "model:needs-oracle") => "skip"
    | .error e => " | ".intercalate (acc ++ ["err " ++ e.render])
  | 't' :: ops, m, acc =>
    match setChunked m false with
    | .ok m' => runComposeOps z ops m' acc
    | .error (.escape "model:needs-oracle") => "skip"
    | .error e => " | ".intercalate (acc ++ ["err " ++ e.render])
  | _ :: ops, m, acc => runComposeOps z ops m (acc ++ [renderFraming z m])

def takePairs : Nat → List Bytes → Option (List (Bytes × Bytes) × List Bytes)
  | 0, rest => some ([], rest)
  | n + 1, k :: v :: rest => (takePairs n rest).map fun (ps, r) => ((k, v) :: ps, r)
  | _, _ => none

def opsCompose (op : String) (args : List String) : Option String :=
  match op, args with
  | "cp.run", kind :: safe :: reqHead :: status :: userChunked :: ops :: kindSrc :: nh :: rest => do
    let status ← status.toNat?
    let nh ← nh.toNat?
    let bs ← hexArgs rest
    match bs with
    | enc :: more =>
      let (hs, pieces) ← takePairs nh more
      let pieces := if kindSrc == "f" then blocksOf pieces.flatten else pieces
      let z : Zip := { enc := fun _ => enc, dec := fun _ => none }
      let m : CMsg := { isResponse := kind == "s", safe := safe == "1", reqHead := reqHead == "1", status := status, headers := hs, pieces := pieces }
      let m0 : R CMsg := if userChunked == "1" then setChunked m true else if userChunked == "0" then setChunked m false else .ok m
      match m0 with
      | .ok m => pure (runComposeOps z ops.toList m [])
      | .error (.escape "model:needs-oracle") => pure "skip"
      | .error e => pure ("err " ++ e.render)
    | _ => none
  | _, _ => none

end Httoop.Ops
