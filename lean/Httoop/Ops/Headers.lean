import Httoop.Proto
import Httoop.Model.Headers
import Httoop.Gen.Tables
namespace Httoop.Ops
open Httoop Httoop.Headers

def registry : Registry := Gen.headerRegistry.map fun (k, n, l, p, j) => { key := k, name := n, isList := l, priority := p, join := j }

def renderOpt : Option Bytes → String
  | some v => "some:" ++ hexOrDash v
  | none => "None"

def renderErr (e : PyExc) : String := match e with
  | .escape "model:needs-oracle" => "skip"
  | e => "err " ++ e.render

def renderColl (h : Coll) : String :=
  if h.isEmpty then "{}" else "{" ++ ",".intercalate (h.map fun (k, v) => hexOrDash k ++ "=" ++ hexOrDash v) ++ "}"

/-- run a sequence of operations; stops at the first error -/
partial def runSeq (h : Coll) (toks : List String) (acc : List String) : List String × Coll :=
  let fin (r : String) := (acc ++ [r], h)
  match toks with
  | [] => (acc, h)
  | "S" :: k :: v :: rest => match bytesOfHex k, bytesOfHex v with
    | some k, some v => (match set registry h k v with
      | .ok h' => runSeq h' rest (acc ++ ["ok"])
      | .error e => fin (renderErr e))
    | _, _ => fin "bad-op"
  | "A" :: k :: v :: rest => match bytesOfHex k, bytesOfHex v with
    | some k, some v => (match append registry h k v with
      | .ok h' => runSeq h' rest (acc ++ ["ok"])
      | .error e => fin (renderErr e))
    | _, _ => fin "bad-op"
  | "F" :: k :: v :: rest => match bytesOfHex k, bytesOfHex v with
    | some k, some v => (match setdefault registry h k v with
      | .ok (r, h') => runSeq h' rest (acc ++ [renderOpt (some r)])
      | .error e => fin (renderErr e))
    | _, _ => fin "bad-op"
  | "G" :: k :: rest => match bytesOfHex k with
    | some k => (match getbytes registry h k with
      | .ok r => runSeq h rest (acc ++ [renderOpt r])
      | .error e => fin (renderErr e))
    | none => fin "bad-op"
  | "H" :: k :: rest => match bytesOfHex k with
    | some k => (match Headers.contains registry h k with
      | .ok r => runSeq h rest (acc ++ [toString r])
      | .error e => fin (renderErr e))
    | none => fin "bad-op"
  | "D" :: k :: rest => match bytesOfHex k with
    | some k => (match delete registry h k with
      | .ok h' => runSeq h' rest (acc ++ ["ok"])
      | .error e => fin (renderErr e))
    | none => fin "bad-op"
  | "P" :: k :: rest => match bytesOfHex k with
    | some k => (match pop registry h k with
      | .ok (r, h') => runSeq h' rest (acc ++ [renderOpt r])
      | .error e => fin (renderErr e))
    | none => fin "bad-op"
  | "R" :: d :: rest => match bytesOfHex d with
    | some d => (match parse registry h d with
      | .ok h' => runSeq h' rest (acc ++ ["ok"])
      | .error e => fin (renderErr e))
    | none => fin "bad-op"
  | "C" :: rest => (match compose registry h with
      | .ok b => runSeq h rest (acc ++ [hexOrDash b])
      | .error e => fin (renderErr e))
  | _ => fin "bad-op"

def opsHeaders (op : String) (args : List String) : Option String :=
  match op with
  | "hdr.seq" =>
    let (outs, h) := runSeq [] args []
    some (";".intercalate outs ++ " " ++ renderColl h)
  | "hdr.key" => match hexArgs args with
    | some [k] => some (renderR hexOrDash (formatKey registry k))
    | _ => none
  | _ => none

end Httoop.Ops
