import Httoop.Proto
import Httoop.Model.Parser
import Httoop.Ops.Uri
import Httoop.Ops.Headers
namespace Httoop.Ops
open Httoop Httoop.Parser

def penv (connect : Bool) : Parser.Env :=
  { uri := Ops.env, sets := Ops.sets, reg := Ops.registry, forbidden := Gen.trailerForbidden, requestIsConnect := connect }

def renderMsg (side : Side) (m : Msg) : String :=
  let hs := if m.headers.isEmpty then "{}" else "{" ++ ",".intercalate (m.headers.map fun (k, v) => hexOrDash k ++ "=" ++ hexOrDash v) ++ "}"
  match side with
  | .server =>
    let port := match m.uri.port with | some p => toString p | none => "None"
    s!"M({hexOrDash m.method};{hexOrDash m.uri.scheme};{hexOrDash m.uri.host};{port};{hexOrDash m.uri.path};{hexOrDash m.uri.query};{m.proto.1}.{m.proto.2};{m.respProto.1}.{m.respProto.2};{hs};{hexOrDash m.body})"
  | .client =>
    s!"M({m.proto.1}.{m.proto.2};{m.status};{hexOrDash m.reason};{hs};{hexOrDash m.body})"

/-- feed the fragments one call at a time; stop at the first error -/
def runCalls (E : Parser.Env) (side : Side) : List Bytes → St → List String → String
  | [], st, acc =>
    " | ".intercalate acc ++ " # " ++ hexOrDash st.buf ++ " " ++
      (match st.cur with | some c => (if c.lf then "LF" else "CRLF") ++ (if c.startline then "+s" else "") ++ (if c.headersDone then "+h" else "") | none => "idle")
  | f :: fs, st, acc =>
    match feed E side st f with
    | .ok (ms, st') => runCalls E side fs st' (acc ++ ["".intercalate (ms.map (renderMsg side)) ++ "."])
    | .error (.escape "model:needs-oracle") => "skip"
    | .error e => " | ".intercalate (acc ++ ["E" ++ e.render])

def opsParser (op : String) (args : List String) : Option String :=
  match op, args with
  | "sm.server", frags => (hexArgs frags).map fun fs => runCalls (penv false) .server fs {} []
  | "sm.client", frags => (hexArgs frags).map fun fs => runCalls (penv false) .client fs {} []
  | "sm.clientconnect", frags => (hexArgs frags).map fun fs => runCalls (penv true) .client fs {} []
  | _, _ => none

end Httoop.Ops
