import Httoop.Proto
import Httoop.Model.Date
namespace Httoop.Ops
open Httoop Httoop.Date

def renderParsed : Parsed → String
  | .ok t => s!"ok {t}"
  | .invalid => "err InvalidDate"
  | .unknown => "skip"

def opsDate (op : String) (args : List String) : Option String :=
  match op, args with
  | "date.compose", [t] => t.toNat?.map fun t => s!"{hexOrDash (compose t)} {hexOrDash (composeRfc850 t)} {hexOrDash (composeAsctime t)}"
  | "date.parse", [s] => (bytesOfHex s).map fun s => renderParsed (parse s)
  | _, _ => none

end Httoop.Ops
