import Httoop.Model.Parser
import Httoop.Proofs.Split
import Httoop.Ops.Parser
/-
  C01 — parser results do not depend on how the byte stream is fragmented.

  Proved (all states, all buffers, all continuations — no bound on chunk count or sizes):
  the body framing layer of the state machine gives the same result whether a buffer arrives at once
  or in two pieces: `body_length_fragmentation` (Content-Length) and `chunked_fragmentation`
  (chunk sizes with extensions, data, terminators, last chunk, trailer section with announced
  trailers), from the three stability lemmas of the chunk loop.  By induction over the list of pieces
  this is independence from any fragmentation of the body octets.
  Not proved here: the same statement for the start-line and header-block layers (eager header
  consumption) — the model of those layers is compared with the code under every generated
  fragmentation instead.  The full statement is false of the code as it stands (F17, F18):
  `c01_lf_witness`, `c01_411_witness` exhibit that on the model.
-/
namespace Httoop.Parser
open Httoop

theorem CRLF_ne : CRLF ≠ [] := by decide
theorem LF_ne : LF ≠ [] := by decide
theorem lineEnd_ne (c : Cur) : lineEnd c ≠ [] := by unfold lineEnd; split <;> decide
theorem lineEnd_len (c : Cur) : 1 ≤ (lineEnd c).length := by unfold lineEnd; split <;> decide

/-- what the next call does with the result of the previous one when `y` arrives -/
def resume (f : Cur → Bytes → R Step) (r : R Step) (y : Bytes) : R Step :=
  match r with
  | .ok (.wait c b) => f c (b ++ y)
  | .ok (.done c b) => .ok (.done c (b ++ y))
  | .error e => .error e

/-! ### Content-Length bodies -/

theorem body_length_fragmentation (E : Env) (c : Cur) (n : Nat) (x y : Bytes)
    (hn : c.msgLen = some n) (hc : c.chunked = false) :
    parseBody E c (x ++ y) = resume (parseBody E) (parseBody E c x) y := by
  have hpb : ∀ (c : Cur) (n : Nat) (buf : Bytes), c.msgLen = some n → c.chunked = false →
      parseBody E c buf =
        if n == 0 then .ok (.done c buf)
        else
          let part := buf.take n
          let c' := { c with msg := { c.msg with body := c.msg.body ++ part }, msgLen := some (n - part.length) }
          if part.length < n then .ok (.wait c' (buf.drop n)) else .ok (.done c' (buf.drop n)) := by
    intro c n buf h1 h2
    simp only [parseBody, h1, h2, Option.isNone_some, Bool.false_and, Bool.false_eq_true, if_false, bodyWithLength]
    split <;> (try split) <;> rfl
  rw [hpb c n (x ++ y) hn hc, hpb c n x hn hc]
  by_cases hz : n = 0
  · subst hz; simp [resume]
  · have hz' : (n == 0) = false := by simpa using hz
    simp only [hz', Bool.false_eq_true, if_false]
    by_cases hlen : n ≤ x.length
    · -- the first piece already holds the whole body
      have h1 : (x ++ y).take n = x.take n := List.take_append_of_le_length hlen
      have h2 : (x ++ y).drop n = x.drop n ++ y := List.drop_append_of_le_length hlen
      have h3 : ¬ (x.take n).length < n := by simp; omega
      simp only [h1, h2, h3, if_false, resume]
    · -- the body continues into the second piece
      have hlt : x.length < n := by omega
      have htx : x.take n = x := List.take_of_length_le (by omega)
      have hdx : x.drop n = [] := List.drop_of_length_le (by omega)
      simp only [htx, hdx, hlt, if_true, resume, List.nil_append]
      have key := hpb { c with msg := { c.msg with body := c.msg.body ++ x }, msgLen := some (n - x.length) } (n - x.length) y rfl hc
      rw [key]
      have hz2 : (n - x.length == 0) = false := by simp; omega
      simp only [hz2, Bool.false_eq_true, if_false]
      have ht : (x ++ y).take n = x ++ y.take (n - x.length) := by
        rw [List.take_append, htx]
      have hd : (x ++ y).drop n = y.drop (n - x.length) := by
        rw [List.drop_append, hdx, List.nil_append]
      simp only [ht, hd, List.length_append, List.append_assoc]
      have e1 : n - (x.length + (y.take (n - x.length)).length) = n - x.length - (y.take (n - x.length)).length := by omega
      have e2 : (x.length + (y.take (n - x.length)).length < n) ↔ ((y.take (n - x.length)).length < n - x.length) := by omega
      simp only [e1]
      by_cases hh : (y.take (n - x.length)).length < n - x.length
      · rw [if_pos (e2.mpr hh), if_pos hh]
      · rw [if_neg (fun h => hh (e2.mp h)), if_neg hh]

/-! ### the trailer section -/

theorem trailers_stable_done (E : Env) (c c' : Cur) (buf r y : Bytes)
    (h : parseTrailers E c buf = .ok (.done c' r)) : parseTrailers E c (buf ++ y) = .ok (.done c' (r ++ y)) := by
  unfold parseTrailers at h ⊢
  by_cases hs : startsWith buf (lineEnd c) = true
  · have hs2 := startsWith_append buf y _ hs
    have hl := startsWith_length _ _ hs
    simp only [hs, if_true] at h
    injection h with h; injection h with h1 h2
    subst h1; subst h2
    simp only [hs2, if_true, List.drop_append_of_le_length hl]
  · have hs' : startsWith buf (lineEnd c) = false := by simpa using hs
    simp only [hs', Bool.false_eq_true, if_false] at h
    cases hsp : splitOnce (lineEnd c ++ lineEnd c) buf with
    | none => rw [hsp] at h; cases h
    | some p =>
      obtain ⟨block, rest⟩ := p
      rw [hsp] at h
      have hlen := splitOnce_length _ _ _ _ hsp
      have hne : lineEnd c ++ lineEnd c ≠ [] := by
        intro e; exact lineEnd_ne c (List.append_eq_nil_iff.mp e).1
      have hs2 : startsWith (buf ++ y) (lineEnd c) = false := by
        cases hh : startsWith (buf ++ y) (lineEnd c)
        · rfl
        · exfalso
          have : (lineEnd c).length ≤ buf.length := by simp at hlen; omega
          exact hs (startsWith_of_append buf y _ hh this)
      simp only [hs2, Bool.false_eq_true, if_false, splitOnce_append _ _ y _ _ hne hsp]
      simp only [] at h ⊢
      cases hp : to400 (Headers.parse E.reg [] block) with
      | error e => rw [hp] at h; cases h
      | ok ts =>
        rw [hp] at h
        simp only [] at h ⊢
        cases hm : mergeTrailers E c.msg ts with
        | error e => rw [hm] at h; cases h
        | ok m =>
          rw [hm] at h
          injection h with h; injection h with h1 h2
          subst h1; subst h2
          rfl

theorem trailers_stable_error (E : Env) (c : Cur) (buf y : Bytes) (e : PyExc)
    (h : parseTrailers E c buf = .error e) : parseTrailers E c (buf ++ y) = .error e := by
  unfold parseTrailers at h ⊢
  by_cases hs : startsWith buf (lineEnd c) = true
  · simp only [hs, if_true] at h; cases h
  · have hs' : startsWith buf (lineEnd c) = false := by simpa using hs
    simp only [hs', Bool.false_eq_true, if_false] at h
    cases hsp : splitOnce (lineEnd c ++ lineEnd c) buf with
    | none => rw [hsp] at h; cases h
    | some p =>
      obtain ⟨block, rest⟩ := p
      rw [hsp] at h
      have hlen := splitOnce_length _ _ _ _ hsp
      have hne : lineEnd c ++ lineEnd c ≠ [] := by
        intro e; exact lineEnd_ne c (List.append_eq_nil_iff.mp e).1
      have hs2 : startsWith (buf ++ y) (lineEnd c) = false := by
        cases hh : startsWith (buf ++ y) (lineEnd c)
        · rfl
        · exfalso
          have : (lineEnd c).length ≤ buf.length := by simp at hlen; omega
          exact hs (startsWith_of_append buf y _ hh this)
      simp only [hs2, Bool.false_eq_true, if_false, splitOnce_append _ _ y _ _ hne hsp]
      simp only [] at h ⊢
      cases hp : to400 (Headers.parse E.reg [] block) with
      | error e2 => rw [hp] at h; exact h
      | ok ts =>
        rw [hp] at h
        simp only [] at h ⊢
        cases hm : mergeTrailers E c.msg ts with
        | error e2 => rw [hm] at h; exact h
        | ok m => rw [hm] at h; cases h

/-- a waiting trailer section returns its input unchanged -/
theorem trailers_wait (E : Env) (c c1 : Cur) (buf b1 : Bytes) (h : parseTrailers E c buf = .ok (.wait c1 b1)) :
    c1 = c ∧ b1 = buf := by
  unfold parseTrailers at h
  simp only [] at h
  split at h
  · cases h
  · split at h
    · injection h with h; injection h with h1 h2; exact ⟨h1.symm, h2.symm⟩
    · split at h
      · cases h
      · split at h <;> cases h


/-! ### the chunk loop -/

/-- the state after one chunk has been appended to the body -/
def addPart (c : Cur) (part : Bytes) : Cur := { c with msg := { c.msg with body := c.msg.body ++ part } }

theorem addPart_lineEnd (c : Cur) (p : Bytes) : lineEnd (addPart c p) = lineEnd c := rfl
theorem addPart_trailer (c : Cur) (p : Bytes) : (addPart c p).trailer = c.trailer := rfl

theorem parseChunked_succ (E : Env) (f : Nat) (c : Cur) (buf : Bytes) :
    parseChunked E (f + 1) c buf =
      if c.trailer then parseTrailers E c buf
      else match splitOnce (lineEnd c) buf with
        | none => .ok (.wait c buf)
        | some (line, rest) =>
          match chunkSize line with
          | .error e => .error e
          | .ok size =>
            if rest.length < (lineEnd c).length + size then .ok (.wait c buf)
            else if size == 0 then parseTrailers E { addPart c (rest.take size) with trailer := true } (rest.drop size)
            else if !startsWith (rest.drop size) (lineEnd c) then .error bad
            else parseChunked E f (addPart c (rest.take size)) ((rest.drop size).drop (lineEnd c).length) := by
  rw [parseChunked]
  rfl

/-- **stability of a completed chunked body**: more octets after it do not change it -/
theorem chunked_stable_done (E : Env) (f : Nat) (c c' : Cur) (buf r y : Bytes)
    (h : parseChunked E f c buf = .ok (.done c' r)) : parseChunked E f c (buf ++ y) = .ok (.done c' (r ++ y)) := by
  induction f generalizing c buf with
  | zero => simp [parseChunked] at h
  | succ f ih =>
    rw [parseChunked_succ] at h ⊢
    by_cases ht : c.trailer = true
    · simp only [ht, if_true] at h ⊢
      exact trailers_stable_done E c c' buf r y h
    · simp only [ht, Bool.false_eq_true, if_false] at h ⊢
      cases hsp : splitOnce (lineEnd c) buf with
      | none => rw [hsp] at h; cases h
      | some p =>
        obtain ⟨line, rest⟩ := p
        rw [hsp] at h
        rw [splitOnce_append _ _ y _ _ (lineEnd_ne c) hsp]
        simp only [] at h ⊢
        cases hcs : chunkSize line with
        | error e => rw [hcs] at h; cases h
        | ok size =>
          rw [hcs] at h
          simp only [] at h ⊢
          by_cases hshort : rest.length < (lineEnd c).length + size
          · simp only [hshort, if_true] at h; cases h
          · simp only [hshort, if_false] at h
            have hlong : ¬ (rest ++ y).length < (lineEnd c).length + size := by simp; omega
            have hsz : size ≤ rest.length := by omega
            simp only [hlong, if_false, List.take_append_of_le_length hsz, List.drop_append_of_le_length hsz]
            by_cases hz : (size == 0) = true
            · simp only [hz, if_true] at h ⊢
              exact trailers_stable_done E _ c' _ r y h
            · simp only [hz, Bool.false_eq_true, if_false] at h ⊢
              by_cases hst : startsWith (rest.drop size) (lineEnd c) = true
              · simp only [hst, Bool.not_true, Bool.false_eq_true, if_false] at h
                have hst2 := startsWith_append (rest.drop size) y _ hst
                have hl := startsWith_length _ _ hst
                simp only [hst2, Bool.not_true, Bool.false_eq_true, if_false, List.drop_append_of_le_length hl]
                exact ih _ _ h
              · have hst' : startsWith (rest.drop size) (lineEnd c) = false := by simpa using hst
                simp only [hst', Bool.not_false, if_true] at h; cases h

/-- **stability of an error**: a chunked body that is rejected is rejected whatever follows -/
theorem chunked_stable_error (E : Env) (f : Nat) (c : Cur) (buf y : Bytes) (e : PyExc)
    (h : parseChunked E f c buf = .error e) : parseChunked E f c (buf ++ y) = .error e := by
  induction f generalizing c buf with
  | zero => simp [parseChunked] at h
  | succ f ih =>
    rw [parseChunked_succ] at h ⊢
    by_cases ht : c.trailer = true
    · simp only [ht, if_true] at h ⊢
      exact trailers_stable_error E c buf y e h
    · simp only [ht, Bool.false_eq_true, if_false] at h ⊢
      cases hsp : splitOnce (lineEnd c) buf with
      | none => rw [hsp] at h; cases h
      | some p =>
        obtain ⟨line, rest⟩ := p
        rw [hsp] at h
        rw [splitOnce_append _ _ y _ _ (lineEnd_ne c) hsp]
        simp only [] at h ⊢
        cases hcs : chunkSize line with
        | error e2 => rw [hcs] at h; exact h
        | ok size =>
          rw [hcs] at h
          simp only [] at h ⊢
          by_cases hshort : rest.length < (lineEnd c).length + size
          · simp only [hshort, if_true] at h; cases h
          · simp only [hshort, if_false] at h
            have hlong : ¬ (rest ++ y).length < (lineEnd c).length + size := by simp; omega
            have hsz : size ≤ rest.length := by omega
            simp only [hlong, if_false, List.take_append_of_le_length hsz, List.drop_append_of_le_length hsz]
            by_cases hz : (size == 0) = true
            · simp only [hz, if_true] at h ⊢
              exact trailers_stable_error E _ _ y e h
            · simp only [hz, Bool.false_eq_true, if_false] at h ⊢
              by_cases hst : startsWith (rest.drop size) (lineEnd c) = true
              · simp only [hst, Bool.not_true, Bool.false_eq_true, if_false] at h
                have hst2 := startsWith_append (rest.drop size) y _ hst
                have hl := startsWith_length _ _ hst
                simp only [hst2, Bool.not_true, Bool.false_eq_true, if_false, List.drop_append_of_le_length hl]
                exact ih _ _ h
              · have hst' : startsWith (rest.drop size) (lineEnd c) = false := by simpa using hst
                simp only [hst', Bool.not_false, if_true] at h ⊢
                -- the terminator check fails on the octets already present
                have hge : (lineEnd c).length ≤ (rest.drop size).length := by simp; omega
                have hst2 : startsWith (rest.drop size ++ y) (lineEnd c) = false := by
                  cases hh : startsWith (rest.drop size ++ y) (lineEnd c)
                  · rfl
                  · exact absurd (startsWith_of_append _ y _ hh hge) hst
                simp only [hst2, Bool.not_false, if_true]
                exact h


/-- the loop never runs out of fuel: any two adequate amounts give the same result -/
theorem chunked_fuel (E : Env) (f1 f2 : Nat) (c : Cur) (buf : Bytes) (h1 : buf.length < f1) (h2 : buf.length < f2) :
    parseChunked E f1 c buf = parseChunked E f2 c buf := by
  induction f1 generalizing f2 c buf with
  | zero => omega
  | succ n ih =>
    cases f2 with
    | zero => omega
    | succ m =>
      rw [parseChunked_succ, parseChunked_succ]
      by_cases ht : c.trailer = true
      · simp only [ht, if_true]
      · simp only [ht, Bool.false_eq_true, if_false]
        cases hsp : splitOnce (lineEnd c) buf with
        | none => rfl
        | some p =>
          obtain ⟨line, rest⟩ := p
          simp only []
          cases hcs : chunkSize line with
          | error e => rfl
          | ok size =>
            simp only []
            split
            · rfl
            · split
              · rfl
              · split
                · rfl
                · have hlen := splitOnce_length _ _ _ _ hsp
                  have := lineEnd_len c
                  apply ih
                  · simp only [List.length_drop]; omega
                  · simp only [List.length_drop]; omega

/-- **stability of a pending chunked body**: what was consumed stays consumed, and reading on with the
    new octets appended to the retained buffer is the same as reading the extended buffer from the start -/
theorem chunked_stable_wait (E : Env) (f : Nat) (c c1 : Cur) (buf b1 y : Bytes)
    (h : parseChunked E f c buf = .ok (.wait c1 b1)) (hf : buf.length + y.length < f) :
    parseChunked E f c (buf ++ y) = parseChunked E f c1 (b1 ++ y) ∧ b1.length ≤ buf.length ∧ c1.chunked = c.chunked := by
  induction f generalizing c buf with
  | zero => omega
  | succ f ih =>
    rw [parseChunked_succ] at h
    by_cases ht : c.trailer = true
    · simp only [ht, if_true] at h
      obtain ⟨e1, e2⟩ := trailers_wait E c c1 buf b1 h
      subst e1; subst e2
      exact ⟨rfl, Nat.le_refl _, rfl⟩
    · simp only [ht, Bool.false_eq_true, if_false] at h
      cases hsp : splitOnce (lineEnd c) buf with
      | none =>
        rw [hsp] at h
        injection h with h; injection h with e1 e2
        subst e1; subst e2
        exact ⟨rfl, Nat.le_refl _, rfl⟩
      | some p =>
        obtain ⟨line, rest⟩ := p
        rw [hsp] at h
        simp only [] at h
        have hlen := splitOnce_length _ _ _ _ hsp
        have hle := lineEnd_len c
        cases hcs : chunkSize line with
        | error e => rw [hcs] at h; cases h
        | ok size =>
          rw [hcs] at h
          simp only [] at h
          by_cases hshort : rest.length < (lineEnd c).length + size
          · simp only [hshort, if_true] at h
            injection h with h; injection h with e1 e2
            subst e1; subst e2
            exact ⟨rfl, Nat.le_refl _, rfl⟩
          · simp only [hshort, if_false] at h
            have hlong : ¬ (rest ++ y).length < (lineEnd c).length + size := by simp; omega
            have hsz : size ≤ rest.length := by omega
            -- what the extended buffer does in its first iteration
            have hstep : parseChunked E (f + 1) c (buf ++ y) =
                if size == 0 then parseTrailers E { addPart c (rest.take size) with trailer := true } (rest.drop size ++ y)
                else if !startsWith (rest.drop size ++ y) (lineEnd c) then .error bad
                else parseChunked E f (addPart c (rest.take size)) ((rest.drop size ++ y).drop (lineEnd c).length) := by
              rw [parseChunked_succ]
              simp only [ht, Bool.false_eq_true, if_false, splitOnce_append _ _ y _ _ (lineEnd_ne c) hsp, hcs, hlong,
                List.take_append_of_le_length hsz, List.drop_append_of_le_length hsz]
            by_cases hz : (size == 0) = true
            · simp only [hz, if_true] at h
              obtain ⟨e1, e2⟩ := trailers_wait E _ c1 _ b1 h
              subst e1; subst e2
              refine ⟨?_, by simp only [List.length_drop]; omega, rfl⟩
              rw [hstep, parseChunked_succ]
              simp only [hz, if_true]
            · simp only [hz, Bool.false_eq_true, if_false] at h
              by_cases hst : startsWith (rest.drop size) (lineEnd c) = true
              · simp only [hst, Bool.not_true, Bool.false_eq_true, if_false] at h
                have hst2 := startsWith_append (rest.drop size) y _ hst
                have hl := startsWith_length _ _ hst
                have hb2 : ((rest.drop size).drop (lineEnd c).length).length + y.length < f := by
                  simp only [List.length_drop]; omega
                obtain ⟨i1, i2, i3⟩ := ih _ _ h hb2
                refine ⟨?_, ?_, i3⟩
                · rw [hstep]
                  simp only [hz, Bool.false_eq_true, if_false, hst2, Bool.not_true, List.drop_append_of_le_length hl]
                  rw [i1]
                  apply chunked_fuel
                  · simp only [List.length_append, List.length_drop] at i2 hb2 ⊢; omega
                  · simp only [List.length_append, List.length_drop] at i2 hb2 ⊢; omega
                · simp only [List.length_drop] at i2 ⊢; omega
              · have hst' : startsWith (rest.drop size) (lineEnd c) = false := by simpa using hst
                simp only [hst', Bool.not_false, if_true] at h; cases h

/-- `parse_body` on a message whose framing is already known to be chunked -/
theorem parseBody_chunked (E : Env) (c : Cur) (buf : Bytes) (hc : c.chunked = true) :
    parseBody E c buf = parseChunked E (buf.length + 2) c buf := by
  simp [parseBody, hc]

/-- **the chunked reader does not depend on where the stream is cut**: reading `x ++ y` in one call
    gives what reading `x` and then, from the retained state, `y` gives — same body, same trailer
    fields, same error, same leftover octets; by induction this holds for every fragmentation -/
theorem chunked_fragmentation (E : Env) (c : Cur) (x y : Bytes) (hc : c.chunked = true) :
    parseBody E c (x ++ y) = resume (parseBody E) (parseBody E c x) y := by
  rw [parseBody_chunked E c (x ++ y) hc, parseBody_chunked E c x hc]
  have hF : parseChunked E ((x ++ y).length + 2) c (x ++ y) = parseChunked E (x.length + y.length + 2) c (x ++ y) := by
    apply chunked_fuel <;> simp <;> omega
  have hX : parseChunked E (x.length + 2) c x = parseChunked E (x.length + y.length + 2) c x := by
    apply chunked_fuel <;> omega
  rw [hF, hX]
  cases hr : parseChunked E (x.length + y.length + 2) c x with
  | error e => simp only [resume]; exact chunked_stable_error E _ c x y e hr
  | ok s =>
    cases s with
    | done c' r => simp only [resume]; exact chunked_stable_done E _ c c' x r y hr
    | wait c1 b1 =>
      obtain ⟨i1, i2, i3⟩ := chunked_stable_wait E _ c c1 x b1 y hr (by omega)
      simp only [resume]
      rw [i1, parseBody_chunked E c1 (b1 ++ y) (by rw [i3]; exact hc)]
      apply chunked_fuel <;> simp <;> omega

/-! ### the full statement is false of the code as it stands: witnesses on the model -/

def wfeed (side : Side) (frags : List Bytes) : String := Ops.runCalls (Ops.penv false) side frags {} []

/-- F17: a bare LF after the request line, CRLF later: 400 in one call, still waiting octet by octet -/
theorem c01_lf_witness :
    wfeed .server ["GET / HTTP/1.1\nHost: h\r\n\r\n".toUTF8.toList]
      ≠ wfeed .server ("GET / HTTP/1.1\nHost: h\r\n\r\n".toUTF8.toList.map fun b => [b]) := by
  decide +kernel

/-- F18: two requests without Content-Length: 411 in one call, both delivered one per call -/
theorem c01_411_witness :
    wfeed .server ["GET / HTTP/1.1\r\nHost: h\r\n\r\nGET / HTTP/1.1\r\nHost: h\r\n\r\n".toUTF8.toList]
      ≠ wfeed .server ["GET / HTTP/1.1\r\nHost: h\r\n\r\n".toUTF8.toList, "GET / HTTP/1.1\r\nHost: h\r\n\r\n".toUTF8.toList] := by
  decide +kernel

/-- T1: the state machines of this tree carry no finite size limit by default (the model has none: a request line or a header
    section may be as long as the peer sends it, in one call or in many).  A tree that sets `MAX_URI_LENGTH` or the like to a
    number is outside the model until the limit is modelled; the check then looks for a stream whose outcome depends on the cuts. -/
theorem no_size_limits : Gen.stateMachineLimits = [] := by decide +kernel

end Httoop.Parser
