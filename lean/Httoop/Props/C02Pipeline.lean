import Httoop.Props.C02
import Httoop.Ops.Parser
/-
  C02 — whole pipelines: start line, header section and body of every message, any number of messages in one
  stream, through the outer loop of the state machine (`run` / `feed`).
-/
namespace Httoop.Parser
open Httoop

/-- the first occurrence of a separator: nothing earlier in `x ++ sep` matches -/
theorem splitOnce_first (sep x rest : Bytes) (hsep : sep ≠ []) (h : contains (x ++ sep.dropLast) sep = false) :
    splitOnce sep (x ++ sep ++ rest) = some (x, rest) := by
  have hself : ∀ (s t : Bytes), startsWith (s ++ t) s = true := by
    intro s t
    induction s with
    | nil => cases t <;> rfl
    | cons a s ih => simp [startsWith, ih]
  induction x with
  | nil =>
    obtain ⟨s, ss, rfl⟩ := List.exists_cons_of_ne_nil hsep
    simp only [List.nil_append, List.cons_append, splitOnce]
    have := hself (s :: ss) rest
    simp only [List.cons_append] at this
    simp [this]
  | cons a x ih =>
    have hdl : sep = sep.dropLast ++ [sep.getLast hsep] := (List.dropLast_concat_getLast hsep).symm
    have hns : startsWith (a :: x ++ sep ++ rest) sep = false := by
      cases hst : startsWith (a :: x ++ sep ++ rest) sep with
      | false => rfl
      | true =>
        exfalso
        have e : a :: x ++ sep ++ rest = (a :: x ++ sep.dropLast) ++ ([sep.getLast hsep] ++ rest) := by
          conv => lhs; rw [hdl]
          simp
        rw [e] at hst
        have hlen : sep.length ≤ (a :: x ++ sep.dropLast).length := by
          simp only [List.cons_append, List.length_cons, List.length_append, List.length_dropLast]
          have : 0 < sep.length := List.length_pos_iff.mpr hsep
          omega
        have h2 := startsWith_of_append _ _ _ hst hlen
        unfold contains at h
        simp only [List.cons_append] at h2 h
        unfold splitOnce at h
        simp [h2] at h
    have hrec : contains (x ++ sep.dropLast) sep = false := by
      have hns' : startsWith (a :: x ++ sep.dropLast) sep = false := by
        cases hst : startsWith (a :: x ++ sep.dropLast) sep with
        | false => rfl
        | true =>
          exfalso
          unfold contains at h
          simp only [List.cons_append] at hst h
          unfold splitOnce at h
          simp [hst] at h
      unfold contains at h ⊢
      simp only [List.cons_append] at hns' h
      unfold splitOnce at h
      simp only [hns', Bool.false_eq_true, if_false] at h
      cases hs : splitOnce sep (x ++ sep.dropLast) with
      | none => rfl
      | some p => rw [hs] at h; simp at h
    simp only [List.cons_append] at hns ⊢
    unfold splitOnce
    simp only [hns, Bool.false_eq_true, if_false]
    have := ih hrec
    simp only [List.append_assoc] at this ⊢
    rw [this]


/-! ### one message on the wire -/

/-- a message as a well-formed writer puts it on the wire: start line, header block, body -/
structure WMsg where
  line : Bytes       -- start line, without CRLF
  block : Bytes      -- header lines joined by CRLF, without the empty line
  body : Bytes
  deriving Repr

def WMsg.wire (w : WMsg) : Bytes := w.line ++ CRLF ++ (w.block ++ (CRLF ++ CRLF) ++ w.body)

/-- what the start line, alone, makes of the message record (both hooks included) -/
def startResult (E : Env) (side : Side) (line : Bytes) : R Msg :=
  match side with
  | .server => match to400 (parseRequestLine E {} line) with
    | .error e => .error e
    | .ok m => to400 (serverStartlineComplete E m)
  | .client => to400 (parseStatusLine {} line)

/-- what the end of the header section makes of it -/
def headersResult (E : Env) (side : Side) (c : Cur) : R Cur :=
  match side with
  | .server => to400 (serverHeadersComplete E c)
  | .client => to400 (clientHeadersComplete E c)

theorem startPhase_line (E : Env) (side : Side) (line rest : Bytes) (hl : Clean 0x0D line) (m : Msg)
    (hs : startResult E side line = .ok m) :
    startPhase E side {} (line ++ CRLF ++ rest) = .ok ({ msg := m, startline := true }, rest, true) := by
  have hsp := splitOnce_crlf line rest hl
  have hc : contains (line ++ CRLF ++ rest) CRLF = true := by unfold contains; rw [hsp]; rfl
  unfold startPhase parseStartline
  simp only [hc, Bool.not_true, Bool.false_and, Bool.false_eq_true, if_false]
  have hle : lineEnd ({} : Cur) = CRLF := rfl
  rw [hle, hsp]
  unfold startResult at hs
  cases side with
  | server =>
    simp only at hs ⊢
    cases h1 : to400 (parseRequestLine E ({} : Cur).msg line) with
    | error e =>
      have : to400 (parseRequestLine E {} line) = .error e := h1
      rw [this] at hs; cases hs
    | ok m1 =>
      have : to400 (parseRequestLine E {} line) = .ok m1 := h1
      rw [this] at hs
      simp only at hs ⊢
      rw [hs]
  | client =>
    simp only at hs ⊢
    have : to400 (parseStatusLine ({} : Cur).msg line) = .ok m := hs
    rw [this]

theorem headerPhase_block (E : Env) (side : Side) (c : Cur) (hlf : c.lf = false) (hhd : c.headersDone = false)
    (block rest : Bytes) (hstart : startsWith (block ++ CRLF) CRLF = false)
    (hsep : contains (block ++ [0x0D, 0x0A, 0x0D]) (CRLF ++ CRLF) = false) (hne : block ≠ [])
    (hs : Headers.Coll) (hp : Headers.parse E.reg c.msg.headers block = .ok hs) (c' : Cur)
    (hc : headersResult E side { c with msg := { c.msg with headers := hs } } = .ok c') :
    headerPhase E side c (block ++ (CRLF ++ CRLF) ++ rest) = .ok ({ c' with headersDone := true }, rest, true) := by
  unfold headerPhase parseHeaders
  have hle : lineEnd c = CRLF := by simp [lineEnd, hlf]
  simp only [hhd, Bool.false_eq_true, if_false, hle]
  have hst : startsWith (block ++ (CRLF ++ CRLF) ++ rest) CRLF = false := by
    cases h : startsWith (block ++ (CRLF ++ CRLF) ++ rest) CRLF with
    | false => rfl
    | true =>
      exfalso
      have e : block ++ (CRLF ++ CRLF) ++ rest = (block ++ CRLF) ++ (CRLF ++ rest) := by simp
      rw [e] at h
      have := startsWith_of_append _ _ _ h (by simp [CRLF])
      rw [this] at hstart; cases hstart
  simp only [hst, Bool.false_eq_true, if_false]
  rw [splitOnce_first (CRLF ++ CRLF) block rest (by decide) (by simpa [CRLF] using hsep)]
  simp only
  unfold parseHeaderBlock
  have hbe : block.isEmpty = false := by simpa using hne
  have hto : to400 (Except.ok hs : R Headers.Coll) = .ok hs := rfl
  simp only [hbe, Bool.false_eq_true, if_false, hp, hto]
  unfold headersResult at hc
  cases side with
  | server => simp only at hc ⊢; rw [hc]
  | client => simp only at hc ⊢; rw [hc]

/-- a Content-Length body of any length (0 included) -/
theorem parseBody_length (E : Env) (c : Cur) (hml : c.msgLen = none) (hch : c.chunked = false)
    (hte : c.msg.headers.get? sTE = none) (v : Bytes) (hcl : c.msg.headers.get? sCL = some v)
    (h2047 : Element.rfc2047Branch v = false) (body rest : Bytes) (hint : integerStr v = some (body.length : Int)) :
    parseBody E c (body ++ rest) =
      .ok (.done { c with msg := { c.msg with body := c.msg.body ++ body }, msgLen := some 0 } rest) := by
  obtain ⟨msg, lf, sl, hd, tr, ml, ch, cod⟩ := c
  simp only at hml hch hte hcl
  cases hml
  cases hch
  unfold parseBody
  simp only [Option.isNone_none, Bool.not_false, Bool.and_self, if_true]
  unfold determineLength
  simp only [hte]
  unfold determineLength.lengthFromCL
  simp only [hcl, h2047, Bool.false_eq_true, if_false, hint]
  have hneg : ¬ ((body.length : Int) < 0) := by omega
  simp only [hneg, if_false, Bool.false_eq_true, Int.toNat_natCast]
  cases body with
  | nil => simp [bodyWithLength]
  | cons b bs =>
    have := body_length_exact { msg := msg, lf := lf, startline := sl, headersDone := hd, trailer := tr, msgLen := some (b :: bs).length, chunked := false, coding := cod } (b :: bs) rest (by simp)
    simp only at this
    rw [this]


def sGET : Bytes := [0x47, 0x45, 0x54]
def sHEAD : Bytes := "HEAD".toUTF8.toList
def sTRACE : Bytes := "TRACE".toUTF8.toList

/-- a delivered message on the reader's side of a Content-Length framed message -/
theorem bodyComplete_length (side : Side) (c : Cur) (rest v : Bytes) (hch : c.chunked = false) (hcod : c.coding = .none)
    (hcl : c.msg.headers.get? sCL = some v)
    (hm : side = .server → (c.msg.method ≠ sHEAD ∧ c.msg.method ≠ sGET ∧ c.msg.method ≠ sTRACE) ∨ c.msg.body = []) :
    bodyComplete side c rest = .ok c.msg := by
  unfold bodyComplete
  simp only [hcl, Option.isNone_some, Bool.and_false, Bool.false_and, Bool.false_eq_true, if_false, hcod, hch, Bool.or_self,
    bne_self_eq_false]
  cases side with
  | client => simp
  | server =>
    have hcond : ((c.msg.method == "HEAD".toUTF8.toList || c.msg.method == [0x47, 0x45, 0x54] || c.msg.method == "TRACE".toUTF8.toList)
        && !c.msg.body.isEmpty) = false := by
      rcases hm rfl with ⟨h1, h2, h3⟩ | hb
      · have e1 : (c.msg.method == "HEAD".toUTF8.toList) = false := beq_eq_false_iff_ne.mpr h1
        have e2 : (c.msg.method == [0x47, 0x45, 0x54]) = false := beq_eq_false_iff_ne.mpr h2
        have e3 : (c.msg.method == "TRACE".toUTF8.toList) = false := beq_eq_false_iff_ne.mpr h3
        rw [e1, e2, e3]; rfl
      · rw [hb]; simp
    simp only [beq_self_eq_true, Bool.true_and, hcond, Bool.false_eq_true, if_false]

/-- everything a writer must get right for one Content-Length framed message, and the message `m` the reader
    then delivers: the record of the start line (`startResult`), the collection the header block parses to,
    the hooks at the end of the header section (`headersResult`), the body -/
def Good (E : Env) (side : Side) (w : WMsg) (m : Msg) : Prop :=
  ∃ (m0 : Msg) (hs : Headers.Coll) (c1 : Cur) (v : Bytes),
    Clean 0x0D w.line ∧ startResult E side w.line = .ok m0 ∧
    startsWith (w.block ++ CRLF) CRLF = false ∧ contains (w.block ++ [0x0D, 0x0A, 0x0D]) (CRLF ++ CRLF) = false ∧ w.block ≠ [] ∧
    Headers.parse E.reg m0.headers w.block = .ok hs ∧
    headersResult E side { msg := { m0 with headers := hs }, startline := true } = .ok c1 ∧
    c1.lf = false ∧ c1.msgLen = none ∧ c1.chunked = false ∧ c1.coding = .none ∧ c1.msg.body = [] ∧
    c1.msg.headers.get? sTE = none ∧ c1.msg.headers.get? sCL = some v ∧ Element.rfc2047Branch v = false ∧
    integerStr v = some (w.body.length : Int) ∧
    (side = .server → (c1.msg.method ≠ sHEAD ∧ c1.msg.method ≠ sGET ∧ c1.msg.method ≠ sTRACE) ∨ w.body = []) ∧
    m = { c1.msg with body := w.body }

/-- `Good` as a computation: the delivered message if the writer got everything right (so that the hypotheses of
    the theorems below can be discharged by evaluation for any concrete message) -/
def goodB (E : Env) (side : Side) (w : WMsg) : Option Msg :=
  match startResult E side w.line with
  | .error _ => none
  | .ok m0 => match Headers.parse E.reg m0.headers w.block with
    | .error _ => none
    | .ok hs => match headersResult E side { msg := { m0 with headers := hs }, startline := true } with
      | .error _ => none
      | .ok c1 => match c1.msg.headers.get? sCL with
        | none => none
        | some v =>
          if Clean 0x0D w.line ∧
            startsWith (w.block ++ CRLF) CRLF = false ∧ contains (w.block ++ [0x0D, 0x0A, 0x0D]) (CRLF ++ CRLF) = false ∧ w.block ≠ [] ∧
            c1.lf = false ∧ c1.msgLen = none ∧ c1.chunked = false ∧ c1.coding = .none ∧ c1.msg.body = [] ∧
            c1.msg.headers.get? sTE = none ∧ Element.rfc2047Branch v = false ∧
            integerStr v = some (w.body.length : Int) ∧
            (side = .server → (c1.msg.method ≠ sHEAD ∧ c1.msg.method ≠ sGET ∧ c1.msg.method ≠ sTRACE) ∨ w.body = [])
          then some { c1.msg with body := w.body } else none

theorem goodB_sound (E : Env) (side : Side) (w : WMsg) (m : Msg) (h : goodB E side w = some m) : Good E side w m := by
  unfold goodB at h
  split at h
  · cases h
  · rename_i m0 hm0
    split at h
    · cases h
    · rename_i hs hhs
      split at h
      · cases h
      · rename_i c1 hc1
        split at h
        · cases h
        · rename_i v hv
          split at h
          · rename_i hc
            obtain ⟨a1, a2, a3, a4, a5, a6, a7, a8, a9, a10, a11, a12, a13⟩ := hc
            injection h with h
            exact ⟨m0, hs, c1, v, a1, hm0, a2, a3, a4, hhs, hc1, a5, a6, a7, a8, a9, a10, hv, a11, a12, a13, h.symm⟩
          · cases h

/-- one iteration of the outer loop takes exactly one message off the stream -/
theorem run_one (E : Env) (side : Side) (w : WMsg) (m : Msg) (h : Good E side w m) (rest : Bytes) (f : Nat) (out : List Msg) :
    run E side (f + 1) { buf := w.wire ++ rest, cur := none } out = run E side f { buf := rest, cur := none } (out ++ [m]) := by
  obtain ⟨m0, hs, c1, v, hl, hstart, hbs, hsep, hne, hparse, hhr, hlf, hml, hch, hcod, hbody, hte, hcl, h2047, hint, hmeth, rfl⟩ := h
  have hwne : (w.wire ++ rest).isEmpty = false := by
    unfold WMsg.wire; simp [CRLF]
  have e1 : w.wire ++ rest = w.line ++ CRLF ++ (w.block ++ (CRLF ++ CRLF) ++ (w.body ++ rest)) := by
    unfold WMsg.wire; simp
  conv => lhs; unfold run
  simp only [hwne, Bool.false_eq_true, if_false, Option.getD_none]
  rw [e1, startPhase_line E side w.line _ hl m0 hstart]
  simp only
  rw [headerPhase_block E side { msg := m0, startline := true } rfl rfl w.block (w.body ++ rest) hbs hsep hne hs hparse c1 hhr]
  simp only
  have hpb := parseBody_length E { c1 with headersDone := true } hml hch hte v hcl h2047 w.body rest hint
  rw [hpb]
  have hto : ∀ (x : Step), to400 (Except.ok x : R Step) = .ok x := fun _ => rfl
  rw [hto]
  simp only
  rw [bodyComplete_length side { c1 with msg := { c1.msg with body := c1.msg.body ++ w.body }, headersDone := true, msgLen := some 0 } rest v hch hcod hcl (by
    intro hs'
    rcases hmeth hs' with h1 | h2
    · exact Or.inl h1
    · right; simp [hbody, h2])]
  have hto2 : ∀ (x : Msg), to400 (Except.ok x : R Msg) = .ok x := fun _ => rfl
  rw [hto2]
  simp only [hbody, List.nil_append]

/-- the writer's stream for a pipeline -/
def wireAll (ws : List WMsg) : Bytes := ws.flatMap WMsg.wire

/-- **C02, whole pipelines.**  Any number of well-formed Content-Length framed messages in one stream: the outer
    loop delivers exactly those messages, in order, each built from its own bytes only, and retains nothing. -/
theorem pipeline_exact (E : Env) (side : Side) (ws : List (WMsg × Msg)) (h : ∀ p ∈ ws, Good E side p.1 p.2)
    (f : Nat) (hf : ws.length ≤ f) (out : List Msg) :
    run E side f { buf := wireAll (ws.map (·.1)), cur := none } out = .ok (out ++ ws.map (·.2), { buf := [], cur := none }) := by
  induction ws generalizing f out with
  | nil => cases f <;> simp [run, wireAll]
  | cons p ws ih =>
    cases f with
    | zero => simp at hf
    | succ f =>
      have e : wireAll ((p :: ws).map (·.1)) = p.1.wire ++ wireAll (ws.map (·.1)) := by simp [wireAll]
      rw [e, run_one E side p.1 p.2 (h p (by simp)) _ f out, ih (fun x hx => h x (by simp [hx])) f (by simp at hf; omega)]
      simp

/-- the same through one call of `parse(data)` on a fresh state machine -/
theorem feed_pipeline (E : Env) (side : Side) (ws : List (WMsg × Msg)) (h : ∀ p ∈ ws, Good E side p.1 p.2) :
    feed E side {} (wireAll (ws.map (·.1))) = .ok (ws.map (·.2), { buf := [], cur := none }) := by
  unfold feed
  have hlen : ws.length ≤ (wireAll (ws.map (·.1))).length + 1 := by
    have : ∀ (l : List (WMsg × Msg)), l.length ≤ (wireAll (l.map (·.1))).length := by
      intro l
      induction l with
      | nil => simp
      | cons p l ih =>
        have e : wireAll ((p :: l).map (·.1)) = p.1.wire ++ wireAll (l.map (·.1)) := by simp [wireAll]
        rw [e, List.length_append]
        have : 1 ≤ p.1.wire.length := by unfold WMsg.wire; simp [CRLF]; omega
        simp only [List.length_cons]; omega
    have := this ws; omega
  have := pipeline_exact E side ws h _ hlen []
  simpa using this


/-! ### chunked framing -/

/-- a message whose body travels in chunks (any number, any sizes, any extension text), no trailer fields -/
structure CMsgW where
  line : Bytes
  block : Bytes
  chunks : List Chunk
  last : Bytes          -- the last-chunk line (`0`, possibly with extensions)
  deriving Repr

def CMsgW.wire (w : CMsgW) : Bytes := w.line ++ CRLF ++ (w.block ++ (CRLF ++ CRLF) ++ wireChunked w.chunks w.last)

def CMsgW.payload (w : CMsgW) : Bytes := w.chunks.flatMap (·.data)

theorem wireChunked_length (cs : List Chunk) (last : Bytes) (h : ∀ ch ∈ cs, WellFormed ch) :
    cs.length + 1 ≤ (wireChunked cs last).length := by
  have : ∀ (l : List Chunk), (∀ ch ∈ l, WellFormed ch) → l.length ≤ (wireChunks l).length := by
    intro l
    induction l with
    | nil => intro _; simp
    | cons c l ih =>
      intro hl
      have := ih (fun x hx => hl x (by simp [hx]))
      simp only [wireChunks, List.flatMap_cons, List.length_append, List.length_cons, CRLF, List.length_nil] at this ⊢
      omega
  have h1 := this cs h
  unfold wireChunked
  simp only [List.length_append, CRLF, List.length_cons, List.length_nil]
  omega

theorem parseBody_chunkedMsg (E : Env) (c : Cur) (hml : c.msgLen = none) (hch : c.chunked = false) (htr : c.trailer = false)
    (hlf : c.lf = false) (te : Bytes) (hte : c.msg.headers.get? sTE = some te) (hp : StartLine.protoGe c.msg.proto (1, 1) = true)
    (h2047 : Element.rfc2047Branch te = false) (hck : (te.map toLower == schunked) = true)
    (cs : List Chunk) (last rest : Bytes) (hcs : ∀ ch ∈ cs, WellFormed ch) (hlast : Clean 0x0D last) (hl0 : chunkSize last = .ok 0) :
    parseBody E c (wireChunked cs last ++ rest) =
      .ok (.done { addPart { c with chunked := true } (cs.flatMap (·.data)) with trailer := true } rest) := by
  obtain ⟨msg, lf, sl, hd, tr, ml, ch, cod⟩ := c
  simp only at hml hch hte hp htr hlf
  cases hml
  cases hch
  unfold parseBody
  simp only [Option.isNone_none, Bool.not_false, Bool.and_self, if_true]
  unfold determineLength
  simp only [hte, hp, if_true, h2047, Bool.false_eq_true, if_false, hck]
  exact dechunk_chunk E cs last rest _ _ hcs hlast hl0 htr hlf (by
    have := wireChunked_length cs last hcs
    simp only [List.length_append]; omega)

theorem bodyComplete_chunked (side : Side) (c : Cur) (rest : Bytes) (hch : c.chunked = true) (hcod : c.coding = .none)
    (hm : side = .server → (c.msg.method ≠ sHEAD ∧ c.msg.method ≠ sGET ∧ c.msg.method ≠ sTRACE) ∨ c.msg.body = []) :
    bodyComplete side c rest =
      .ok { c.msg with headers := (c.msg.headers.put sCL (natToDec c.msg.body.length)).del sTE } := by
  unfold bodyComplete
  simp only [hch, Bool.not_true, Bool.and_false, Bool.false_eq_true, if_false, hcod, bne_self_eq_false, Bool.true_or, if_true]
  cases side with
  | client => first | rfl | simp
  | server =>
    have hcond : ((c.msg.method == "HEAD".toUTF8.toList || c.msg.method == [0x47, 0x45, 0x54] || c.msg.method == "TRACE".toUTF8.toList)
        && !c.msg.body.isEmpty) = false := by
      rcases hm rfl with ⟨h1, h2, h3⟩ | hb
      · have e1 : (c.msg.method == "HEAD".toUTF8.toList) = false := beq_eq_false_iff_ne.mpr h1
        have e2 : (c.msg.method == [0x47, 0x45, 0x54]) = false := beq_eq_false_iff_ne.mpr h2
        have e3 : (c.msg.method == "TRACE".toUTF8.toList) = false := beq_eq_false_iff_ne.mpr h3
        rw [e1, e2, e3]; rfl
      · rw [hb]; simp
    simp only [beq_self_eq_true, Bool.true_and, hcond, Bool.false_eq_true, if_false]

/-- the chunked counterpart of `Good` -/
def GoodC (E : Env) (side : Side) (w : CMsgW) (m : Msg) : Prop :=
  ∃ (m0 : Msg) (hs : Headers.Coll) (c1 : Cur) (te : Bytes),
    Clean 0x0D w.line ∧ startResult E side w.line = .ok m0 ∧
    startsWith (w.block ++ CRLF) CRLF = false ∧ contains (w.block ++ [0x0D, 0x0A, 0x0D]) (CRLF ++ CRLF) = false ∧ w.block ≠ [] ∧
    Headers.parse E.reg m0.headers w.block = .ok hs ∧
    headersResult E side { msg := { m0 with headers := hs }, startline := true } = .ok c1 ∧
    c1.lf = false ∧ c1.msgLen = none ∧ c1.chunked = false ∧ c1.trailer = false ∧ c1.coding = .none ∧ c1.msg.body = [] ∧
    c1.msg.headers.get? sTE = some te ∧ StartLine.protoGe c1.msg.proto (1, 1) = true ∧ Element.rfc2047Branch te = false ∧
    (te.map toLower == schunked) = true ∧
    (∀ ch ∈ w.chunks, WellFormed ch) ∧ Clean 0x0D w.last ∧ chunkSize w.last = .ok 0 ∧
    (side = .server → (c1.msg.method ≠ sHEAD ∧ c1.msg.method ≠ sGET ∧ c1.msg.method ≠ sTRACE) ∨ w.payload = []) ∧
    m = { c1.msg with headers := (c1.msg.headers.put sCL (natToDec w.payload.length)).del sTE, body := w.payload }

instance (ch : Chunk) : Decidable (WellFormed ch) := by unfold WellFormed; infer_instance

/-- `GoodC` as a computation -/
def goodCB (E : Env) (side : Side) (w : CMsgW) : Option Msg :=
  match startResult E side w.line with
  | .error _ => none
  | .ok m0 => match Headers.parse E.reg m0.headers w.block with
    | .error _ => none
    | .ok hs => match headersResult E side { msg := { m0 with headers := hs }, startline := true } with
      | .error _ => none
      | .ok c1 => match c1.msg.headers.get? sTE with
        | none => none
        | some te =>
          if Clean 0x0D w.line ∧
            startsWith (w.block ++ CRLF) CRLF = false ∧ contains (w.block ++ [0x0D, 0x0A, 0x0D]) (CRLF ++ CRLF) = false ∧ w.block ≠ [] ∧
            c1.lf = false ∧ c1.msgLen = none ∧ c1.chunked = false ∧ c1.trailer = false ∧ c1.coding = .none ∧ c1.msg.body = [] ∧
            StartLine.protoGe c1.msg.proto (1, 1) = true ∧ Element.rfc2047Branch te = false ∧ (te.map toLower == schunked) = true ∧
            (∀ ch ∈ w.chunks, WellFormed ch) ∧ Clean 0x0D w.last ∧ chunkSize w.last = .ok 0 ∧
            (side = .server → (c1.msg.method ≠ sHEAD ∧ c1.msg.method ≠ sGET ∧ c1.msg.method ≠ sTRACE) ∨ w.payload = [])
          then some { c1.msg with headers := (c1.msg.headers.put sCL (natToDec w.payload.length)).del sTE, body := w.payload } else none

theorem goodCB_sound (E : Env) (side : Side) (w : CMsgW) (m : Msg) (h : goodCB E side w = some m) : GoodC E side w m := by
  unfold goodCB at h
  split at h
  · cases h
  · rename_i m0 hm0
    split at h
    · cases h
    · rename_i hs hhs
      split at h
      · cases h
      · rename_i c1 hc1
        split at h
        · cases h
        · rename_i te hte
          split at h
          · rename_i hc
            obtain ⟨a1, a2, a3, a4, a5, a6, a7, a8, a9, a10, a11, a12, a13, a14, a15, a16, a17⟩ := hc
            injection h with h
            exact ⟨m0, hs, c1, te, a1, hm0, a2, a3, a4, hhs, hc1, a5, a6, a7, a8, a9, a10, hte, a11, a12, a13, a14, a15, a16, a17, h.symm⟩
          · cases h

theorem run_one_chunked (E : Env) (side : Side) (w : CMsgW) (m : Msg) (h : GoodC E side w m) (rest : Bytes) (f : Nat) (out : List Msg) :
    run E side (f + 1) { buf := w.wire ++ rest, cur := none } out = run E side f { buf := rest, cur := none } (out ++ [m]) := by
  obtain ⟨m0, hs, c1, te, hl, hstart, hbs, hsep, hne, hparse, hhr, hlf, hml, hch, htr, hcod, hbody, hte, hp, h2047, hck, hcs, hlast, hl0,
    hmeth, rfl⟩ := h
  have hwne : (w.wire ++ rest).isEmpty = false := by
    unfold CMsgW.wire; simp [CRLF]
  have e1 : w.wire ++ rest = w.line ++ CRLF ++ (w.block ++ (CRLF ++ CRLF) ++ (wireChunked w.chunks w.last ++ rest)) := by
    unfold CMsgW.wire; simp
  conv => lhs; unfold run
  simp only [hwne, Bool.false_eq_true, if_false, Option.getD_none]
  rw [e1, startPhase_line E side w.line _ hl m0 hstart]
  simp only
  rw [headerPhase_block E side { msg := m0, startline := true } rfl rfl w.block _ hbs hsep hne hs hparse c1 hhr]
  simp only
  have hpb := parseBody_chunkedMsg E { c1 with headersDone := true } hml hch htr hlf te hte hp h2047 hck w.chunks w.last rest hcs hlast hl0
  rw [hpb]
  have hto : ∀ (x : Step), to400 (Except.ok x : R Step) = .ok x := fun _ => rfl
  rw [hto]
  simp only
  have hbc := bodyComplete_chunked side ({ addPart { c1 with headersDone := true, chunked := true } (w.chunks.flatMap (·.data)) with trailer := true })
    rest rfl hcod (by
    intro hs'
    rcases hmeth hs' with h1 | h2
    · exact Or.inl h1
    · right; simp only [addPart, hbody, List.nil_append]; exact h2)
  simp only [addPart] at hbc ⊢
  rw [hbc]
  have hto2 : ∀ (x : Msg), to400 (Except.ok x : R Msg) = .ok x := fun _ => rfl
  rw [hto2]
  simp only [hbody, List.nil_append, CMsgW.payload]

/-! ### mixed pipelines -/

/-- a message of either framing, with what the reader delivers for it -/
inductive Sent (E : Env) (side : Side) : Bytes → Msg → Prop
  | length (w : WMsg) (m : Msg) (h : Good E side w m) : Sent E side w.wire m
  | chunked (w : CMsgW) (m : Msg) (h : GoodC E side w m) : Sent E side w.wire m

theorem Sent.step {E : Env} {side : Side} {wire : Bytes} {m : Msg} (h : Sent E side wire m) (rest : Bytes) (f : Nat) (out : List Msg) :
    run E side (f + 1) { buf := wire ++ rest, cur := none } out = run E side f { buf := rest, cur := none } (out ++ [m]) := by
  cases h with
  | length w m h => exact run_one E side w m h rest f out
  | chunked w m h => exact run_one_chunked E side w m h rest f out

theorem Sent.ne {E : Env} {side : Side} {wire : Bytes} {m : Msg} (h : Sent E side wire m) : 1 ≤ wire.length := by
  cases h with
  | length w m h => unfold WMsg.wire; simp [CRLF]; omega
  | chunked w m h => unfold CMsgW.wire; simp [CRLF]; omega

/-- **C02, whole pipelines, both framings mixed.** -/
theorem pipeline_mixed (E : Env) (side : Side) (ws : List (Bytes × Msg)) (h : ∀ p ∈ ws, Sent E side p.1 p.2) :
    feed E side {} (ws.flatMap (·.1)) = .ok (ws.map (·.2), { buf := [], cur := none }) := by
  have main : ∀ (l : List (Bytes × Msg)), (∀ p ∈ l, Sent E side p.1 p.2) → ∀ (f : Nat), l.length ≤ f → ∀ out,
      run E side f { buf := l.flatMap (·.1), cur := none } out = .ok (out ++ l.map (·.2), { buf := [], cur := none }) := by
    intro l
    induction l with
    | nil => intro _ f _ out; cases f <;> simp [run]
    | cons p l ih =>
      intro hl f hf out
      cases f with
      | zero => simp at hf
      | succ f =>
        rw [List.flatMap_cons, (hl p (by simp)).step _ f out, ih (fun x hx => hl x (by simp [hx])) f (by simp at hf; omega)]
        simp
  have hlen : ∀ (l : List (Bytes × Msg)), (∀ p ∈ l, Sent E side p.1 p.2) → l.length ≤ (l.flatMap (·.1)).length := by
    intro l
    induction l with
    | nil => intro _; simp
    | cons p l ih =>
      intro hl
      have h1 := (hl p (by simp)).ne
      have h2 := ih (fun x hx => hl x (by simp [hx]))
      simp only [List.flatMap_cons, List.length_append, List.length_cons]; omega
  unfold feed
  have := main ws h ((([] : Bytes) ++ ws.flatMap (·.1)).length + 1) (by have := hlen ws h; simp only [List.nil_append]; omega) []
  simpa using this

/-! ### the hypotheses are satisfiable: concrete pipelines on both sides, evaluated by the kernel -/

def wReq1 : WMsg := { line := "POST /a/b?x=1 HTTP/1.1".toUTF8.toList, block := "Host: example.org\r\nContent-Length: 3".toUTF8.toList, body := "abc".toUTF8.toList }
def wReq2 : WMsg := { line := "GET / HTTP/1.1".toUTF8.toList, block := "Host: h\r\nContent-Length: 0\r\nX-A: 1".toUTF8.toList, body := [] }
def wResp1 : WMsg := { line := "HTTP/1.1 200 OK".toUTF8.toList, block := "Content-Length: 2\r\nX-A: b".toUTF8.toList, body := "hi".toUTF8.toList }
def wResp2 : WMsg := { line := "HTTP/1.1 404 Not Found".toUTF8.toList, block := "Content-Length: 0".toUTF8.toList, body := [] }

theorem c02_pipeline_witness_server :
    (goodB (Ops.penv false) .server wReq1).isSome = true ∧ (goodB (Ops.penv false) .server wReq2).isSome = true ∧
    (feed (Ops.penv false) .server {} (wireAll [wReq1, wReq2])).toOption.map (fun r => (r.1.map (·.body), r.1.map (·.method), r.2)) =
      some (["abc".toUTF8.toList, []], ["POST".toUTF8.toList, "GET".toUTF8.toList], { buf := [], cur := none }) := by
  decide +kernel

theorem c02_pipeline_witness_client :
    (goodB (Ops.penv false) .client wResp1).isSome = true ∧ (goodB (Ops.penv false) .client wResp2).isSome = true ∧
    (feed (Ops.penv false) .client {} (wireAll [wResp1, wResp2])).toOption.map (fun r => (r.1.map (·.body), r.1.map (·.status), r.2)) =
      some (["hi".toUTF8.toList, []], [200, 404], { buf := [], cur := none }) := by
  decide +kernel


def wReqC : CMsgW := { line := "PUT /up HTTP/1.1".toUTF8.toList, block := "Host: h\r\nTransfer-Encoding: chunked".toUTF8.toList, chunks := [{ line := "3;x=y".toUTF8.toList, data := "abc".toUTF8.toList }, { line := "0A".toUTF8.toList, data := "0123456789".toUTF8.toList }], last := "0".toUTF8.toList }

/-- a chunked request (two chunks, an extension, a hexadecimal size) followed by a Content-Length one -/
theorem c02_pipeline_witness_mixed :
    (goodCB (Ops.penv false) .server wReqC).isSome = true ∧
    (feed (Ops.penv false) .server {} (wReqC.wire ++ wReq1.wire)).toOption.map (fun r => (r.1.map (·.body), r.1.map (fun m => m.headers.get? sCL), r.2)) =
      some (["abc0123456789".toUTF8.toList, "abc".toUTF8.toList], [some "13".toUTF8.toList, some "3".toUTF8.toList], { buf := [], cur := none }) := by
  decide +kernel

end Httoop.Parser
