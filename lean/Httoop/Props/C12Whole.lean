import Httoop.Props.C12
import Httoop.Proofs.Split
/-
  C12 — the whole statement: `base.join(reference)` is the normalisation of what RFC 3986 §5.2.2 gives.

  `Rfc3986.resolveWith` is the transcription of the RFC's "transform references" (Spec/Rfc3986.lean); the dot-segment
  step is §5.2.4 applied to the slash-collapsed path — the normal form that C11 fixes for every normalised URI.
  `rfcRecord` carries the RFC result (`toRef_rfcRecord`), and `join_eq_rfc` / `join_eq_rfc_scheme` show that `join` is
  `normalize` of that record: for EVERY normalised base and EVERY reference record that the RFC grammar allows.
-/
namespace Httoop.Uri
open Httoop

/-! ### `collapse` over a junction that makes no slash run -/

theorem NoDbl.prefix {A B : Bytes} (h : NoDbl (A ++ B)) : NoDbl A := by
  intro ⟨u, v, e⟩; exact h ⟨u, v ++ B, by simp [e]⟩

theorem collapse_append_noDbl (A B : Bytes) (hA : NoDbl A)
    (hj : A.getLast? ≠ some 0x2F ∨ B.head? ≠ some 0x2F) : collapse (A ++ B) = A ++ collapse B := by
  induction A with
  | nil => simp
  | cons a A ih =>
    cases A with
    | nil =>
      cases B with
      | nil => simp [collapse]
      | cons b B =>
        have hne : (a == 0x2F && b == 0x2F) = false := by
          cases hh : (a == 0x2F && b == 0x2F)
          · rfl
          · exfalso; simp at hh; rcases hj with h | h <;> simp [hh.1, hh.2] at h
        simp only [List.cons_append, List.nil_append, collapse, hne, Bool.false_eq_true, if_false]
    | cons a' A =>
      have hne : (a == 0x2F && a' == 0x2F) = false := by
        cases hh : (a == 0x2F && a' == 0x2F)
        · rfl
        · exfalso; simp at hh; exact hA ⟨[], A, by simp [hh.1, hh.2]⟩
      have := ih hA.tail (by simpa using hj)
      simp only [List.cons_append, collapse, hne, Bool.false_eq_true, if_false] at this ⊢
      rw [this]

/-! ### a path up to its last slash (RFC 5.2.3) -/

theorem first_slash_decomp (L : Bytes) (h : 0x2F ∈ L) :
    ∃ T D, L = T ++ 0x2F :: D ∧ Clean 0x2F T ∧ L.dropWhile (· != Rfc3986.slash) = 0x2F :: D := by
  induction L with
  | nil => cases h
  | cons a L ih =>
    by_cases ha : a = 0x2F
    · subst ha
      exact ⟨[], L, by simp, Clean.nil _, by simp [List.dropWhile, Rfc3986.slash]⟩
    · have hm : (0x2F : Byte) ∈ L := by
        rcases List.mem_cons.mp h with h | h
        · exact absurd h.symm ha
        · exact h
      obtain ⟨T, D, e, hc, hd⟩ := ih hm
      refine ⟨a :: T, D, by simp [e], ?_, ?_⟩
      · intro b hb
        rcases List.mem_cons.mp hb with h | h
        · subst h; exact ha
        · exact hc b h
      · have : (a != Rfc3986.slash) = true := by simp [Rfc3986.slash, ha]
        simp only [List.dropWhile, this]
        exact hd

theorem last_slash_decomp (P : Bytes) (h : 0x2F ∈ P) :
    ∃ P0 l, P = P0 ++ 0x2F :: l ∧ Clean 0x2F l ∧
      (P.reverse.dropWhile (· != Rfc3986.slash)).reverse = P0 ++ [0x2F] := by
  obtain ⟨T, D, e, hc, hd⟩ := first_slash_decomp P.reverse (by simpa using h)
  refine ⟨D.reverse, T.reverse, ?_, ?_, by rw [hd]; simp⟩
  · have := congrArg List.reverse e
    simpa using this
  · intro b hb; exact hc b (by simpa using hb)

/-! ### the path of a relative-path reference: `/../` trick = RFC merge, in every case -/

theorem collapse_nonempty (X : Bytes) (hX : startsWith X [0x2F] = true) : (collapse X).isEmpty = false := by
  cases X with
  | nil => simp [startsWith] at hX
  | cons a r => obtain ⟨t, e⟩ := collapse_head a r; rw [e]; rfl

theorem abspath_congr (X Y : Bytes) (hX : startsWith X [0x2F] = true) (hY : startsWith Y [0x2F] = true)
    (h : abspathSegs (splitOn1 0x2F (collapse X)) = abspathSegs (splitOn1 0x2F (collapse Y))) :
    abspath X = abspath Y := by
  unfold abspath abspathCore
  simp only [hX, hY, collapse_nonempty X hX, collapse_nonempty Y hY, h, Bool.false_eq_true, if_false]

theorem head_of_not_startsWith (R : Bytes) (h : startsWith R [0x2F] = false) : R.head? ≠ some 0x2F := by
  cases R with
  | nil => simp
  | cons r R => simp [startsWith] at h; simpa using h

theorem noDbl_updir : NoDbl [0x2F, 0x2E, 0x2E, 0x2F] := by
  have := collapse_noDbl [0x2F, 0x2E, 0x2E, 0x2F]
  have e : collapse [0x2F, 0x2E, 0x2E, 0x2F] = [0x2F, 0x2E, 0x2E, 0x2F] := by decide
  rwa [e] at this

theorem endsWith_decomp (P0 l : Bytes) (hc : Clean 0x2F l) :
    endsWith (P0 ++ 0x2F :: l) [0x2F] = l.isEmpty := by
  rcases List.eq_nil_or_concat l with h | ⟨l', x, h⟩
  · subst h; simp [endsWith, startsWith]
  · subst h
    rw [List.concat_eq_append] at hc ⊢
    have hx : x ≠ 0x2F := hc x (by simp)
    have h1 : (x == 0x2F) = false := by simpa using hx
    have h2 : (l' ++ [x]).isEmpty = false := by cases l' <;> rfl
    simp [endsWith, startsWith, h1, h2]

theorem getLast_decomp (P0 l : Bytes) (hc : Clean 0x2F l) (hl : l ≠ []) :
    (P0 ++ 0x2F :: l).getLast? ≠ some 0x2F := by
  rcases List.eq_nil_or_concat l with h | ⟨l', x, h⟩
  · exact absurd h hl
  · subst h
    rw [List.concat_eq_append] at hc ⊢
    have hx : x ≠ 0x2F := hc x (by simp)
    have : P0 ++ 0x2F :: (l' ++ [x]) = (P0 ++ 0x2F :: l') ++ [x] := by simp
    rw [this, List.getLast?_concat]
    simpa using hx

/-- **the merged path**: for a base path that begins with a slash, has no slash run and no dot segment, and a
    relative-path reference, the text `join` hands to `abspath` (base path, `/../` unless the base path ends with a
    slash, reference path) normalises to what the RFC 5.2.3 merge normalises to -/
theorem join_path_merge (a : Option Bytes) (P R : Bytes) (hP : startsWith P [0x2F] = true) (hN : NoDbl P)
    (hD : NoDots (splitOn1 0x2F P)) (hR' : startsWith R [0x2F] = false) :
    abspath (P ++ (if endsWith P [0x2F] then [] else [0x2F, 0x2E, 0x2E, 0x2F]) ++ R)
      = abspath (Rfc3986.merge { authority := a, path := P } R) := by
  have hmem : (0x2F : Byte) ∈ P := by
    cases P with
    | nil => simp [startsWith] at hP
    | cons p P => simp [startsWith] at hP; simp [hP]
  have hne : P.isEmpty = false := by cases P <;> simp_all
  obtain ⟨P0, l, e, hc, hm⟩ := last_slash_decomp P hmem
  have hmerge : Rfc3986.merge { authority := a, path := P } R = P0 ++ [0x2F] ++ R := by
    simp only [Rfc3986.merge, hne, Bool.and_false, Bool.false_eq_true, if_false, hm]
  rw [hmerge, e, endsWith_decomp P0 l hc]
  by_cases hl : l = []
  · subst hl; simp
  · have hl' : l.isEmpty = false := by cases l <;> simp_all
    simp only [hl', Bool.false_eq_true, if_false]
    have hNe : NoDbl (P0 ++ 0x2F :: l) := e ▸ hN
    have hRh := head_of_not_startsWith R hR'
    apply abspath_congr
    · rw [← e]; exact startsWith_append _ _ _ (startsWith_append _ _ _ hP)
    · have : startsWith (P0 ++ [0x2F]) [0x2F] = true := by
        cases P0 with
        | nil => simp [startsWith]
        | cons p P0 => rw [e] at hP; simpa [startsWith] using hP
      exact startsWith_append _ _ _ this
    · -- left: collapse passes over both junctions
      have c1 : collapse (P0 ++ 0x2F :: l ++ [0x2F, 0x2E, 0x2E, 0x2F] ++ R)
          = P0 ++ 0x2F :: l ++ [0x2F, 0x2E, 0x2E, 0x2F] ++ collapse R := by
        have e1 : P0 ++ 0x2F :: l ++ [0x2F, 0x2E, 0x2E, 0x2F] ++ R = (P0 ++ 0x2F :: l) ++ ([0x2F, 0x2E, 0x2E, 0x2F] ++ R) := by simp
        rw [e1, collapse_append_noDbl _ _ hNe (Or.inl (getLast_decomp P0 l hc hl)),
          collapse_append_noDbl _ _ noDbl_updir (Or.inr hRh)]
        simp
      have c2 : collapse (P0 ++ [0x2F] ++ R) = P0 ++ [0x2F] ++ collapse R := by
        have hpre : NoDbl (P0 ++ [0x2F]) := by
          have : P0 ++ 0x2F :: l = (P0 ++ [0x2F]) ++ l := by simp
          exact NoDbl.prefix (this ▸ hNe)
        exact collapse_append_noDbl _ _ hpre (Or.inr hRh)
      rw [c1, c2, (join_relative_path_eq_merge (P0 ++ 0x2F :: l) (collapse R)).1]
      have s1 : splitOn1 0x2F (P0 ++ 0x2F :: l) = splitOn1 0x2F P0 ++ [l] := by
        rw [splitOn1_append_sep, splitOn1_clean _ _ hc]
      have s2 : splitOn1 0x2F (P0 ++ [0x2F] ++ collapse R) = splitOn1 0x2F P0 ++ splitOn1 0x2F (collapse R) := by
        have : P0 ++ [0x2F] ++ collapse R = P0 ++ 0x2F :: collapse R := by simp
        rw [this, splitOn1_append_sep]
      rw [s2, parent_trick _ _ (e ▸ hD) (splitOn1_ne_nil _ _), s1]
      simp

theorem merge_rooted (a : Option Bytes) (P R : Bytes) (hP : startsWith P [0x2F] = true) :
    startsWith (Rfc3986.merge { authority := a, path := P } R) [0x2F] = true := by
  have hmem : (0x2F : Byte) ∈ P := by
    cases P with
    | nil => simp [startsWith] at hP
    | cons p P => simp [startsWith] at hP; simp [hP]
  have hne : P.isEmpty = false := by cases P <;> simp_all
  obtain ⟨P0, l, e, _, hm⟩ := last_slash_decomp P hmem
  simp only [Rfc3986.merge, hne, Bool.and_false, Bool.false_eq_true, if_false, hm]
  have : startsWith (P0 ++ [0x2F]) [0x2F] = true := by
    cases P0 with
    | nil => simp [startsWith]
    | cons p P0 => rw [e] at hP; simpa [startsWith] using hP
  exact startsWith_append _ _ _ this

open Rfc3986 in
/-- a base without path (`http://a`): `/../` in front of the reference path is the RFC's "/" in front of it -/
theorem join_path_merge_empty (R : Bytes) (hR' : startsWith R [0x2F] = false) :
    abspath ([0x2F, 0x2E, 0x2E, 0x2F] ++ R) = abspath (0x2F :: R) := by
  have hRh := head_of_not_startsWith R hR'
  have c1 : collapse ([0x2F, 0x2E, 0x2E, 0x2F] ++ R) = [0x2F, 0x2E, 0x2E, 0x2F] ++ collapse R :=
    collapse_append_noDbl _ _ noDbl_updir (Or.inr hRh)
  have c2 : collapse (0x2F :: R) = 0x2F :: collapse R := by
    have := collapse_append_noDbl [0x2F] R noDbl_slash (Or.inr hRh)
    simpa using this
  rw [abspath_eq_rfc _ (by simp [startsWith]), abspath_eq_rfc _ (by simp [startsWith]), c1, c2]
  have hT : splitOn1 0x2F (collapse R) ≠ [] := splitOn1_ne_nil _ _
  have hc : ∀ s ∈ splitOn1 0x2F (collapse R), Clean slash s := mem_split_clean _ _
  have o2 : 0x2F :: collapse R = outOf (splitOn1 0x2F (collapse R)) := by
    rw [outOf_join _ hT]; simp [slash, join_split]
  have o1 : [0x2F, 0x2E, 0x2E, 0x2F] ++ collapse R = outOf (dotdotS :: splitOn1 0x2F (collapse R)) := by
    rw [outOf_cons, ← o2]; simp [dotdotS, slash, dotB]
  rw [o1, o2, removeDotSegments_segs _ hc, removeDotSegments_segs _ (by
    intro s hs
    rcases List.mem_cons.mp hs with h | h
    · subst h; intro b hb; simp [dotdotS, dotB] at hb; subst hb; decide
    · exact hc s h)]
  simp [rfcSegs, hT, dd_ne_d]

/-! ### the record that RFC 3986 §5.2.2 prescribes -/

/-- §5.2.4 on the slash-collapsed path: C11's normal form -/
def rdsC (p : Bytes) : Bytes := Rfc3986.removeDotSegments (collapse p)

def opt (b : Bytes) : Option Bytes := if b.isEmpty then none else some b

/-- the RFC's five components of a record: a component is defined iff it is non-empty; the authority is defined iff
    the host is, and is any function `enc` of user name, password and host (the port is spoken of separately) -/
def toRef (enc : Bytes → Bytes → Bytes → Bytes) (u : Uri) : Rfc3986.Ref :=
  { scheme := opt u.scheme,
    authority := if u.host.isEmpty then none else some (enc u.username u.password u.host),
    path := u.path, query := opt u.query, fragment := opt u.fragment }

/-- the path §5.2.2 gives (the authority enters only through being defined) -/
def rfcPath (b rel : Uri) : Bytes :=
  (Rfc3986.resolveWith rdsC (toRef (fun _ _ h => h) b) (toRef (fun _ _ h => h) rel)).path

/-- the un-normalised target of §5.2.2 as a record -/
def rfcRecord (E : Env) (b rel : Uri) : Uri := { joinRaw E b rel with path := rfcPath b rel }

/-- a normalised absolute base without fragment (C11: what `normalize()` leaves) -/
structure NormalBase (b : Uri) : Prop where
  scheme : b.scheme ≠ []
  host : b.host ≠ []
  path : b.path = [] ∨ (startsWith b.path [0x2F] = true ∧ NoDbl b.path ∧ NoDots (splitOn1 0x2F b.path))
  fragment : b.fragment = []

theorem abspath_rdsC (p : Bytes) (h : startsWith p [0x2F] = true) : abspath (rdsC p) = abspath p := by
  unfold rdsC; rw [← abspath_eq_rfc p h, abspath_idem]

theorem isEmpty_false_of_ne {α} {l : List α} (h : l ≠ []) : l.isEmpty = false := by cases l <;> simp_all

/-- the path `join` normalises and the path the RFC prescribes have the same normal form -/
theorem rfcPath_abspath (E : Env) (b rel : Uri) (hb : NormalBase b) (hs : rel.scheme = [])
    (hrel : rel.host ≠ [] → rel.path = [] ∨ startsWith rel.path [0x2F] = true) :
    abspath (rfcPath b rel) = abspath (joinRaw E b rel).path := by
  rw [join_path_cases]
  have hbh := isEmpty_false_of_ne hb.host
  by_cases h1 : rel.host = []
  · by_cases h2 : rel.path = []
    · simp [rfcPath, Rfc3986.resolveWith, toRef, opt, hs, h1, h2]
    · have h2' := isEmpty_false_of_ne h2
      by_cases h3 : startsWith rel.path [0x2F] = true
      · have : rfcPath b rel = rdsC rel.path := by
          simp [rfcPath, Rfc3986.resolveWith, toRef, opt, hs, h1, h2', h3, Rfc3986.slash]
        rw [this, abspath_rdsC _ h3]
        simp [h1, h2, h3]
      · have h3' : startsWith rel.path [0x2F] = false := by simpa using h3
        have : rfcPath b rel = rdsC (Rfc3986.merge { authority := some b.host, path := b.path } rel.path) := by
          simp [rfcPath, Rfc3986.resolveWith, toRef, opt, hs, h1, h2', h3', hbh, Rfc3986.slash, Rfc3986.merge]
        rw [this]
        simp only [h2, h3', ne_eq, not_false_eq_true, and_self, if_true]
        rcases hb.path with hp | ⟨hp1, hp2, hp3⟩
        · rw [hp]
          have : Rfc3986.merge { authority := some b.host, path := [] } rel.path = 0x2F :: rel.path := by
            simp [Rfc3986.merge, Rfc3986.slash]
          rw [this, abspath_rdsC _ (by simp [startsWith])]
          have : endsWith [] [0x2F] = false := by decide
          simp only [this, Bool.false_eq_true, if_false, List.nil_append]
          exact (join_path_merge_empty rel.path h3').symm
        · rw [abspath_rdsC _ (merge_rooted _ _ _ hp1)]
          exact (join_path_merge (some b.host) b.path rel.path hp1 hp2 hp3 h3').symm
  · have h1' := isEmpty_false_of_ne h1
    have : rfcPath b rel = rdsC rel.path := by
      simp [rfcPath, Rfc3986.resolveWith, toRef, opt, hs, h1']
    rw [this]
    rcases hrel h1 with hp | hp
    · rw [hp]; simp [h1]; decide
    · rw [abspath_rdsC _ hp]
      simp [h1, hp]

theorem normalize_path_congr (E : Env) (u : Uri) (p : Bytes) (h : abspath p = abspath u.path) :
    normalize E { u with path := p } = normalize E u := by
  unfold normalize; simp only [h]

/-- **C12, references without scheme**: for every normalised absolute base without fragment and every reference record
    without scheme (network-path, absolute-path, relative-path, query-only, fragment-only, empty), `base.join(reference)`
    is `normalize()` of the record that RFC 3986 §5.2.2 prescribes (`rfcRecord`, see `toRef_rfcRecord`) -/
theorem join_eq_rfc (E : Env) (b rel : Uri) (hb : NormalBase b) (hs : rel.scheme = [])
    (hrel : rel.host ≠ [] → rel.path = [] ∨ startsWith rel.path [0x2F] = true) :
    join E b rel = normalize E (rfcRecord E b rel) := by
  rw [join_components E b rel hs]
  exact (normalize_path_congr E (joinRaw E b rel) (rfcPath b rel) (rfcPath_abspath E b rel hb hs hrel)).symm

theorem Ref_eq (a b : Rfc3986.Ref) (h1 : a.scheme = b.scheme) (h2 : a.authority = b.authority) (h3 : a.path = b.path)
    (h4 : a.query = b.query) (h5 : a.fragment = b.fragment) : a = b := by
  cases a; cases b; simp_all

theorem rfcPath_enc (enc : Bytes → Bytes → Bytes → Bytes) (b rel : Uri) :
    (Rfc3986.resolveWith rdsC (toRef enc b) (toRef enc rel)).path = rfcPath b rel := by
  unfold rfcPath Rfc3986.resolveWith toRef Rfc3986.merge
  by_cases h0 : rel.scheme.isEmpty <;> by_cases h1 : rel.host.isEmpty <;> by_cases h2 : rel.path.isEmpty <;>
    by_cases h3 : startsWith rel.path [Rfc3986.slash] <;> by_cases h4 : b.host.isEmpty <;>
    simp [opt, h0, h1, h2, h3, h4]

/-- `rfcRecord` IS the target of §5.2.2 ("transform references", transcribed in Spec/Rfc3986.lean): scheme, authority,
    path, query and fragment are each taken from the reference or the base exactly as the RFC prescribes -/
theorem toRef_rfcRecord (E : Env) (enc : Bytes → Bytes → Bytes → Bytes) (b rel : Uri) (hs : rel.scheme = [])
    (hbf : b.fragment = []) :
    toRef enc (rfcRecord E b rel) = Rfc3986.resolveWith rdsC (toRef enc b) (toRef enc rel) := by
  have hp := rfcPath_enc enc b rel
  have hf := join_fragment E b rel hbf
  apply Ref_eq
  · simp only [toRef, rfcRecord, joinRaw, setScheme_scheme, Rfc3986.resolveWith, hs, opt, copyAs]
    by_cases h1 : rel.host.isEmpty <;> by_cases h2 : rel.path.isEmpty <;>
      by_cases h3 : startsWith rel.path [Rfc3986.slash] <;> simp [h1, h2, h3]
  · simp only [toRef, rfcRecord, joinRaw, Rfc3986.resolveWith, hs, opt, copyAs]
    by_cases h1 : rel.host.isEmpty <;> by_cases h2 : rel.path.isEmpty <;>
      by_cases h3 : startsWith rel.path [Rfc3986.slash] <;> simp [h1, h2, h3]
  · rw [hp]; rfl
  · simp only [toRef, rfcRecord, joinRaw, Rfc3986.resolveWith, hs, opt, copyAs]
    by_cases h1 : rel.host.isEmpty <;> by_cases h2 : rel.path.isEmpty <;> by_cases h4 : rel.query.isEmpty <;>
      by_cases h3 : startsWith rel.path [Rfc3986.slash] <;> simp [h1, h2, h3, h4]
  · have : (toRef enc (rfcRecord E b rel)).fragment = opt rel.fragment := by
      simp only [toRef, rfcRecord]; rw [hf]
    rw [this]
    simp only [toRef, Rfc3986.resolveWith, hs, opt]
    by_cases h1 : rel.host.isEmpty <;> by_cases h2 : rel.path.isEmpty <;>
      by_cases h3 : startsWith rel.path [Rfc3986.slash] <;> simp [h1, h2, h3]

theorem match_self (o : Option Nat) : (match o with | some p => some p | none => o) = o := by cases o <;> rfl

/-- the port goes with the authority: the port of whichever of reference and base supplies the authority; if that one
    names none, the default port of the base's scheme -/
theorem rfcRecord_port (E : Env) (b rel : Uri) (hb : b.scheme ≠ []) :
    (rfcRecord E b rel).portProp =
      ((if rel.host.isEmpty then copyAs E none b else rel).portProp).or ((lookupScheme E.schemes b.scheme).map (·.2)) := by
  have hb' := isEmpty_false_of_ne hb
  by_cases h1 : rel.host.isEmpty
  · simp only [rfcRecord, joinRaw, Uri.PORT, setScheme, hb', h1, Bool.not_true, Bool.false_eq_true, if_false, if_true]
    cases h : (copyAs E none b).portProp <;> simp [Uri.portProp, Uri.PORT] <;> exact match_self _
  · simp only [rfcRecord, joinRaw, Uri.PORT, setScheme, hb', h1, Bool.not_false, Bool.false_eq_true, if_false, if_true]
    cases h : rel.portProp <;> simp [Uri.portProp, Uri.PORT] <;> exact match_self _

/-- **C12, references with a scheme**: the reference alone decides; `join` gives `normalize()` of the reference with
    §5.2.4 applied to its path (rootless paths with dot segments are finding F59) -/
theorem join_eq_rfc_scheme (E : Env) (enc : Bytes → Bytes → Bytes → Bytes) (b rel : Uri) (hs : rel.scheme ≠ [])
    (hp : rel.path = [] ∨ startsWith rel.path [0x2F] = true) :
    join E b rel = normalize E { rel with path := rdsC rel.path } ∧
    toRef enc { rel with path := rdsC rel.path } = Rfc3986.resolveWith rdsC (toRef enc b) (toRef enc rel) := by
  constructor
  · rw [join_scheme_ref E b rel hs]
    refine (normalize_path_congr E rel (rdsC rel.path) ?_).symm
    rcases hp with h | h
    · rw [h]; decide
    · exact abspath_rdsC _ h
  · have := isEmpty_false_of_ne hs
    simp [toRef, Rfc3986.resolveWith, opt, this]

/-- what `normalize()` leaves of an absolute URI without fragment is a `NormalBase`: the hypothesis of `join_eq_rfc` is
    met by every base the property quantifies over -/
theorem normalize_normalBase (E : Env) (u : Uri) (h1 : u.scheme ≠ []) (h2 : u.host ≠ []) (h3 : u.fragment = []) :
    NormalBase (normalize E u) := by
  have hsc : (lowerBytes u.scheme).isEmpty = false := by rw [lowerBytes_isEmpty]; exact isEmpty_false_of_ne h1
  have hh : (lowerBytes u.host).isEmpty = false := by rw [lowerBytes_isEmpty]; exact isEmpty_false_of_ne h2
  refine ⟨?_, ?_, ?_, by simpa [normalize] using h3⟩
  · intro e; simp [normalize] at e; simp [e] at hsc
  · intro e; simp [normalize] at e; simp [e] at hh
  · by_cases hp : u.path = []
    · left
      have : abspath u.path = [] := by rw [hp]; decide
      simp [normalize, this]
    · right
      have hq : collapse u.path ≠ [] := by
        cases hu : u.path with
        | nil => exact absurd hu hp
        | cons a r => obtain ⟨t, e⟩ := collapse_head a r; rw [e]; simp
      obtain ⟨n1, n2, n3⟩ := abspath_normal u.path hq
      have n2' := isEmpty_false_of_ne n2
      by_cases hr : startsWith (abspath u.path) [0x2F] = true
      · have e : (normalize E u).path = abspath u.path := by simp [normalize, hr]
        rw [e]; exact ⟨hr, n1, n3⟩
      · have hr' : startsWith (abspath u.path) [0x2F] = false := by simpa using hr
        have e : (normalize E u).path = 0x2F :: abspath u.path := by simp [normalize, hr', hh, hsc, n2']
        rw [e]
        refine ⟨by simp [startsWith], noDbl_slash_cons _ n1 hr', ?_⟩
        intro s hs
        simp only [splitOn1, beq_self_eq_true, if_true, List.mem_cons] at hs
        rcases hs with h | h
        · subst h; decide
        · exact n3 s h

/-! ### the hypotheses are met: RFC 3986 §5.4's own base and three of its references, evaluated by the kernel -/

def envW : Env := { schemes := [("http".toUTF8.toList, 80)], hostSafe := fun _ => false, querySafe := fun _ => false }
def baseW : Uri := normalize envW
  { scheme := "http".toUTF8.toList, host := "a".toUTF8.toList, path := "/b/c/d;p".toUTF8.toList, query := "q".toUTF8.toList }

theorem join_eq_rfc_witness :
    NormalBase baseW ∧
    (join envW baseW { path := "../g".toUTF8.toList }).path = "/b/g".toUTF8.toList ∧
    rfcPath baseW { path := "../g".toUTF8.toList } = "/b/g".toUTF8.toList ∧
    (join envW baseW { path := "../../../g".toUTF8.toList }).path = "/g".toUTF8.toList ∧
    rfcPath baseW { path := "g;x=1/../y".toUTF8.toList } = "/b/c/y".toUTF8.toList := by
  refine ⟨normalize_normalBase envW _ (by decide +kernel) (by decide +kernel) rfl, ?_, ?_, ?_, ?_⟩ <;> decide +kernel

end Httoop.Uri
