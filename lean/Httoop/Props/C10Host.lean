import Httoop.Props.C10Whole
/-
  C10, the host position (since the F65 repair `compose` percent-encodes a registered name like every other component):

  * `host_no_leak`: whatever text the host holds, its composed form contains no octet that is unsafe in the host position
    other than "%" and hex digits - in particular none of "/", "?", "#", "@", ":", "[", "]" (`host_delimiters_encoded` for
    the sets of the source);
  * `unquoteHost_quote`: parsing the composed form of a registered name gives the name back, for every ASCII, lower-case
    name that is no dotted-decimal look-alike and has no ACE label - delimiters, blanks, "%" included.
-/
namespace Httoop.Uri
open Httoop Httoop.Percent

/-- **no octet of a host leaks into the neighbouring components** -/
theorem host_no_leak (P : Sets) (h : Bytes) (c : Byte) (h1 : isSafe P.host c = false) (h2 : c ≠ 0x25) (h3 : isHexUpper c = false) :
    Clean c (quote P.host h) := quote_clean P.host c h h1 h2 h3

theorem quote_all_hostchar (safe : Byte → Bool) (hx : ∀ b, isHexUpper b = true → safe b = true) (s : Bytes) :
    (quote safe s).all (isHostChar safe) = true := by
  induction s with
  | nil => rfl
  | cons b s ih =>
    simp only [quote, List.flatMap_cons, List.all_append, Bool.and_eq_true] at ih ⊢
    refine ⟨?_, ih⟩
    unfold quoteByte
    split
    · rename_i hs
      simp only [isSafe, Bool.and_eq_true] at hs
      simp [isHostChar, hs.1]
    · simp only [List.all_cons, Bool.and_eq_true]
      refine ⟨by simp [isHostChar], ?_⟩
      rw [List.all_eq_true]
      intro x hxm
      simp [isHostChar, hx x (fmtX_hexUpper b x hxm)]

theorem dropWhile_all (p : Byte → Bool) (l : Bytes) (h : l.all p = true) : l.dropWhile p = [] := by
  induction l with
  | nil => rfl
  | cons a l ih =>
    simp only [List.all_cons, Bool.and_eq_true] at h
    simp [List.dropWhile, h.1, ih h.2]

theorem strip_all (p : Byte → Bool) (l : Bytes) (h : l.all p = true) : strip p l = [] := by
  simp [strip, lstrip, rstrip, dropWhile_all p l h]

theorem utf8Valid_ascii : ∀ (s : Bytes), isAscii s = true → utf8Valid s = true
  | [], _ => rfl
  | a :: s, h => by
    simp only [isAscii, List.all_cons, Bool.and_eq_true, decide_eq_true_eq] at h
    unfold utf8Valid
    simp only [h.1, if_true]
    exact utf8Valid_ascii s (by simpa [isAscii] using h.2)

theorem quote_no_bracket (safe : Byte → Bool) (hbr : safe 0x5B = false) (s : Bytes) : startsWith (quote safe s) [0x5B] = false := by
  cases s with
  | nil => rfl
  | cons b s =>
    simp only [quote, List.flatMap_cons]
    unfold quoteByte
    split
    · rename_i hs
      simp only [isSafe, Bool.and_eq_true] at hs
      have : b ≠ 0x5B := by intro e; subst e; rw [hbr] at hs; exact absurd hs.1 (by simp)
      simp [startsWith, this]
    · simp [startsWith]

/-- **a registered name comes back from its composed form**, delimiters and all -/
theorem unquoteHost_quote (E : Env) (P : Sets) (h : Bytes)
    (hs : ∀ b, P.host b = E.hostSafe b) (hx : ∀ b, isHexUpper b = true → E.hostSafe b = true) (hbr : P.host 0x5B = false)
    (hesc : Escapable P.host h) (hascii : isAscii h = true)
    (hip : looksIPv4 (quote P.host h) = false) (hxn : containsXn h = false) (hlow : lowerBytes h = h) :
    unquoteHost E.hostSafe (quote P.host h) = .ok h := by
  have hfun : P.host = E.hostSafe := funext hs
  unfold unquoteHost
  simp only [quote_no_bracket P.host hbr h, Bool.false_and, Bool.false_eq_true, if_false, hip]
  have hall := quote_all_hostchar E.hostSafe hx h
  rw [hfun]
  rw [hfun] at hesc
  simp only [strip_all _ _ hall, List.isEmpty_nil, Bool.not_true, Bool.false_eq_true, if_false]
  simp only [unquoteText_quote E.hostSafe h hesc (utf8Valid_ascii h hascii), bind, Except.bind]
  simp [hascii, hxn, hlow]

/-- the sets of the source: hex digits are safe in the host position, the delimiters are not -/
theorem host_delimiters_encoded :
    (List.range 256).all (fun n => !isHexUpper (UInt8.ofNat n) || Ops.sets.host (UInt8.ofNat n)) = true
    ∧ [0x40, 0x2F, 0x3F, 0x23, 0x3A, 0x5B, 0x5D, 0x20, 0x5C, 0x25].all (fun c => !isSafe Ops.sets.host c && (c == 0x25 || !isHexUpper c)) = true
    ∧ (List.range 256).all (fun n => Ops.sets.host (UInt8.ofNat n) == Ops.env.hostSafe (UInt8.ofNat n)) = true := by
  refine ⟨by decide +kernel, by decide +kernel, by decide +kernel⟩

/-- non-vacuity: the registered name "a/b?c#d@e:f g%h" is composed as one host and comes back as it was -/
def witnessUri : Uri :=
  { (setScheme Ops.env.schemes {} "http".toUTF8.toList) with host := "a/b?c#d@e:f g%h".toUTF8.toList, port := some 80, path := "/x".toUTF8.toList }

theorem c10_host_witness :
    compose Ops.sets witnessUri = .ok "http://a%2Fb%3Fc%23d%40e%3Af%20g%25h/x".toUTF8.toList
    ∧ (parse Ops.env none "http://a%2Fb%3Fc%23d%40e%3Af%20g%25h/x".toUTF8.toList).toOption.map (·.host) = some witnessUri.host := by
  refine ⟨by decide +kernel, by decide +kernel⟩

end Httoop.Uri
