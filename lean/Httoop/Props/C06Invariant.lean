import Httoop.Props.C06
import Httoop.Props.C03
import Httoop.Ops.Parser
/-
  C06 as an invariant of the state machine: whatever bytes arrive, in whatever fragments, every request the
  server-side parser hands out has a sanitised effective URI.
-/
namespace Httoop.Parser
open Httoop Httoop.Uri

/-- the sanitised form: the path is empty (authority form), `*`, or starts with one `/`; it has no slash run and
    no dot segment; no user information, no fragment -/
structure UriOK (u : Uri.Uri) : Prop where
  clean : u.path = [] ∨ (NoDbl u.path ∧ ∀ s ∈ splitOn1 0x2F u.path, s ≠ dot ∧ s ≠ dotdot)
  shape : u.path = [] ∨ u.path = [0x2A] ∨ (startsWith u.path [0x2F] = true ∧ startsWith u.path [0x2F, 0x2F] = false)
  nouser : u.username = [] ∧ u.password = [] ∧ u.fragment = []

/-- the fields `UriOK` speaks about are the same -/
def Frozen (u u' : Uri.Uri) : Prop :=
  u'.path = u.path ∧ u'.username = u.username ∧ u'.password = u.password ∧ u'.fragment = u.fragment

theorem Frozen.refl (u : Uri.Uri) : Frozen u u := ⟨rfl, rfl, rfl, rfl⟩
theorem Frozen.trans {a b c : Uri.Uri} (h1 : Frozen a b) (h2 : Frozen b c) : Frozen a c :=
  ⟨h2.1.trans h1.1, h2.2.1.trans h1.2.1, h2.2.2.1.trans h1.2.2.1, h2.2.2.2.trans h1.2.2.2⟩
theorem UriOK.of_frozen {u u' : Uri.Uri} (h : UriOK u) (f : Frozen u u') : UriOK u' :=
  ⟨by rw [f.1]; exact h.clean, by rw [f.1]; exact h.shape, by rw [f.2.1, f.2.2.1, f.2.2.2]; exact h.nouser⟩

/-- once the start line is complete the effective URI is sanitised -/
def CurOK (c : Cur) : Prop := c.startline = true → UriOK c.msg.uri

/-- same start-line flag, same frozen URI fields -/
def Same (c c' : Cur) : Prop := c'.startline = c.startline ∧ Frozen c.msg.uri c'.msg.uri

theorem Same.refl (c : Cur) : Same c c := ⟨rfl, Frozen.refl _⟩
theorem Same.trans {a b c : Cur} (h1 : Same a b) (h2 : Same b c) : Same a c := ⟨h2.1.trans h1.1, h1.2.trans h2.2⟩
theorem CurOK.of_same {c c' : Cur} (h : CurOK c) (s : Same c c') : CurOK c' :=
  fun hs => (h (s.1 ▸ hs)).of_frozen s.2

theorem to400_ok_inv {α} (x : R α) (v : α) (h : to400 x = .ok v) : x = .ok v := by
  cases x with
  | ok a => exact h
  | error e => cases e <;> simp [to400] at h

/-! ### the start line -/

theorem startlineComplete_ok (E : Env) (m m' : Msg) (hs : UriOK m.uri ∨ True)
    (hshape : m.uri.username = [] ∧ m.uri.password = [] ∧ m.uri.fragment = [] ∧
      (m.uri.path = [] ∨ m.uri.path = [0x2A] ∨ (startsWith m.uri.path [0x2F] = true ∧ startsWith m.uri.path [0x2F, 0x2F] = false)))
    (h : serverStartlineComplete E m = .ok m') : UriOK m'.uri := by
  obtain ⟨hp, hclean⟩ := delivered_path_clean E m m' h
  -- user information and fragment are carried through normalisation and the defaults
  have hfro : m'.uri.username = m.uri.username ∧ m'.uri.password = m.uri.password ∧ m'.uri.fragment = m.uri.fragment := by
    unfold serverStartlineComplete at h
    cases hc : to400 (Uri.compose E.sets m.uri) with
    | error e => rw [hc] at h; cases h
    | ok _ =>
      rw [hc] at h
      simp only [] at h
      by_cases hpp : ((Uri.normalize E.uri m.uri).path != m.uri.path) = true
      · simp only [hpp, if_true] at h; cases h
      · simp only [hpp, Bool.false_eq_true, if_false] at h
        cases hn : StartLine.negotiate m.proto with
        | error e => rw [hn] at h; cases h
        | ok rp =>
          rw [hn] at h
          injection h with h
          subst h
          simp only [applyDefaults]
          split
          · exact ⟨rfl, rfl, rfl⟩
          · simp only [Uri.setScheme]
            split <;> exact ⟨rfl, rfl, rfl⟩
  exact ⟨by rw [hp]; exact hclean, by rw [hp]; exact hshape.2.2.2, by rw [hfro.1, hfro.2.1, hfro.2.2]; exact ⟨hshape.1, hshape.2.1, hshape.2.2.1⟩⟩

theorem startPhase_ok (E : Env) (c c' : Cur) (buf b' : Bytes) (p : Bool) (hc : CurOK c)
    (h : startPhase E .server c buf = .ok (c', b', p)) : CurOK c' := by
  unfold startPhase at h
  by_cases hsl : c.startline = true
  · simp only [hsl, if_true] at h
    injection h with h; injection h with h1 _; subst h1; exact hc
  · simp only [hsl, Bool.false_eq_true, if_false] at h
    cases hps : parseStartline E .server c buf with
    | error e => rw [hps] at h; cases h
    | ok step =>
      rw [hps] at h
      cases step with
      | wait c1 b1 =>
        simp only at h
        injection h with h; injection h with h1 _; subst h1
        -- a waiting start line: the flag is still false
        have : c1.startline = c.startline := by
          unfold parseStartline at hps
          simp only at hps
          split at hps
          · injection hps with hps; injection hps with h1 _; subst h1; split <;> (try split) <;> rfl
          · split at hps
            · injection hps with hps; injection hps with h1 _; subst h1; split <;> (try split) <;> rfl
            · split at hps
              · cases hps
              · cases hps
        intro hs; rw [this] at hs; exact absurd hs hsl
      | done c1 b1 =>
        simp only at h
        cases hsc : to400 (serverStartlineComplete E c1.msg) with
        | error e => rw [hsc] at h; cases h
        | ok m' =>
          rw [hsc] at h
          simp only at h
          injection h with h; injection h with h1 _; subst h1
          intro _
          show UriOK m'.uri
          -- the request line gives the shape, the hooks the clean path
          have hline : ∃ c0 line, to400 (parseRequestLine E c0 line) = .ok c1.msg := by
            unfold parseStartline at hps
            simp only at hps
            split at hps
            · cases hps
            · split at hps
              · cases hps
              · rename_i line rest hsp
                split at hps
                · cases hps
                · rename_i m hm
                  injection hps with hps; injection hps with h1 _; subst h1
                  exact ⟨_, line, hm⟩
          obtain ⟨c0, line, hl⟩ := hline
          have hshape := delivered_uri_shape E c0 c1.msg line (to400_ok_inv _ _ hl)
          exact startlineComplete_ok E c1.msg m' (Or.inr trivial) ⟨hshape.2.1, hshape.2.2.1, hshape.2.2.2.1, hshape.2.2.2.2⟩ (to400_ok_inv _ _ hsc)


theorem startPhase_started (E : Env) (c c' : Cur) (buf b' : Bytes) (h : startPhase E .server c buf = .ok (c', b', true)) :
    c'.startline = true := by
  unfold startPhase at h
  split at h
  · rename_i hsl
    injection h with h; injection h with h1 _; subst h1; exact hsl
  · split at h
    · cases h
    · injection h with h; injection h with _ h2; injection h2 with _ h3; cases h3
    · split at h
      · cases h
      · injection h with h; injection h with h1 _; subst h1; rfl

/-! ### the header section -/

theorem parseHeaderBlock_same (E : Env) (c c' : Cur) (block : Bytes) (h : parseHeaderBlock E c block = .ok c') : Same c c' := by
  unfold parseHeaderBlock at h
  split at h
  · injection h with h; subst h; exact Same.refl _
  · split at h
    · cases h
    · injection h with h; subst h; exact ⟨rfl, Frozen.refl _⟩

theorem parseSingleHeaders_same (E : Env) (c c' : Cur) (buf b' : Bytes) (h : parseSingleHeaders E c buf = .ok (c', b')) : Same c c' := by
  unfold parseSingleHeaders at h
  simp only at h
  repeat' split at h
  all_goals cases h
  all_goals first
    | exact Same.refl _
    | exact parseHeaderBlock_same E c _ _ (by assumption)

theorem parseHeaders_same (E : Env) (c : Cur) (buf : Bytes) (s : Step) (h : parseHeaders E c buf = .ok s) :
    match s with | .wait c' _ => Same c c' | .done c' _ => Same c c' := by
  unfold parseHeaders at h
  simp only at h
  split at h
  · injection h with h; subst h; exact Same.refl _
  · split at h
    · split at h
      · cases h
      · rename_i c2 b2 hs
        injection h with h; subst h
        exact parseSingleHeaders_same E c c2 buf b2 hs
    · split at h
      · cases h
      · rename_i c2 hb
        injection h with h; subst h
        exact parseHeaderBlock_same E c c2 _ hb

theorem setPortOpt_frozen (u u' : Uri.Uri) (p : Option Nat) (h : setPortOpt u p = .ok u') : Frozen u u' := by
  unfold setPortOpt at h
  split at h
  · injection h with h; subst h; exact ⟨rfl, rfl, rfl, rfl⟩
  · split at h
    · injection h with h; subst h; exact ⟨rfl, rfl, rfl, rfl⟩
    · cases h

theorem setRequestHost_same (m m' : Msg) (h : setRequestHost m = .ok m') : Frozen m.uri m'.uri := by
  unfold setRequestHost at h
  split at h
  · injection h with h; subst h; exact Frozen.refl _
  · split at h
    · cases h
    · split at h
      · cases h
      · rename_i u hu
        injection h with h; subst h
        have := setPortOpt_frozen _ _ _ hu
        exact ⟨this.1, this.2.1, this.2.2.1, this.2.2.2⟩

theorem baseHeadersComplete_same (c c' : Cur) (h : baseHeadersComplete c = .ok c') : Same c c' := by
  unfold baseHeadersComplete at h
  simp only at h
  split at h
  · cases h
  · split at h
    · cases h
    · injection h with h; subst h; exact ⟨rfl, Frozen.refl _⟩

theorem serverHeadersComplete_same (E : Env) (c c' : Cur) (h : serverHeadersComplete E c = .ok c') : Same c c' := by
  unfold serverHeadersComplete at h
  split at h
  · cases h
  · split at h
    · cases h
    · rename_i m hm
      split at h
      · cases h
      · have h1 := baseHeadersComplete_same _ _ h
        have h2 := setRequestHost_same _ _ hm
        exact ⟨h1.1, h2.trans h1.2⟩

theorem headerPhase_ok (E : Env) (c c' : Cur) (buf b' : Bytes) (p : Bool) (hc : CurOK c)
    (h : headerPhase E .server c buf = .ok (c', b', p)) : CurOK c' := by
  unfold headerPhase at h
  split at h
  · injection h with h; injection h with h1 _; subst h1; exact hc
  · cases hp : parseHeaders E c buf with
    | error e => rw [hp] at h; cases h
    | ok s =>
      rw [hp] at h
      have hs := parseHeaders_same E c buf s hp
      cases s with
      | wait c1 b1 =>
        simp only at h hs
        injection h with h; injection h with h1 _; subst h1
        exact hc.of_same hs
      | done c1 b1 =>
        simp only at h hs
        cases hh : to400 (serverHeadersComplete E c1) with
        | error e => rw [hh] at h; cases h
        | ok c2 =>
          rw [hh] at h
          simp only at h
          injection h with h; injection h with h1 _; subst h1
          have h2 := serverHeadersComplete_same E c1 c2 (to400_ok_inv _ _ hh)
          exact (hc.of_same (hs.trans h2)).of_same ⟨rfl, Frozen.refl _⟩


/-! ### the body -/

def StepSame (c : Cur) : Step → Prop
  | .wait c' _ => Same c c'
  | .done c' _ => Same c c'

theorem mergeTrailers_uri (E : Env) (m m' : Msg) (ts : Headers.Coll) (h : mergeTrailers E m ts = .ok m') : m'.uri = m.uri := by
  unfold mergeTrailers at h
  split at h
  · cases h
  · split at h
    · cases h
    · split at h
      · cases h
      · injection h with h; subst h; rfl

theorem parseTrailers_same (E : Env) (c : Cur) (buf : Bytes) (s : Step) (h : parseTrailers E c buf = .ok s) : StepSame c s := by
  unfold parseTrailers at h
  simp only at h
  split at h
  · injection h with h; subst h; exact Same.refl _
  · split at h
    · injection h with h; subst h; exact Same.refl _
    · split at h
      · cases h
      · split at h
        · cases h
        · rename_i m hm
          injection h with h; subst h
          have := mergeTrailers_uri E c.msg m _ hm
          exact ⟨rfl, by show Frozen c.msg.uri m.uri; rw [this]; exact Frozen.refl _⟩

theorem parseChunked_same (E : Env) (f : Nat) (c : Cur) (buf : Bytes) (s : Step) (h : parseChunked E f c buf = .ok s) : StepSame c s := by
  induction f generalizing c buf with
  | zero =>
    unfold parseChunked at h
    injection h with h; subst h; exact Same.refl _
  | succ f ih =>
    unfold parseChunked at h
    split at h
    · exact parseTrailers_same E c buf s h
    · simp only at h
      split at h
      · injection h with h; subst h; exact Same.refl _
      · split at h
        · cases h
        · split at h
          · injection h with h; subst h; exact Same.refl _
          · split at h
            · have := parseTrailers_same E _ _ s h
              cases s <;> exact ⟨this.1, this.2⟩
            · split at h
              · cases h
              · have := ih _ _ h
                cases s <;> exact ⟨this.1, this.2⟩

theorem determineLength_same (c c' : Cur) (h : determineLength c = .ok c') : Same c c' := by
  have hcl : ∀ c c', determineLength.lengthFromCL c = .ok c' → Same c c' := by
    intro c c' h
    unfold determineLength.lengthFromCL at h
    split at h
    · injection h with h; subst h; exact ⟨rfl, Frozen.refl _⟩
    · split at h
      · cases h
      · split at h
        · split at h
          · cases h
          · injection h with h; subst h; exact ⟨rfl, Frozen.refl _⟩
        · cases h
  unfold determineLength at h
  simp only at h
  split at h
  · split at h
    · split at h
      · cases h
      · split at h
        · injection h with h; subst h; exact ⟨rfl, Frozen.refl _⟩
        · cases h
    · exact hcl _ _ h
  · exact hcl _ _ h

theorem bodyWithLength_same (c : Cur) (n : Nat) (buf : Bytes) : StepSame c (bodyWithLength c n buf) := by
  unfold bodyWithLength
  split
  · exact Same.refl _
  · simp only
    split <;> exact ⟨rfl, Frozen.refl _⟩

theorem parseBody_same (E : Env) (c : Cur) (buf : Bytes) (s : Step) (h : parseBody E c buf = .ok s) : StepSame c s := by
  unfold parseBody at h
  split at h
  · cases h
  · rename_i c1 hc1
    have h1 : Same c c1 := by
      split at hc1
      · exact determineLength_same _ _ hc1
      · injection hc1 with hc1; subst hc1; exact Same.refl _
    split at h
    · have := parseChunked_same E _ c1 buf s h
      cases s <;> exact h1.trans this
    · split at h
      · rename_i n hn
        injection h with h; subst h
        have := bodyWithLength_same c1 n buf
        revert this
        cases bodyWithLength c1 n buf <;> exact fun t => h1.trans t
      · injection h with h; subst h; exact h1

theorem bodyComplete_uri (side : Side) (c : Cur) (b : Bytes) (m : Msg) (h : bodyComplete side c b = .ok m) : m.uri = c.msg.uri := by
  unfold bodyComplete at h
  simp only at h
  split at h
  · cases h
  · split at h
    · cases h
    · split at h
      · cases h
      · injection h with h; subst h; rfl

/-! ### the loop -/

def StOK (st : St) : Prop := ∀ c, st.cur = some c → CurOK c

theorem curOK_default : CurOK ({} : Cur) := fun h => by cases h

/-- **the invariant of the loop**: from a state whose message in progress is sanitised (if its start line is
    complete), every message the loop hands out is sanitised, and so is the state it leaves -/
theorem run_sanitised (E : Env) (f : Nat) (st st' : St) (out out' : List Msg) (hst : StOK st)
    (hout : ∀ m ∈ out, UriOK m.uri) (h : run E .server f st out = .ok (out', st')) :
    StOK st' ∧ ∀ m ∈ out', UriOK m.uri := by
  induction f generalizing st out with
  | zero =>
    unfold run at h
    injection h with h; injection h with h1 h2; subst h1; subst h2; exact ⟨hst, hout⟩
  | succ f ih =>
    unfold run at h
    split at h
    · injection h with h; injection h with h1 h2; subst h1; subst h2; exact ⟨hst, hout⟩
    · have hc0 : CurOK (st.cur.getD {}) := by
        cases hcur : st.cur with
        | none => exact curOK_default
        | some c => exact hst c hcur
      split at h
      · cases h
      · rename_i c1 b1 hsp
        have h1 := startPhase_ok E _ c1 _ b1 false hc0 hsp
        injection h with h; injection h with h1' h2; subst h1'; subst h2
        exact ⟨fun c hc => by injection hc with hc; subst hc; exact h1, hout⟩
      · rename_i c1 b1 hsp
        have h1 := startPhase_ok E _ c1 _ b1 true hc0 hsp
        split at h
        · cases h
        · rename_i c2 b2 hhp
          have h2 := headerPhase_ok E c1 c2 b1 b2 false h1 hhp
          injection h with h; injection h with h1' h2'; subst h1'; subst h2'
          exact ⟨fun c hc => by injection hc with hc; subst hc; exact h2, hout⟩
        · rename_i c2 b2 hhp
          have h2 := headerPhase_ok E c1 c2 b1 b2 true h1 hhp
          split at h
          · cases h
          · rename_i c3 b3 hpb
            have h3 := parseBody_same E c2 b2 _ (to400_ok_inv _ _ hpb)
            injection h with h; injection h with h1' h2'; subst h1'; subst h2'
            exact ⟨fun c hc => by injection hc with hc; subst hc; exact h2.of_same h3, hout⟩
          · rename_i c3 b3 hpb
            have h3 : Same c2 c3 := parseBody_same E c2 b2 _ (to400_ok_inv _ _ hpb)
            split at h
            · cases h
            · rename_i m hbc
              have hm : m.uri = c3.msg.uri := bodyComplete_uri _ c3 b3 m (to400_ok_inv _ _ hbc)
              -- a message is delivered only after its start line was completed
              have hstart : c2.startline = true := by
                have hs1 := startPhase_started E _ c1 _ b1 hsp
                have : Same c1 c2 ∨ True := Or.inr trivial
                -- the header phase keeps the flag
                have hk : c2.startline = c1.startline := by
                  unfold headerPhase at hhp
                  split at hhp
                  · injection hhp with hhp; injection hhp with e1 _; subst e1; rfl
                  · cases hp : parseHeaders E c1 b1 with
                    | error e => rw [hp] at hhp; cases hhp
                    | ok s =>
                      rw [hp] at hhp
                      have hs := parseHeaders_same E c1 b1 s hp
                      cases s with
                      | wait cw bw =>
                        simp only at hhp
                        injection hhp with hhp; injection hhp with _ e2; injection e2 with _ e3; cases e3
                      | done cd bd =>
                        simp only at hhp hs
                        cases hh : to400 (serverHeadersComplete E cd) with
                        | error e => rw [hh] at hhp; cases hhp
                        | ok ce =>
                          rw [hh] at hhp
                          simp only at hhp
                          injection hhp with hhp; injection hhp with e1 _; subst e1
                          have := serverHeadersComplete_same E cd ce (to400_ok_inv _ _ hh)
                          show ce.startline = c1.startline
                          rw [this.1, hs.1]
                rw [hk]; exact hs1
              have hok : UriOK m.uri := by
                rw [hm]
                exact (h2.of_same h3) (by rw [h3.1]; exact hstart)
              exact ih { buf := b3, cur := none } (out ++ [m]) (fun c hc => by cases hc)
                (fun x hx => by
                  rcases List.mem_append.mp hx with hx | hx
                  · exact hout x hx
                  · simp at hx; subst hx; exact hok) h


/-- one call of `parse(data)` -/
theorem feed_sanitised (E : Env) (st st' : St) (data : Bytes) (out : List Msg) (hst : StOK st)
    (h : feed E .server st data = .ok (out, st')) : StOK st' ∧ ∀ m ∈ out, UriOK m.uri := by
  unfold feed at h
  exact run_sanitised E _ { st with buf := st.buf ++ data } st' [] out (fun c hc => hst c hc) (fun m hm => by cases hm) h

/-- **C06 for every stream and every fragmentation**: whatever octets arrive at a fresh server-side state machine, cut
    into calls in whatever way, every request it hands out has an effective URI whose path is empty, `*` or starts
    with a single `/`, has no slash run and no `.` or `..` segment (the comparison is made on the decoded path), and
    which carries no user information and no fragment -/
theorem delivered_requests_sanitised (E : Env) (frags : List Bytes) (out : List Msg) (st' : St)
    (h : feedAll E .server {} frags = .ok (out, st')) : ∀ m ∈ out, UriOK m.uri := by
  have main : ∀ (frags : List Bytes) (st st' : St) (out : List Msg), StOK st → feedAll E .server st frags = .ok (out, st') →
      StOK st' ∧ ∀ m ∈ out, UriOK m.uri := by
    intro frags
    induction frags with
    | nil =>
      intro st st' out hst h
      unfold feedAll at h
      injection h with h; injection h with h1 h2; subst h1; subst h2
      exact ⟨hst, fun m hm => by cases hm⟩
    | cons d ds ih =>
      intro st st' out hst h
      unfold feedAll at h
      split at h
      · cases h
      · rename_i ms st1 hf
        obtain ⟨hs1, ho1⟩ := feed_sanitised E st st1 d ms hst hf
        split at h
        · cases h
        · rename_i ms' st2 hfa
          obtain ⟨hs2, ho2⟩ := ih st1 st2 ms' hs1 hfa
          injection h with h; injection h with h1 h2; subst h1; subst h2
          exact ⟨hs2, fun m hm => by
            rcases List.mem_append.mp hm with hm | hm
            · exact ho1 m hm
            · exact ho2 m hm⟩
  exact (main frags {} st' out (fun c hc => by cases hc) h).2

/-- not vacuous: a request with encoded dots is refused, a clean one is delivered, in two calls cut inside the line -/
theorem c06_invariant_witness :
    (feedAll (Ops.penv false) .server {} ["GET /a/%2e%2e/b HTTP/1.1\r\nHo".toUTF8.toList, "st: h\r\n\r\n".toUTF8.toList]).toOption.map (·.1.length) = none ∧
    (feedAll (Ops.penv false) .server {} ["GET /b?x=%2e%2e HTTP/1.1\r\nHo".toUTF8.toList, "st: h\r\n\r\n".toUTF8.toList]).toOption.map
      (fun r => r.1.map (·.uri.path)) = some ["/b".toUTF8.toList] := by
  decide +kernel

end Httoop.Parser
