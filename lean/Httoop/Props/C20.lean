import Httoop.Model.Range
import Httoop.Props.C18
/-
  C20 — a satisfiable byte-range request returns exactly the requested slice.
-/
namespace Httoop.Range
open Httoop Httoop.Element

theorem splitOutsideQuotes_clean (sep : Byte) (x : Bytes) (h : Clean sep x) : splitOutsideQuotes sep x = [x] := by
  induction x with
  | nil => simp [splitOutsideQuotes]
  | cons a x ih =>
    have ha : (a == sep) = false := by simpa using h.head
    simp [splitOutsideQuotes, ha, ih h.tail]

theorem digits_props (n : Nat) :
    (∀ b ∈ natToDec n, isPySpace b = false) ∧ Clean 0x2D (natToDec n) ∧ Clean 0x2C (natToDec n) := by
  have hall := (StartLine.natToDec_spec n).2.1
  have h : ∀ b : Byte, isDigit b = true → isPySpace b = false ∧ b ≠ 0x2D ∧ b ≠ 0x2C := by
    apply allBytes; decide +kernel
  refine ⟨?_, ?_, ?_⟩ <;> intro b hb <;> have := h b (List.all_eq_true.mp hall b hb)
  · exact this.1
  · exact this.2.1
  · exact this.2.2

/-- the text `first-last` -/
def spec (f l : Nat) : Bytes := natToDec f ++ 0x2D :: natToDec l

theorem parseOne_spec (f l : Nat) (hfl : f < l)
    (hf : (natToDec f).length ≤ 4300) (hl : (natToDec l).length ≤ 4300) :
    parseOne (spec f l) = .ok (some f, some l) := by
  obtain ⟨f1, f2, f3⟩ := StartLine.natToDec_spec f
  obtain ⟨l1, l2, l3⟩ := StartLine.natToDec_spec l
  obtain ⟨fs, fd, _⟩ := digits_props f
  obtain ⟨ls, _, _⟩ := digits_props l
  unfold parseOne spec
  rw [splitOnce1_append _ _ _ fd]
  have hs1 : strip isPySpace (natToDec f) = natToDec f := strip_noop _ _ fs
  have hs2 : strip isPySpace (natToDec l) = natToDec l := strip_noop _ _ ls
  simp only [pyStrip, hs1, hs2]
  have ef : (natToDec f).isEmpty = false := by cases h : natToDec f <;> simp_all
  have el : (natToDec l).isEmpty = false := by cases h : natToDec l <;> simp_all
  have nf : ¬ (natToDec f).length > 4300 := by omega
  have nl : ¬ (natToDec l).length > 4300 := by omega
  have hd1 : decNat (natToDec f) = f := f1
  have hd2 : decNat (natToDec l) = l := l1
  have hle : ¬ l ≤ f := by omega
  simp [ef, el, f2, l2, nf, nl, hd1, hd2, hle]

/-- the field value `bytes=first-last` -/
def single (f l : Nat) : Bytes := sBytes ++ 0x3D :: spec f l

theorem parse_single (f l : Nat) (hfl : f < l)
    (hf : (natToDec f).length ≤ 4300) (hl : (natToDec l).length ≤ 4300) :
    parse (single f l) = .ok (sBytes, [(some f, some l)]) := by
  obtain ⟨_, fd, fc⟩ := digits_props f
  obtain ⟨_, _, lc⟩ := digits_props l
  unfold parse single
  rw [splitOnce1_append _ _ _ (by decide)]
  have hu : (pyStrip sBytes).isEmpty = false := by decide
  simp only [hu, Bool.false_eq_true, if_false]
  have hclean : Clean 0x2C (spec f l) := by
    unfold spec
    refine fc.append ?_
    intro b hb
    rcases List.mem_cons.mp hb with h | h
    · subst h; decide
    · exact lc b h
  have hsp : Element.split (spec f l) = [spec f l] := by
    unfold Element.split
    rw [splitOutsideQuotes_clean _ _ hclean]
    simp only [List.map_cons, List.map_nil, pyStrip]
    congr 1
    apply strip_noop
    intro b hb
    unfold spec at hb
    rcases List.mem_append.mp hb with h | h
    · exact (digits_props f).1 b h
    · rcases List.mem_cons.mp h with h | h
      · subst h; decide
      · exact (digits_props l).1 b h
  rw [hsp]
  simp only [mapM', parseOne_spec f l hfl hf hl]
  have hs : sortSpecs [(some f, some l)] = [(some f, some l)] := by
    simp [sortSpecs, dedup, insertSorted]
  rw [hs]
  have hsan : sanitize [(some f, some l)] = .ok () := by
    have hl0 : l ≠ 0 := by omega
    unfold sanitize
    simp [truthy, hl0, sanitize.overlap]
  rw [hsan]

/-- **the single-range response**: for `0 ≤ first < last < n` the prepared response is a 206 whose body
    is exactly octets first..last, whose Content-Length is last−first+1 and whose Content-Range is
    `bytes first-last/n` -/
theorem single_range (c : Conds) (data : Bytes) (f l : Nat) (hfl : f < l) (hl : l < data.length)
    (hdig : (natToDec l).length ≤ 4300 ∧ (natToDec f).length ≤ 4300)
    (hc : c = {}) :
    prepareRanges c data (single f l) =
      .single ((data.drop f).take (l + 1 - f))
        (sBytes ++ 0x20 :: natToDec f ++ 0x2D :: natToDec l ++ 0x2F :: natToDec data.length) (l + 1 - f) := by
  subst hc
  have hne : data.isEmpty = false := by cases data <;> simp_all
  have hl0 : l ≠ 0 := by omega
  unfold prepareRanges
  simp only [hne, Bool.not_false, Bool.and_self, Bool.not_true, Bool.false_eq_true, if_false]
  rw [parse_single f l hfl hdig.2 hdig.1]
  simp only [slice, contentRange, truthy, Option.getD_some]
  have hlen : ((data.drop f).take (l + 1 - f)).length = l + 1 - f := by
    simp; omega
  rw [hlen]
  by_cases hf0 : f = 0
  · subst hf0; simp [hl0, StartLine.natToDec]
  · simp [hf0, hl0]

/-- **a Range value that does not parse never yields a partial response** (it is answered 416) -/
theorem invalid_range_not_partial (c : Conds) (data v : Bytes) (e : PyExc) (h : parse v = .error e) :
    (∀ b cr n, prepareRanges c data v ≠ .single b cr n) ∧ (∀ ps, prepareRanges c data v ≠ .multi ps) := by
  unfold prepareRanges
  split
  · exact ⟨fun _ _ _ h => (by cases h), fun _ h => (by cases h)⟩
  · rw [h]; exact ⟨fun _ _ _ h => (by cases h), fun _ h => (by cases h)⟩

/-- **several ranges**: the parts are exactly the slices of the parsed ranges, in the parsed order, each
    with its own Content-Range -/
theorem multi_range (data v : Bytes) (unit : Bytes) (rs : List Spec) (h : parse v = .ok (unit, rs))
    (hlen : rs.length ≠ 1) (hne : data ≠ []) :
    prepareRanges {} data v = .multi (rs.map fun r => (contentRange r data.length, slice data r)) := by
  have hne' : data.isEmpty = false := by cases data <;> simp_all
  unfold prepareRanges
  simp only [hne', Bool.not_false, Bool.and_self, Bool.not_true, Bool.false_eq_true, if_false, h]
  match rs, hlen with
  | [], _ => rfl
  | [_], hlen => simp at hlen
  | _ :: _ :: _, _ => rfl

/-- the parsed ranges come out in ascending order of their first position -/
theorem insertSorted_sorted (x : Spec) (l : List Spec) (h : l.Pairwise (fun a b => sortKey a ≤ sortKey b)) :
    (insertSorted x l).Pairwise (fun a b => sortKey a ≤ sortKey b) := by
  induction l with
  | nil => simp [insertSorted]
  | cons y ys ih =>
    unfold insertSorted
    split
    · rename_i hlt
      refine List.Pairwise.cons ?_ h
      intro z hz
      rcases List.mem_cons.mp hz with e | e
      · subst e; omega
      · have := (List.pairwise_cons.mp h).1 z e; omega
    · rename_i hge
      have ih' := ih (List.pairwise_cons.mp h).2
      refine List.Pairwise.cons ?_ ih'
      intro z hz
      have hmem : z = x ∨ z ∈ ys := by
        clear ih ih' h hge
        induction ys with
        | nil => simp [insertSorted] at hz; exact Or.inl hz
        | cons w ws ihw =>
          unfold insertSorted at hz
          split at hz
          · rcases List.mem_cons.mp hz with e | e
            · exact Or.inl e
            · exact Or.inr e
          · rcases List.mem_cons.mp hz with e | e
            · exact Or.inr (by simp [e])
            · rcases ihw e with e2 | e2
              · exact Or.inl e2
              · exact Or.inr (by simp [e2])
      rcases hmem with e | e
      · subst e; omega
      · exact (List.pairwise_cons.mp h).1 z e

theorem ranges_ascending (l : List Spec) : (sortSpecs l).Pairwise (fun a b => sortKey a ≤ sortKey b) := by
  unfold sortSpecs
  generalize dedup l = m
  suffices ∀ acc : List Spec, acc.Pairwise (fun a b => sortKey a ≤ sortKey b) →
      (m.foldl (fun acc x => insertSorted x acc) acc).Pairwise (fun a b => sortKey a ≤ sortKey b) from
    this [] List.Pairwise.nil
  induction m with
  | nil => intro acc h; exact h
  | cons x xs ih => intro acc h; exact ih _ (insertSorted_sorted x acc h)

/-- a slice of a closed range inside the data has the requested length and content (index form) -/
theorem slice_getElem (data : Bytes) (f l i : Nat) (hl : l < data.length) (hi : i < l + 1 - f) (hfl : f ≤ l) :
    (slice data (some f, some l))[i]? = data[f + i]? := by
  simp only [slice]
  rw [List.getElem?_take]
  simp [hi, List.getElem?_drop]

/-- non-vacuity: `bytes=2-5` on a 20-octet body -/
example : prepareRanges {} ((List.range 20).map fun n => UInt8.ofNat (65 + n)) (single 2 5)
    = .single [67, 68, 69, 70] (sBytes ++ [0x20, 0x32, 0x2D, 0x35, 0x2F, 0x32, 0x30]) 4 := by decide +kernel

end Httoop.Range
