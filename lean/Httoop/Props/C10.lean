import Httoop.Model.Uri
import Httoop.Props.C13
import Httoop.Props.C18
import Httoop.Proofs.Path
/-
  C10 — a URI built from components composes and parses back to the same components.

  The parser cuts the text at `#`, `?`, `://`, `/`, the last `@`, the first `:` of the userinfo and the
  last `:` of host:port.  Proved here, for all octet strings (arbitrary UTF-8 text):
    * `delimiters_encoded`: in the safe set of every position (tables regenerated from the source) the
      delimiters of that position are absent — so `quote` escapes them;
    * `quote_clean`: the output of `quote` does not contain an octet that is neither safe, `%` nor an
      upper-case hex digit — so the cuts fall exactly where `compose` joined;
    * `userinfo_roundtrip`, `hostport_roundtrip`, `path_roundtrip`: the three structured pieces are cut
      back into the components they were composed from.
  The assembled statement `parse (compose c) = c` over all eight components is covered by the
  correspondence and the oracle; as a single Lean theorem it is still open (DESIGN.md).
-/
namespace Httoop.Uri
open Httoop Httoop.Percent

/-- T1: what each position's safe set must not contain, checked on the sets of the current source -/
theorem delimiters_encoded :
    -- user name and password: `@ / ? #` (and `%`) are escaped
    [0x40, 0x2F, 0x3F, 0x23, 0x25].all (fun c => !Gen.pctUSERINFO.contains c) = true
    -- path segments: `? #`
    ∧ [0x3F, 0x23, 0x25].all (fun c => !Gen.pctPATH.contains c) = true
    -- query and fragment: `#`
    ∧ [0x23, 0x25].all (fun c => !Gen.pctQUERY.contains c && !Gen.pctFRAGMENT.contains c && !Gen.queryUNQUOTED.contains c) = true
    -- scheme characters are all safe in the scheme position; host characters contain no delimiter
    ∧ (List.range 256).all (fun n => !isSchemeChar (UInt8.ofNat n) || Gen.pctSCHEME.contains (UInt8.ofNat n)) = true
    ∧ [0x40, 0x2F, 0x3F, 0x23, 0x3A, 0x5B, 0x5D].all (fun c => !Gen.pctUNRESERVED.contains c && !Gen.pctSUB_DELIMS.contains c) = true
    -- everything emitted is printable ASCII
    ∧ [Gen.pctUSERINFO, Gen.pctPATH, Gen.pctQUERY, Gen.pctFRAGMENT, Gen.pctSCHEME].all (fun s => s.all isPrintable) = true := by
  refine ⟨?_, ?_, ?_, ?_, ?_, ?_⟩ <;> decide +kernel

def isHexUpper (b : Byte) : Bool := isDigit b || (0x41 ≤ b && b ≤ 0x46)

theorem fmtX_hexUpper : ∀ b : Byte, ∀ x ∈ fmtX b, isHexUpper x = true := by
  have : ∀ b : Byte, (fmtX b).all isHexUpper = true := by apply allBytes; decide +kernel
  intro b x hx; exact List.all_eq_true.mp (this b) x hx

/-- `quote` never emits an octet that is not safe, not `%` and not an upper-case hex digit -/
theorem quote_clean (safe : Byte → Bool) (c : Byte) (s : Bytes)
    (h1 : isSafe safe c = false) (h2 : c ≠ 0x25) (h3 : isHexUpper c = false) : Clean c (quote safe s) := by
  induction s with
  | nil => exact Clean.nil c
  | cons b s ih =>
    simp only [quote, List.flatMap_cons] at ih ⊢
    refine Clean.append ?_ ih
    unfold quoteByte
    split
    · rename_i hs
      intro x hx; simp at hx; subst hx
      intro e; subst e; rw [hs] at h1; cases h1
    · intro x hx
      rcases List.mem_cons.mp hx with e | e
      · subst e; exact fun e2 => h2 e2.symm
      · intro e2; subst e2
        have := fmtX_hexUpper b x e
        rw [this] at h3; cases h3

/-- a delimiter that does not occur in the text either does not occur in its quoted form -/
theorem quote_clean_of_clean (safe : Byte → Bool) (c : Byte) (s : Bytes) (hc : Clean c s)
    (h2 : c ≠ 0x25) (h3 : isHexUpper c = false) : Clean c (quote safe s) := by
  induction s with
  | nil => exact Clean.nil c
  | cons b s ih =>
    simp only [quote, List.flatMap_cons] at ih ⊢
    refine Clean.append ?_ (ih hc.tail)
    unfold quoteByte
    split
    · intro x hx; simp at hx; subst hx; exact hc.head
    · intro x hx
      rcases List.mem_cons.mp hx with e | e
      · subst e; exact fun e2 => h2 e2.symm
      · intro e2; subst e2
        have := fmtX_hexUpper b x e
        rw [this] at h3; cases h3

theorem rsplitOnce1_append (c : Byte) (x y : Bytes) (hy : Clean c y) : rsplitOnce [c] (x ++ c :: y) = some (x, y) := by
  unfold rsplitOnce
  have : (x ++ c :: y).reverse = y.reverse ++ c :: x.reverse := by simp
  rw [this]
  have hr : Clean c y.reverse := fun b hb => hy b (List.mem_reverse.mp hb)
  simp only [List.reverse_cons, List.reverse_nil, List.nil_append]
  rw [splitOnce1_append c _ _ hr]
  simp

theorem rsplitOnce1_clean (c : Byte) (x : Bytes) (h : Clean c x) : rsplitOnce [c] x = none := by
  unfold rsplitOnce
  have hr : Clean c x.reverse := fun b hb => h b (List.mem_reverse.mp hb)
  simp only [List.reverse_cons, List.reverse_nil, List.nil_append]
  rw [splitOnce1_clean c _ hr]

/-- **userinfo**: `quote(user) [":" quote(password)]` is cut back into user and password, for every
    user name and password (any octets; escaped octets ≥ 0x10, finding F1) — a `:` in the user name is
    escaped since the F21 repair, `@ / ? #` always -/
theorem userinfo_roundtrip (ui : Byte → Bool) (u p : Bytes)
    (hu : Escapable (fun b => ui b && b != 0x3A) u) (hp : Escapable ui p) :
    let text := quote (fun b => ui b && b != 0x3A) u ++ (if p.isEmpty then [] else 0x3A :: quote ui p)
    (match splitOnce [0x3A] text with | some (a, b) => (unquote a, unquote b) | none => (unquote text, [])) = (u, p) := by
  intro text
  have hclean : Clean 0x3A (quote (fun b => ui b && b != 0x3A) u) :=
    quote_clean _ 0x3A u (by simp [isSafe]) (by decide) (by decide)
  by_cases hpe : p.isEmpty = true
  · have : p = [] := by simpa using hpe
    subst this
    simp only [text, List.isEmpty_nil, if_true, List.append_nil]
    rw [splitOnce1_clean _ _ hclean]
    simp [unquote_quote_partial _ u hu]
  · have hpe' : p.isEmpty = false := by simpa using hpe
    simp only [text, hpe', Bool.false_eq_true, if_false]
    rw [splitOnce1_append _ _ _ hclean]
    simp [unquote_quote_partial _ u hu, unquote_quote_partial _ p hp]

/-! ### host:port -/

theorem digitsLoop_digits (s : Bytes) (acc : Nat) (seen : Bool) (hs : s.all isDigit = true) (hne : s ≠ [] ∨ seen = true) :
    PyInt.digitsLoop 10 s acc seen false = some (s.foldl (fun a b => a * 10 + (b.toNat - 0x30)) acc) := by
  induction s generalizing acc seen with
  | nil =>
    rcases hne with h | h
    · exact absurd rfl h
    · simp [PyInt.digitsLoop, h]
  | cons b s ih =>
    simp only [List.all_cons, Bool.and_eq_true] at hs
    have hb : (b == 0x5F) = false := by
      have : ∀ b : Byte, isDigit b = true → (b == 0x5F) = false := by apply allBytes; decide +kernel
      exact this b hs.1
    have hd : PyInt.digitVal 10 b = some (b.toNat - 0x30) := by
      have : ∀ b : Byte, isDigit b = true → PyInt.digitVal 10 b = some (b.toNat - 0x30) := by apply allBytes; decide +kernel
      exact this b hs.1
    simp only [PyInt.digitsLoop, hb, Bool.false_eq_true, if_false, hd]
    rw [ih _ _ hs.2 (Or.inr rfl)]
    simp

/-- `integer(text)` reads back a decimal numeral -/
theorem integer_natToDec (n : Nat) (hl : (StartLine.natToDec n).length ≤ 4300) :
    PyInt.integerBytes 10 (StartLine.natToDec n) = some (n : Int) := by
  obtain ⟨h1, h2, h3⟩ := StartLine.natToDec_spec n
  have hchars : ∀ b ∈ StartLine.natToDec n, isPySpace b = false ∧ b ≠ 0x2D ∧ b ≠ 0x2B ∧ b ≠ 0x5F ∧ b ≠ 0x20 := by
    intro b hb
    have : ∀ b : Byte, isDigit b = true → isPySpace b = false ∧ b ≠ 0x2D ∧ b ≠ 0x2B ∧ b ≠ 0x5F ∧ b ≠ 0x20 := by
      apply allBytes; decide +kernel
    exact this b (List.all_eq_true.mp h2 b hb)
  unfold PyInt.integerBytes PyInt.pyInt
  rw [strip_noop _ _ (fun b hb => (hchars b hb).1)]
  cases hd : StartLine.natToDec n with
  | nil => exact absurd hd h3
  | cons d ds =>
    rw [hd] at h1 h2 hchars hl
    have hd1 := hchars d (by simp)
    have e1 : PyInt.stripSign (d :: ds) = (false, d :: ds) := by
      unfold PyInt.stripSign
      split
      · rename_i r e; injection e with e1 e2; exact absurd e1 hd1.2.1
      · rename_i r e; injection e with e1 e2; exact absurd e1 hd1.2.2.1
      · rfl
    simp only [e1]
    have hcount : PyInt.countDigits (d :: ds) = (d :: ds).length := by
      unfold PyInt.countDigits
      congr 1
      apply List.filter_eq_self.mpr
      intro b hb
      have := (hchars b hb).2.2.2.1
      simpa using this
    have hnot : ¬ ((d :: ds).length > 4300) := by omega
    have hmag : PyInt.magnitude 10 (d :: ds) = some (StartLine.decNat (d :: ds)) := by
      unfold PyInt.magnitude
      simp only [show ((10 : Nat) == 16) = false from rfl, Bool.false_eq_true, if_false]
      rw [digitsLoop_digits _ _ _ h2 (Or.inl (by simp))]
      rfl
    have hsp : (d :: ds).contains 0x20 = false := by
      rw [List.contains_eq_any_beq, List.any_eq_false]
      intro b hb; have := (hchars b hb).2.2.2.2; simpa using fun e => this e.symm
    simp only [beq_self_eq_true, Bool.true_and, hcount, hnot, decide_false, Bool.false_eq_true, if_false, hmag, h1, hsp]
    rfl

/-- **host[:port]**: the last `:` separates the port; the host has no `:` and the text does not end in `]` -/
theorem hostport_roundtrip (h : Bytes) (port : Option Nat) (hh : Clean 0x3A h) (hne : h ≠ []) (hb : endsWith h [0x5D] = false)
    (hp : ∀ n, port = some n → (StartLine.natToDec n).length ≤ 4300) :
    let text := h ++ (match port with | some n => 0x3A :: StartLine.natToDec n | none => [])
    (if text.contains 0x3A && !endsWith text [0x5D] then
        match rsplitOnce [0x3A] text with | some (a, b) => (a, b) | none => (text, [])
      else (text, [])) = (h, match port with | some n => StartLine.natToDec n | none => []) := by
  intro text
  cases port with
  | none =>
    have hc : h.contains 0x3A = false := by
      rw [List.contains_eq_any_beq, List.any_eq_false]; intro b hb2; have := hh b hb2; simpa using fun e => this e.symm
    simp only [text, List.append_nil, hc, Bool.false_and, Bool.false_eq_true, if_false]
  | some n =>
    obtain ⟨_, d2, d3⟩ := StartLine.natToDec_spec n
    have hclean : Clean 0x3A (StartLine.natToDec n) := by
      intro b hb2 e; subst e
      have := List.all_eq_true.mp d2 _ hb2
      simp [isDigit] at this
    have hcont : (h ++ 0x3A :: StartLine.natToDec n).contains 0x3A = true := by simp
    have hend : endsWith (h ++ 0x3A :: StartLine.natToDec n) [0x5D] = false := by
      unfold endsWith
      cases hd : (StartLine.natToDec n).reverse with
      | nil => simp at hd; exact absurd hd d3
      | cons z zs =>
        have hz : z ∈ StartLine.natToDec n := List.mem_reverse.mp (by rw [hd]; simp)
        have hzd := List.all_eq_true.mp d2 _ hz
        have : (z == 0x5D) = false := by
          have : ∀ b : Byte, isDigit b = true → (b == 0x5D) = false := by apply allBytes; decide +kernel
          exact this z hzd
        simp [List.reverse_append, hd, startsWith, this]
    simp only [text, hcont, hend, Bool.not_false, Bool.and_self, if_true]
    rw [rsplitOnce1_append _ _ _ hclean]

/-! ### path -/

theorem mapM'_ok {α β} (f : α → R β) (g : α → β) (l : List α) (h : ∀ a ∈ l, f a = .ok (g a)) :
    mapM' f l = .ok (l.map g) := by
  induction l with
  | nil => rfl
  | cons a l ih =>
    simp only [mapM', h a (by simp), ih (fun x hx => h x (by simp [hx]))]
    rfl

theorem protectSlash_clean (s : Bytes) (h : Clean 0x2F s) : protectSlash s = s := by
  induction s with
  | nil => rfl
  | cons b s ih =>
    have : (b == 0x2F) = false := by simpa using h.head
    simp only [protectSlash, List.flatMap_cons, this, Bool.false_eq_true, if_false] at ih ⊢
    rw [ih h.tail]; rfl

/-- **path**: every segment is quoted on its own and the text is cut back at the same slashes, for
    arbitrary UTF-8 text in the segments (escaped octets ≥ 0x10) -/
theorem path_roundtrip (pset : Byte → Bool) (path : Bytes)
    (hesc : ∀ s ∈ splitOn1 0x2F path, Escapable pset s) (hutf : ∀ s ∈ splitOn1 0x2F path, utf8Valid s = true) :
    parsePath (joinWith [0x2F] ((splitOn1 0x2F path).map (quote pset))) = .ok path := by
  have hsegs := mem_split_clean 0x2F path
  have hq : ∀ s ∈ (splitOn1 0x2F path).map (quote pset), Clean 0x2F s := by
    intro s hs
    obtain ⟨x, hx, rfl⟩ := List.mem_map.mp hs
    exact quote_clean_of_clean pset 0x2F x (hsegs x hx) (by decide) (by decide)
  have hne : (splitOn1 0x2F path).map (quote pset) ≠ [] := by
    intro e; exact splitOn1_ne_nil 0x2F path (List.map_eq_nil_iff.mp e)
  unfold parsePath
  rw [splitOn1_join _ _ hq hne]
  have : mapM' parseSeg ((splitOn1 0x2F path).map (quote pset))
      = .ok (((splitOn1 0x2F path).map (quote pset)).map (fun q => unquote q)) := by
    apply mapM'_ok
    intro q hq2
    obtain ⟨x, hx, rfl⟩ := List.mem_map.mp hq2
    have e1 : unquote (quote pset x) = x := unquote_quote_partial pset x (hesc x hx)
    simp only [parseSeg, unquoteText, e1, hutf x hx, if_true]
    rw [protectSlash_clean x (hsegs x hx)]
  rw [this]
  simp only [List.map_map]
  have e2 : (splitOn1 0x2F path).map ((fun q => unquote q) ∘ quote pset) = splitOn1 0x2F path := by
    conv => rhs; rw [← List.map_id (splitOn1 0x2F path)]
    apply List.map_congr_left
    intro x hx
    simp [Function.comp, unquote_quote_partial pset x (hesc x hx)]
  rw [e2, join_split]


/-! ### the outer cuts: no component leaks into its neighbour -/

/-- the text of a hierarchical URI as `compose` assembles it from already quoted pieces -/
def assemble (sch auth path q frag : Bytes) : Bytes :=
  sch ++ [0x3A, 0x2F, 0x2F] ++ auth ++ path ++ (if q.isEmpty then [] else 0x3F :: q) ++ (if frag.isEmpty then [] else 0x23 :: frag)

theorem partitionAt_append (c : Byte) (x r : Bytes) (h : Clean c x) : partitionAt [c] (x ++ c :: r) = (x, r) := by
  unfold partitionAt; rw [splitOnce1_append c x r h]

theorem partitionAt_clean (c : Byte) (x : Bytes) (h : Clean c x) : partitionAt [c] x = (x, []) := by
  unfold partitionAt; rw [splitOnce1_clean c x h]

theorem splitOnce3_append (a b c : Byte) (x r : Bytes) (h : Clean a x) :
    splitOnce [a, b, c] (x ++ a :: b :: c :: r) = some (x, r) := by
  induction x with
  | nil => simp [splitOnce, startsWith]
  | cons y x ih =>
    have hy : (y == a) = false := by simpa using h.head
    simp [splitOnce, startsWith, hy, ih h.tail]

/-- **the five outer cuts of `URI.parse` find exactly the pieces `compose` put together**, whenever each piece is free
    of the delimiters that end it — which `quote` guarantees for every component (`quote_clean`, `delimiters_encoded`):
    the scheme has no `:` and does not begin with `/`; scheme, authority and path have no `?` and `#`; the query has
    no `#`; the authority has no `/`; the path is empty or begins with `/`. -/
theorem uri_cuts (sch auth path q frag : Bytes)
    (hs1 : Clean 0x3A sch) (hs2 : Clean 0x3F sch) (hs3 : Clean 0x23 sch) (hs4 : startsWith sch [0x2F] = false)
    (ha1 : Clean 0x2F auth) (ha2 : Clean 0x3F auth) (ha3 : Clean 0x23 auth)
    (hp1 : Clean 0x3F path) (hp2 : Clean 0x23 path) (hp3 : path = [] ∨ startsWith path [0x2F] = true)
    (hq : Clean 0x23 q) :
    let w := assemble sch auth path q frag
    let f := partitionAt [0x23] w
    let qq := partitionAt [0x3F] f.1
    let sc := cutScheme qq.1
    let ap := cutAuthority sc.2.1 sc.2.2
    f.2 = frag ∧ qq.2 = q ∧ sc.1 = sch ∧ sc.2.1 = true ∧ ap = (auth, path) := by
  intro w f qq sc ap
  have hcolon3 : Clean 0x23 [0x3A, 0x2F, 0x2F] := by decide
  have hq3 : Clean 0x3F [0x3A, 0x2F, 0x2F] := by decide
  -- everything before the fragment is free of '#'
  have hpre_hash : Clean 0x23 (sch ++ [0x3A, 0x2F, 0x2F] ++ auth ++ path ++ (if q.isEmpty then [] else 0x3F :: q)) := by
    refine Clean.append (Clean.append (Clean.append (Clean.append hs3 hcolon3) ha3) hp2) ?_
    split
    · exact Clean.nil _
    · intro b hb; rcases List.mem_cons.mp hb with h | h
      · subst h; decide
      · exact hq b h
  have hf : f = (sch ++ [0x3A, 0x2F, 0x2F] ++ auth ++ path ++ (if q.isEmpty then [] else 0x3F :: q), frag) := by
    show partitionAt [0x23] (assemble sch auth path q frag) = _
    unfold assemble
    by_cases hfe : frag.isEmpty = true
    · have : frag = [] := by simpa using hfe
      subst this
      simp only [List.isEmpty_nil, if_true, List.append_nil]
      exact partitionAt_clean _ _ hpre_hash
    · simp only [hfe, Bool.false_eq_true, if_false]
      exact partitionAt_append _ _ _ hpre_hash
  have hpre_q : Clean 0x3F (sch ++ [0x3A, 0x2F, 0x2F] ++ auth ++ path) :=
    Clean.append (Clean.append (Clean.append hs2 hq3) ha2) hp1
  have hqq : qq = (sch ++ [0x3A, 0x2F, 0x2F] ++ auth ++ path, q) := by
    show partitionAt [0x3F] f.1 = _
    rw [hf]
    by_cases hqe : q.isEmpty = true
    · have : q = [] := by simpa using hqe
      subst this
      simp only [List.isEmpty_nil, if_true, List.append_nil]
      exact partitionAt_clean _ _ hpre_q
    · simp only [hqe, Bool.false_eq_true, if_false]
      exact partitionAt_append _ _ _ hpre_q
  have hsc : sc = (sch, true, auth ++ path) := by
    show cutScheme qq.1 = _
    rw [hqq]
    unfold cutScheme
    have hst : startsWith (sch ++ [0x3A, 0x2F, 0x2F] ++ auth ++ path) [0x2F] = false := by
      cases sch with
      | nil => simp [startsWith]
      | cons a t => simpa [startsWith] using hs4
    have e : sch ++ [0x3A, 0x2F, 0x2F] ++ auth ++ path = sch ++ 0x3A :: 0x2F :: 0x2F :: (auth ++ path) := by simp
    simp only [hst, Bool.false_eq_true, if_false]
    rw [e, splitOnce3_append 0x3A 0x2F 0x2F sch _ hs1]
    simp
  have hap : ap = (auth, path) := by
    show cutAuthority sc.2.1 sc.2.2 = _
    rw [hsc]
    unfold cutAuthority
    simp only [if_true]
    rcases hp3 with rfl | hp3
    · simp only [List.append_nil]
      rw [splitOnce1_clean _ _ ha1]
    · obtain ⟨pt, rfl⟩ : ∃ pt, path = 0x2F :: pt := by
        cases path with
        | nil => simp [startsWith] at hp3
        | cons a pt => simp [startsWith] at hp3; exact ⟨pt, by rw [hp3]⟩
      rw [splitOnce1_append _ _ _ ha1]
  exact ⟨by rw [hf], by rw [hqq], by rw [hsc], by rw [hsc], hap⟩

/-- `compose` of a URI with scheme and authority is that assembly of its quoted pieces -/
theorem compose_assemble (P : Sets) (u : Uri) (a : Bytes) (hs : u.scheme ≠ []) (ha : composeAuthority P u = .ok a) (hane : a ≠ []) :
    compose P u = .ok (assemble (quote P.scheme u.scheme) a
      (joinWith [0x2F] ((splitOn1 0x2F u.path).map (quote P.path))) u.query (quote P.fragment u.fragment)) := by
  unfold compose
  simp only [ha, bind, Except.bind, pure, Except.pure]
  have h1 : u.scheme.isEmpty = false := by simpa using hs
  have h2 : a.isEmpty = false := by simpa using hane
  have h3 : (quote P.fragment u.fragment).isEmpty = u.fragment.isEmpty := by
    cases hf : u.fragment with
    | nil => simp [quote]
    | cons b t =>
      simp only [quote, List.flatMap_cons, List.isEmpty_cons]
      have : quoteByte P.fragment b ≠ [] := by unfold quoteByte; split <;> simp
      cases hq : quoteByte P.fragment b with
      | nil => exact absurd hq this
      | cons _ _ => simp
  unfold composeRelative assemble
  simp only [h1, h2, Bool.false_eq_true, if_false, Bool.false_and, h3]
  congr 1
  simp [List.append_assoc]

end Httoop.Uri
