import Httoop.Model.Parser
import Httoop.Props.C11
/-
  C06 — every delivered request has a sanitised effective URI.
-/
namespace Httoop.Parser
open Httoop Httoop.Uri

/-- a path that normalisation leaves unchanged is empty, or has no slash run and no dot segment -/
theorem fixed_path_clean (E : Uri.Env) (u : Uri.Uri) (h : (Uri.normalize E u).path = u.path) :
    u.path = [] ∨ (NoDbl u.path ∧ ∀ s ∈ splitOn1 0x2F u.path, s ≠ dot ∧ s ≠ dotdot) := by
  by_cases hp : u.path = []
  · exact Or.inl hp
  · right
    have hq : collapse u.path ≠ [] := by
      cases hpp : u.path with
      | nil => exact absurd hpp hp
      | cons a r => obtain ⟨t, e⟩ := collapse_head a r; rw [e]; simp
    obtain ⟨h1, h2, h3⟩ := abspath_normal u.path hq
    -- the path part of `normalize`
    have hnorm : (Uri.normalize E u).path =
        (if !startsWith (abspath u.path) [0x2F] && !(lowerBytes u.host).isEmpty && !(lowerBytes u.scheme).isEmpty && !(abspath u.path).isEmpty
          then 0x2F :: abspath u.path else abspath u.path) := rfl
    rw [hnorm] at h
    by_cases hc : (!startsWith (abspath u.path) [0x2F] && !(lowerBytes u.host).isEmpty && !(lowerBytes u.scheme).isEmpty && !(abspath u.path).isEmpty) = true
    · -- impossible: then abspath ('/' :: q) = '/' :: q ≠ q for the normal form q = abspath p
      exfalso
      simp only [hc, if_true] at h
      have h4 : startsWith (abspath u.path) [0x2F] = false := by
        simp only [Bool.and_eq_true, Bool.not_eq_true'] at hc; exact hc.1.1.1
      have hfix := abspath_slash_cons _ h1 h2 h3 h4
      rw [h] at hfix
      have := congrArg List.length h
      rw [hfix] at this
      simp at this
    · simp only [hc, Bool.false_eq_true, if_false] at h
      rw [h] at h1 h3
      refine ⟨h1, fun s hs => ?_⟩
      have := h3 s hs
      simp only [isDotSeg, Bool.or_eq_false_iff, beq_eq_false_iff_ne] at this
      exact this

/-- **the start-line hooks let a request through only with a sanitised path**: `serverStartlineComplete`
    succeeds only if normalisation leaves the path unchanged, and then the path is empty or free of dot
    segments and slash runs — however the dots and slashes were percent-encoded, since the comparison is
    made on the decoded path -/
theorem delivered_path_clean (E : Env) (m m' : Msg) (h : serverStartlineComplete E m = .ok m') :
    m'.uri.path = m.uri.path ∧
    (m.uri.path = [] ∨ (NoDbl m.uri.path ∧ ∀ s ∈ splitOn1 0x2F m.uri.path, s ≠ dot ∧ s ≠ dotdot)) := by
  unfold serverStartlineComplete at h
  cases hc : to400 (Uri.compose E.sets m.uri) with
  | error e => rw [hc] at h; cases h
  | ok _ =>
    rw [hc] at h
    simp only [] at h
    by_cases hp : ((Uri.normalize E.uri m.uri).path != m.uri.path) = true
    · simp only [hp, if_true] at h; cases h
    · simp only [hp, Bool.false_eq_true, if_false] at h
      have heq : (Uri.normalize E.uri m.uri).path = m.uri.path := by simpa using hp
      cases hn : StartLine.negotiate m.proto with
      | error e => rw [hn] at h; cases h
      | ok rp =>
        rw [hn] at h
        injection h with h
        subst h
        refine ⟨?_, fixed_path_clean E.uri m.uri heq⟩
        show (applyDefaults E (Uri.normalize E.uri m.uri)).path = m.uri.path
        unfold applyDefaults
        split
        · exact heq
        · simp only [Uri.setScheme]; split <;> exact heq

/-- what `Request.validate_request_uri` guarantees: class http/https, no user information, no
    fragment, path empty, `*` or starting with a single `/` -/
theorem validate_shape (method : Bytes) (u : Uri.Uri) (h : validateRequestUri method u = .ok ()) :
    isHttpCls u = true
    ∧ u.username = [] ∧ u.password = [] ∧ u.fragment = []
    ∧ (u.path = [] ∨ u.path = [0x2A] ∨ (startsWith u.path [0x2F] = true ∧ startsWith u.path [0x2F, 0x2F] = false)) := by
  unfold validateRequestUri at h
  by_cases c1 : isHttpCls u = true
  · simp only [c1, Bool.not_true, Bool.false_eq_true, if_false] at h
    by_cases c2 : (!u.fragment.isEmpty || !u.username.isEmpty || !u.password.isEmpty) = true
    · simp only [c2, if_true] at h; cases h
    · simp only [c2, Bool.false_eq_true, if_false] at h
      by_cases c3 : startsWith u.path [0x2F, 0x2F] = true
      · simp only [c3, if_true] at h; cases h
      · simp only [c3, Bool.false_eq_true, if_false] at h
        by_cases c4 : (!u.path.isEmpty && u.path != [0x2A] && !startsWith u.path [0x2F]) = true
        · simp only [c4, if_true] at h; cases h
        · have c2' : u.fragment.isEmpty = true ∧ u.username.isEmpty = true ∧ u.password.isEmpty = true := by
            cases h1 : u.fragment.isEmpty <;> cases h2 : u.username.isEmpty <;> cases h3 : u.password.isEmpty <;> simp_all
          refine ⟨c1, by simpa using c2'.2.1, by simpa using c2'.2.2, by simpa using c2'.1, ?_⟩
          by_cases he : u.path = []
          · exact Or.inl he
          · by_cases hs : u.path = [0x2A]
            · exact Or.inr (Or.inl hs)
            · right; right
              have he' : u.path.isEmpty = false := by cases hpp : u.path <;> simp_all
              have hs' : (u.path != [0x2A]) = true := by simpa using hs
              refine ⟨?_, by simpa using c3⟩
              cases hsw : startsWith u.path [0x2F]
              · simp [he', hs', hsw] at c4
              · rfl
  · simp only [c1, Bool.not_false, if_true] at h; cases h

/-- a request line that `Request.parse` accepts has a target of that shape -/
theorem delivered_uri_shape (E : Env) (m m' : Msg) (line : Bytes) (h : parseRequestLine E m line = .ok m') :
    isHttpCls m'.uri = true
    ∧ m'.uri.username = [] ∧ m'.uri.password = [] ∧ m'.uri.fragment = []
    ∧ (m'.uri.path = [] ∨ m'.uri.path = [0x2A] ∨ (startsWith m'.uri.path [0x2F] = true ∧ startsWith m'.uri.path [0x2F, 0x2F] = false)) := by
  unfold parseRequestLine at h
  split at h
  · cases h
  · split at h
    · cases h
    · split at h
      · cases h
      · split at h
        · cases h
        · simp only [] at h
          split at h
          · cases h
          · split at h
            · cases h
            · rename_i hval
              injection h with h
              subst h
              exact validate_shape _ _ hval

/-- **host and port of a delivered request are those of the Host field**: when the field is present the
    hook succeeds only if it parses, and then sets `uri.host` / `uri.port` from it (an absent port means
    the scheme default) -/
theorem host_from_header (m m' : Msg) (v : Bytes) (hv : m.headers.get? sHost = some v) (h : setRequestHost m = .ok m') :
    ∃ hv', Host.parse v = .ok hv' ∧ m'.uri.host = Element.latin1ToUtf8 hv'.host
      ∧ m'.uri.port = (match hv'.port with | some n => some n | none => m.uri.PORT) := by
  unfold setRequestHost at h
  rw [hv] at h
  simp only [] at h
  cases hp : Host.parse v with
  | error e => rw [hp] at h; cases h
  | ok hv' =>
    rw [hp] at h
    simp only [] at h
    refine ⟨hv', rfl, ?_⟩
    unfold setPortOpt at h
    cases hport : hv'.port with
    | none =>
      rw [hport] at h
      injection h with h; subst h
      exact ⟨rfl, rfl⟩
    | some n =>
      rw [hport] at h
      simp only [] at h
      by_cases hr : (decide (0 < n) && decide (n ≤ 65535)) = true
      · simp only [hr, if_true] at h
        injection h with h; subst h; exact ⟨rfl, rfl⟩
      · simp only [hr, Bool.false_eq_true, if_false] at h; cases h

/-- without a Host field the request URI is left as the start-line hooks made it (configured defaults
    for a scheme-less target) -/
theorem host_absent (m : Msg) (hv : m.headers.get? sHost = none) : setRequestHost m = .ok m := by
  simp [setRequestHost, hv]

/-- a scheme-less target gets the configured scheme, host and port -/
theorem defaults_applied (E : Env) (n : Uri.Uri) (h : n.scheme = []) :
    (applyDefaults E n).scheme = E.defaultScheme ∧ (applyDefaults E n).host = E.defaultHost
      ∧ (applyDefaults E n).port = some E.defaultPort := by
  unfold applyDefaults
  simp only [h, List.isEmpty_nil, Bool.not_true, Bool.false_eq_true, if_false]
  refine ⟨?_, trivial, trivial⟩
  unfold Uri.setScheme; split <;> rfl

/-- `%2e`, `%2E` are dots by the time the path is compared -/
theorem encoded_dot_is_dot :
    Percent.unquote [0x25, 0x32, 0x65] = dot ∧ Percent.unquote [0x25, 0x32, 0x45] = dot
    ∧ Percent.unquote [0x25, 0x32, 0x65, 0x25, 0x32, 0x45] = dotdot
    ∧ Percent.unquote [0x25, 0x32, 0x35, 0x32, 0x65] = [0x25, 0x32, 0x65] := by
  refine ⟨?_, ?_, ?_, ?_⟩ <;> decide

theorem protectSlash_out_clean (s : Bytes) : Clean 0x2F (protectSlash s) := by
  induction s with
  | nil => exact Clean.nil _
  | cons b s ih =>
    simp only [protectSlash, List.flatMap_cons] at ih ⊢
    refine Clean.append ?_ ih
    by_cases hb : (b == 0x2F) = true
    · simp only [hb, if_true]; decide
    · have hb' : (b == 0x2F) = false := by simpa using hb
      simp only [hb', Bool.false_eq_true, if_false]
      intro x hx; simp at hx; subst hx; simpa using hb'

theorem mapM'_length {α β} (f : α → R β) (l : List α) (r : List β) (h : mapM' f l = .ok r) : r.length = l.length := by
  induction l generalizing r with
  | nil => simp [mapM'] at h; cases h; rfl
  | cons a l ih =>
    simp only [mapM', bind, Except.bind] at h
    cases hf : f a with
    | error e => rw [hf] at h; cases h
    | ok b =>
      rw [hf] at h
      simp only [] at h
      cases hm : mapM' f l with
      | error e => rw [hm] at h; cases h
      | ok bs =>
        rw [hm] at h
        simp only [pure, Except.pure] at h
        injection h with h; subst h
        simp [ih bs hm]

theorem mapM'_mem {α β} (f : α → R β) (l : List α) (r : List β) (h : mapM' f l = .ok r) :
    ∀ y ∈ r, ∃ x ∈ l, f x = .ok y := by
  induction l generalizing r with
  | nil => simp [mapM'] at h; cases h; intro y hy; cases hy
  | cons a l ih =>
    simp only [mapM', bind, Except.bind] at h
    cases hf : f a with
    | error e => rw [hf] at h; cases h
    | ok b =>
      rw [hf] at h
      simp only [] at h
      cases hm : mapM' f l with
      | error e => rw [hm] at h; cases h
      | ok bs =>
        rw [hm] at h
        simp only [pure, Except.pure] at h
        injection h with h; subst h
        intro y hy
        rcases List.mem_cons.mp hy with e | e
        · exact ⟨a, by simp, by rw [e]; exact hf⟩
        · obtain ⟨x, hx, hfx⟩ := ih bs hm y e
          exact ⟨x, by simp [hx], hfx⟩

/-- **an encoded slash never becomes a segment boundary**: the decoded path has exactly as many segments
    as the target had, whatever `%2f` / `%2F` it contained (they stay `%2f` inside their segment) -/
theorem encoded_slash_not_separator (p q : Bytes) (h : parsePath p = .ok q) :
    (splitOn1 0x2F q).length = (splitOn1 0x2F p).length := by
  unfold parsePath at h
  cases hm : mapM' parseSeg (splitOn1 0x2F p) with
  | error e => rw [hm] at h; cases h
  | ok segs =>
    rw [hm] at h
    injection h with h
    subst h
    have hlen := mapM'_length _ _ _ hm
    have hclean : ∀ s ∈ segs, Clean 0x2F s := by
      intro s hs
      obtain ⟨x, _, hfx⟩ := mapM'_mem _ _ _ hm s hs
      unfold parseSeg at hfx
      cases hu : unquoteText x with
      | error e => rw [hu] at hfx; cases hfx
      | ok t =>
        rw [hu] at hfx
        injection hfx with hfx
        rw [← hfx]
        exact protectSlash_out_clean t
    have hne : segs ≠ [] := by
      intro e; rw [e] at hlen
      have := splitOn1_ne_nil 0x2F p
      simp at hlen
      exact this (List.length_eq_zero_iff.mp hlen.symm)
    rw [splitOn1_join _ _ hclean hne, hlen]

end Httoop.Parser
