import Httoop.Model.Parser
import Httoop.Props.C08
import Httoop.Ops.Parser
/-
  C07 — delivered framing headers match the body; trailers cannot smuggle fields.
-/
namespace Httoop.Parser
open Httoop

/-- while a Content-Length body is being read, received + outstanding = announced; when it is
    complete exactly the announced number of octets has been appended -/
theorem bodyWithLength_invariant (c : Cur) (n : Nat) (buf : Bytes) :
    match bodyWithLength c n buf with
    | .wait c' _ => c'.msg.body.length + c'.msgLen.getD 0 = c.msg.body.length + n ∧ 0 < c'.msgLen.getD 0
    | .done c' rest => c'.msg.body.length = c.msg.body.length + n ∧ (n > 0 → c'.msgLen = some 0) ∧ buf = (buf.take n) ++ rest := by
  unfold bodyWithLength
  by_cases hz : (n == 0) = true
  · have : n = 0 := by simpa using hz
    subst this
    simp
  · simp only [hz, Bool.false_eq_true, if_false]
    have hz' : n ≠ 0 := by simpa using hz
    by_cases hl : (buf.take n).length < n
    · simp only [hl, if_true, List.length_append, Option.getD_some]
      omega
    · simp only [hl, if_false, List.length_append, List.take_append_drop]
      have : (buf.take n).length = n := by
        have := List.length_take_le n buf
        omega
      refine ⟨by omega, fun _ => by rw [this]; simp, trivial⟩

theorem get_del_other (h : Headers.Coll) (k k' : Bytes) (hne : k' ≠ k) : (h.del k).get? k' = h.get? k' := by
  induction h with
  | nil => rfl
  | cons e h ih =>
    by_cases he : (e.1 == k) = true
    · have e1 : e.1 = k := by simpa using he
      have e2 : (e.1 == k') = false := by rw [e1]; simpa using (fun x => hne x.symm)
      simp [Headers.Coll.del, Headers.Coll.get?, he, e2, ih]
    · have he' : (e.1 == k) = false := by simpa using he
      by_cases h2 : (e.1 == k') = true
      · simp [Headers.Coll.del, Headers.Coll.get?, he', h2]
      · have h2' : (e.1 == k') = false := by simpa using h2
        simp [Headers.Coll.del, Headers.Coll.get?, he', h2', ih]

/-- the result of `on_body_complete`, spelled out for a message without content coding -/
theorem bodyComplete_headers (side : Side) (c : Cur) (b : Bytes) (m : Msg) (h : bodyComplete side c b = .ok m) :
    m.body = c.msg.body ∧
    m.headers = (let hs := if c.chunked || (c.msg.headers.get? sCL).isNone then c.msg.headers.put sCL (natToDec c.msg.body.length) else c.msg.headers
                 if c.chunked then hs.del sTE else hs) := by
  unfold bodyComplete at h
  simp only [bind, Except.bind, pure, Except.pure] at h
  split at h
  · cases h
  · split at h
    · cases h
    · split at h
      · cases h
      · injection h with h
        subst h
        exact ⟨rfl, rfl⟩

/-- **a delivered chunked message, or one that came without Content-Length, carries the length of its body** -/
theorem delivered_cl_matches (side : Side) (c : Cur) (b : Bytes) (m : Msg) (h : bodyComplete side c b = .ok m)
    (hc : c.chunked = true ∨ c.msg.headers.get? sCL = none) :
    m.headers.get? sCL = some (natToDec m.body.length) := by
  obtain ⟨hb, hh⟩ := bodyComplete_headers side c b m h
  have hne : sCL ≠ sTE := by decide +kernel
  have hcond : (c.chunked || (c.msg.headers.get? sCL).isNone) = true := by
    rcases hc with h1 | h1
    · simp [h1]
    · simp [h1]
  rw [hh, hb]
  simp only [hcond, if_true]
  split
  · rw [get_del_other _ _ _ hne, Headers.get_put_same]
  · rw [Headers.get_put_same]

/-- **a delivered chunked message no longer advertises chunked transfer coding** -/
theorem delivered_not_chunked (side : Side) (c : Cur) (b : Bytes) (m : Msg) (h : bodyComplete side c b = .ok m)
    (hc : c.chunked = true) : m.headers.get? sTE = none := by
  obtain ⟨_, hh⟩ := bodyComplete_headers side c b m h
  rw [hh]
  simp only [hc, Bool.true_or, if_true]
  exact Headers.get_del_same _ _

/-- a Content-Length message is delivered only after exactly that many octets: the stored header value is
    what `integer()` read and the reader appended precisely that number (single call; across calls by
    `bodyWithLength_invariant`) -/
theorem delivered_cl_body (c : Cur) (n : Nat) (buf rest : Bytes) (c' : Cur) (h0 : c.msg.body = [])
    (h : bodyWithLength c n buf = .done c' rest) : c'.msg.body.length = n := by
  have := bodyWithLength_invariant c n buf
  rw [h] at this
  simp only [h0, List.length_nil, Nat.zero_add] at this
  exact this.1

/-- **with both fields present on HTTP/1.1, chunked framing decides** (whatever the Content-Length says) -/
theorem te_over_cl (c : Cur) (te : Bytes) (hte : c.msg.headers.get? sTE = some te) (hp : StartLine.protoGe c.msg.proto (1, 1) = true)
    (h2047 : Element.rfc2047Branch te = false) (hch : te.map toLower = schunked) :
    determineLength c = .ok { c with chunked := true } := by
  simp [determineLength, hte, hp, h2047, hch]

/-- names taken from the Trailer field never include a forbidden one -/
theorem trailer_names_not_forbidden (titleFn : Bytes → Bytes) (forbidden : List Bytes) (v : Bytes) (names : List Bytes)
    (h : Host.trailerNames titleFn forbidden v = .ok names) : ∀ n ∈ names, forbidden.contains (titleFn n) = false := by
  unfold Host.trailerNames at h
  split at h
  · cases h
  · rename_i vs hv
    split at h
    · cases h
    · rename_i hany
      injection h with h
      subst h
      intro n hn
      have hall : ∀ x ∈ vs, ¬ titleFn x ∈ forbidden := by simpa using hany
      have hx := hall n hn
      simpa using hx

/-- **an unannounced trailer field makes the message fail with 400**: without a Trailer field any
    non-empty trailer section is rejected -/
theorem unannounced_trailer_400 (E : Env) (m : Msg) (ts : Headers.Coll) (hnone : m.headers.get? sTrailer = none) (hts : ts ≠ []) :
    mergeTrailers E m ts = .error bad := by
  have he : ts.isEmpty = false := by cases ts <;> simp_all
  simp [mergeTrailers, announced, hnone, mergeGo, he]

theorem to400_ok {α} (a : α) : to400 (.ok a : R α) = .ok a := rfl

/-- the merge loop only ever removes announced names from the trailer collection: a field whose
    canonical name was not announced is still there afterwards (and then makes the message a 400) -/
theorem mergeGo_keeps_unannounced (E : Env) (names : List Bytes) (hs ts hs' ts' : Headers.Coll) (k : Bytes)
    (h : mergeGo E names hs ts = .ok (hs', ts'))
    (hk : ∀ n ∈ names, ∀ nl, Element.utf8ToLatin1 n = some nl → Headers.formatKey E.reg nl ≠ .ok k) :
    ts'.get? k = ts.get? k := by
  induction names generalizing hs ts with
  | nil => simp [mergeGo] at h; obtain ⟨_, rfl⟩ := h; rfl
  | cons n ns ih =>
    unfold mergeGo at h
    cases hl : Element.utf8ToLatin1 n with
    | none => rw [hl] at h; cases h
    | some nl =>
      rw [hl] at h
      simp only [] at h
      have hkn := hk n (by simp) nl hl
      cases hp : Headers.pop E.reg ts nl with
      | error e =>
        rw [hp] at h
        cases e <;> simp [to400] at h
      | ok r =>
        obtain ⟨v, ts1⟩ := r
        rw [hp] at h
        simp only [to400_ok] at h
        -- what `pop` did: it deleted the canonical key of `nl`
        have hts1 : ts1.get? k = ts.get? k := by
          unfold Headers.pop at hp
          cases hf : Headers.formatKey E.reg nl with
          | error e => rw [hf] at hp; cases hp
          | ok ck =>
            rw [hf] at hp
            simp only [bind, Except.bind, pure, Except.pure] at hp
            injection hp with hp; injection hp with _ hp2
            rw [← hp2]
            have hne : k ≠ ck := by
              intro e; subst e; exact hkn hf
            exact get_del_other ts ck k hne
        have hk' : ∀ n ∈ ns, ∀ nl, Element.utf8ToLatin1 n = some nl → Headers.formatKey E.reg nl ≠ .ok k :=
          fun n hn => hk n (by simp [hn])
        cases v with
        | none => simp only [] at h; rw [ih hs ts1 h hk', hts1]
        | some val =>
          simp only [] at h
          cases ha : to400 (Headers.append E.reg hs nl val) with
          | error e => rw [ha] at h; cases h
          | ok hs1 => rw [ha] at h; simp only [] at h; rw [ih hs1 ts1 h hk', hts1]

/-- T1: the forbidden names of the source are in title case, and the three framing fields are among them (since the F68 repair also Host) -/
theorem forbidden_table :
    Gen.trailerForbidden.all (fun n => n == Headers.title n) = true
    ∧ [sCL, sTE, sTrailer].all (fun n => Gen.trailerForbidden.contains n) = true := by
  constructor <;> decide +kernel

/-- non-vacuity / the smuggling attempt on the model: a chunked request announcing `Content-Length` as a
    trailer is a 400, and one announcing `X-T` gets exactly that field -/
example :
    Ops.runCalls (Ops.penv false) .server
      ["POST / HTTP/1.1\r\nHost: h\r\nTransfer-Encoding: chunked\r\nTrailer: Content-Length\r\n\r\n0\r\nContent-Length: 9\r\n\r\n".toUTF8.toList] {} []
      = "Estatus:400" := by decide +kernel

end Httoop.Parser
