import Httoop.Props.C01Headers
import Httoop.Props.C03
import Httoop.Ops.Parser
/-
  C01 / C02 for well-formed pipelines: any number of Content-Length framed messages as a writer puts them on the wire,
  delivered in ANY fragmentation — cuts inside start lines, field names, values, between CR and LF, inside the empty
  line, inside bodies, at message boundaries — are handed out as exactly those messages, in order; after any prefix of
  the stream exactly the messages wholly contained in it have been delivered, the rest is retained.
-/
namespace Httoop.Parser
open Httoop

/-! ### phases on partial input -/

theorem contains_of_clean_lf (t sep : Bytes) (hs : (0x0A : Byte) ∈ sep) (h : Clean 0x0A t) : contains t sep = false := by
  unfold contains
  cases hsp : splitOnce sep t with
  | none => rfl
  | some p =>
    exfalso
    obtain ⟨a, b⟩ := p
    -- t = a ++ sep ++ b, so LF ∈ t
    have : ∀ (x a b : Bytes), splitOnce sep x = some (a, b) → x = a ++ sep ++ b := by
      intro x
      induction x with
      | nil =>
        intro a b h
        unfold splitOnce at h
        split at h
        · rename_i he
          have : sep = [] := by simpa using he
          rw [this] at hs; cases hs
        · cases h
      | cons c x ih =>
        intro a b h
        unfold splitOnce at h
        split at h
        · rename_i hst
          injection h with h; injection h with h1 h2; subst h1; subst h2
          have := startsWith_eq _ _ hst
          simpa using this
        · split at h
          · rename_i l r hr
            injection h with h; injection h with h1 h2; subst h1; subst h2
            rw [ih l r hr]; simp
          · cases h
    have e := this t a b hsp
    have : (0x0A : Byte) ∈ t := by rw [e]; simp [hs]
    exact h _ this rfl

/-- a start line that has not arrived completely: the state machine waits and changes nothing -/
theorem startPhase_wait (E : Env) (side : Side) (t : Bytes) (ht : Clean 0x0A t) :
    startPhase E side {} t = .ok ({}, t, false) := by
  have h1 := contains_of_clean_lf t CRLF (by simp [CRLF]) ht
  have h2 := contains_of_clean_lf t LF (by simp [LF]) ht
  unfold startPhase parseStartline
  simp [h1, h2]

theorem startPhase_skip (E : Env) (side : Side) (c : Cur) (buf : Bytes) (h : c.startline = true) :
    startPhase E side c buf = .ok (c, buf, true) := by
  unfold startPhase; simp [h]

theorem headerPhase_skip (E : Env) (side : Side) (c : Cur) (buf : Bytes) (h : c.headersDone = true) :
    headerPhase E side c buf = .ok (c, buf, true) := by
  unfold headerPhase; simp [h]

theorem headerPhase_wait (E : Env) (side : Side) (c : Cur) (hlf : c.lf = false) (hd : c.headersDone = false)
    (its : List (Bytes × Bytes)) (hI : ItemsOK E.reg c.msg.headers its) (x z : Bytes) (h : x ++ z = hsec its) (hz : z ≠ []) :
    ∃ (A B : List (Bytes × Bytes)) (rem : Bytes), its = A ++ B ∧ headerPhase E side c x = .ok (withHeaders c A, rem, false) ∧ rem ++ z = hsec B := by
  obtain ⟨A, B, rem, hits, hw, hrest⟩ := parseHeaders_prefix E c hlf its hI x z h hz
  refine ⟨A, B, rem, hits, ?_, hrest⟩
  unfold headerPhase
  simp only [hd, Bool.false_eq_true, if_false, hw]

theorem headerPhase_done (E : Env) (side : Side) (c : Cur) (hlf : c.lf = false) (hd : c.headersDone = false)
    (its : List (Bytes × Bytes)) (hI : ItemsOK E.reg c.msg.headers its) (tail : Bytes) (c1 : Cur)
    (hr : headersResult E side (withHeaders c its) = .ok c1) :
    headerPhase E side c (hsec its ++ tail) = .ok ({ c1 with headersDone := true }, tail, true) := by
  unfold headerPhase
  simp only [hd, Bool.false_eq_true, if_false, parseHeaders_full E c hlf its hI tail]
  unfold headersResult at hr
  cases side with
  | server => simp only at hr ⊢; rw [hr]
  | client => simp only at hr ⊢; rw [hr]

/-- the body phase of a Content-Length message, whatever part of the body is in the buffer -/
theorem parseBody_counted (E : Env) (c : Cur) (r : Nat) (hr : c.msgLen = some r) (hch : c.chunked = false) (buf : Bytes) :
    parseBody E c buf = .ok (bodyWithLength c r buf) := by
  unfold parseBody
  simp [hr, hch]

theorem parseBody_first (E : Env) (c : Cur) (hml : c.msgLen = none) (hch : c.chunked = false)
    (hte : c.msg.headers.get? sTE = none) (v : Bytes) (hcl : c.msg.headers.get? sCL = some v)
    (h2047 : Element.rfc2047Branch v = false) (n : Nat) (hint : integerStr v = some (n : Int)) (buf : Bytes) :
    parseBody E c buf = .ok (bodyWithLength { c with msgLen := some n } n buf) := by
  obtain ⟨msg, lf, sl, hd, tr, ml, ch, cod⟩ := c
  simp only at hml hch hte hcl
  cases hml
  cases hch
  unfold parseBody
  simp only [Option.isNone_none, Bool.not_false, Bool.and_self, if_true]
  unfold determineLength
  simp only [hte]
  unfold determineLength.lengthFromCL
  simp only [hcl, h2047, Bool.false_eq_true, if_false, hint]
  have hneg : ¬ ((n : Int) < 0) := by omega
  simp only [hneg, if_false, Bool.false_eq_true, Int.toNat_natCast]


/-! ### one message of the pipeline -/

/-- a Content-Length framed message by its parts: start line, fields, body -/
structure WIt where
  line : Bytes
  items : List (Bytes × Bytes)
  body : Bytes

def WIt.wire (w : WIt) : Bytes := w.line ++ CRLF ++ (hsec w.items ++ w.body)

/-- what the writer got right, with the records the reader builds on the way -/
structure GoodI (E : Env) (side : Side) (w : WIt) (m0 : Msg) (c1 : Cur) (v : Bytes) : Prop where
  nocr : Clean 0x0D w.line
  nolf : Clean 0x0A w.line
  start : startResult E side w.line = .ok m0
  fresh0 : m0.headers = []
  items : ItemsOK E.reg [] w.items
  hooks : headersResult E side (withHeaders { msg := m0, startline := true } w.items) = .ok c1
  c1lf : c1.lf = false
  c1len : c1.msgLen = none
  c1ch : c1.chunked = false
  c1cod : c1.coding = .none
  c1body : c1.msg.body = []
  c1te : c1.msg.headers.get? sTE = none
  c1cl : c1.msg.headers.get? sCL = some v
  c12047 : Element.rfc2047Branch v = false
  c1int : integerStr v = some (w.body.length : Int)
  meth : side = .server → (c1.msg.method ≠ sHEAD ∧ c1.msg.method ≠ sGET ∧ c1.msg.method ≠ sTRACE) ∨ w.body = []
  c1start : c1.startline = true

/-- the message delivered -/
def delivered (c1 : Cur) (w : WIt) : Msg := { c1.msg with body := w.body }

/-- the state while the body is being read: `got` received, `r` outstanding -/
def bodyCur (c1 : Cur) (got : Bytes) (r : Nat) : Cur :=
  { c1 with headersDone := true, msg := { c1.msg with body := got }, msgLen := some r }

/-- **where the state machine is inside a message**: what it holds, and the octets of this message still to come -/
inductive At (E : Env) (side : Side) (w : WIt) (m0 : Msg) (c1 : Cur) : St → Bytes → Prop
  | start (b ahead : Bytes) (cur : Option Cur) (hb : b ++ ahead = w.wire) (hlen : b.length ≤ w.line.length + 1)
      (hcur : cur = none ∨ cur = some {}) : At E side w m0 c1 { buf := b, cur := cur } ahead
  | head (A B : List (Bytes × Bytes)) (rem z ahead : Bytes) (hits : w.items = A ++ B) (hrem : rem ++ z = hsec B) (hz : z ≠ [])
      (hahead : ahead = z ++ w.body) :
      At E side w m0 c1 { buf := rem, cur := some (withHeaders { msg := m0, startline := true } A) } ahead
  | body (got ahead : Bytes) (hgot : got ++ ahead = w.body) (hne : ahead ≠ []) :
      At E side w m0 c1 { buf := [], cur := some (bodyCur c1 got ahead.length) } ahead

/-! ### the three phases from inside a message -/

/-- the body phase: a piece of the body arrives -/
theorem body_partial (E : Env) (c1 : Cur) (got d a' : Bytes) (hch : c1.chunked = false) (ha : a' ≠ []) :
    parseBody E (bodyCur c1 got (d ++ a').length) d = .ok (.wait (bodyCur c1 (got ++ d) a'.length) []) := by
  rw [parseBody_counted E (bodyCur c1 got (d ++ a').length) (d ++ a').length rfl hch d]
  unfold bodyWithLength
  have hz : ((d ++ a').length == 0) = false := by
    cases a' with
    | nil => exact absurd rfl ha
    | cons x r => simp
  have hal : 0 < a'.length := List.length_pos_iff.mpr ha
  have htk : d.take (d ++ a').length = d := List.take_of_length_le (by simp)
  have hdr : d.drop (d ++ a').length = [] := List.drop_of_length_le (by simp)
  have hlt : d.length < (d ++ a').length := by simp; omega
  simp only [hz, Bool.false_eq_true, if_false, htk, hdr, hlt, if_true]
  have : (d ++ a').length - d.length = a'.length := by simp
  simp only [bodyCur, this]

/-- the body phase: the rest of the body arrives (and more) -/
theorem body_finish (E : Env) (c1 : Cur) (got ahead more : Bytes) (hch : c1.chunked = false) (hne : ahead ≠ []) :
    parseBody E (bodyCur c1 got ahead.length) (ahead ++ more) = .ok (.done (bodyCur c1 (got ++ ahead) 0) more) := by
  rw [parseBody_counted E (bodyCur c1 got ahead.length) ahead.length rfl hch]
  have := body_length_exact (bodyCur c1 got ahead.length) ahead more hne
  rw [this]
  rfl


section
variable {E : Env} {side : Side} {w : WIt} {m0 : Msg} {c1 : Cur} {v : Bytes}

abbrev cS (m0 : Msg) : Cur := { msg := m0, startline := true }

theorem cS_items (G : GoodI E side w m0 c1 v) (A B : List (Bytes × Bytes)) (hits : w.items = A ++ B) :
    ItemsOK E.reg (withHeaders (cS m0) A).msg.headers B := by
  have h := G.items
  rw [hits] at h
  have := h.split.2
  simpa [withHeaders, cS, G.fresh0] using this

/-- entering the body with a piece of it (possibly none) -/
theorem enter_body_partial (G : GoodI E side w m0 c1 v) (t2 a' : Bytes) (hb : t2 ++ a' = w.body) (ha : a' ≠ []) :
    parseBody E { c1 with headersDone := true } t2 = .ok (.wait (bodyCur c1 t2 a'.length) []) := by
  have hn : w.body.length = t2.length + a'.length := by rw [← hb]; simp
  rw [parseBody_first E { c1 with headersDone := true } G.c1len G.c1ch G.c1te v G.c1cl G.c12047 w.body.length G.c1int t2]
  unfold bodyWithLength
  have hal : 0 < a'.length := List.length_pos_iff.mpr ha
  have hz : (w.body.length == 0) = false := beq_eq_false_iff_ne.mpr (by omega)
  have htk : t2.take w.body.length = t2 := List.take_of_length_le (by omega)
  have hdr : t2.drop w.body.length = [] := List.drop_of_length_le (by omega)
  have hlt : t2.length < w.body.length := by omega
  simp only [hz, Bool.false_eq_true, if_false, htk, hdr, hlt, if_true]
  have : w.body.length - t2.length = a'.length := by omega
  simp only [bodyCur, this, G.c1body, List.nil_append]

/-- entering the body with all of it (and more) -/
theorem enter_body_finish (G : GoodI E side w m0 c1 v) (more : Bytes) :
    parseBody E { c1 with headersDone := true } (w.body ++ more) = .ok (.done (bodyCur c1 w.body 0) more) := by
  have := parseBody_length E { c1 with headersDone := true } G.c1len G.c1ch G.c1te v G.c1cl G.c12047 w.body more G.c1int
  rw [this]
  simp only [bodyCur, G.c1body, List.nil_append]

theorem deliver (G : GoodI E side w m0 c1 v) (more : Bytes) :
    bodyComplete side (bodyCur c1 w.body 0) more = .ok (delivered c1 w) := by
  have := bodyComplete_length side (bodyCur c1 w.body 0) more v G.c1ch G.c1cod G.c1cl (by
    intro hs
    rcases G.meth hs with h1 | h2
    · exact Or.inl h1
    · exact Or.inr h2)
  rw [this]; rfl

theorem to400_okS (x : Step) : to400 (Except.ok x : R Step) = .ok x := rfl
theorem to400_okM (x : Msg) : to400 (Except.ok x : R Msg) = .ok x := rfl

/-- the loop after the header section is complete: the body in part -/
theorem run_from_body_partial (G : GoodI E side w m0 c1 v) (f : Nat) (st : St) (out : List Msg) (cA : Cur) (bA t2 a' : Bytes)
    (hne : st.buf.isEmpty = false)
    (h1 : startPhase E side (st.cur.getD {}) st.buf = .ok (cA, bA, true))
    (h2 : headerPhase E side cA bA = .ok ({ c1 with headersDone := true }, t2, true))
    (hb : t2 ++ a' = w.body) (ha : a' ≠ []) :
    run E side (f + 1) st out = .ok (out, { buf := [], cur := some (bodyCur c1 t2 a'.length) }) := by
  conv => lhs; unfold run
  simp only [hne, Bool.false_eq_true, if_false, h1, h2, enter_body_partial G t2 a' hb ha, to400_okS]

theorem run_from_body_finish (G : GoodI E side w m0 c1 v) (f : Nat) (st : St) (out : List Msg) (cA : Cur) (bA more : Bytes)
    (hne : st.buf.isEmpty = false)
    (h1 : startPhase E side (st.cur.getD {}) st.buf = .ok (cA, bA, true))
    (h2 : headerPhase E side cA bA = .ok ({ c1 with headersDone := true }, w.body ++ more, true)) :
    run E side (f + 1) st out = run E side f { buf := more, cur := none } (out ++ [delivered c1 w]) := by
  conv => lhs; unfold run
  simp only [hne, Bool.false_eq_true, if_false, h1, h2, enter_body_finish G more, to400_okS, deliver G more, to400_okM]


theorem cS_facts (m0 : Msg) (A : List (Bytes × Bytes)) :
    (withHeaders (cS m0) A).lf = false ∧ (withHeaders (cS m0) A).headersDone = false ∧ (withHeaders (cS m0) A).startline = true :=
  ⟨rfl, rfl, rfl⟩

theorem wire_nonempty (w : WIt) (x : Bytes) : (w.wire ++ x).isEmpty = false := by simp [WIt.wire, CRLF]

/-- pieces of a start line have no LF -/
theorem prefix_line_nolf (line t y : Bytes) (hl : Clean 0x0A line) (h : t ++ y = line ++ CRLF) (hy : y ≠ []) : Clean 0x0A t := by
  -- t is a prefix of line ++ [CR]
  obtain ⟨y', yl, ey⟩ : ∃ y' yl, y = y' ++ [yl] := by
    rcases List.eq_nil_or_concat y with h0 | ⟨a, b, h0⟩
    · exact absurd h0 hy
    · exact ⟨a, b, by simpa using h0⟩
  have e : t ++ y' = line ++ [0x0D] := by
    rw [ey] at h
    have e2 : line ++ CRLF = (line ++ [0x0D]) ++ [0x0A] := by simp [CRLF]
    rw [e2, ← List.append_assoc] at h
    exact (List.append_inj' h rfl).1
  intro b hb
  have : b ∈ line ++ [0x0D] := by rw [← e]; simp [hb]
  rcases List.mem_append.mp this with h1 | h1
  · exact hl b h1
  · simp at h1; rw [h1]; decide

/-- **a piece arrives that does not complete the message**: nothing is delivered, and the state machine is again inside
    the message, with the rest still to come -/
theorem run_partial (G : GoodI E side w m0 c1 v) (f : Nat) (st : St) (out : List Msg) (ahead d a' : Bytes)
    (hat : At E side w m0 c1 st ahead) (hd : ahead = d ++ a') (ha : a' ≠ []) :
    ∃ st', run E side (f + 1) { st with buf := st.buf ++ d } out = .ok (out, st') ∧ At E side w m0 c1 st' a' := by
  cases hat with
  | start b ahead' cur hb hlen hcur =>
    subst hd
    have hcur' : cur.getD {} = ({} : Cur) := by rcases hcur with rfl | rfl <;> rfl
    -- where does b ++ d end?
    have hw : (b ++ d) ++ a' = (w.line ++ CRLF) ++ (hsec w.items ++ w.body) := by
      have e : w.wire = (w.line ++ CRLF) ++ (hsec w.items ++ w.body) := rfl
      rw [← e, ← hb]; simp
    rcases List.append_eq_append_iff.mp hw with ⟨y, e1, e2⟩ | ⟨t1, e1, e2⟩
    · by_cases hy : y = []
      · -- exactly the start line
        subst hy
        simp only [List.append_nil, List.nil_append] at e1 e2
        -- continue with the header phase on an empty buffer: treated below as t1 = []
        have hne : (b ++ d).isEmpty = false := by rw [← e1]; simp [CRLF]
        have hsp : startPhase E side (cur.getD {}) (b ++ d) = .ok (cS m0, [], true) := by
          rw [hcur', ← e1]
          have := startPhase_line E side w.line [] G.nocr m0 G.start
          simpa using this
        -- the header section has not started
        have hI := cS_items G [] w.items (by simp)
        have hz : hsec w.items ≠ [] := by simp [hsec, CRLF]
        obtain ⟨A, B, rem, hits, hhp, hrest⟩ := headerPhase_wait E side (withHeaders (cS m0) []) rfl rfl w.items hI [] (hsec w.items) (by simp) hz
        rw [withHeaders_nil] at hhp
        refine ⟨{ buf := rem, cur := some (withHeaders (cS m0) A) }, ?_, ?_⟩
        · conv => lhs; unfold run
          simp only [hne, Bool.false_eq_true, if_false, hsp, hhp]
        · exact At.head A B rem (hsec w.items) a' hits hrest hz e2
      · -- still inside the start line
        have hnolf := prefix_line_nolf w.line (b ++ d) y G.nolf e1.symm hy
        by_cases hemp : (b ++ d).isEmpty = true
        · refine ⟨{ buf := b ++ d, cur := cur }, ?_, ?_⟩
          · conv => lhs; unfold run
            simp [hemp]
          · refine At.start (b ++ d) a' cur (by rw [← hb]; simp) ?_ hcur
            have : (b ++ d) = [] := by simpa using hemp
            rw [this]; simp
        · have hemp' : (b ++ d).isEmpty = false := by simpa using hemp
          refine ⟨{ buf := b ++ d, cur := some {} }, ?_, ?_⟩
          · conv => lhs; unfold run
            simp only [hemp', Bool.false_eq_true, if_false, hcur', startPhase_wait E side (b ++ d) hnolf]
          · refine At.start (b ++ d) a' (some {}) (by rw [← hb]; simp) ?_ (Or.inr rfl)
            have hl := congrArg List.length e1
            have hyl : 0 < y.length := List.length_pos_iff.mpr hy
            simp only [List.length_append, CRLF, List.length_cons, List.length_nil] at hl
            simp only [List.length_append]; omega
    · -- the start line is complete; t1 belongs to the header section or beyond
      have hne : (b ++ d).isEmpty = false := by rw [e1]; simp [CRLF]
      have hsp : startPhase E side (cur.getD {}) (b ++ d) = .ok (cS m0, t1, true) := by
        rw [hcur', e1]
        exact startPhase_line E side w.line t1 G.nocr m0 G.start
      have hI := cS_items G [] w.items (by simp)
      rcases List.append_eq_append_iff.mp e2.symm with ⟨z, e3, e4⟩ | ⟨t2, e3, e4⟩
      rotate_left
      · -- e3 : t1 = hsec ++ t2, e4 : body = t2 ++ a'
        have hhp : headerPhase E side (cS m0) t1 = .ok ({ c1 with headersDone := true }, t2, true) := by
          rw [e3]
          have := headerPhase_done E side (withHeaders (cS m0) []) rfl rfl w.items hI t2 c1 (by rw [withHeaders_append]; simpa using G.hooks)
          rw [withHeaders_nil] at this
          exact this
        exact ⟨_, run_from_body_partial G f { buf := b ++ d, cur := cur } out (cS m0) t1 t2 a' hne hsp hhp e4.symm ha, At.body t2 a' e4.symm ha⟩
      · -- e3 : hsec = t1 ++ z, e4 : a' = z ++ body
        by_cases hz : z = []
        · subst hz
          simp only [List.append_nil, List.nil_append] at e3 e4
          have hhp : headerPhase E side (cS m0) t1 = .ok ({ c1 with headersDone := true }, [], true) := by
            rw [← e3]
            have := headerPhase_done E side (withHeaders (cS m0) []) rfl rfl w.items hI [] c1 (by rw [withHeaders_append]; simpa using G.hooks)
            rw [withHeaders_nil] at this
            simpa using this
          exact ⟨_, run_from_body_partial G f { buf := b ++ d, cur := cur } out (cS m0) t1 [] a' hne hsp hhp (by simp [e4]) ha,
            At.body [] a' (by simp [e4]) ha⟩
        · obtain ⟨A, B, rem, hits, hhp, hrest⟩ := headerPhase_wait E side (withHeaders (cS m0) []) rfl rfl w.items hI t1 z e3.symm hz
          rw [withHeaders_nil] at hhp
          refine ⟨{ buf := rem, cur := some (withHeaders (cS m0) A) }, ?_, At.head A B rem z a' hits hrest hz e4⟩
          conv => lhs; unfold run
          simp only [hne, Bool.false_eq_true, if_false, hsp, hhp]
  | head A B rem z ahead' hits hrem hz hahead =>
    subst hahead
    have hI := cS_items G A B hits
    obtain ⟨f1, f2, f3⟩ := cS_facts m0 A
    by_cases hemp : (rem ++ d).isEmpty = true
    · refine ⟨{ buf := rem ++ d, cur := some (withHeaders (cS m0) A) }, ?_, ?_⟩
      · conv => lhs; unfold run
        simp [hemp]
      · have hd0 : rem = [] ∧ d = [] := by simpa using hemp
        have : a' = z ++ w.body := by rw [hd0.2] at hd; simpa using hd.symm
        rw [hd0.1, hd0.2]
        exact At.head A B [] z a' hits (by rw [← hrem, hd0.1]) hz this
    · have hne : (rem ++ d).isEmpty = false := by simpa using hemp
      have hsp : startPhase E side ((some (withHeaders (cS m0) A)).getD {}) (rem ++ d) = .ok (withHeaders (cS m0) A, rem ++ d, true) :=
        startPhase_skip E side _ _ f3
      rcases List.append_eq_append_iff.mp hd with ⟨y, e1, e2⟩ | ⟨z', e1, e2⟩
      · -- e1 : d = z ++ y, e2 : body = y ++ a'
        have hhp : headerPhase E side (withHeaders (cS m0) A) (rem ++ d) = .ok ({ c1 with headersDone := true }, y, true) := by
          rw [e1, ← List.append_assoc, hrem]
          exact headerPhase_done E side (withHeaders (cS m0) A) f1 f2 B hI y c1 (by rw [withHeaders_append, ← hits]; exact G.hooks)
        exact ⟨_, run_from_body_partial G f { buf := rem ++ d, cur := some (withHeaders (cS m0) A) } out _ _ y a' hne hsp hhp e2.symm ha,
          At.body y a' e2.symm ha⟩
      · -- e1 : z = d ++ z', e2 : a' = z' ++ body
        by_cases hz' : z' = []
        · subst hz'
          simp only [List.append_nil, List.nil_append] at e1 e2
          have hhp : headerPhase E side (withHeaders (cS m0) A) (rem ++ d) = .ok ({ c1 with headersDone := true }, [], true) := by
            rw [← e1, hrem]
            have := headerPhase_done E side (withHeaders (cS m0) A) f1 f2 B hI [] c1 (by rw [withHeaders_append, ← hits]; exact G.hooks)
            simpa using this
          exact ⟨_, run_from_body_partial G f { buf := rem ++ d, cur := some (withHeaders (cS m0) A) } out _ _ [] a' hne hsp hhp (by simp [e2]) ha,
            At.body [] a' (by simp [e2]) ha⟩
        · obtain ⟨A', B', rem', hits', hhp, hrest⟩ := headerPhase_wait E side (withHeaders (cS m0) A) f1 f2 B hI (rem ++ d) z'
            (by rw [List.append_assoc, ← e1, hrem]) hz'
          rw [withHeaders_append] at hhp
          refine ⟨{ buf := rem', cur := some (withHeaders (cS m0) (A ++ A')) }, ?_,
            At.head (A ++ A') B' rem' z' a' (by rw [hits, hits']; simp) hrest hz' e2⟩
          conv => lhs; unfold run
          simp only [hne, Bool.false_eq_true, if_false, hsp, hhp]
  | body got ahead' hgot hne' =>
    subst hd
    by_cases hemp : d = []
    · subst hemp
      refine ⟨{ buf := [], cur := some (bodyCur c1 got (([] : Bytes) ++ a').length) }, ?_, ?_⟩
      · conv => lhs; unfold run
        simp
      · have := At.body (E := E) (side := side) (w := w) (m0 := m0) (c1 := c1) got a' (by simpa using hgot) ha
        simpa using this
    · have hne : d.isEmpty = false := by simpa using hemp
      refine ⟨{ buf := [], cur := some (bodyCur c1 (got ++ d) a'.length) }, ?_, At.body (got ++ d) a' (by rw [← hgot]; simp) ha⟩
      conv => lhs; unfold run
      have hsp : startPhase E side ((some (bodyCur c1 got (d ++ a').length)).getD {}) d = .ok (bodyCur c1 got (d ++ a').length, d, true) :=
        startPhase_skip E side _ _ G.c1start
      have hhp : headerPhase E side (bodyCur c1 got (d ++ a').length) d = .ok (bodyCur c1 got (d ++ a').length, d, true) :=
        headerPhase_skip E side _ _ rfl
      simp only [List.nil_append, hne, Bool.false_eq_true, if_false, hsp, hhp, body_partial E c1 got d a' G.c1ch ha, to400_okS]


/-- **the rest of the message arrives (and more)**: the message is delivered, and the loop goes on with a fresh state -/
theorem run_finish (G : GoodI E side w m0 c1 v) (f : Nat) (st : St) (out : List Msg) (ahead more : Bytes)
    (hat : At E side w m0 c1 st ahead) :
    run E side (f + 1) { st with buf := st.buf ++ (ahead ++ more) } out =
      run E side f { buf := more, cur := none } (out ++ [delivered c1 w]) := by
  cases hat with
  | start b ahead' cur hb hlen hcur =>
    have hcur' : cur.getD {} = ({} : Cur) := by rcases hcur with rfl | rfl <;> rfl
    have e : b ++ (ahead ++ more) = w.line ++ CRLF ++ (hsec w.items ++ (w.body ++ more)) := by
      have e0 : w.wire = (w.line ++ CRLF) ++ (hsec w.items ++ w.body) := rfl
      rw [← List.append_assoc, hb, e0]; simp
    have hne : (b ++ (ahead ++ more)).isEmpty = false := by rw [e]; simp [CRLF]
    have hsp : startPhase E side (cur.getD {}) (b ++ (ahead ++ more)) = .ok (cS m0, hsec w.items ++ (w.body ++ more), true) := by
      rw [hcur', e]
      exact startPhase_line E side w.line _ G.nocr m0 G.start
    have hI := cS_items G [] w.items (by simp)
    have hhp : headerPhase E side (cS m0) (hsec w.items ++ (w.body ++ more)) = .ok ({ c1 with headersDone := true }, w.body ++ more, true) := by
      have := headerPhase_done E side (withHeaders (cS m0) []) rfl rfl w.items hI (w.body ++ more) c1 (by rw [withHeaders_append]; simpa using G.hooks)
      rw [withHeaders_nil] at this
      exact this
    exact run_from_body_finish G f { buf := b ++ (ahead ++ more), cur := cur } out (cS m0) _ more hne hsp hhp
  | head A B rem z ahead' hits hrem hz hahead =>
    subst hahead
    have hI := cS_items G A B hits
    obtain ⟨f1, f2, f3⟩ := cS_facts m0 A
    have e : rem ++ (z ++ w.body ++ more) = hsec B ++ (w.body ++ more) := by
      rw [← hrem]; simp
    have hne : (rem ++ (z ++ w.body ++ more)).isEmpty = false := by
      cases z with
      | nil => exact absurd rfl hz
      | cons a r => simp
    have hsp : startPhase E side ((some (withHeaders (cS m0) A)).getD {}) (rem ++ (z ++ w.body ++ more)) =
        .ok (withHeaders (cS m0) A, rem ++ (z ++ w.body ++ more), true) := startPhase_skip E side _ _ f3
    have hhp : headerPhase E side (withHeaders (cS m0) A) (rem ++ (z ++ w.body ++ more)) = .ok ({ c1 with headersDone := true }, w.body ++ more, true) := by
      rw [e]
      exact headerPhase_done E side (withHeaders (cS m0) A) f1 f2 B hI (w.body ++ more) c1 (by rw [withHeaders_append, ← hits]; exact G.hooks)
    exact run_from_body_finish G f { buf := rem ++ (z ++ w.body ++ more), cur := some (withHeaders (cS m0) A) } out _ _ more hne hsp hhp
  | body got ahead' hgot hne' =>
    have hne : (ahead ++ more).isEmpty = false := by
      cases ahead with
      | nil => exact absurd rfl hne'
      | cons a r => simp
    conv => lhs; unfold run
    have hsp : startPhase E side ((some (bodyCur c1 got ahead.length)).getD {}) (ahead ++ more) = .ok (bodyCur c1 got ahead.length, ahead ++ more, true) :=
      startPhase_skip E side _ _ G.c1start
    have hhp : headerPhase E side (bodyCur c1 got ahead.length) (ahead ++ more) = .ok (bodyCur c1 got ahead.length, ahead ++ more, true) :=
      headerPhase_skip E side _ _ rfl
    simp only [List.nil_append, hne, Bool.false_eq_true, if_false, hsp, hhp, body_finish E c1 got ahead more G.c1ch hne', to400_okS, hgot,
      deliver G more, to400_okM]


theorem At.ahead_ne (G : GoodI E side w m0 c1 v) {st : St} {ahead : Bytes} (h : At E side w m0 c1 st ahead) : ahead ≠ [] := by
  cases h with
  | start b ahead' cur hb hlen hcur =>
    intro e
    subst e
    have := congrArg List.length hb
    simp only [List.append_nil, WIt.wire, List.length_append, CRLF, List.length_cons, List.length_nil, hsec] at this
    omega
  | head A B rem z ahead' hits hrem hz hahead =>
    subst hahead
    cases z with
    | nil => exact absurd rfl hz
    | cons a r => simp
  | body got ahead' hgot hne => exact hne

end

/-! ### the pipeline -/

/-- a message of the pipeline with the records the reader builds for it -/
structure GMsg (E : Env) (side : Side) where
  w : WIt
  m0 : Msg
  c1 : Cur
  v : Bytes
  good : GoodI E side w m0 c1 v

def GMsg.out {E : Env} {side : Side} (g : GMsg E side) : Msg := delivered g.c1 g.w

def streamOf {E : Env} {side : Side} (gs : List (GMsg E side)) : Bytes := gs.flatMap (·.w.wire)

def fresh : St := { buf := [], cur := none }

/-- **where the state machine is inside the pipeline**: the messages not yet delivered, and the octets still to come -/
def PAt {E : Env} {side : Side} : List (GMsg E side) → St → Bytes → Prop
  | [], st, ahead => st = fresh ∧ ahead = []
  | g :: gs, st, ahead => ∃ a1, At E side g.w g.m0 g.c1 st a1 ∧ ahead = a1 ++ streamOf gs

theorem PAt_fresh {E : Env} {side : Side} (gs : List (GMsg E side)) : PAt gs fresh (streamOf gs) := by
  cases gs with
  | nil => exact ⟨rfl, rfl⟩
  | cons g gs =>
    refine ⟨g.w.wire, At.start [] g.w.wire none (by simp) (by simp) (Or.inl rfl), by simp [streamOf]⟩

/-- **one call with any piece of the stream**: the messages it completes are delivered, in order; the state is again inside
    the pipeline -/
theorem run_prefix {E : Env} {side : Side} (gs : List (GMsg E side)) (st : St) (ahead d a' : Bytes) (f : Nat) (out : List Msg)
    (hP : PAt gs st ahead) (h : ahead = d ++ a') (hf : d.length + 1 ≤ f) :
    ∃ (gs1 gs2 : List (GMsg E side)) (st' : St), gs = gs1 ++ gs2 ∧
      run E side f { st with buf := st.buf ++ d } out = .ok (out ++ gs1.map (·.out), st') ∧ PAt gs2 st' a' := by
  induction gs generalizing st ahead d f out with
  | nil =>
    obtain ⟨rfl, rfl⟩ := hP
    have hd : d = [] ∧ a' = [] := by
      cases d with
      | nil => exact ⟨rfl, by simpa using h.symm⟩
      | cons x r => simp at h
    obtain ⟨rfl, rfl⟩ := hd
    refine ⟨[], [], fresh, rfl, ?_, ⟨rfl, rfl⟩⟩
    cases f <;> simp [run, fresh]
  | cons g gs ih =>
    obtain ⟨a1, hat, hahead⟩ := hP
    obtain ⟨f', rfl⟩ : ∃ f', f = f' + 1 := ⟨f - 1, by omega⟩
    rw [hahead] at h
    rcases List.append_eq_append_iff.mp h with ⟨d2, e1, e2⟩ | ⟨a1', e1, e2⟩
    · -- e1 : d = a1 ++ d2, e2 : streamOf gs = d2 ++ a' : the current message is completed by this piece
      have hfin := run_finish g.good f' st out a1 d2 hat
      rw [e1, hfin]
      have ha1 : 0 < a1.length := List.length_pos_iff.mpr (hat.ahead_ne g.good)
      obtain ⟨gs1, gs2, st', hgs, hrun, hP'⟩ := ih fresh (streamOf gs) d2 f' (out ++ [g.out]) (PAt_fresh gs) e2 (by
        rw [e1] at hf; simp only [List.length_append] at hf; omega)
      refine ⟨g :: gs1, gs2, st', by simp [hgs], ?_, hP'⟩
      have : ({ fresh with buf := fresh.buf ++ d2 } : St) = { buf := d2, cur := none } := by simp [fresh]
      rw [this] at hrun
      rw [show delivered g.c1 g.w = g.out from rfl, hrun]
      simp
    · -- e1 : a1 = d ++ a1', e2 : a' = a1' ++ streamOf gs
      by_cases ha : a1' = []
      · -- the piece ends exactly with the message
        subst ha
        simp only [List.append_nil, List.nil_append] at e1 e2
        have hfin := run_finish g.good f' st out a1 [] hat
        simp only [List.append_nil] at hfin
        rw [← e1, hfin]
        refine ⟨[g], gs, fresh, rfl, ?_, ?_⟩
        · cases f' <;> simp [run, fresh, GMsg.out]
        · rw [e2]; exact PAt_fresh gs
      · obtain ⟨st', hrun, hat'⟩ := run_partial g.good f' st out a1 d a1' hat e1 ha
        exact ⟨[], g :: gs, st', rfl, by simpa using hrun, ⟨a1', hat', e2⟩⟩

/-- **C01 and the prefix clause of C02 for well-formed pipelines.**  Any number of Content-Length framed messages as a
    writer puts them on the wire; the stream cut into calls in ANY way (`frags`), of which any prefix has arrived
    (`a'` is still to come): exactly the messages wholly contained in what has arrived have been handed out, in order,
    and the state machine is inside the pipeline with the rest -/
theorem feedAll_prefix {E : Env} {side : Side} (gs : List (GMsg E side)) (frags : List Bytes) (st : St) (ahead a' : Bytes)
    (hP : PAt gs st ahead) (h : ahead = frags.flatten ++ a') :
    ∃ (gs1 gs2 : List (GMsg E side)) (st' : St), gs = gs1 ++ gs2 ∧
      feedAll E side st frags = .ok (gs1.map (·.out), st') ∧ PAt gs2 st' a' := by
  induction frags generalizing gs st ahead with
  | nil =>
    refine ⟨[], gs, st, rfl, rfl, ?_⟩
    simpa [h] using hP
  | cons d ds ih =>
    have h' : ahead = d ++ (ds.flatten ++ a') := by rw [h]; simp
    obtain ⟨gs1, gs2, st1, hgs, hrun, hP1⟩ := run_prefix gs st ahead d (ds.flatten ++ a') ((st.buf ++ d).length + 1) [] hP h' (by
      simp only [List.length_append]; omega)
    obtain ⟨gs3, gs4, st2, hgs2, hfa, hP2⟩ := ih gs2 st1 (ds.flatten ++ a') hP1 rfl
    refine ⟨gs1 ++ gs3, gs4, st2, by rw [hgs, hgs2]; simp, ?_, hP2⟩
    unfold feedAll
    have hfeed : feed E side st d = .ok (gs1.map (·.out), st1) := by
      unfold feed
      simpa using hrun
    rw [hfeed]
    simp only [hfa]
    simp

/-- **every fragmentation of a well-formed pipeline delivers exactly its messages**, and leaves the state machine as it
    was before the first octet -/
theorem fragmentation_independent {E : Env} {side : Side} (gs : List (GMsg E side)) (frags : List Bytes)
    (h : frags.flatten = streamOf gs) : feedAll E side {} frags = .ok (gs.map (·.out), fresh) := by
  obtain ⟨gs1, gs2, st', hgs, hfa, hP⟩ := feedAll_prefix gs frags fresh (streamOf gs) [] (PAt_fresh gs) (by simp [h])
  cases gs2 with
  | nil =>
    obtain ⟨rfl, _⟩ := hP
    rw [show ({} : St) = fresh from rfl, hfa, hgs]; simp
  | cons g gs2 =>
    obtain ⟨a1, hat, he⟩ := hP
    have := hat.ahead_ne g.good
    cases a1 with
    | nil => exact absurd rfl this
    | cons x r => simp at he


/-! ### the hypotheses are satisfiable, and the conclusion on a concrete pipeline -/

def wItResp : WIt := { line := "HTTP/1.1 200 OK".toUTF8.toList, items := [("Content-Length".toUTF8.toList, "2".toUTF8.toList), ("X-A".toUTF8.toList, "b c".toUTF8.toList)], body := "hi".toUTF8.toList }

theorem valGood_of (v : Bytes) (a : Byte) (t u : Bytes) (z : Byte) (h1 : v = a :: t) (h2 : v = u ++ [z]) (ha : isPySpace a = false)
    (hz : isPySpace z = false) (hc : Clean 0x0D v) : Headers.ValGood v :=
  ⟨hc, Or.inr ⟨⟨a, t, h1, ha⟩, ⟨u, z, h2, hz⟩⟩⟩

/-- a response satisfies `GoodI` (every hypothesis of the theorems above, discharged for a concrete message) -/
theorem c01_good_witness : ∃ g : GMsg (Ops.penv false) .client, g.w = wItResp := by
  let m0 : Msg := { proto := (1, 1), status := 200, reason := "OK".toUTF8.toList }
  let c1 : Cur := { msg := { m0 with headers := wItResp.items }, startline := true }
  refine ⟨{ w := wItResp, m0 := m0, c1 := c1, v := "2".toUTF8.toList, good := ?_ }, rfl⟩
  refine { nocr := (by decide +kernel), nolf := (by decide +kernel), start := (by decide +kernel), fresh0 := rfl, items := ?_,
           hooks := (by decide +kernel), c1lf := rfl, c1len := rfl, c1ch := rfl, c1cod := rfl, c1body := rfl,
           c1te := (by decide +kernel), c1cl := (by decide +kernel), c12047 := (by decide +kernel), c1int := (by decide +kernel),
           meth := (by intro h; cases h), c1start := rfl }
  refine ⟨?_, ?_, by decide +kernel, fun _ _ => rfl⟩
  · intro p hp
    simp only [wItResp, List.mem_cons, List.mem_nil_iff, or_false] at hp
    rcases hp with rfl | rfl
    · exact ⟨by decide +kernel, by decide +kernel, by decide +kernel⟩
    · exact ⟨by decide +kernel, by decide +kernel, by decide +kernel⟩
  · intro p hp
    simp only [wItResp, List.mem_cons, List.mem_nil_iff, or_false] at hp
    rcases hp with rfl | rfl
    · exact valGood_of _ 0x32 [] [] 0x32 (by decide +kernel) (by decide +kernel) (by decide +kernel) (by decide +kernel) (by decide +kernel)
    · exact valGood_of _ 0x62 [0x20, 0x63] [0x62, 0x20] 0x63 (by decide +kernel) (by decide +kernel) (by decide +kernel) (by decide +kernel) (by decide +kernel)

/-- the conclusion on two pipelined responses cut at awkward places (inside the status line, between CR and LF of a
    field line, inside the empty line, inside the body, across the message boundary), evaluated by the kernel -/
theorem c01_fragmentation_witness :
    let s := "HTTP/1.1 200 OK\r\nContent-Length: 2\r\nX-A: b c\r\n\r\nhiHTTP/1.1 404 Not Found\r\nContent-Length: 0\r\n\r\n".toUTF8.toList
    let one := feedAll (Ops.penv false) .client {} [s]
    (one.toOption.map (fun r => (r.1.length, r.2))) = some (2, fresh) ∧
    feedAll (Ops.penv false) .client {} [s.take 7, (s.drop 7).take 28, (s.drop 35).take 11, (s.drop 46).take 2, (s.drop 48).take 5, s.drop 53] = one ∧
    feedAll (Ops.penv false) .client {} (s.map (fun b => [b])) = one := by
  decide +kernel

end Httoop.Parser
