import Httoop.Props.C01
import Httoop.Props.C02Pipeline
import Httoop.Proofs.Blocks
import Httoop.Props.C04Whole
/-
  C01, the header layer: a header section that arrives in pieces.  `parse_headers` consumes complete header lines
  eagerly (`_parse_single_headers`), so the intermediate states differ from those of a single call; what is proved
  here is that they are exactly "the fields parsed so far + the unconsumed rest", and that the end result is the
  same for every cut.
-/
namespace Httoop.Parser
open Httoop

def LFCR : Bytes := [0x0A, 0x0D]

/-- `LF CR` cannot occur where CR occurs at most in front -/
theorem contains_lfcr_clean (u : Bytes) (h : Clean 0x0D u) : contains u LFCR = false := by
  unfold contains
  induction u with
  | nil => rfl
  | cons a u ih =>
    have hst : startsWith (a :: u) LFCR = false := by
      cases u with
      | nil => simp [startsWith, LFCR]
      | cons b u =>
        have hb : (b == 0x0D) = false := by simpa using (h.tail).head
        simp [startsWith, LFCR, hb]
    unfold splitOnce
    simp only [hst, Bool.false_eq_true, if_false]
    have := ih h.tail
    cases hs : splitOnce LFCR u with
    | none => rfl
    | some p => rw [hs] at this; simp at this

theorem contains_lfcr_cr_clean (u : Bytes) (h : Clean 0x0D u) : contains (0x0D :: u) LFCR = false := by
  have := contains_lfcr_clean u h
  unfold contains at this ⊢
  unfold splitOnce
  have hst : startsWith (0x0D :: u) LFCR = false := by simp [startsWith, LFCR]
  simp only [hst, Bool.false_eq_true, if_false]
  cases hs : splitOnce LFCR u with
  | none => rfl
  | some p => rw [hs] at this; simp at this

/-- a piece of a line: octets without CR, possibly followed by one CR -/
def Partial (b : Bytes) : Prop := ∃ u, Clean 0x0D u ∧ (b = u ∨ b = u ++ [0x0D])

theorem Partial.rev_ok {b : Bytes} (h : Partial b) (t : Bytes) (ht : Clean 0x0D t) : contains (b.reverse ++ t) LFCR = false := by
  obtain ⟨u, hu, e | e⟩ := h <;> rw [e]
  · exact contains_lfcr_clean _ (Clean.append (by intro x hx; exact hu x (List.mem_reverse.mp hx)) ht)
  · have : (u ++ [0x0D]).reverse ++ t = 0x0D :: (u.reverse ++ t) := by simp
    rw [this]
    exact contains_lfcr_cr_clean _ (Clean.append (by intro x hx; exact hu x (List.mem_reverse.mp hx)) ht)

/-- the last CRLF: what follows it has none -/
theorem rsplitOnce_last (a b : Bytes) (h : Partial b) : rsplitOnce CRLF (a ++ CRLF ++ b) = some (a, b) := by
  unfold rsplitOnce
  have e : (a ++ CRLF ++ b).reverse = b.reverse ++ LFCR ++ a.reverse := by simp [CRLF, LFCR]
  have e2 : CRLF.reverse = LFCR := rfl
  rw [e, e2, splitOnce_first LFCR b.reverse a.reverse (by decide) (by
    have := h.rev_ok [0x0A] (by decide)
    simpa [LFCR] using this)]
  simp

theorem rsplitOnce_none (b : Bytes) (h : Partial b) : rsplitOnce CRLF b = none := by
  unfold rsplitOnce
  have e2 : CRLF.reverse = LFCR := rfl
  have := h.rev_ok [] (by intro x hx; cases hx)
  simp only [List.append_nil] at this
  unfold contains at this
  rw [e2]
  cases hs : splitOnce LFCR b.reverse with
  | none => rfl
  | some p => rw [hs] at this; simp at this

theorem endsWith_crlf_partial (a b : Bytes) (h : Partial b) (hb : b ≠ []) (ha : ∀ a', a ≠ a' ++ [0x0D]) :
    Element.endsWith (a ++ b) CRLF = false := by
  unfold Element.endsWith
  have hr : CRLF.reverse = [0x0A, 0x0D] := rfl
  rw [hr]
  obtain ⟨u, hu, e | e⟩ := h <;> rw [e] at hb ⊢
  · obtain ⟨w, z, ez⟩ : ∃ w z, u = w ++ [z] := by
      rcases List.eq_nil_or_concat u with h0 | ⟨w, z, h0⟩
      · exact absurd h0 hb
      · exact ⟨w, z, by simpa using h0⟩
    rw [ez] at hu ⊢
    simp only [List.reverse_append, List.reverse_cons, List.reverse_nil, List.nil_append, List.singleton_append, List.cons_append]
    cases hw : (w.reverse ++ a.reverse) with
    | nil => simp [startsWith]
    | cons q r =>
      have hq : (q == 0x0D) = false := by
        -- q is the last octet of w (no CR there) or, when w is empty, of a
        rcases List.eq_nil_or_concat w with h0 | ⟨w', z', h0⟩
        · subst h0
          simp only [List.reverse_nil, List.nil_append] at hw
          cases hq : (q == 0x0D) with
          | false => rfl
          | true =>
            exfalso
            have : q = 0x0D := by simpa using hq
            subst this
            have : a = r.reverse ++ [0x0D] := by
              have := congrArg List.reverse hw
              simpa using this
            exact ha _ this
        · have e' : w = w' ++ [z'] := by simpa using h0
          subst e'
          simp only [List.reverse_append, List.reverse_cons, List.reverse_nil, List.nil_append, List.singleton_append, List.cons_append] at hw
          injection hw with hw1 _
          subst hw1
          simpa using hu z' (by simp)
      simp [startsWith, hq]
  · simp [startsWith]


/-! ### the header section as the writer puts it on the wire -/

def lineOf (p : Bytes × Bytes) : Bytes := Headers.fieldLine p ++ CRLF
def linesOf (its : List (Bytes × Bytes)) : Bytes := its.flatMap lineOf
/-- field lines, each with its CRLF, and the empty line -/
def hsec (its : List (Bytes × Bytes)) : Bytes := linesOf its ++ CRLF

theorem linesOf_block (its : List (Bytes × Bytes)) (hne : its ≠ []) : linesOf its = Headers.block its ++ CRLF := by
  induction its with
  | nil => exact absurd rfl hne
  | cons p its ih =>
    cases its with
    | nil => simp [linesOf, lineOf, Headers.block, joinWith]
    | cons q its =>
      have := ih (by simp)
      simp only [linesOf, List.flatMap_cons] at this ⊢
      rw [this]
      simp [Headers.block, joinWith, lineOf, Headers.CRLFb, CRLF, List.append_assoc]

theorem linesOf_append (a b : List (Bytes × Bytes)) : linesOf (a ++ b) = linesOf a ++ linesOf b := by
  simp [linesOf]

/-- the fields still to come are good and new with respect to the fields already parsed -/
structure ItemsOK (G : Headers.Registry) (h0 : Headers.Coll) (its : List (Bytes × Bytes)) : Prop where
  keys : ∀ p ∈ its, Headers.KeyGood G p.1
  vals : ∀ p ∈ its, Headers.ValGood p.2
  distinct : (its.map (·.1)).Pairwise (· ≠ ·)
  fresh : ∀ p ∈ its, h0.get? p.1 = none

theorem get_append_none (h0 : Headers.Coll) (B : List (Bytes × Bytes)) (k : Bytes) (h1 : h0.get? k = none) (h2 : ∀ p ∈ B, p.1 ≠ k) :
    (h0 ++ B : Headers.Coll).get? k = none := by
  induction h0 with
  | nil => exact get_none_of_absent B k h2
  | cons e h0 ih =>
    simp only [Headers.Coll.get?] at h1
    split at h1
    · cases h1
    · rename_i hne
      simp only [List.cons_append, Headers.Coll.get?, hne, Bool.false_eq_true, if_false]
      exact ih h1

theorem ItemsOK.split {G : Headers.Registry} {h0 : Headers.Coll} {B its : List (Bytes × Bytes)} (h : ItemsOK G h0 (B ++ its)) :
    ItemsOK G h0 B ∧ ItemsOK G (h0 ++ B) its := by
  have hd := h.distinct
  rw [List.map_append, List.pairwise_append] at hd
  refine ⟨⟨fun p hp => h.keys p (by simp [hp]), fun p hp => h.vals p (by simp [hp]), hd.1, fun p hp => h.fresh p (by simp [hp])⟩,
    ⟨fun p hp => h.keys p (by simp [hp]), fun p hp => h.vals p (by simp [hp]), hd.2.1, ?_⟩⟩
  intro p hp
  apply get_append_none _ _ _ (h.fresh p (by simp [hp]))
  intro q hq
  exact hd.2.2 q.1 (List.mem_map.mpr ⟨q, hq, rfl⟩) p.1 (List.mem_map.mpr ⟨p, hp, rfl⟩)

theorem parse_block_acc (G : Headers.Registry) (h0 : Headers.Coll) (its : List (Bytes × Bytes)) (hne : its ≠ []) (h : ItemsOK G h0 its) :
    Headers.parse G h0 (Headers.block its) = .ok (h0 ++ its) := by
  unfold Headers.parse Headers.block
  have hl : Headers.splitCRLF (joinWith Headers.CRLFb (its.map Headers.fieldLine)) = its.map Headers.fieldLine :=
    Headers.splitCRLF_join _ (by simpa using hne) (by
      intro l hl
      obtain ⟨p, hp, rfl⟩ := List.mem_map.mp hl
      exact Headers.fieldLine_nocr G p (h.keys p hp) (h.vals p hp))
  simp only [hl]
  exact Headers.parseLines_items G its h0 _ (by simp) h.keys h.vals h.distinct h.fresh

theorem parseHeaderBlock_items (E : Env) (c : Cur) (its : List (Bytes × Bytes)) (hne : its ≠ []) (h : ItemsOK E.reg c.msg.headers its) :
    parseHeaderBlock E c (Headers.block its) = .ok { c with msg := { c.msg with headers := c.msg.headers ++ its } } := by
  unfold parseHeaderBlock
  have hbe : (Headers.block its).isEmpty = false := by
    obtain ⟨p, r, rfl⟩ := List.exists_cons_of_ne_nil hne
    cases r <;> simp [Headers.block, joinWith, Headers.fieldLine]
  simp only [hbe, Bool.false_eq_true, if_false, parse_block_acc E.reg c.msg.headers its hne h]
  rfl

/-- a field line is a piece without CR whose first octet is neither SP nor HT -/
theorem fieldLine_partial (G : Headers.Registry) (p : Bytes × Bytes) (hk : Headers.KeyGood G p.1) (hv : Headers.ValGood p.2) :
    Partial (Headers.fieldLine p) ∧ ∃ a t, Headers.fieldLine p = a :: t ∧ Headers.isSpTab a = false ∧ a ≠ 0x0D :=
  by
  refine ⟨⟨_, Headers.fieldLine_nocr G p hk hv, Or.inl rfl⟩, ?_⟩
  obtain ⟨a, t, ea⟩ := List.exists_cons_of_ne_nil hk.ne
  have e : Headers.fieldLine p = a :: (t ++ 0x3A :: 0x20 :: p.2) := by simp [Headers.fieldLine, ea]
  exact ⟨a, t ++ 0x3A :: 0x20 :: p.2, e, Headers.fieldLine_head G p hk a _ e, (Headers.fieldLine_nocr G p hk hv) a (by rw [e]; simp)⟩


/-! ### `_parse_single_headers` in closed form -/

def withHeaders (c : Cur) (B : List (Bytes × Bytes)) : Cur := { c with msg := { c.msg with headers := c.msg.headers ++ B } }

theorem withHeaders_nil (c : Cur) : withHeaders c [] = c := by simp [withHeaders]

theorem endsWith_append_self (y s : Bytes) : Element.endsWith (y ++ s) s = true := by
  unfold Element.endsWith
  rw [List.reverse_append]
  have : ∀ (a b : Bytes), startsWith (a ++ b) a = true := by
    intro a b
    induction a with
    | nil => cases b <;> rfl
    | cons x a ih => simp [startsWith, ih]
  exact this _ _

theorem block_no_trailing_cr (A : List (Bytes × Bytes)) : ∀ a', Headers.block A ++ CRLF ≠ a' ++ [0x0D] := by
  intro a' e
  have := congrArg List.getLast? e
  simp [CRLF] at this

/-- complete lines `A`, then a piece of the next line (or the CR of the empty line) -/
theorem parseSingle_partial (E : Env) (c : Cur) (hlf : c.lf = false) (A : List (Bytes × Bytes)) (part : Bytes)
    (hA : ItemsOK E.reg c.msg.headers A) (hp : Partial part) (a : Byte) (t : Bytes) (ha : part = a :: t)
    (hsp : Headers.isSpTab a = false) :
    parseSingleHeaders E c (linesOf A ++ part) = .ok (withHeaders c A, part) := by
  have hle : lineEnd c = CRLF := by simp [lineEnd, hlf]
  have hne : part ≠ [] := by rw [ha]; simp
  unfold parseSingleHeaders
  simp only [hle]
  by_cases hA0 : A = []
  · subst hA0
    simp only [linesOf, List.flatMap_nil, List.nil_append]
    have h1 : Element.endsWith part CRLF = false := by
      have := endsWith_crlf_partial [] part hp hne (by intro a' e; simp at e)
      simpa using this
    simp only [h1, Bool.false_eq_true, if_false, rsplitOnce_none part hp]
    simp [withHeaders]
  · rw [linesOf_block A hA0]
    have h1 : Element.endsWith (Headers.block A ++ CRLF ++ part) CRLF = false :=
      endsWith_crlf_partial (Headers.block A ++ CRLF) part hp hne (block_no_trailing_cr A)
    simp only [h1, Bool.false_eq_true, if_false, rsplitOnce_last (Headers.block A) part hp]
    have hbe : (Headers.block A).isEmpty = false := by
      obtain ⟨p, r, rfl⟩ := List.exists_cons_of_ne_nil hA0
      cases r <;> simp [Headers.block, joinWith, Headers.fieldLine]
    have ha9 : (a == 0x09) = false ∧ (a == 0x20) = false := by
      simp only [Headers.isSpTab, Bool.or_eq_false_iff] at hsp
      exact ⟨hsp.2, hsp.1⟩
    have hcond : (!(Headers.block A).isEmpty && true && !((part.head?).isNone || part.head? == some 0x09 || part.head? == some 0x20)) = true := by
      rw [ha]
      simp [hbe, ha9.1, ha9.2]
    simp only [hcond, if_true, parseHeaderBlock_items E c A hA0 hA]
    rfl

/-- complete lines only: the last one is kept back (the next line might continue it) -/
theorem parseSingle_complete (E : Env) (c : Cur) (hlf : c.lf = false) (A : List (Bytes × Bytes)) (p : Bytes × Bytes)
    (hA : ItemsOK E.reg c.msg.headers (A ++ [p])) :
    parseSingleHeaders E c (linesOf (A ++ [p])) = .ok (withHeaders c A, lineOf p) := by
  have hle : lineEnd c = CRLF := by simp [lineEnd, hlf]
  obtain ⟨hA1, hA2⟩ := hA.split
  obtain ⟨hpp, a, t, ea, hsp, _⟩ := fieldLine_partial E.reg p (hA.keys p (by simp)) (hA.vals p (by simp))
  have ex : linesOf (A ++ [p]) = (linesOf A ++ Headers.fieldLine p) ++ CRLF := by
    simp [linesOf_append, linesOf, lineOf]
  unfold parseSingleHeaders
  simp only [hle]
  rw [ex]
  have h1 := endsWith_append_self (linesOf A ++ Headers.fieldLine p) CRLF
  have htake : (linesOf A ++ Headers.fieldLine p ++ CRLF).take ((linesOf A ++ Headers.fieldLine p ++ CRLF).length - CRLF.length) =
      linesOf A ++ Headers.fieldLine p := by
    have : (linesOf A ++ Headers.fieldLine p ++ CRLF).length - CRLF.length = (linesOf A ++ Headers.fieldLine p).length := by
      simp [CRLF]; omega
    rw [this, List.take_left']
    rfl
  simp only [h1, if_true, htake]
  by_cases hA0 : A = []
  · subst hA0
    simp only [linesOf, List.flatMap_nil, List.nil_append, rsplitOnce_none _ hpp]
    simp [withHeaders, lineOf]
  · rw [linesOf_block A hA0, rsplitOnce_last (Headers.block A) (Headers.fieldLine p) hpp]
    have hbe : (Headers.block A).isEmpty = false := by
      obtain ⟨q, r, rfl⟩ := List.exists_cons_of_ne_nil hA0
      cases r <;> simp [Headers.block, joinWith, Headers.fieldLine]
    have ha9 : (a == 0x09) = false ∧ (a == 0x20) = false := by
      simp only [Headers.isSpTab, Bool.or_eq_false_iff] at hsp
      exact ⟨hsp.2, hsp.1⟩
    have hcond : (!(Headers.block A).isEmpty && true && !(((Headers.fieldLine p ++ CRLF).head?).isNone ||
        (Headers.fieldLine p ++ CRLF).head? == some 0x09 || (Headers.fieldLine p ++ CRLF).head? == some 0x20)) = true := by
      rw [ea]
      simp [hbe, ha9.1, ha9.2]
    simp only [hcond, if_true, parseHeaderBlock_items E c A hA0 hA1]
    rfl

theorem parseSingle_nil (E : Env) (c : Cur) (hlf : c.lf = false) : parseSingleHeaders E c [] = .ok (c, []) := by
  have hle : lineEnd c = CRLF := by simp [lineEnd, hlf]
  unfold parseSingleHeaders
  simp only [hle]
  have h1 : Element.endsWith [] CRLF = false := by decide
  have h2 : rsplitOnce CRLF [] = none := by decide
  simp [h1, h2]


/-! ### every proper prefix of a header section -/

theorem prefix_of_line (u x c' : Bytes) (hu : Clean 0x0D u) (h : x ++ c' = u ++ CRLF) (hc : c' ≠ []) : Partial x := by
  rcases List.append_eq_append_iff.mp h with ⟨a', e1, e2⟩ | ⟨d, e1, e2⟩
  · -- x is a prefix of u
    exact ⟨x, fun b hb => hu b (by rw [e1]; simp [hb]), Or.inl rfl⟩
  · -- x = u ++ d, d ++ c' = CRLF
    have hd : d = [] ∨ d = [0x0D] := by
      have hlen := congrArg List.length e2
      simp only [CRLF, List.length_cons, List.length_nil, List.length_append] at hlen
      have hcl : 0 < c'.length := List.length_pos_iff.mpr hc
      match d, e2 with
      | [], _ => exact Or.inl rfl
      | [a], e2 =>
        right
        simp only [CRLF, List.cons_append, List.nil_append] at e2
        injection e2 with e2 _
        rw [e2]
      | a :: b :: r, e2 =>
        simp only [List.length_cons] at hlen
        omega
    rcases hd with rfl | rfl
    · exact ⟨u, hu, Or.inl (by simpa using e1)⟩
    · exact ⟨u, hu, Or.inr e1⟩

theorem prefix_shape (G : Headers.Registry) (its : List (Bytes × Bytes)) (hk : ∀ p ∈ its, Headers.KeyGood G p.1)
    (hv : ∀ p ∈ its, Headers.ValGood p.2) (x z : Bytes) (h : x ++ z = hsec its) (hz : z ≠ []) :
    ∃ (A B : List (Bytes × Bytes)) (part : Bytes), its = A ++ B ∧ x = linesOf A ++ part ∧ Partial part ∧ part ++ z = hsec B ∧
      (part = [] ∨ ∃ a t, part = a :: t ∧ Headers.isSpTab a = false) := by
  induction its generalizing x with
  | nil =>
    refine ⟨[], [], x, rfl, by simp [linesOf], ?_, h, ?_⟩
    · exact prefix_of_line [] x z (by intro b hb; cases hb) (by simpa [hsec, linesOf] using h) hz
    · have hp := prefix_of_line [] x z (by intro b hb; cases hb) (by simpa [hsec, linesOf] using h) hz
      obtain ⟨u, hu, e | e⟩ := hp
      · -- x has no CR and is a prefix of CRLF: empty
        left
        cases hx : x with
        | nil => rfl
        | cons a t =>
          exfalso
          rw [hx] at h
          simp only [hsec, linesOf, List.flatMap_nil, List.nil_append, CRLF, List.cons_append] at h
          injection h with h1 _
          have := hu a (by rw [← e, hx]; simp)
          exact this h1
      · cases hx : x with
        | nil => exact Or.inl rfl
        | cons a t =>
          right
          rw [hx] at h
          simp only [hsec, linesOf, List.flatMap_nil, List.nil_append, CRLF, List.cons_append] at h
          injection h with h1 _
          exact ⟨a, t, rfl, by rw [h1]; decide⟩
  | cons p its ih =>
    have e0 : hsec (p :: its) = lineOf p ++ hsec its := by simp [hsec, linesOf]
    rw [e0] at h
    obtain ⟨hpp, a, t, ea, hsp, hcr⟩ := fieldLine_partial G p (hk p (by simp)) (hv p (by simp))
    rcases List.append_eq_append_iff.mp h with ⟨c', e1, e2⟩ | ⟨a', e1, e2⟩
    · by_cases hc : c' = []
      · subst hc
        simp only [List.append_nil, List.nil_append] at e1 e2
        obtain ⟨A, B, part, hits, hx, hpart, hrest, hfirst⟩ := ih (fun q hq => hk q (by simp [hq])) (fun q hq => hv q (by simp [hq])) [] (by simpa using e2)
        refine ⟨p :: A, B, part, by simp [hits], ?_, hpart, hrest, hfirst⟩
        have h0 : linesOf A ++ part = [] := hx.symm
        have e3 : linesOf (p :: A) = lineOf p ++ linesOf A := by simp [linesOf]
        rw [← e1, e3, List.append_assoc, h0, List.append_nil]
      · -- inside the first line
        have hpx : Partial x := prefix_of_line (Headers.fieldLine p) x c' (Headers.fieldLine_nocr G p (hk p (by simp)) (hv p (by simp))) e1.symm hc
        refine ⟨[], p :: its, x, rfl, by simp [linesOf], hpx, by rw [e0, e1, e2]; simp, ?_⟩
        cases hx : x with
        | nil => exact Or.inl rfl
        | cons b r =>
          right
          rw [hx, lineOf, ea] at e1
          simp only [List.cons_append] at e1
          injection e1 with e1 _
          exact ⟨b, r, rfl, by rw [← e1]; exact hsp⟩
    · -- the first line is complete
      obtain ⟨A, B, part, hits, hx, hpart, hrest, hfirst⟩ := ih (fun q hq => hk q (by simp [hq])) (fun q hq => hv q (by simp [hq])) a' e2.symm
      exact ⟨p :: A, B, part, by simp [hits], by rw [e1, hx]; simp [linesOf], hpart, hrest, hfirst⟩


/-! ### `parse_headers` on a header section that has arrived in part, and in full -/

theorem hsec_cons (p : Bytes × Bytes) (its : List (Bytes × Bytes)) : hsec (p :: its) = lineOf p ++ hsec its := by simp [hsec, linesOf]

theorem hsec_block (its : List (Bytes × Bytes)) (hne : its ≠ []) : hsec its = Headers.block its ++ (CRLF ++ CRLF) := by
  rw [hsec, linesOf_block its hne]; simp

theorem items_lines_good (G : Headers.Registry) (its : List (Bytes × Bytes)) (hk : ∀ p ∈ its, Headers.KeyGood G p.1)
    (hv : ∀ p ∈ its, Headers.ValGood p.2) : ∀ l ∈ its.map Headers.fieldLine, l ≠ [] ∧ Clean 0x0D l := by
  intro l hl
  obtain ⟨p, hp, rfl⟩ := List.mem_map.mp hl
  exact ⟨by simp [Headers.fieldLine], Headers.fieldLine_nocr G p (hk p hp) (hv p hp)⟩

/-- a proper prefix of a header section has no empty line -/
theorem prefix_no_dbl (G : Headers.Registry) (its : List (Bytes × Bytes)) (hk : ∀ p ∈ its, Headers.KeyGood G p.1)
    (hv : ∀ p ∈ its, Headers.ValGood p.2) (x z : Bytes) (h : x ++ z = hsec its) (hz : z ≠ []) :
    splitOnce (CRLF ++ CRLF) x = none := by
  have hc : contains x (CRLF ++ CRLF) = false := by
    by_cases hne : its = []
    · subst hne
      have hx : x = [] ∨ x = [0x0D] := by
        simp only [hsec, linesOf, List.flatMap_nil, List.nil_append] at h
        have hlen := congrArg List.length h
        simp only [CRLF, List.length_cons, List.length_nil, List.length_append] at hlen
        have hzl : 0 < z.length := List.length_pos_iff.mpr hz
        match x, h with
        | [], _ => exact Or.inl rfl
        | [a], h =>
          right
          simp only [CRLF, List.cons_append, List.nil_append] at h
          injection h with h _
          rw [h]
        | a :: b :: r, h => simp only [List.length_cons] at hlen; omega
      rcases hx with rfl | rfl <;> decide
    · -- x is a prefix of block ++ CR LF CR
      obtain ⟨z', zl, ez⟩ : ∃ z' zl, z = z' ++ [zl] := by
        rcases List.eq_nil_or_concat z with h0 | ⟨w, y, h0⟩
        · exact absurd h0 hz
        · exact ⟨w, y, by simpa using h0⟩
      have hpre : x ++ z' = Headers.block its ++ [0x0D, 0x0A, 0x0D] := by
        rw [hsec_block its hne, ez] at h
        have e : Headers.block its ++ (CRLF ++ CRLF) = (Headers.block its ++ [0x0D, 0x0A, 0x0D]) ++ [0x0A] := by simp [CRLF]
        rw [e, ← List.append_assoc] at h
        exact (List.append_inj' h rfl).1
      cases hcx : contains x (CRLF ++ CRLF) with
      | false => rfl
      | true =>
        exfalso
        have h1 := contains_append x z' (CRLF ++ CRLF) (by decide) hcx
        rw [hpre] at h1
        have hL : its.map Headers.fieldLine ≠ [] := by simpa using hne
        have h2 := contains_of_noDbl _ (lines_noDbl _ hL (items_lines_good G its hk hv))
        have e : Headers.block its = joinWith CRLF (its.map Headers.fieldLine) := rfl
        rw [e] at h1
        rw [h2] at h1; cases h1
  unfold contains at hc
  cases hs : splitOnce (CRLF ++ CRLF) x with
  | none => rfl
  | some q => rw [hs] at hc; simp at hc

/-- **a header section that has arrived in part**: `parse_headers` waits, having parsed some complete lines `A` into the
    collection and kept the rest `rem` — and what is still to come after `rem` is exactly the section of the other fields -/
theorem parseHeaders_prefix (E : Env) (c : Cur) (hlf : c.lf = false) (its : List (Bytes × Bytes)) (hI : ItemsOK E.reg c.msg.headers its)
    (x z : Bytes) (h : x ++ z = hsec its) (hz : z ≠ []) :
    ∃ (A B : List (Bytes × Bytes)) (rem : Bytes), its = A ++ B ∧ parseHeaders E c x = .ok (.wait (withHeaders c A) rem) ∧ rem ++ z = hsec B := by
  obtain ⟨A, B, part, hits, hx, hpart, hrest, hfirst⟩ := prefix_shape E.reg its hI.keys hI.vals x z h hz
  have hle : lineEnd c = CRLF := by simp [lineEnd, hlf]
  have hIA : ItemsOK E.reg c.msg.headers A := (hits ▸ hI).split.1
  -- no empty line yet, and the buffer does not start with one
  have hnd := prefix_no_dbl E.reg its hI.keys hI.vals x z h hz
  have hst : startsWith x CRLF = false := by
    rw [hx]
    cases hA : A with
    | nil =>
      simp only [linesOf, List.flatMap_nil, List.nil_append]
      rcases hfirst with rfl | ⟨a, t, rfl, _⟩
      · rfl
      · obtain ⟨u, hu, e | e⟩ := hpart
        · have : a ≠ 0x0D := hu a (by rw [← e]; simp)
          have : (a == 0x0D) = false := by simpa using this
          simp [startsWith, CRLF, this]
        · -- a :: t = u ++ [CR]
          cases u with
          | nil => simp at e; obtain ⟨rfl, rfl⟩ := e; decide
          | cons b u =>
            simp only [List.cons_append] at e
            injection e with e1 _
            have : b ≠ 0x0D := hu b (by simp)
            have : (a == 0x0D) = false := by rw [e1]; simpa using this
            simp [startsWith, CRLF, this]
    | cons q A' =>
      obtain ⟨_, a, t, ea, _, hcr⟩ := fieldLine_partial E.reg q (hI.keys q (by rw [hits, hA]; simp)) (hI.vals q (by rw [hits, hA]; simp))
      have : (a == 0x0D) = false := by simpa using hcr
      simp [linesOf, lineOf, ea, startsWith, CRLF, this]
  have hunf : parseHeaders E c x = match parseSingleHeaders E c x with
      | .error e => .error e
      | .ok (c', b') => .ok (.wait c' b') := by
    unfold parseHeaders
    simp only [hle, hst, Bool.false_eq_true, if_false, hnd]
    rfl
  rcases hfirst with rfl | ⟨a, t, ha, hsp⟩
  · -- only complete lines so far
    simp only [List.append_nil] at hx
    rcases List.eq_nil_or_concat A with hA | ⟨A0, q, hA⟩
    · subst hA
      refine ⟨[], B, [], hits, ?_, hrest⟩
      rw [hunf, hx]
      simp only [linesOf, List.flatMap_nil, parseSingle_nil E c hlf, withHeaders_nil]
    · have hA' : A = A0 ++ [q] := by simpa using hA
      subst hA'
      refine ⟨A0, q :: B, lineOf q, by rw [hits]; simp, ?_, ?_⟩
      · rw [hunf, hx, parseSingle_complete E c hlf A0 q hIA]
      · rw [hsec_cons]
        simpa using congrArg (lineOf q ++ ·) hrest
  · refine ⟨A, B, part, hits, ?_, hrest⟩
    rw [hunf, hx, parseSingle_partial E c hlf A part hIA hpart a t ha hsp]

/-- **a header section that has arrived in full** (whatever follows it) -/
theorem parseHeaders_full (E : Env) (c : Cur) (hlf : c.lf = false) (its : List (Bytes × Bytes)) (hI : ItemsOK E.reg c.msg.headers its)
    (tail : Bytes) : parseHeaders E c (hsec its ++ tail) = .ok (.done (withHeaders c its) tail) := by
  have hle : lineEnd c = CRLF := by simp [lineEnd, hlf]
  by_cases hne : its = []
  · subst hne
    unfold parseHeaders
    have hs : startsWith (hsec [] ++ tail) CRLF = true := by simp [hsec, linesOf, CRLF, startsWith]
    simp only [hle, hs, if_true, withHeaders_nil]
    simp [hsec, linesOf, CRLF]
  · unfold parseHeaders
    have hL : its.map Headers.fieldLine ≠ [] := by simpa using hne
    have hlines := items_lines_good E.reg its hI.keys hI.vals
    have hstart := lines_start _ hL hlines
    have hnd := contains_of_noDbl _ (lines_noDbl _ hL hlines)
    have eb : Headers.block its = joinWith CRLF (its.map Headers.fieldLine) := rfl
    have hst : startsWith (hsec its ++ tail) CRLF = false := by
      cases hh : startsWith (hsec its ++ tail) CRLF with
      | false => rfl
      | true =>
        exfalso
        rw [hsec_block its hne] at hh
        have e : Headers.block its ++ (CRLF ++ CRLF) ++ tail = (Headers.block its ++ CRLF) ++ (CRLF ++ tail) := by simp
        rw [e] at hh
        have := startsWith_of_append _ _ _ hh (by simp [CRLF])
        rw [eb, hstart.1] at this; cases this
    simp only [hle, hst, Bool.false_eq_true, if_false]
    rw [hsec_block its hne, splitOnce_first (CRLF ++ CRLF) (Headers.block its) tail (by decide) (by rw [eb]; simpa [CRLF] using hnd)]
    simp only [parseHeaderBlock_items E c its hne hI]
    rfl


theorem withHeaders_append (c : Cur) (A B : List (Bytes × Bytes)) : withHeaders (withHeaders c A) B = withHeaders c (A ++ B) := by
  simp [withHeaders, List.append_assoc]

/-- **C01 for the header section**: a header section as a writer puts it on the wire (fields with pairwise different
    canonical names, values without CR and outer white space), followed by anything, cut at ANY point — inside a name,
    inside a value, between CR and LF, inside the empty line, after it: parsing the first piece and then the rest gives
    the same result as parsing everything at once -/
theorem headers_fragmentation (E : Env) (c : Cur) (hlf : c.lf = false) (its : List (Bytes × Bytes)) (hI : ItemsOK E.reg c.msg.headers its)
    (tail x y : Bytes) (h : x ++ y = hsec its ++ tail) :
    parseHeaders E c (x ++ y) = resume (parseHeaders E) (parseHeaders E c x) y := by
  rw [h, parseHeaders_full E c hlf its hI tail]
  rcases List.append_eq_append_iff.mp h with ⟨z, e1, e2⟩ | ⟨t1, e1, e2⟩
  · by_cases hz : z = []
    · subst hz
      simp only [List.append_nil, List.nil_append] at e1 e2
      rw [← e1, show hsec its = hsec its ++ [] by simp, parseHeaders_full E c hlf its hI [], e2]
      simp [resume]
    · -- the cut is inside the section
      obtain ⟨A, B, rem, hits, hw, hrest⟩ := parseHeaders_prefix E c hlf its hI x z e1.symm hz
      rw [hw]
      simp only [resume]
      have hIB : ItemsOK E.reg (withHeaders c A).msg.headers B := (hits ▸ hI).split.2
      rw [e2, ← List.append_assoc, hrest, parseHeaders_full E (withHeaders c A) hlf B hIB tail, withHeaders_append, hits]
  · rw [e1, parseHeaders_full E c hlf its hI t1]
    simp [resume, e2]

end Httoop.Parser
