import Httoop.Model.Percent
import Httoop.Proofs.Bytes
import Httoop.Gen.Tables
/-
  C13 — percent-encoding is an exact inverse (the octet-level part).

  Full statement (`unquote (quote safe s) = s` for every `s`) is FALSE of the code as it stands
  (finding F1, `%X` instead of `%02X`): `c13_witness`.  Proved: the statement for every safe set
  and every octet string whose escaped octets are ≥ 0x10 (`unquote_quote_partial`), and the full
  statement for the `%02X` variant (`unquote_quote_fixed`).
-/
namespace Httoop.Percent
open Httoop

theorem unquote_cons_ne (a : Byte) (r : Bytes) (h : a ≠ 0x25) : unquote (a :: r) = a :: unquote r := by
  match r with
  | [] => simp [unquote]
  | [b] => simp [unquote]
  | b :: c :: rest =>
    have : (a == 0x25) = false := by simpa using h
    simp [unquote, this]

theorem unquote_escape (b c : Byte) (r : Bytes) (hb : isHexDigit b = true) (hc : isHexDigit c = true) :
    unquote (0x25 :: b :: c :: r) = (hexVal b * 16 + hexVal c) :: unquote r := by
  simp [unquote, hb, hc]

/-- The guard of the partial theorem: every octet that gets escaped is at least 0x10. -/
def Escapable (safe : Byte → Bool) (s : Bytes) : Prop := ∀ b ∈ s, isSafe safe b = true ∨ ¬ b < 0x10

instance (safe : Byte → Bool) (s : Bytes) : Decidable (Escapable safe s) := by unfold Escapable; infer_instance

theorem unquote_quote_partial (safe : Byte → Bool) (s : Bytes) (h : Escapable safe s) :
    unquote (quote safe s) = s := by
  induction s with
  | nil => simp [quote, unquote]
  | cons b s ih =>
    have hb := h b (by simp)
    have hs : Escapable safe s := fun x hx => h x (by simp [hx])
    have ih' := ih hs
    simp only [quote, List.flatMap_cons] at ih' ⊢
    by_cases hsafe : isSafe safe b = true
    · have hne : b ≠ 0x25 := by
        intro e; subst e; simp [isSafe] at hsafe
      simp only [quoteByte, hsafe, if_true, List.singleton_append]
      rw [unquote_cons_ne _ _ hne, ih']
    · have hge : ¬ b < 0x10 := by
        cases hb with
        | inl h1 => exact absurd h1 hsafe
        | inr h2 => exact h2
      simp only [quoteByte, hsafe, fmtX, hge, if_false, List.cons_append, List.nil_append, Bool.false_eq_true]
      rw [unquote_escape _ _ _ (hexDigitU_isHex_hi b) (hexDigitU_isHex_lo b), hex_roundtrip_upper, ih']

/-- After the `%02X` repair the statement holds for every octet string and every safe set. -/
theorem unquote_quote_fixed (safe : Byte → Bool) (s : Bytes) : unquote (quoteFixed safe s) = s := by
  induction s with
  | nil => simp [quoteFixed, unquote]
  | cons b s ih =>
    simp only [quoteFixed, List.flatMap_cons] at ih ⊢
    by_cases hsafe : isSafe safe b = true
    · have hne : b ≠ 0x25 := by
        intro e; subst e; simp [isSafe] at hsafe
      simp only [quoteByteFixed, hsafe, if_true, List.singleton_append]
      rw [unquote_cons_ne _ _ hne, ih]
    · simp only [quoteByteFixed, hsafe, fmt02X, if_false, List.cons_append, List.nil_append, Bool.false_eq_true]
      rw [unquote_escape _ _ _ (hexDigitU_isHex_hi b) (hexDigitU_isHex_lo b), hex_roundtrip_upper, ih]

/-- "the encoded string contains only safe characters and well-formed two-digit escapes" -/
def wellFormed (safe : Byte → Bool) : Bytes → Bool
  | [] => true
  | [a] => isSafe safe a
  | [a, b] => isSafe safe a && isSafe safe b
  | a :: b :: c :: rest =>
    if a == 0x25 then isHexDigit b && isHexDigit c && wellFormed safe rest
    else isSafe safe a && wellFormed safe (b :: c :: rest)

theorem wellFormed_cons_safe (safe : Byte → Bool) (a : Byte) (r : Bytes) (h : isSafe safe a = true) :
    wellFormed safe (a :: r) = wellFormed safe r := by
  have hne : (a == 0x25) = false := by
    cases hh : a == 0x25
    · rfl
    · have : a = 0x25 := by simpa using hh
      subst this; simp [isSafe] at h
  match r with
  | [] => simp [wellFormed, h]
  | [b] => simp [wellFormed, h]
  | b :: c :: rest => simp [wellFormed, h, hne]

theorem quote_alphabet_partial (safe : Byte → Bool) (s : Bytes) (h : Escapable safe s) :
    wellFormed safe (quote safe s) = true := by
  induction s with
  | nil => simp [quote, wellFormed]
  | cons b s ih =>
    have hb := h b (by simp)
    have ih' := ih (fun x hx => h x (by simp [hx]))
    simp only [quote, List.flatMap_cons] at ih' ⊢
    by_cases hsafe : isSafe safe b = true
    · simp only [quoteByte, hsafe, if_true, List.singleton_append]
      rw [wellFormed_cons_safe _ _ _ hsafe, ih']
    · have hge : ¬ b < 0x10 := by
        cases hb with
        | inl h1 => exact absurd h1 hsafe
        | inr h2 => exact h2
      simp only [quoteByte, hsafe, fmtX, hge, if_false, List.cons_append, List.nil_append, Bool.false_eq_true]
      simp [wellFormed, hexDigitU_isHex_hi b, hexDigitU_isHex_lo b, ih']

/-! ### T1: the model against the regenerated tables (re-checked on every run) -/

/-- The model's single-octet `quote` equals the probe of the real `Percent.quote` on all 256 octets
    (empty safe set). -/
theorem quote_probe_none :
    (List.range 256).map (fun n => quoteByte (fun _ => false) (UInt8.ofNat n)) = Gen.pctQuoteProbeNone := by
  decide +kernel

/-- … and with the default safe set `UNRESERVED`. -/
theorem quote_probe_unreserved :
    (List.range 256).map (fun n => quoteByte (memSet Gen.pctUNRESERVED) (UInt8.ofNat n)) = Gen.pctQuoteProbeUnreserved := by
  decide +kernel

/-- all octets that are hexadecimal digits, ascending -/
def hexDigits : List Byte := ((List.range 256).map UInt8.ofNat).filter isHexDigit

/-- `HEX_MAP` is exactly the model's escape recogniser: its (sorted) items are precisely all pairs of
    hexadecimal digits, each mapped to the octet the model computes. -/
theorem hexmap_is_hex :
    Gen.pctHexMap = hexDigits.flatMap (fun a => hexDigits.map fun b => (a, b, hexVal a * 16 + hexVal b)) := by
  decide +kernel

/-- The seven safe sets (and the two form sets) are ASCII; the form sets never let `&`, `=`, `+`
    through raw; the only `quote` format constant in the source is `%%%X`. -/
theorem safe_sets_wellformed :
    [Gen.pctUNRESERVED, Gen.pctSCHEME, Gen.pctPCHAR, Gen.pctUSERINFO, Gen.pctPATH, Gen.pctQUERY, Gen.pctFRAGMENT,
      Gen.formUNQUOTED, Gen.queryUNQUOTED].all (fun s => s.all (· < 0x80)) = true
    ∧ [Gen.formUNQUOTED, Gen.queryUNQUOTED].all (fun s => !s.contains 0x26 && !s.contains 0x3D && !s.contains 0x2B) = true
    ∧ Gen.pctQuoteConstants = [[0x25], [], [0x25, 0x25, 0x25, 0x58]] := by
  refine ⟨?_, ?_, ?_⟩ <;> decide +kernel

/-- Finding F1 on the model: a line feed does not survive. -/
theorem c13_witness : unquote (quote (fun _ => false) [0x0A]) ≠ [0x0A] := by decide

/-- non-vacuity: a string with escaped, safe and `%` octets meets the guard -/
example : Escapable (fun b => isAlnum b) [0x41, 0x20, 0x25, 0xFF, 0x7A] := by
  intro b hb; simp at hb; rcases hb with h | h | h | h | h <;> subst h <;> decide

end Httoop.Percent
