import Httoop.Model.Date
import Httoop.Proofs.Bytes
/-
  C15 — HTTP dates are canonical, round-trip and do not depend on the local time zone.

  Proved for every whole second in [0, 253402300799]: the calendar functions are inverse
  (`civil_roundtrip`, for every day without upper bound), the composed text has the fixed IMF-fixdate
  shape (`compose_shape`), parsing it gives back the instant (`date_roundtrip`), the weekday advances
  with the days from Thursday 1970-01-01 (`weekday_correct`), equal texts mean equal instants
  (`compare_agrees`).  The RFC 850 / asctime forms are checked by kernel evaluation on the RFC example
  and by the correspondence on every generated instant; their general round trip is not a theorem yet.
  Time zone, DST and locale do not occur in the model; the correspondence enforces that on the code.
-/
namespace Httoop.Date
open Httoop

theorem yearStart_def (y : Nat) : yearStart y = 365 * y + y / 4 - y / 100 := rfl


/-- the arithmetic of one era day, with the year and its first day as parameters -/
theorem era_arith (doe yoe ys mp d m : Nat) (hys : ys = 365 * yoe + yoe / 4 - yoe / 100)
    (y1 : yoe < 400) (y2 : ys ≤ doe) (y3 : doe - ys ≤ 365)
    (hmp : mp = (5 * (doe - ys) + 2) / 153) (hd : d = doe - ys - (153 * mp + 2) / 5 + 1)
    (hm : m = if mp < 10 then mp + 3 else mp - 9) :
    1 ≤ m ∧ m ≤ 12 ∧ 1 ≤ d ∧ d ≤ 31
    ∧ ys + ((153 * (if m > 2 then m - 3 else m + 9) + 2) / 5 + d - 1) = doe
    ∧ (doe ≤ 146036 → yoe = 399 → 2 < m)
    ∧ (135080 ≤ doe → yoe < 370 → yoe = 369 ∧ m ≤ 2) := by
  have hmf := month_fact (doe - ys) y3
  simp only [] at hmf
  rw [← hmp] at hmf
  obtain ⟨m1, m2, m3, m4, m5⟩ := hmf
  by_cases hlt : mp < 10
  · rw [if_pos hlt] at hm
    have e1 : m > 2 := by omega
    rw [if_pos e1]
    refine ⟨by omega, by omega, by omega, by omega, by omega, fun _ _ => by omega, fun h1 h2 => ?_⟩
    exfalso; omega
  · rw [if_neg hlt] at hm
    have e1 : ¬ m > 2 := by omega
    rw [if_neg e1]
    refine ⟨by omega, by omega, by omega, by omega, by omega, fun h1 h2 => ?_, fun h1 h2 => ⟨by omega, by omega⟩⟩
    exfalso; omega

/-- everything the proofs need to know about one day of an era (year: complete enumeration in
    `Httoop/Calendar.lean`; month and day: linear arithmetic) -/
theorem era_facts (doe : Nat) (hd : doe < 146097) :
    (civilOfDoe doe).1 < 400 ∧ 1 ≤ (civilOfDoe doe).2.1 ∧ (civilOfDoe doe).2.1 ≤ 12
    ∧ 1 ≤ (civilOfDoe doe).2.2 ∧ (civilOfDoe doe).2.2 ≤ 31
    ∧ doeOfCivil (civilOfDoe doe).1 (civilOfDoe doe).2.1 (civilOfDoe doe).2.2 = doe
    ∧ (doe ≤ 146036 → (civilOfDoe doe).1 = 399 → 2 < (civilOfDoe doe).2.1)
    ∧ (135080 ≤ doe → (civilOfDoe doe).1 < 370 → (civilOfDoe doe).1 = 369 ∧ (civilOfDoe doe).2.1 ≤ 2) := by
  obtain ⟨y1, y2, y3⟩ := year_fact doe hd
  obtain ⟨h1, h2, h3, h4, h5, h6, h7⟩ :=
    era_arith doe (yoeOf doe) (yearStart (yoeOf doe))
      ((5 * (doe - yearStart (yoeOf doe)) + 2) / 153)
      (doe - yearStart (yoeOf doe) - (153 * ((5 * (doe - yearStart (yoeOf doe)) + 2) / 153) + 2) / 5 + 1)
      (if (5 * (doe - yearStart (yoeOf doe)) + 2) / 153 < 10 then (5 * (doe - yearStart (yoeOf doe)) + 2) / 153 + 3
        else (5 * (doe - yearStart (yoeOf doe)) + 2) / 153 - 9)
      (yearStart_def _) y1 y2 y3 rfl rfl rfl
  simp only [civilOfDoe, doeOfCivil]
  exact ⟨y1, h1, h2, h3, h4, h5, h6, h7⟩

/-! ### the calendar -/

/-- **`timegm ∘ gmtime` is the identity on days** (every day from the epoch on, no upper bound) -/
theorem civil_roundtrip (z : Nat) : daysFromCivil (civilFromDays z) = z := by
  have hdoe : (z + 719468) % 146097 < 146097 := Nat.mod_lt _ (by omega)
  obtain ⟨h1, h2, h3, h4, h5, h6, _, _⟩ := era_facts _ hdoe
  unfold daysFromCivil civilFromDays
  simp only []
  by_cases hm : (civilOfDoe ((z + 719468) % 146097)).2.1 ≤ 2
  · simp only [hm, if_true]
    have e1 : ((civilOfDoe ((z + 719468) % 146097)).1 + (z + 719468) / 146097 * 400 + 1 - 1) / 400 = (z + 719468) / 146097 := by omega
    have e2 : ((civilOfDoe ((z + 719468) % 146097)).1 + (z + 719468) / 146097 * 400 + 1 - 1) % 400 = (civilOfDoe ((z + 719468) % 146097)).1 := by omega
    rw [e1, e2, h6]
    omega
  · simp only [hm, if_false]
    have e1 : ((civilOfDoe ((z + 719468) % 146097)).1 + (z + 719468) / 146097 * 400 + 0) / 400 = (z + 719468) / 146097 := by omega
    have e2 : ((civilOfDoe ((z + 719468) % 146097)).1 + (z + 719468) / 146097 * 400 + 0) % 400 = (civilOfDoe ((z + 719468) % 146097)).1 := by omega
    rw [e1, e2, h6]
    omega

/-- month and day are in range, and the year is 1970–9999 for every instant up to 9999-12-31T23:59:59 -/
theorem civil_ranges (z : Nat) (hz : z ≤ 2932896) :
    1 ≤ (civilFromDays z).m ∧ (civilFromDays z).m ≤ 12 ∧ 1 ≤ (civilFromDays z).d ∧ (civilFromDays z).d ≤ 31
    ∧ 1970 ≤ (civilFromDays z).y ∧ (civilFromDays z).y ≤ 9999 := by
  have hdoe : (z + 719468) % 146097 < 146097 := Nat.mod_lt _ (by omega)
  obtain ⟨h1, h2, h3, h4, h5, h6, h7, h8⟩ := era_facts _ hdoe
  simp only [civilFromDays]
  refine ⟨h2, h3, h4, h5, ?_, ?_⟩
  · by_cases he : (z + 719468) / 146097 ≥ 5
    · split <;> omega
    · have hera : (z + 719468) / 146097 = 4 := by omega
      have hdoe2 : 135080 ≤ (z + 719468) % 146097 := by omega
      by_cases hy : (civilOfDoe ((z + 719468) % 146097)).1 < 370
      · obtain ⟨e1, e2⟩ := h8 hdoe2 hy
        simp only [e2, if_true]; omega
      · split <;> omega
  · by_cases he : (z + 719468) / 146097 ≤ 23
    · split <;> omega
    · have hera : (z + 719468) / 146097 = 24 := by omega
      have hdoe2 : (z + 719468) % 146097 ≤ 146036 := by omega
      by_cases hy : (civilOfDoe ((z + 719468) % 146097)).1 = 399
      · have := h7 hdoe2 hy
        have hm : ¬ (civilOfDoe ((z + 719468) % 146097)).2.1 ≤ 2 := by omega
        simp only [hm, if_false]; omega
      · split <;> omega

/-! ### digits -/

theorem dval_digit (n : Nat) : dval (digit n) = some (n % 10) := by
  have : ∀ k : Fin 10, dval (UInt8.ofNat (0x30 + k.val)) = some k.val := by decide
  exact this ⟨n % 10, Nat.mod_lt _ (by omega)⟩

theorem num2_pad2 (n : Nat) (h : n < 100) : num2 (digit (n / 10)) (digit n) = some n := by
  simp only [num2, dval_digit, Option.bind_eq_bind, Option.bind_some, Option.pure_def]
  congr 1; omega

theorem num4_pad4 (n : Nat) (h : n < 10000) :
    num4 (digit (n / 1000)) (digit (n / 100)) (digit (n / 10)) (digit n) = some n := by
  simp only [num4, dval_digit, Option.bind_eq_bind, Option.bind_some, Option.pure_def]
  congr 1; omega

theorem hms_roundtrip (secs : Nat) (h : secs < 86400) :
    parseHms (hms secs) = some (secs / 3600, secs / 60 % 60, secs % 60) := by
  simp only [hms, pad2, List.cons_append, List.nil_append, parseHms]
  rw [num2_pad2 _ (by omega), num2_pad2 _ (by omega), num2_pad2 _ (by omega)]
  have : (decide (secs / 3600 < 24) && decide (secs / 60 % 60 < 60) && decide (secs % 60 < 62)) = true := by
    simp only [Bool.and_eq_true, decide_eq_true_eq]; omega
  simp only [Option.bind_eq_bind, Option.bind_some, Option.pure_def]
  rw [if_pos this]

def monthOk (k : Nat) : Bool :=
  match monthNames.getD k [] with
  | [a, b, c] => monthIndex [a, b, c] == some (k + 1)
  | _ => false

theorem month_name (m : Nat) (h1 : 1 ≤ m) (h2 : m ≤ 12) :
    ∃ a b c, monthNames.getD (m - 1) [] = [a, b, c] ∧ monthIndex [a, b, c] = some m := by
  have : ∀ k : Fin 12, monthOk k.val = true := by decide +kernel
  have := this ⟨m - 1, by omega⟩
  simp only [monthOk] at this
  split at this
  · rename_i a b c e
    have e2 : m - 1 + 1 = m := by omega
    exact ⟨a, b, c, e, by simpa [e2] using this⟩
  · cases this

def dayOk (k : Nat) : Bool :=
  match dayNames.getD k [] with
  | [a, b, c] => isAlpha a && isAlpha b && isAlpha c
  | _ => false

theorem day_name (k : Nat) (h : k < 7) :
    ∃ a b c, dayNames.getD k [] = [a, b, c] ∧ (isAlpha a && isAlpha b && isAlpha c) = true := by
  have : ∀ k : Fin 7, dayOk k.val = true := by decide +kernel
  have := this ⟨k, h⟩
  simp only [dayOk] at this
  split at this
  · rename_i a b c e; exact ⟨a, b, c, e, this⟩
  · cases this

/-! ### the property -/

/-- the composed text, spelled out -/
theorem compose_eq (t : Nat) (a b c x y z : Byte)
    (e1 : monthNames.getD ((civilFromDays (t / 86400)).m - 1) [] = [a, b, c])
    (e2 : dayNames.getD (weekday (t / 86400)) [] = [x, y, z]) :
    compose t = x :: y :: z :: 0x2C :: 0x20 :: digit ((civilFromDays (t / 86400)).d / 10) :: digit (civilFromDays (t / 86400)).d ::
      0x20 :: a :: b :: c :: 0x20 :: digit ((civilFromDays (t / 86400)).y / 1000) :: digit ((civilFromDays (t / 86400)).y / 100) ::
      digit ((civilFromDays (t / 86400)).y / 10) :: digit (civilFromDays (t / 86400)).y :: 0x20 :: (hms (t % 86400) ++ sGMT) := by
  unfold compose
  simp only [e1, e2, pad2, pad4, List.cons_append, List.nil_append, List.append_assoc]

/-- **fixed-length IMF-fixdate in GMT**: 29 octets, `Www, DD Mon YYYY HH:MM:SS GMT` -/
theorem compose_shape (t : Nat) (ht : t ≤ 253402300799) : (compose t).length = 29 := by
  have hz : t / 86400 ≤ 2932896 := by omega
  obtain ⟨h1, h2, _, _, _, _⟩ := civil_ranges _ hz
  obtain ⟨a, b, c, e1, _⟩ := month_name _ h1 h2
  obtain ⟨x, y, z, e2, _⟩ := day_name (weekday (t / 86400)) (by unfold weekday; omega)
  rw [compose_eq t a b c x y z e1 e2]
  simp [hms, pad2, sGMT]

attribute [local irreducible] daysFromCivil in
/-- **parsing the composed text gives back the instant**, for every whole second up to year 9999 -/
theorem date_roundtrip (t : Nat) (ht : t ≤ 253402300799) : parse (compose t) = .ok t := by
  have hz : t / 86400 ≤ 2932896 := by omega
  obtain ⟨h1, h2, h3, h4, h5, h6⟩ := civil_ranges _ hz
  obtain ⟨a, b, c, e1, e1'⟩ := month_name _ h1 h2
  obtain ⟨x, y, z, e2, e2'⟩ := day_name (weekday (t / 86400)) (by unfold weekday; omega)
  have hrt := civil_roundtrip (t / 86400)
  generalize hcv : civilFromDays (t / 86400) = cv at *
  have hparse : parseImf (compose t) = .ok t := by
    rw [compose_eq t a b c x y z (by rw [hcv]; exact e1) e2, hcv]
    simp only [parseImf, e2', Bool.not_true, Bool.false_eq_true, if_false]
    have hlen : (hms (t % 86400) ++ sGMT).length = 12 := by simp [hms, pad2, sGMT]
    have hdrop : (hms (t % 86400) ++ sGMT).drop 8 = sGMT := by simp [hms, pad2]
    have htake : (hms (t % 86400) ++ sGMT).take 8 = hms (t % 86400) := by simp [hms, pad2]
    simp only [hlen, hdrop, htake, bne_self_eq_false, Bool.or_self, Bool.false_eq_true, if_false]
    rw [num2_pad2 _ (by omega), e1', num4_pad4 _ (by omega), hms_roundtrip _ (Nat.mod_lt _ (by omega))]
    have hp : pivot cv.y = cv.y := by
      unfold pivot; have : ¬ cv.y < 100 := by omega
      simp [this]
    have hc : (decide (1 ≤ cv.d) && decide (cv.d ≤ 31) && decide (1970 ≤ pivot cv.y)) = true := by
      rw [hp]; simp only [Bool.and_eq_true, decide_eq_true_eq]; omega
    unfold finish
    simp only []
    rw [if_pos hc, hp]
    unfold timegm
    have e : ({ y := cv.y, m := cv.m, d := cv.d } : Civil) = cv := rfl
    rw [e, hrt]
    congr 1
    omega
  simp [parse, hparse]

/-! ### the obsolete forms of the same instant -/

/-- a two-octet separator whose first octet does not occur is not found -/
theorem splitOnce2_clean (c d : Byte) (x : Bytes) (h : Clean c x) : splitOnce [c, d] x = none := by
  induction x with
  | nil => simp [splitOnce]
  | cons a x ih =>
    have ha : (a == c) = false := by simpa using h.head
    simp [splitOnce, startsWith, ha, ih h.tail]

theorem digit_ne_comma (n : Nat) : digit n ≠ 0x2C := by
  have : ∀ k : Fin 10, (UInt8.ofNat (0x30 + k.val) : Byte) ≠ 0x2C := by decide
  exact this ⟨n % 10, Nat.mod_lt _ (by omega)⟩

theorem hms_no_comma (secs : Nat) : Clean 0x2C (hms secs) := by
  intro b hb
  simp only [hms, pad2, List.cons_append, List.nil_append, List.mem_cons, List.mem_nil_iff, or_false] at hb
  rcases hb with h | h | h | h | h | h | h | h <;> subst h <;> first | exact digit_ne_comma _ | decide

theorem alpha_ne_comma (b : Byte) (h : isAlpha b = true) : b ≠ 0x2C := by
  revert h; revert b; apply allBytes; decide +kernel

theorem month_alpha (m : Nat) (a b c : Byte) (e : monthNames.getD (m - 1) [] = [a, b, c]) (h1 : 1 ≤ m) (h2 : m ≤ 12) :
    isAlpha a = true ∧ isAlpha b = true ∧ isAlpha c = true := by
  have : ∀ k : Fin 12, (match monthNames.getD k.val [] with | [a, b, c] => isAlpha a && isAlpha b && isAlpha c | _ => false) = true := by
    decide +kernel
  have := this ⟨m - 1, by omega⟩
  simp only [e, Bool.and_eq_true] at this
  exact ⟨this.1.1, this.1.2, this.2⟩

attribute [local irreducible] daysFromCivil in
/-- **asctime form**: `Www Mon DD HH:MM:SS YYYY` of the instant parses back to the instant -/
theorem asctime_roundtrip (t : Nat) (ht : t ≤ 253402300799) : parse (composeAsctime t) = .ok t := by
  have hz : t / 86400 ≤ 2932896 := by omega
  obtain ⟨h1, h2, h3, h4, h5, h6⟩ := civil_ranges _ hz
  obtain ⟨a, b, c, e1, e1'⟩ := month_name _ h1 h2
  obtain ⟨x, y, z, e2, e2'⟩ := day_name (weekday (t / 86400)) (by unfold weekday; omega)
  obtain ⟨ma, mb, mc⟩ := month_alpha _ a b c e1 h1 h2
  have hrt := civil_roundtrip (t / 86400)
  generalize hcv : civilFromDays (t / 86400) = cv at *
  have hxyz : isAlpha x = true ∧ isAlpha y = true ∧ isAlpha z = true := by
    simp only [Bool.and_eq_true] at e2'
    exact ⟨e2'.1.1, e2'.1.2, e2'.2⟩
  -- the text, spelled out
  obtain ⟨d1, d2, hd, hdv⟩ : ∃ d1 d2 : Byte, (if cv.d < 10 then [0x20, digit cv.d] else pad2 cv.d) = [d1, d2] ∧
      (if d1 == 0x20 then dval d2 else num2 d1 d2) = some cv.d ∧ d1 ≠ 0x2C ∧ d2 ≠ 0x2C := by
    by_cases hlt : cv.d < 10
    · refine ⟨0x20, digit cv.d, by simp [hlt], ?_, by decide, digit_ne_comma _⟩
      simp only [beq_self_eq_true, if_true, dval_digit]
      congr 1; omega
    · refine ⟨digit (cv.d / 10), digit cv.d, by simp [hlt, pad2], ?_, digit_ne_comma _, digit_ne_comma _⟩
      have hne : (digit (cv.d / 10) == 0x20) = false := by
        have : ∀ k : Fin 10, ((UInt8.ofNat (0x30 + k.val) : Byte) == 0x20) = false := by decide
        exact this ⟨cv.d / 10 % 10, Nat.mod_lt _ (by omega)⟩
      simp only [hne, Bool.false_eq_true, if_false]
      exact num2_pad2 _ (by omega)
  have htext : composeAsctime t = x :: y :: z :: 0x20 :: a :: b :: c :: 0x20 :: d1 :: d2 :: 0x20 ::
      (hms (t % 86400) ++ 0x20 :: pad4 cv.y) := by
    unfold composeAsctime
    simp only [hcv, e1, e2, hd, List.cons_append, List.nil_append, List.append_assoc]
  have hclean : Clean 0x2C (composeAsctime t) := by
    rw [htext]
    intro q hq
    simp only [List.mem_cons, List.mem_append, pad4, List.mem_nil_iff, or_false] at hq
    rcases hq with h | h | h | h | h | h | h | h | h | h | h | h | h | h | h | h | h
    all_goals first
      | (subst h; exact alpha_ne_comma _ (by first | exact hxyz.1 | exact hxyz.2.1 | exact hxyz.2.2 | exact ma | exact mb | exact mc))
      | (subst h; decide)
      | (subst h; exact hdv.2.1)
      | (subst h; exact hdv.2.2)
      | exact hms_no_comma _ q h
      | (subst h; exact digit_ne_comma _)
  have himf : parseImf (composeAsctime t) = .unknown := by
    rw [htext]; simp [parseImf]
  have h850 : parseRfc850 (composeAsctime t) = .unknown := by
    unfold parseRfc850; rw [splitOnce2_clean 0x2C 0x20 _ hclean]
  have hasc : parseAsctime (composeAsctime t) = .ok t := by
    rw [htext]
    simp only [parseAsctime, hxyz.1, hxyz.2.1, hxyz.2.2, Bool.and_self, Bool.not_true, Bool.false_eq_true, if_false]
    have hdrop : (hms (t % 86400) ++ [0x20, digit (cv.y / 1000), digit (cv.y / 100), digit (cv.y / 10), digit cv.y]).drop 8 =
        [0x20, digit (cv.y / 1000), digit (cv.y / 100), digit (cv.y / 10), digit cv.y] := by simp [hms, pad2]
    have htake : (hms (t % 86400) ++ [0x20, digit (cv.y / 1000), digit (cv.y / 100), digit (cv.y / 10), digit cv.y]).take 8 =
        hms (t % 86400) := by simp [hms, pad2]
    simp only [pad4, hdrop, htake]
    rw [hdv.1, e1', num4_pad4 _ (by omega), hms_roundtrip _ (Nat.mod_lt _ (by omega))]
    have hp : pivot cv.y = cv.y := by
      unfold pivot; have : ¬ cv.y < 100 := by omega
      simp [this]
    have hc : (decide (1 ≤ cv.d) && decide (cv.d ≤ 31) && decide (1970 ≤ pivot cv.y)) = true := by
      rw [hp]; simp only [Bool.and_eq_true, decide_eq_true_eq]; omega
    unfold finish
    simp only []
    rw [if_pos hc, hp]
    unfold timegm
    have e : ({ y := cv.y, m := cv.m, d := cv.d } : Civil) = cv := rfl
    rw [e, hrt]
    congr 1
    omega
  simp [parse, himf, h850, hasc]

theorem splitOnce2_append (c d : Byte) (x r : Bytes) (h : Clean c x) :
    splitOnce [c, d] (x ++ c :: d :: r) = some (x, r) := by
  induction x with
  | nil => simp [splitOnce, startsWith]
  | cons a x ih =>
    have ha : (a == c) = false := by simpa using h.head
    simp [splitOnce, startsWith, ha, ih h.tail]

def longOk (k : Nat) : Bool :=
  match longDayNames.getD k [] with
  | w1 :: w2 :: w3 :: w4 :: r => isAlpha w1 && isAlpha w2 && isAlpha w3 && isAlpha w4 && r.all isAlpha
  | _ => false

theorem long_name (k : Nat) (h : k < 7) :
    ∃ w1 w2 w3 w4 r, longDayNames.getD k [] = w1 :: w2 :: w3 :: w4 :: r ∧
      isAlpha w1 = true ∧ isAlpha w2 = true ∧ isAlpha w3 = true ∧ isAlpha w4 = true ∧ r.all isAlpha = true := by
  have : ∀ k : Fin 7, longOk k.val = true := by decide +kernel
  have := this ⟨k, h⟩
  simp only [longOk] at this
  split at this
  · rename_i w1 w2 w3 w4 r e
    simp only [Bool.and_eq_true] at this
    exact ⟨w1, w2, w3, w4, r, e, this.1.1.1.1, this.1.1.1.2, this.1.1.2, this.1.2, this.2⟩
  · cases this

attribute [local irreducible] daysFromCivil in
/-- **RFC 850 form**: `Weekday, DD-Mon-YY HH:MM:SS GMT` of an instant whose year the two-digit year can express
    (1970–2068, the window of `parsedate_tz`) parses back to the instant -/
theorem rfc850_roundtrip (t : Nat) (ht : t ≤ 253402300799) (hy : (civilFromDays (t / 86400)).y ≤ 2068) :
    parse (composeRfc850 t) = .ok t := by
  have hz : t / 86400 ≤ 2932896 := by omega
  obtain ⟨h1, h2, h3, h4, h5, h6⟩ := civil_ranges _ hz
  obtain ⟨a, b, c, e1, e1'⟩ := month_name _ h1 h2
  obtain ⟨w1, w2, w3, w4, wr, e2, a1, a2, a3, a4, ar⟩ := long_name (weekday (t / 86400)) (by unfold weekday; omega)
  have hrt := civil_roundtrip (t / 86400)
  generalize hcv : civilFromDays (t / 86400) = cv at *
  have hw4 : w4 ≠ 0x2C := alpha_ne_comma w4 a4
  have hwclean : Clean 0x2C (w1 :: w2 :: w3 :: w4 :: wr) := by
    intro q hq
    simp only [List.mem_cons] at hq
    rcases hq with h | h | h | h | h
    · subst h; exact alpha_ne_comma _ a1
    · subst h; exact alpha_ne_comma _ a2
    · subst h; exact alpha_ne_comma _ a3
    · subst h; exact hw4
    · exact alpha_ne_comma q (by simpa using (List.all_eq_true.mp ar) q h)
  have htext : composeRfc850 t = (w1 :: w2 :: w3 :: w4 :: wr) ++ 0x2C :: 0x20 ::
      (digit (cv.d / 10) :: digit cv.d :: 0x2D :: a :: b :: c :: 0x2D :: digit (cv.y % 100 / 10) :: digit (cv.y % 100) :: 0x20 ::
        (hms (t % 86400) ++ sGMT)) := by
    unfold composeRfc850
    simp only [hcv, e1, e2, pad2, List.cons_append, List.nil_append, List.append_assoc]
  have himf : parseImf (composeRfc850 t) = .unknown := by
    rw [htext]
    simp only [List.cons_append, parseImf]
    split
    · rename_i heq
      simp only [List.cons.injEq] at heq
      exact absurd heq.2.2.2.1 hw4
    · rfl
  have h850 : parseRfc850 (composeRfc850 t) = .ok t := by
    rw [htext]
    unfold parseRfc850
    rw [splitOnce2_append 0x2C 0x20 _ _ hwclean]
    have hall : (w1 :: w2 :: w3 :: w4 :: wr).all isAlpha = true := by simp [a1, a2, a3, a4, ar]
    simp only [List.isEmpty_cons, hall, Bool.not_true, Bool.or_self, Bool.false_eq_true, if_false]
    have hlen : (hms (t % 86400) ++ sGMT).length = 12 := by simp [hms, pad2, sGMT]
    have hdrop : (hms (t % 86400) ++ sGMT).drop 8 = sGMT := by simp [hms, pad2]
    have htake : (hms (t % 86400) ++ sGMT).take 8 = hms (t % 86400) := by simp [hms, pad2]
    simp only [hlen, hdrop, htake, bne_self_eq_false, Bool.or_self, Bool.false_eq_true, if_false]
    rw [num2_pad2 _ (by omega), e1', num2_pad2 _ (by omega), hms_roundtrip _ (Nat.mod_lt _ (by omega))]
    have hp : pivot (cv.y % 100) = cv.y := by
      unfold pivot
      have : cv.y % 100 < 100 := Nat.mod_lt _ (by omega)
      simp only [this, if_true]
      split <;> omega
    have hc : (decide (1 ≤ cv.d) && decide (cv.d ≤ 31) && decide (1970 ≤ pivot (cv.y % 100))) = true := by
      rw [hp]; simp only [Bool.and_eq_true, decide_eq_true_eq]; omega
    unfold finish
    simp only []
    rw [if_pos hc, hp]
    unfold timegm
    have e : ({ y := cv.y, m := cv.m, d := cv.d } : Civil) = cv := rfl
    rw [e, hrt]
    congr 1
    omega
  simp [parse, himf, h850]

/-- outside that window the two-digit year cannot name the instant: 2069-01-01 written in RFC 850 form reads as 1969 -/
theorem rfc850_window_witness : parse (composeRfc850 3124224000) ≠ .ok 3124224000 := by
  decide +kernel

/-- the weekday named is the weekday of the date: 1970-01-01 was a Thursday and the names advance with the days -/
theorem weekday_correct (days : Nat) :
    weekday 0 = 3 ∧ weekday (days + 1) = (weekday days + 1) % 7 ∧ weekday (days + 7) = weekday days := by
  unfold weekday; omega

/-- equal composed texts ⇔ equal instants (so comparing instants is comparing dates) -/
theorem compare_agrees (a b : Nat) (ha : a ≤ 253402300799) (hb : b ≤ 253402300799) :
    (compose a = compose b ↔ a = b) := by
  constructor
  · intro h
    have h1 := date_roundtrip a ha
    have h2 := date_roundtrip b hb
    rw [h] at h1
    rw [h1] at h2
    cases h2; rfl
  · intro h; rw [h]

/-- the RFC's own example instant in the three forms (kernel evaluation; a test) -/
example : compose 784111777 = "Sun, 06 Nov 1994 08:49:37 GMT".toUTF8.toList
    ∧ parse "Sunday, 06-Nov-94 08:49:37 GMT".toUTF8.toList = .ok 784111777
    ∧ parse "Sun Nov  6 08:49:37 1994".toUTF8.toList = .ok 784111777
    ∧ parse (composeRfc850 784111777) = .ok 784111777 ∧ parse (composeAsctime 784111777) = .ok 784111777 := by
  decide +kernel

end Httoop.Date
