import Httoop.Model.Compose
import Httoop.Props.C08
import Httoop.Props.C07
import Httoop.Props.C14
/-
  C05 — composed output is well framed and the framing headers tell the truth (model of the framing core
  of `prepare()` and of the body iterator; `Model/Compose.lean`).

  For every message state `m` (any header collection, any pieces, any flags left by earlier calls) with
  `prepare m = .ok m'`:
  * `framing_exclusive`     chunked in the header fields ⇒ no Content-Length;
  * `length_truthful`       a Content-Length (other than on a response to HEAD) is the decimal number of
                            octets that follow the header section, and the body is then not chunk-framed;
  * `chunked_wellformed`    with chunked framing the octets after the header section are the RFC 7230 chunk
                            writer applied to the (coded) content — which the reader of C02/C14 inverts;
  * `bodiless_no_octets`    1xx/204/205/304 and responses to HEAD are followed by no octets at all;
  * `prepare_idempotent_framing`   a second `prepare()` changes nothing (except for HEAD: finding F46).
-/
namespace Httoop.Compose
open Httoop Httoop.Headers Httoop.Codecs

/-! ### collection facts -/

theorem kCL_TE : sCL ≠ sTE := by decide +kernel
theorem kTE_CL : sTE ≠ sCL := by decide +kernel
theorem kCL_CE : sCL ≠ sCE := by decide +kernel
theorem kCE_CL : sCE ≠ sCL := by decide +kernel
theorem kTE_CE : sTE ≠ sCE := by decide +kernel
theorem kCE_TE : sCE ≠ sTE := by decide +kernel

theorem put_of_get (h : Coll) (k v : Bytes) (hg : h.get? k = some v) : h.put k v = h := by
  induction h with
  | nil => simp [Coll.get?] at hg
  | cons e h ih =>
    unfold Coll.get? at hg
    unfold Coll.put
    by_cases he : (e.1 == k) = true
    · simp only [he, if_true] at hg ⊢
      have : e.1 = k := by simpa using he
      cases e; simp_all
    · simp only [he] at hg ⊢
      simp only [Bool.false_eq_true, if_false] at hg ⊢
      rw [ih hg]

theorem del_of_get_none (h : Coll) (k : Bytes) (hg : h.get? k = none) : h.del k = h := by
  induction h with
  | nil => rfl
  | cons e h ih =>
    unfold Coll.get? at hg
    unfold Coll.del
    by_cases he : (e.1 == k) = true
    · simp [he] at hg
    · simp only [he] at hg ⊢
      simp only [Bool.false_eq_true, if_false] at hg ⊢
      rw [ih hg]


/-- the header collection as far as framing is concerned -/
@[simp] theorem g_put_same (h : Coll) (k v : Bytes) : (h.put k v).get? k = some v := get_put_same h k v
@[simp] theorem g_del_same (h : Coll) (k : Bytes) : (h.del k).get? k = none := get_del_same h k
theorem g_put_other (h : Coll) (k k' v : Bytes) (hne : k' ≠ k) : (h.put k v).get? k' = h.get? k' := get_put_other h k k' v hne
theorem g_del_other (h : Coll) (k k' : Bytes) (hne : k' ≠ k) : (h.del k).get? k' = h.get? k' := Parser.get_del_other h k k' hne

@[simp] theorem g1 (h : Coll) (v : Bytes) : (h.put sTE v).get? sCL = h.get? sCL := g_put_other h sTE sCL v kCL_TE
@[simp] theorem g2 (h : Coll) (v : Bytes) : (h.put sCL v).get? sTE = h.get? sTE := g_put_other h sCL sTE v kTE_CL
@[simp] theorem g3 (h : Coll) : (h.del sTE).get? sCL = h.get? sCL := g_del_other h sTE sCL kCL_TE
@[simp] theorem g4 (h : Coll) : (h.del sCL).get? sTE = h.get? sTE := g_del_other h sCL sTE kTE_CL
@[simp] theorem g5 (h : Coll) : (h.del sCE).get? sCL = h.get? sCL := g_del_other h sCE sCL kCL_CE
@[simp] theorem g6 (h : Coll) : (h.del sCE).get? sTE = h.get? sTE := g_del_other h sCE sTE kTE_CE
@[simp] theorem g7 (h : Coll) (v : Bytes) : (h.put sTE v).get? sCE = h.get? sCE := g_put_other h sTE sCE v kCE_TE
@[simp] theorem g8 (h : Coll) (v : Bytes) : (h.put sCL v).get? sCE = h.get? sCE := g_put_other h sCL sCE v kCE_CL
@[simp] theorem g9 (h : Coll) : (h.del sTE).get? sCE = h.get? sCE := g_del_other h sTE sCE kCE_TE
@[simp] theorem g10 (h : Coll) : (h.del sCL).get? sCE = h.get? sCE := g_del_other h sCL sCE kCE_CL

/-- `isChunked` answers from the Transfer-Encoding field alone -/
theorem isChunked_true (h : Coll) : isChunked h = .ok true ↔ h.get? sTE = some schunked := by
  unfold isChunked
  cases hte : h.get? sTE with
  | none => simp
  | some v =>
    by_cases hv : v.isEmpty = true
    · have : v = [] := by simpa using hv
      subst this
      simp; decide +kernel
    · by_cases hc : v = schunked
      · subst hc; simp [hv]
      · simp [hv, hc]

theorem isChunked_false (h : Coll) : isChunked h = .ok false ↔ (h.get? sTE = none ∨ h.get? sTE = some []) := by
  unfold isChunked
  cases hte : h.get? sTE with
  | none => simp
  | some v =>
    by_cases hv : v.isEmpty = true
    · have : v = [] := by simpa using hv
      subst this
      simp
    · have hne : v ≠ [] := by simpa using hv
      by_cases hc : v = schunked
      · subst hc; simp [hv]; exact hne
      · simp [hv, hc, hne]


/-! ### the chunked setter -/

/-- result of the setter, on the framing view -/
theorem setChunked_spec (m m' : CMsg) (v : Bool) (h : setChunked m v = .ok m') :
    m'.bodyChunked = v ∧ m'.pieces = m.pieces ∧ m'.coded = m.coded ∧ m'.status = m.status ∧ m'.reqHead = m.reqHead ∧
    m'.safe = m.safe ∧ m'.isResponse = m.isResponse ∧ m'.headers.get? sCE = m.headers.get? sCE ∧
    (v = true → m'.headers.get? sTE = some schunked ∧ m'.headers.get? sCL = none) ∧
    (v = false → (m'.headers.get? sTE = none ∨ m'.headers.get? sTE = some []) ∧ m'.headers.get? sCL = m.headers.get? sCL) := by
  unfold setChunked at h
  cases v with
  | true =>
    simp only [if_true] at h
    split at h
    · cases h
    · rename_i hc
      injection h with h; subst h
      have := (isChunked_true _).mp hc
      simp at this
      simp [this]
    · rename_i hc
      injection h with h; subst h
      simp
  | false =>
    simp only [Bool.false_eq_true, if_false] at h
    split at h
    · cases h
    · rename_i hc
      injection h with h; subst h
      have := (isChunked_false _).mp hc
      simp [this]
    · injection h with h; subst h
      simp


theorem bind_ok {α β} {x : R α} {f : α → R β} {b : β} (h : x >>= f = .ok b) : ∃ a, x = .ok a ∧ f a = .ok b := by
  cases x with
  | error e => simp [bind, Except.bind] at h
  | ok a => exact ⟨a, rfl, h⟩

theorem isChunked_of_set (m m' : CMsg) (v : Bool) (h : setChunked m v = .ok m') : isChunked m'.headers = .ok v := by
  have s := setChunked_spec m m' v h
  cases v with
  | true => exact (isChunked_true _).mpr (s.2.2.2.2.2.2.2.2.1 rfl).1
  | false => exact (isChunked_false _).mpr (s.2.2.2.2.2.2.2.2.2 rfl).1

/-- what `prepare()` leaves behind, on the framing view -/
structure Framed (m' : CMsg) : Prop where
  chunked_iff : m'.bodyChunked = true → m'.headers.get? sTE = some schunked
  chunked_nocl : m'.headers.get? sTE = some schunked → m'.headers.get? sCL = none
  te_shape : m'.headers.get? sTE = some schunked ∨ m'.headers.get? sTE = none ∨ m'.headers.get? sTE = some []

theorem prepareRequest_spec (m m' : CMsg) (h : prepareRequest m = .ok m') :
    Framed m' ∧ m'.coded = m.coded ∧ m'.pieces = (if m.safe then [] else m.pieces) ∧
    (m'.headers.get? sTE = some schunked → m'.bodyChunked = true) ∧
    (m'.headers.get? sTE ≠ some schunked → m'.bodyChunked = false ∧
      m'.headers.get? sCL = (if bodyLen m' != 0 then some (natToDec (bodyLen m')) else none)) := by
  unfold prepareRequest at h
  obtain ⟨m1, h1, h⟩ := bind_ok h
  obtain ⟨c1, hc1, h⟩ := bind_ok h
  obtain ⟨m2, h2, h⟩ := bind_ok h
  obtain ⟨c2, hc2, h⟩ := bind_ok h
  have s2 := setChunked_spec m1 m2 c1 h2
  have hc2' := isChunked_of_set m1 m2 c1 h2
  rw [hc2'] at hc2
  injection hc2 with hc2; subst hc2
  have hp1 : m1.pieces = (if m.safe then [] else m.pieces) ∧ m1.coded = m.coded := by
    by_cases hs : m.safe = true
    · simp only [hs, if_true] at h1
      have s1 := setChunked_spec _ m1 false h1
      simp [hs, s1.2.1, s1.2.2.1]
    · simp only [hs] at h1
      simp only [Bool.false_eq_true, if_false] at h1
      injection h1 with h1; subst h1
      simp [hs]
  have hm' : m' = requestLength m2 c1 := by injection h with h; exact h.symm
  subst hm'
  cases c1 with
  | true =>
    have t := s2.2.2.2.2.2.2.2.2.1 rfl
    have hr : requestLength m2 true = m2 := by unfold requestLength; simp
    rw [hr]
    refine ⟨⟨fun _ => t.1, fun _ => t.2, Or.inl t.1⟩, by rw [s2.2.2.1, hp1.2], by rw [s2.2.1, hp1.1], fun _ => s2.1, fun hn => absurd t.1 hn⟩
  | false =>
    have t := s2.2.2.2.2.2.2.2.2.2 rfl
    have hte2 : m2.headers.get? sTE ≠ some schunked := by
      rcases t.1 with h0 | h0 <;> rw [h0] <;> simp
      decide +kernel
    unfold requestLength
    by_cases hb : (bodyLen m2 != 0) = true
    · simp only [hb, if_true, Bool.not_false]
      have hl : bodyLen { m2 with headers := m2.headers.put sCL (natToDec (bodyLen m2)) } = bodyLen m2 := rfl
      refine ⟨⟨?_, ?_, ?_⟩, by simp [s2.2.2.1, hp1.2], by simp [s2.2.1, hp1.1], ?_, ?_⟩
      · intro hbc; simp [s2.1] at hbc
      · intro hh; simp at hh; exact absurd hh hte2
      · simp; rcases t.1 with h0 | h0 <;> simp [h0]
      · intro hh; simp at hh; exact absurd hh hte2
      · intro _
        refine ⟨by simp [s2.1], ?_⟩
        simp only [bodyLen, bne_iff_ne, ne_eq] at hb ⊢
        simp [hb]
    · simp only [hb, Bool.false_eq_true, if_false, Bool.not_false, if_true]
      have hl : bodyLen { m2 with headers := m2.headers.del sCL } = bodyLen m2 := rfl
      refine ⟨⟨?_, ?_, ?_⟩, by simp [s2.2.2.1, hp1.2], by simp [s2.2.1, hp1.1], ?_, ?_⟩
      · intro hbc; simp [s2.1] at hbc
      · intro hh; simp at hh; exact absurd hh hte2
      · simp; rcases t.1 with h0 | h0 <;> simp [h0]
      · intro hh; simp at hh; exact absurd hh hte2
      · intro _
        refine ⟨by simp [s2.1], ?_⟩
        simp only [bodyLen, bne_iff_ne, ne_eq, Decidable.not_not] at hb ⊢
        simp [hb]


theorem bodyLen_pieces (a b : CMsg) (h : a.pieces = b.pieces) : bodyLen a = bodyLen b := by unfold bodyLen; rw [h]

/-- the response side -/
structure RespSpec (m m' : CMsg) : Prop where
  excl : m'.headers.get? sTE = some schunked → m'.headers.get? sCL = none
  chunked_te : m'.bodyChunked = true → m'.headers.get? sTE = some schunked
  nobody : (bodilessStatus m.status = true ∨ m.reqHead = true) → m'.pieces = [] ∧ m'.bodyChunked = false
  pieces : bodilessStatus m.status = false → m.reqHead = false → m'.pieces = m.pieces
  coded_chunked : m'.coded = true → m'.bodyChunked = false → m'.pieces = []
  len : m.reqHead = false → ∀ v, m'.headers.get? sCL = some v → v = natToDec (bodyLen m') ∧ m'.bodyChunked = false

theorem responseFinish_spec (m3 : CMsg) (c : Bool) (hc : isChunked m3.headers = .ok c) (hb : m3.bodyChunked = c)
    (hnocl : c = true → m3.headers.get? sCL = none) :
    let m' := responseFinish m3 c
    (m'.headers.get? sTE = some schunked → m'.headers.get? sCL = none) ∧
    (m'.bodyChunked = true → m'.headers.get? sTE = some schunked) ∧
    (m3.reqHead = true → m'.pieces = [] ∧ m'.bodyChunked = false) ∧
    (m3.reqHead = false → m'.pieces = m3.pieces ∧ m'.bodyChunked = c) ∧
    m'.coded = m3.coded ∧
    (m3.reqHead = false → ∀ v, m'.headers.get? sCL = some v → v = natToDec (bodyLen m') ∧ m'.bodyChunked = false) := by
  intro m'
  have hte : c = true → m3.headers.get? sTE = some schunked := fun h => (isChunked_true _).mp (h ▸ hc)
  have hnte : c = false → m3.headers.get? sTE ≠ some schunked := by
    intro h
    have := (isChunked_false _).mp (h ▸ hc)
    rcases this with h0 | h0 <;> rw [h0] <;> simp
    decide +kernel
  have hcl : c = true → m3.bodyChunked = true := fun h => by rw [hb, h]
  show _ ∧ _ ∧ _ ∧ _ ∧ _ ∧ _
  simp only [m', responseFinish]
  cases c <;> by_cases h304 : (m3.status == 304) = true <;> by_cases hh : m3.reqHead = true <;>
    simp_all [bodyLen]


theorem prepareResponse_spec (m m' : CMsg) (h : prepareResponse m = .ok m') (hcoded : m.coded = false) : RespSpec m m' := by
  unfold prepareResponse at h
  obtain ⟨m1, h1, h⟩ := bind_ok h
  obtain ⟨m2, h2, h⟩ := bind_ok h
  obtain ⟨c2, hc2, h⟩ := bind_ok h
  obtain ⟨m3, h3, h⟩ := bind_ok h
  obtain ⟨c3, hc3, h⟩ := bind_ok h
  unfold respStage1 at h1
  unfold respStage2 at h2
  have s3 := setChunked_spec m2 m3 c2 h3
  have hc3' := isChunked_of_set m2 m3 c2 h3
  rw [hc3'] at hc3
  injection hc3 with hc3; subst hc3
  have hm' : m' = responseFinish m3 c2 := by injection h with h; exact h.symm
  subst hm'
  have hnocl : c2 = true → m3.headers.get? sCL = none := fun hc => (s3.2.2.2.2.2.2.2.2.1 hc).2
  have f := responseFinish_spec m3 c2 hc3' s3.1 hnocl
  -- stage 1: bodiless statuses lose the body
  have p1 : m1.pieces = (if bodilessStatus m.status then [] else m.pieces) ∧ m1.coded = false ∧ m1.reqHead = m.reqHead := by
    by_cases hb : bodilessStatus m.status = true
    · simp only [hb, if_true] at h1
      have s1 := setChunked_spec _ m1 false h1
      simp [hb, s1.2.1, s1.2.2.1, s1.2.2.2.2.1, hcoded]
    · simp only [hb] at h1
      simp only [Bool.false_eq_true, if_false] at h1
      injection h1 with h1; subst h1
      simp [hb, hcoded]
  -- stage 2: a content coding switches chunked on unless there is no body
  have p2 : m2.pieces = m1.pieces ∧ m2.reqHead = m1.reqHead ∧
      (m2.coded = true → bodilessStatus m.status = false → m2.headers.get? sTE = some schunked) := by
    split at h2
    · by_cases hb : bodilessStatus m.status = true
      · simp only [hb, Bool.not_true, Bool.false_eq_true, if_false] at h2
        injection h2 with h2; subst h2
        simp [hb]
      · simp only [hb, Bool.not_false, if_true] at h2
        have s2 := setChunked_spec _ m2 true h2
        refine ⟨s2.2.1, s2.2.2.2.2.1, fun _ _ => (s2.2.2.2.2.2.2.2.2.1 rfl).1⟩
    · injection h2 with h2; subst h2
      refine ⟨rfl, rfl, fun hc => ?_⟩
      rw [p1.2.1] at hc; cases hc
  have hp3 : m3.pieces = m2.pieces := s3.2.1
  have hr3 : m3.reqHead = m.reqHead := by rw [s3.2.2.2.2.1, p2.2.1, p1.2.2]
  have hcod3 : m3.coded = m2.coded := s3.2.2.1
  obtain ⟨f1, f2, f3, f4, f5, f6⟩ := f
  refine ⟨f1, f2, ?_, ?_, ?_, ?_⟩
  · rintro (hb | hh)
    · by_cases hh : m.reqHead = true
      · exact f3 (hr3 ▸ hh)
      · have hh' : m3.reqHead = false := by rw [hr3]; simpa using hh
        have := f4 hh'
        refine ⟨by rw [this.1, hp3, p2.1, p1.1]; simp [hb], ?_⟩
        rw [this.2]
        -- chunked cannot be on: stage 1 switched it off, no coding re-enabled it
        cases hc : c2 with
        | false => rfl
        | true =>
          exfalso
          have hte2 := (isChunked_true _).mp (hc ▸ hc2)
          simp only [hb, if_true] at h1
          have s1 := setChunked_spec _ m1 false h1
          have t1 := (s1.2.2.2.2.2.2.2.2.2 rfl).1
          split at h2
          · simp only [hb, Bool.not_true, Bool.false_eq_true, if_false] at h2
            injection h2 with h2; subst h2
            rcases t1 with t | t <;> simp [t] at hte2
            exact absurd hte2 (by decide +kernel)
          · injection h2 with h2; subst h2
            rcases t1 with t | t <;> simp [t] at hte2
            exact absurd hte2 (by decide +kernel)
    · exact f3 (hr3 ▸ hh)
  · intro hb hh
    have hh' : m3.reqHead = false := by rw [hr3]; exact hh
    rw [(f4 hh').1, hp3, p2.1, p1.1]; simp [hb]
  · intro hco hbc
    by_cases hh : m.reqHead = true
    · exact (f3 (hr3 ▸ hh)).1
    · have hh' : m3.reqHead = false := by rw [hr3]; simpa using hh
      have f4' := f4 hh'
      rw [f5, hcod3] at hco
      by_cases hb : bodilessStatus m.status = true
      · rw [f4'.1, hp3, p2.1, p1.1]; simp [hb]
      · exfalso
        have hte2 := p2.2.2 hco (by simpa using hb)
        have : c2 = true := by
          have := (isChunked_true _).mpr hte2
          rw [this] at hc2; injection hc2 with hc2; exact hc2.symm
        rw [f4'.2, this] at hbc; cases hbc
  · intro hh v hv
    exact f6 (hr3 ▸ hh) v hv

/-! ### a second `prepare()` changes nothing -/

theorem setChunked_fix (m : CMsg) (v : Bool) (hb : m.bodyChunked = v)
    (ht : v = true → m.headers.get? sTE = some schunked ∧ m.headers.get? sCL = none)
    (hf : v = false → (m.headers.get? sTE = none ∨ m.headers.get? sTE = some [])) : setChunked m v = .ok m := by
  unfold setChunked
  cases v with
  | true =>
    obtain ⟨h1, h2⟩ := ht rfl
    have hd : m.headers.del sCL = m.headers := del_of_get_none _ _ h2
    have hc : isChunked m.headers = .ok true := (isChunked_true _).mpr h1
    simp only [if_true, hd, hc]
    cases m; simp_all
  | false =>
    have hc : isChunked m.headers = .ok false := (isChunked_false _).mpr (hf rfl)
    simp only [Bool.false_eq_true, if_false, hc]
    cases m; simp_all

theorem prepareRequest_idem (m m' : CMsg) (h : prepareRequest m = .ok m') : prepareRequest m' = .ok m' := by
  have sp := prepareRequest_spec m m' h
  -- facts about the other fields
  have hsafe : m'.safe = m.safe := by
    unfold prepareRequest at h
    obtain ⟨m1, h1, h⟩ := bind_ok h
    obtain ⟨c1, _, h⟩ := bind_ok h
    obtain ⟨m2, h2, h⟩ := bind_ok h
    obtain ⟨c2, _, h⟩ := bind_ok h
    have s2 := setChunked_spec m1 m2 c1 h2
    have : m' = requestLength m2 c2 := by injection h with h; exact h.symm
    have hr : (requestLength m2 c2).safe = m2.safe := by unfold requestLength; split <;> split <;> rfl
    rw [this, hr, s2.2.2.2.2.2.1]
    by_cases hs : m.safe = true
    · rw [if_pos hs] at h1
      exact (setChunked_spec _ m1 false h1).2.2.2.2.2.1
    · rw [if_neg hs] at h1
      injection h1 with h1; rw [← h1]
  obtain ⟨fr, _, hpieces, hch, hnch⟩ := sp
  unfold prepareRequest
  by_cases hte : m'.headers.get? sTE = some schunked
  · -- chunked
    have hb := hch hte
    have hcl := fr.chunked_nocl hte
    have hc : isChunked m'.headers = .ok true := (isChunked_true _).mpr hte
    have hset : setChunked m' true = .ok m' := setChunked_fix m' true hb (fun _ => ⟨hte, hcl⟩) (fun h => by cases h)
    by_cases hs : m'.safe = true
    · -- a safe request cannot be left chunked
      exfalso
      rw [hsafe] at hs
      unfold prepareRequest at h
      rw [if_pos hs] at h
      obtain ⟨m1, h1, h⟩ := bind_ok h
      obtain ⟨c1, hc1, h⟩ := bind_ok h
      obtain ⟨m2, h2, h⟩ := bind_ok h
      obtain ⟨c2, _, hfin⟩ := bind_ok h
      have s1 := setChunked_spec _ m1 false h1
      have hc1' := isChunked_of_set _ m1 false h1
      rw [hc1'] at hc1; injection hc1 with hc1; subst hc1
      have s2 := setChunked_spec m1 m2 false h2
      have : m' = requestLength m2 c2 := by injection hfin with hfin; exact hfin.symm
      have hr : (requestLength m2 c2).headers.get? sTE = m2.headers.get? sTE := by
        unfold requestLength; split <;> split <;> simp
      rw [this, hr] at hte
      rcases (s2.2.2.2.2.2.2.2.2.2 rfl).1 with t | t <;> rw [t] at hte <;> simp at hte
      exact absurd hte (by decide +kernel)
    · rw [if_neg hs]
      simp only [bind, Except.bind, hc, hset]
      unfold requestLength
      simp
  · obtain ⟨hb, hcl⟩ := hnch hte
    have hshape : m'.headers.get? sTE = none ∨ m'.headers.get? sTE = some [] := by
      rcases fr.te_shape with t | t | t
      · exact absurd t hte
      · exact Or.inl t
      · exact Or.inr t
    have hc : isChunked m'.headers = .ok false := (isChunked_false _).mpr hshape
    have hset : setChunked m' false = .ok m' := setChunked_fix m' false hb (fun h => by cases h) (fun _ => hshape)
    have hlen : requestLength m' false = m' := by
      unfold requestLength
      by_cases hbl : (bodyLen m' != 0) = true
      · simp only [hbl, if_true, Bool.not_false]
        have := put_of_get m'.headers sCL (natToDec (bodyLen m')) (by rw [hcl]; simp [hbl])
        cases m'; simp_all
      · simp only [hbl, Bool.false_eq_true, if_false, Bool.not_false, if_true]
        have := del_of_get_none m'.headers sCL (by rw [hcl]; simp [hbl])
        cases m'; simp_all
    by_cases hs : m'.safe = true
    · have hp : m'.pieces = [] := by rw [hpieces, ← hsafe, hs]; rfl
      have he : ({ m' with pieces := [] } : CMsg) = m' := by cases m'; simp_all
      rw [if_pos hs, he, hset]
      simp only [bind, Except.bind, hset, hc, hlen]
    · rw [if_neg hs]
      simp only [bind, Except.bind, hset, hc, hlen]

theorem del_put_same (h : Coll) (k v : Bytes) : (h.put k v).del k = h.del k := by
  induction h with
  | nil => simp [Coll.put, Coll.del]
  | cons e h ih =>
    unfold Coll.put
    by_cases he : (e.1 == k) = true
    · simp only [he, if_true]
      unfold Coll.del
      simp [he]
    · simp only [he]
      simp only [Bool.false_eq_true, if_false]
      unfold Coll.del
      simp only [he, Bool.false_eq_true, if_false]
      rw [ih]

/-- the state before the last stage of `ComposedResponse.prepare()` -/
structure Mid (m m3 : CMsg) (c2 : Bool) : Prop where
  status : m3.status = m.status
  head : m3.reqHead = m.reqHead
  chunked : isChunked m3.headers = .ok c2
  bodyChunked : m3.bodyChunked = c2
  nocl : c2 = true → m3.headers.get? sCL = none
  bodiless : bodilessStatus m.status = true → m3.pieces = [] ∧ c2 = false
  coded : ∀ v, m3.headers.get? sCE = some v → m3.coded = true ∧ (bodilessStatus m.status = false → c2 = true)

theorem prepareResponse_mid (m m' : CMsg) (h : prepareResponse m = .ok m') :
    ∃ m3 c2, Mid m m3 c2 ∧ m' = responseFinish m3 c2 := by
  unfold prepareResponse at h
  obtain ⟨m1, h1, h⟩ := bind_ok h
  obtain ⟨m2, h2, h⟩ := bind_ok h
  obtain ⟨c2, hc2, h⟩ := bind_ok h
  obtain ⟨m3, h3, h⟩ := bind_ok h
  obtain ⟨c3, hc3, hfin⟩ := bind_ok h
  unfold respStage1 at h1
  unfold respStage2 at h2
  have s3 := setChunked_spec m2 m3 c2 h3
  have hc3' := isChunked_of_set m2 m3 c2 h3
  rw [hc3'] at hc3
  injection hc3 with hc3; subst hc3
  refine ⟨m3, c2, ?_, by injection hfin with hfin; exact hfin.symm⟩
  -- stage 1
  have p1 : m1.status = m.status ∧ m1.reqHead = m.reqHead ∧
      (bodilessStatus m.status = true → m1.pieces = [] ∧ (m1.headers.get? sTE = none ∨ m1.headers.get? sTE = some [])) := by
    by_cases hb : bodilessStatus m.status = true
    · rw [if_pos hb] at h1
      have s1 := setChunked_spec _ m1 false h1
      exact ⟨s1.2.2.2.1, s1.2.2.2.2.1, fun _ => ⟨s1.2.1, (s1.2.2.2.2.2.2.2.2.2 rfl).1⟩⟩
    · rw [if_neg hb] at h1
      injection h1 with h1; subst h1
      exact ⟨rfl, rfl, fun hb' => absurd hb' hb⟩
  -- stage 2
  have p2 : m2.status = m1.status ∧ m2.reqHead = m1.reqHead ∧ m2.pieces = m1.pieces ∧
      (bodilessStatus m.status = true → m2.headers.get? sTE = m1.headers.get? sTE) ∧
      (∀ v, m2.headers.get? sCE = some v → m2.coded = true ∧ (bodilessStatus m.status = false → m2.headers.get? sTE = some schunked)) := by
    split at h2
    · rename_i v hv
      by_cases hb : bodilessStatus m.status = true
      · simp only [hb, Bool.not_true, Bool.false_eq_true, if_false] at h2
        injection h2 with h2; subst h2
        exact ⟨rfl, rfl, rfl, fun _ => rfl, fun _ _ => ⟨rfl, fun hb' => by rw [hb] at hb'; cases hb'⟩⟩
      · simp only [hb, Bool.not_false, if_true] at h2
        have s2 := setChunked_spec _ m2 true h2
        exact ⟨s2.2.2.2.1, s2.2.2.2.2.1, s2.2.1, fun hb' => absurd hb' hb,
          fun _ _ => ⟨s2.2.2.1, fun _ => (s2.2.2.2.2.2.2.2.2.1 rfl).1⟩⟩
    · rename_i hv
      injection h2 with h2; subst h2
      exact ⟨rfl, rfl, rfl, fun _ => rfl, fun v hv' => by rw [hv] at hv'; cases hv'⟩
  refine ⟨by rw [s3.2.2.2.1, p2.1, p1.1], by rw [s3.2.2.2.2.1, p2.2.1, p1.2.1], hc3', s3.1,
    fun hc => (s3.2.2.2.2.2.2.2.2.1 hc).2, ?_, ?_⟩
  · intro hb
    refine ⟨by rw [s3.2.1, p2.2.2.1]; exact (p1.2.2 hb).1, ?_⟩
    cases hc : c2 with
    | false => rfl
    | true =>
      exfalso
      have := (isChunked_true _).mp (hc ▸ hc2)
      rw [p2.2.2.2.1 hb] at this
      rcases (p1.2.2 hb).2 with t | t <;> rw [t] at this <;> simp at this
      exact absurd this (by decide +kernel)
  · intro v hv
    rw [s3.2.2.2.2.2.2.2.1] at hv
    obtain ⟨hco, hte⟩ := p2.2.2.2.2 v hv
    refine ⟨by rw [s3.2.2.1]; exact hco, fun hb => ?_⟩
    have := (isChunked_true _).mpr (hte hb)
    rw [this] at hc2
    injection hc2 with hc2; exact hc2.symm

/-- **a second `prepare()` of a response changes nothing** (not for responses to HEAD: finding F46) -/
theorem prepareResponse_idem (m m' : CMsg) (h : prepareResponse m = .ok m') (hh : m.reqHead = false) :
    prepareResponse m' = .ok m' := by
  obtain ⟨m3, c2, mid, rfl⟩ := prepareResponse_mid m m' h
  have hh3 : m3.reqHead = false := by rw [mid.head]; exact hh
  have hte : c2 = true → m3.headers.get? sTE = some schunked := fun hc => (isChunked_true _).mp (hc ▸ mid.chunked)
  have hnte : c2 = false → (m3.headers.get? sTE = none ∨ m3.headers.get? sTE = some []) :=
    fun hc => (isChunked_false _).mp (hc ▸ mid.chunked)
  by_cases hc : c2 = true
  · -- chunked: the last stage changed nothing
    subst hc
    have hnb : bodilessStatus m.status = false := by
      cases hb : bodilessStatus m.status with
      | false => rfl
      | true => have := (mid.bodiless hb).2; cases this
    have h304 : (m3.status == 304) = false := by
      rw [mid.status]
      cases h3 : (m.status == 304) with
      | false => rfl
      | true =>
        have : m.status = 304 := by simpa using h3
        rw [this] at hnb; revert hnb; decide
    have hfin : responseFinish m3 true = m3 := by
      unfold responseFinish
      simp [h304, hh3]
    rw [hfin]
    have hset : setChunked m3 true = .ok m3 := setChunked_fix m3 true mid.bodyChunked (fun _ => ⟨hte rfl, mid.nocl rfl⟩) (fun h => by cases h)
    have st1 : respStage1 m3 = .ok m3 := by
      unfold respStage1; rw [mid.status, hnb]; rfl
    have st2 : respStage2 (bodilessStatus m3.status) m3 = .ok m3 := by
      unfold respStage2
      cases hce : m3.headers.get? sCE with
      | none => rfl
      | some v =>
        have hco := (mid.coded v hce).1
        have e : ({ m3 with coded := true } : CMsg) = m3 := by cases m3; simp_all
        have hb3 : bodilessStatus m3.status = false := by rw [mid.status]; exact hnb
        simp only [hb3, Bool.not_false, if_true, e, hset]
    unfold prepareResponse
    simp only [bind, Except.bind, st1, st2, mid.chunked, hset, hfin]
  · have hc' : c2 = false := by cases c2 <;> simp_all
    subst hc'
    have hset : setChunked m3 false = .ok m3 := setChunked_fix m3 false mid.bodyChunked (fun h => by cases h) (fun _ => hnte rfl)
    have hb3eq : bodilessStatus m3.status = bodilessStatus m.status := by rw [mid.status]
    -- the result of the last stage, explicitly
    obtain ⟨H, hH, hHte, hHcl, hHce⟩ : ∃ H : Coll, responseFinish m3 false = { m3 with headers := H } ∧
        H.get? sTE = m3.headers.get? sTE ∧
        (if (m3.status == 304) = true then H.get? sCL = none ∧ H.get? sCE = none
          else H.get? sCL = some (natToDec (bodyLen m3)) ∧ H.get? sCE = m3.headers.get? sCE) ∧
        (if (m3.status == 304) = true then H = ((m3.headers.put sCL (natToDec (bodyLen m3))).del sCL).del sCE
          else H = m3.headers.put sCL (natToDec (bodyLen m3))) := by
      by_cases h3 : (m3.status == 304) = true
      · refine ⟨((m3.headers.put sCL (natToDec (bodyLen m3))).del sCL).del sCE, ?_, ?_, ?_, ?_⟩
        · unfold responseFinish; simp [h3, hh3]
        · simp
        · simp only [h3, if_true]
          refine ⟨by simp, by simp⟩
        · simp only [h3, if_true]
      · refine ⟨m3.headers.put sCL (natToDec (bodyLen m3)), ?_, ?_, ?_, ?_⟩
        · unfold responseFinish; simp [h3, hh3]
        · simp
        · simp only [h3]; simp
        · simp only [h3]; simp
    rw [hH]
    -- abbreviations
    have hset' : setChunked { m3 with headers := H } false = .ok { m3 with headers := H } :=
      setChunked_fix _ false mid.bodyChunked (fun h => by cases h) (fun _ => by simpa [hHte] using hnte rfl)
    have hch' : isChunked ({ m3 with headers := H } : CMsg).headers = .ok false :=
      (isChunked_false _).mpr (by simpa [hHte] using hnte rfl)
    have st1 : respStage1 { m3 with headers := H } = .ok { m3 with headers := H } := by
      unfold respStage1
      by_cases hb : bodilessStatus m.status = true
      · have hp := (mid.bodiless hb).1
        have e : ({ ({ m3 with headers := H } : CMsg) with pieces := [] } : CMsg) = { m3 with headers := H } := by
          cases m3; simp_all
        simp only [hb3eq, hb, if_true, e, hset']
      · simp only [hb3eq, hb, Bool.false_eq_true, if_false]
    have st2 : respStage2 (bodilessStatus ({ m3 with headers := H } : CMsg).status) { m3 with headers := H } = .ok { m3 with headers := H } := by
      unfold respStage2
      cases hce : ({ m3 with headers := H } : CMsg).headers.get? sCE with
      | none => rfl
      | some v =>
        have hce' : H.get? sCE = some v := hce
        by_cases h3 : (m3.status == 304) = true
        · simp only [h3, if_true] at hHcl
          rw [hHcl.2] at hce'; cases hce'
        · simp only [h3] at hHcl
          rw [hHcl.2] at hce'
          obtain ⟨hco, hcc⟩ := mid.coded v hce'
          have hb : bodilessStatus m.status = true := by
            cases hb : bodilessStatus m.status with
            | true => rfl
            | false => have := hcc hb; cases this
          have e : ({ ({ m3 with headers := H } : CMsg) with coded := true } : CMsg) = { m3 with headers := H } := by
            cases m3; simp_all
          have hb3 : bodilessStatus m3.status = true := by rw [hb3eq]; exact hb
          simp only [hb3, Bool.not_true, Bool.false_eq_true, if_false, e]
    have hfin : responseFinish { m3 with headers := H } false = { m3 with headers := H } := by
      unfold responseFinish
      have hbl : bodyLen ({ m3 with headers := H } : CMsg) = bodyLen m3 := rfl
      by_cases h3 : (m3.status == 304) = true
      · simp only [h3, if_true] at hHcl hHce
        have e1 : ((H.put sCL (natToDec (bodyLen m3))).del sCL).del sCE = H := by
          rw [del_put_same, del_of_get_none H sCL hHcl.1, del_of_get_none H sCE hHcl.2]
        simp [h3, hh3]
        exact e1
      · simp only [h3] at hHcl hHce
        simp only [Bool.false_eq_true, if_false] at hHcl hHce
        have e1 : H.put sCL (natToDec (bodyLen m3)) = H := put_of_get H sCL _ hHcl.1
        simp [h3, hh3]
        exact e1
    unfold prepareResponse
    simp only [bind, Except.bind, st1, st2, hch', hset', hfin]

/-! ### the theorems of the property -/

/-- **never both**: chunked in the header fields excludes Content-Length -/
theorem framing_exclusive (m m' : CMsg) (h : prepare m = .ok m') (hcoded : m.coded = false) :
    m'.headers.get? sTE = some schunked → m'.headers.get? sCL = none := by
  unfold prepare at h
  split at h
  · exact (prepareResponse_spec m m' h hcoded).excl
  · exact (prepareRequest_spec m m' h).1.chunked_nocl

theorem content_length (pieces : List Bytes) : (wire none false [] pieces).length = (content pieces).length := by
  rw [wire_plain]

/-- **Content-Length tells the truth** (other than on a response to HEAD, which carries the length the
    GET response would have): it is the decimal number of octets after the header section, and those octets
    are not chunk-framed -/
theorem length_truthful (z : Zip) (m m' : CMsg) (h : prepare m = .ok m') (hcoded : m.coded = false)
    (hhead : ¬ (m.isResponse = true ∧ m.reqHead = true)) (v : Bytes) (hv : m'.headers.get? sCL = some v) :
    v = natToDec (bodyWire z m').length ∧ m'.bodyChunked = false := by
  unfold prepare at h
  split at h
  · rename_i hr
    have sp := prepareResponse_spec m m' h hcoded
    have hh : m.reqHead = false := by
      cases hq : m.reqHead with
      | false => rfl
      | true => exact absurd ⟨hr, hq⟩ hhead
    obtain ⟨hv1, hv2⟩ := sp.len hh v hv
    refine ⟨?_, hv2⟩
    rw [hv1]
    unfold bodyWire
    rw [hv2]
    by_cases hco : m'.coded = true
    · have hp := sp.coded_chunked hco hv2
      simp [hco, hp, bodyLen, wire, content]
    · simp only [hco, Bool.false_eq_true, if_false]
      rw [wire_plain]; rfl
  · have sp := prepareRequest_spec m m' h
    have hnte : m'.headers.get? sTE ≠ some schunked := by
      intro hte
      have := sp.1.chunked_nocl hte
      rw [this] at hv; cases hv
    obtain ⟨hb, hcl⟩ := sp.2.2.2.2 hnte
    refine ⟨?_, hb⟩
    rw [hcl] at hv
    split at hv
    · injection hv with hv
      rw [← hv]
      unfold bodyWire
      rw [hb, sp.2.1, hcoded]
      simp only [Bool.false_eq_true, if_false]
      rw [wire_plain]; rfl
    · cases hv

/-- **chunked framing is the RFC 7230 chunk writer** applied to the content (or to the one coded stream) -/
theorem chunked_wellformed (z : Zip) (m' : CMsg) (hc : m'.bodyChunked = true) :
    bodyWire z m' = chunkFrame (if m'.coded then (if (content m'.pieces).isEmpty then [] else [z.enc (content m'.pieces)])
      else m'.pieces.filter (fun p => !p.isEmpty)) [] := by
  unfold bodyWire wire
  cases hco : m'.coded <;> simp [hc]

/-- …which the library's reader inverts (C02 / C14): for an uncoded body the reader returns the content -/
theorem chunked_reads_back (E : Parser.Env) (z : Zip) (m' : CMsg) (hc : m'.bodyChunked = true) (hco : m'.coded = false)
    (rest : Bytes) (c : Parser.Cur) (ht : c.trailer = false) (hlf : c.lf = false) :
    Parser.parseChunked E ((chunksOf m'.pieces).length + 1) c (bodyWire z m' ++ rest) =
      .ok (.done { Parser.addPart c (content m'.pieces) with trailer := true } rest) := by
  have : bodyWire z m' = chunkFrame m'.pieces [] := by
    rw [chunked_wellformed z m' hc]
    simp only [hco, Bool.false_eq_true, if_false]
    unfold chunkFrame
    simp [List.filter_filter]
  rw [this]
  exact dechunk_chunkFrame E m'.pieces rest c ht hlf

/-- **no body octets** after 1xx / 204 / 205 / 304 and after a response to HEAD -/
theorem bodiless_no_octets (z : Zip) (m m' : CMsg) (h : prepare m = .ok m') (hr : m.isResponse = true) (hcoded : m.coded = false)
    (hb : bodilessStatus m.status = true ∨ m.reqHead = true) : bodyWire z m' = [] := by
  unfold prepare at h
  simp only [hr, if_true] at h
  have sp := prepareResponse_spec m m' h hcoded
  obtain ⟨hp, hc⟩ := sp.nobody hb
  unfold bodyWire wire
  cases hco : m'.coded <;> simp [hp, hc, content]

end Httoop.Compose
