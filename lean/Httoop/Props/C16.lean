import Httoop.Model.BasicAuth
import Httoop.Proofs.Bytes
/-
  C16 — Basic credentials round-trip for every user name and password.

  Proved, for all octet strings (any length, any octets): base64 decode∘encode is the identity
  (`a2b_b64`), the composed field is `Basic`, one space and unbroken base64 with no CR/LF/SP
  (`compose_single_line`), and parsing the composed field gives back exactly (user, password) whenever
  the user name has no colon (`basic_roundtrip`) — colons in the password, empty, long and 8-bit
  values included.  The model is the code after the two `fix:` commits (F3, F4); the witnesses show
  that the un-repaired variants fail.
-/
namespace Httoop.Base64
open Httoop

theorem decChar_encChar (n : Nat) (h : n < 64) : decChar (encChar n) = some n := by
  have : ∀ k : Fin 64, decChar (encChar k.val) = some k.val := by decide +kernel
  exact this ⟨n, h⟩

theorem encChar_props (n : Nat) (h : n < 64) :
    encChar n ≠ pad ∧ encChar n ≠ 0x0A ∧ encChar n ≠ 0x0D ∧ encChar n ≠ 0x20 ∧ isPySpace (encChar n) = false := by
  have : ∀ k : Fin 64, encChar k.val ≠ pad ∧ encChar k.val ≠ 0x0A ∧ encChar k.val ≠ 0x0D ∧ encChar k.val ≠ 0x20
      ∧ isPySpace (encChar k.val) = false := by decide +kernel
  exact this ⟨n, h⟩

theorem ofNat_toNat_eq (a : Byte) (n : Nat) (h : n = a.toNat) : UInt8.ofNat (n % 256) = a := by
  subst h
  have := a.toNat_lt
  simp [Nat.mod_eq_of_lt this]

/-- one data character in state `quad = 0,1,2,3` -/
theorem loop_data (n : Nat) (h : n < 64) (rest : Bytes) (st : DSt) (out : Bytes) :
    a2bLoop (encChar n :: rest) st out =
      match st.quad with
      | 0 => a2bLoop rest { quad := 1, left := n, pads := 0 } out
      | 1 => a2bLoop rest { quad := 2, left := n % 16, pads := 0 } (UInt8.ofNat ((st.left * 4 + n / 16) % 256) :: out)
      | 2 => a2bLoop rest { quad := 3, left := n % 4, pads := 0 } (UInt8.ofNat ((st.left * 16 + n / 4) % 256) :: out)
      | _ => a2bLoop rest { quad := 0, left := 0, pads := 0 } (UInt8.ofNat ((st.left * 64 + n) % 256) :: out) := by
  have hp : (encChar n == pad) = false := by simpa using (encChar_props n h).1
  rw [a2bLoop]
  simp only [hp, Bool.false_eq_true, if_false, decChar_encChar n h]
  rfl

/-- two, three and four data characters from the initial state -/
theorem loop_two (n1 n2 : Nat) (h1 : n1 < 64) (h2 : n2 < 64) (rest out : Bytes) :
    a2bLoop (encChar n1 :: encChar n2 :: rest) {} out =
      a2bLoop rest { quad := 2, left := n2 % 16, pads := 0 } (UInt8.ofNat ((n1 * 4 + n2 / 16) % 256) :: out) := by
  rw [loop_data _ h1, loop_data _ h2]
  rfl

theorem loop_three (n1 n2 n3 : Nat) (h1 : n1 < 64) (h2 : n2 < 64) (h3 : n3 < 64) (rest out : Bytes) :
    a2bLoop (encChar n1 :: encChar n2 :: encChar n3 :: rest) {} out =
      a2bLoop rest { quad := 3, left := n3 % 4, pads := 0 }
        (UInt8.ofNat ((n2 % 16 * 16 + n3 / 4) % 256) :: UInt8.ofNat ((n1 * 4 + n2 / 16) % 256) :: out) := by
  rw [loop_two _ _ h1 h2, loop_data _ h3]
  rfl

theorem loop_four (n1 n2 n3 n4 : Nat) (h1 : n1 < 64) (h2 : n2 < 64) (h3 : n3 < 64) (h4 : n4 < 64) (rest out : Bytes) :
    a2bLoop (encChar n1 :: encChar n2 :: encChar n3 :: encChar n4 :: rest) {} out =
      a2bLoop rest {}
        (UInt8.ofNat ((n3 % 4 * 64 + n4) % 256) :: UInt8.ofNat ((n2 % 16 * 16 + n3 / 4) % 256) ::
          UInt8.ofNat ((n1 * 4 + n2 / 16) % 256) :: out) := by
  rw [loop_three _ _ _ h1 h2 h3, loop_data _ h4]
  rfl

/-- **base64 round trip**: decoding the encoding of any octet string returns it -/
theorem a2bLoop_b64 (xs : Bytes) (out : Bytes) :
    a2bLoop (b64 xs) {} out = .ok (out.reverse ++ xs) := by
  induction xs using b64.induct generalizing out with
  | case1 a b c rest ih =>
    have ha := a.toNat_lt; have hb := b.toNat_lt; have hc := c.toNat_lt
    rw [b64, loop_four _ _ _ _ (by omega) (by omega) (by omega) (by omega)]
    have e1 : UInt8.ofNat ((a.toNat / 4 * 4 + (a.toNat % 4 * 16 + b.toNat / 16) / 16) % 256) = a :=
      ofNat_toNat_eq a _ (by omega)
    have e2 : UInt8.ofNat (((a.toNat % 4 * 16 + b.toNat / 16) % 16 * 16 + (b.toNat % 16 * 4 + c.toNat / 64) / 4) % 256) = b :=
      ofNat_toNat_eq b _ (by omega)
    have e3 : UInt8.ofNat (((b.toNat % 16 * 4 + c.toNat / 64) % 4 * 64 + c.toNat % 64) % 256) = c :=
      ofNat_toNat_eq c _ (by omega)
    rw [e1, e2, e3, ih]
    simp
  | case2 a b =>
    have ha := a.toNat_lt; have hb := b.toNat_lt
    rw [b64, loop_three _ _ _ (by omega) (by omega) (by omega)]
    have e1 : UInt8.ofNat ((a.toNat / 4 * 4 + (a.toNat % 4 * 16 + b.toNat / 16) / 16) % 256) = a :=
      ofNat_toNat_eq a _ (by omega)
    have e2 : UInt8.ofNat (((a.toNat % 4 * 16 + b.toNat / 16) % 16 * 16 + (b.toNat % 16 * 4) / 4) % 256) = b :=
      ofNat_toNat_eq b _ (by omega)
    rw [e1, e2]
    simp [a2bLoop, pad]
  | case3 a =>
    have ha := a.toNat_lt
    rw [b64, loop_two _ _ (by omega) (by omega)]
    have e1 : UInt8.ofNat ((a.toNat / 4 * 4 + (a.toNat % 4 * 16) / 16) % 256) = a :=
      ofNat_toNat_eq a _ (by omega)
    rw [e1]
    simp [a2bLoop, pad]
  | case4 => simp [b64, a2bLoop]

theorem a2b_b64 (xs : Bytes) : a2b (b64 xs) = .ok xs := by
  simpa [a2b] using a2bLoop_b64 xs []

/-- every character of the encoding is an alphabet character or `=` : no CR, LF, SP, no Python whitespace -/
theorem b64_chars (xs : Bytes) : ∀ c ∈ b64 xs, c ≠ 0x0A ∧ c ≠ 0x0D ∧ c ≠ 0x20 ∧ isPySpace c = false := by
  induction xs using b64.induct with
  | case1 a b c rest ih =>
    have ha := a.toNat_lt; have hb := b.toNat_lt; have hc := c.toNat_lt
    intro x hx
    rw [b64] at hx
    simp only [List.mem_cons] at hx
    rcases hx with h | h | h | h | h
    · subst h; have := encChar_props (a.toNat / 4) (by omega); exact ⟨this.2.1, this.2.2.1, this.2.2.2.1, this.2.2.2.2⟩
    · subst h; have := encChar_props (a.toNat % 4 * 16 + b.toNat / 16) (by omega); exact ⟨this.2.1, this.2.2.1, this.2.2.2.1, this.2.2.2.2⟩
    · subst h; have := encChar_props (b.toNat % 16 * 4 + c.toNat / 64) (by omega); exact ⟨this.2.1, this.2.2.1, this.2.2.2.1, this.2.2.2.2⟩
    · subst h; have := encChar_props (c.toNat % 64) (by omega); exact ⟨this.2.1, this.2.2.1, this.2.2.2.1, this.2.2.2.2⟩
    · exact ih x h
  | case2 a b =>
    have ha := a.toNat_lt; have hb := b.toNat_lt
    intro x hx
    rw [b64] at hx
    simp only [List.mem_cons, List.not_mem_nil, or_false] at hx
    rcases hx with h | h | h | h
    · subst h; have := encChar_props (a.toNat / 4) (by omega); exact ⟨this.2.1, this.2.2.1, this.2.2.2.1, this.2.2.2.2⟩
    · subst h; have := encChar_props (a.toNat % 4 * 16 + b.toNat / 16) (by omega); exact ⟨this.2.1, this.2.2.1, this.2.2.2.1, this.2.2.2.2⟩
    · subst h; have := encChar_props (b.toNat % 16 * 4) (by omega); exact ⟨this.2.1, this.2.2.1, this.2.2.2.1, this.2.2.2.2⟩
    · subst h; decide
  | case3 a =>
    have ha := a.toNat_lt
    intro x hx
    rw [b64] at hx
    simp only [List.mem_cons, List.not_mem_nil, or_false] at hx
    rcases hx with h | h | h | h
    · subst h; have := encChar_props (a.toNat / 4) (by omega); exact ⟨this.2.1, this.2.2.1, this.2.2.2.1, this.2.2.2.2⟩
    · subst h; have := encChar_props (a.toNat % 4 * 16) (by omega); exact ⟨this.2.1, this.2.2.1, this.2.2.2.1, this.2.2.2.2⟩
    · subst h; decide
    · subst h; decide
  | case4 => intro x hx; simp [b64] at hx

/-- three-octet groups encode independently -/
theorem b64_append3 (k : Nat) (xs ys : Bytes) (h : xs.length = 3 * k) : b64 (xs ++ ys) = b64 xs ++ b64 ys := by
  induction k generalizing xs with
  | zero => have : xs = [] := by simpa using h
            subst this; simp [b64]
  | succ k ih =>
    match xs, h with
    | a :: b :: c :: rest, h =>
      have hr : rest.length = 3 * k := by simp at h; omega
      simp only [List.cons_append, b64, ih rest hr]

/-- removing the line feeds of `encodebytes` leaves plain base64 -/
theorem encodebytes_filter (fuel : Nat) (xs : Bytes) (h : xs.length ≤ fuel) :
    (encodebytesF fuel xs).filter (· != 0x0A) = b64 xs := by
  induction fuel generalizing xs with
  | zero => have : xs = [] := by simpa using h
            subst this; simp [encodebytesF, b64]
  | succ fuel ih =>
    rw [encodebytesF]
    by_cases he : xs.isEmpty = true
    · have : xs = [] := by simpa using he
      subst this; simp [b64]
    · have hne : xs ≠ [] := by simpa using he
      simp only [he, Bool.false_eq_true, if_false, List.filter_append, List.filter_cons]
      have hf : (b64 (xs.take 57)).filter (· != 0x0A) = b64 (xs.take 57) := by
        apply List.filter_eq_self.mpr
        intro c hc
        simpa using (b64_chars _ c hc).1
      have hd : (xs.drop 57).length ≤ fuel := by
        have : 0 < xs.length := List.length_pos_iff.mpr hne
        simp; omega
      rw [hf, ih _ hd]
      simp only [bne_self_eq_false, Bool.false_eq_true, if_false]
      by_cases hl : xs.length ≤ 57
      · rw [List.drop_of_length_le hl, List.take_of_length_le hl]; simp [b64]
      · have ht : (xs.take 57).length = 3 * 19 := by simp; omega
        rw [← b64_append3 19 _ _ ht, List.take_append_drop]

end Httoop.Base64

namespace Httoop.BasicAuth
open Httoop Httoop.Base64

theorem composeInfo_eq (u p : Bytes) : composeInfo u p = b64 (u ++ 0x3A :: p) := by
  unfold composeInfo encodebytes
  exact encodebytes_filter _ _ (Nat.le_refl _)

theorem strip_noop (p : Byte → Bool) (x : Bytes) (h : ∀ b ∈ x, p b = false) : strip p x = x := by
  have hd : ∀ l : Bytes, (∀ b ∈ l, p b = false) → l.dropWhile p = l := by
    intro l hl
    cases l with
    | nil => rfl
    | cons a l => simp [List.dropWhile, hl a (by simp)]
  unfold strip rstrip lstrip
  rw [hd x h, hd x.reverse (fun b hb => h b (List.mem_reverse.mp hb)), List.reverse_reverse]

/-- **"a single line: the scheme, one space and unbroken base64"** -/
theorem compose_single_line (u p : Bytes) :
    ∃ s, compose u p = sBasic ++ 0x20 :: s ∧ ∀ c ∈ s, c ≠ 0x0A ∧ c ≠ 0x0D ∧ c ≠ 0x20 :=
  ⟨composeInfo u p, rfl, fun c hc => by
    rw [composeInfo_eq] at hc
    have := b64_chars _ c hc
    exact ⟨this.1, this.2.1, this.2.2.1⟩⟩

/-- **Basic credentials round trip** for every user name without a colon and every password -/
theorem basic_roundtrip (u p : Bytes) (hu : ∀ b ∈ u, b ≠ 0x3A) : parse (compose u p) = .ok (u, p) := by
  have hsplit : splitOnce [0x20] (compose u p) = some (sBasic, composeInfo u p) := by
    unfold compose
    rw [splitOnce1_append _ _ _ (by decide)]
  unfold parse
  rw [hsplit]
  have hl : (List.map toLower sBasic == sbasic) = true := by decide
  simp only [hl, if_true]
  unfold parseInfo
  rw [composeInfo_eq, strip_noop _ _ (fun b hb => (b64_chars _ b hb).2.2.2), a2b_b64]
  simp only []
  rw [splitOnce1_append _ _ _ hu]

/-- finding F3 (repaired): splitting at *every* colon cannot give back a password with a colon -/
theorem c16_colon_witness : (splitOn1 0x3A [0x75, 0x3A, 0x70, 0x61, 0x3A, 0x73, 0x73]).length ≠ 2 := by decide
/-- finding F4 (repaired): `encodebytes(...).strip()` keeps an inner LF for 58 or more octets -/
theorem c16_wrap_witness : (strip isPySpace (encodebytes (List.replicate 58 0x61))).contains 0x0A = true := by
  decide +kernel

/-- non-vacuity / a colon in the password, an empty password, 8-bit octets -/
example : parse (compose [0x41, 0xFF] [0x3A, 0x3A, 0x00]) = .ok ([0x41, 0xFF], [0x3A, 0x3A, 0x00]) := by
  decide +kernel

end Httoop.BasicAuth
